#!/bin/sh
# usage: tools/confirm_seed.sh <worktree> <seed-name>
# Confirms a seeded defect produced in a scratch worktree: (1) builds, (2) the 42 baseline tests pass with the
# change, (3) the demonstration fails with the change and (4) passes without it.  Then stores it under seeded/.
set -u
WT=$1; NAME=$2
export CARGO_TARGET_DIR=$WT/target CARGO_NET_OFFLINE=true
cd "$WT" || exit 2
git diff -- src > /tmp/confirm_$NAME.diff
[ -s /tmp/confirm_$NAME.diff ] || { echo "no src change"; exit 2; }
mv tests/seeded_demo.rs /tmp/confirm_${NAME}_demo.rs
BASE=$(cargo test --workspace --no-fail-fast --offline 2>&1 | grep "^test result" | awk '{p+=$4; f+=$6} END {print p" passed "f" failed"}')
cp /tmp/confirm_${NAME}_demo.rs tests/seeded_demo.rs
WITH=$(cargo test --offline --test seeded_demo 2>&1 | grep "^test result" | awk '{p+=$4; f+=$6} END {print p" passed "f" failed"}')
git checkout -q -- src
WITHOUT=$(cargo test --offline --test seeded_demo 2>&1 | grep "^test result" | awk '{p+=$4; f+=$6} END {print p" passed "f" failed"}')
git apply /tmp/confirm_$NAME.diff
echo "baseline-with-change: $BASE | demo with change: $WITH | demo without: $WITHOUT"
D=/verif/seeded/$NAME
mkdir -p $D
cp /tmp/confirm_$NAME.diff $D/patch.diff
cp tests/seeded_demo.rs $D/demo.rs
python3 - "$WT/seeded_meta.json" "$D/meta.json" "$BASE" "$WITH" "$WITHOUT" <<'PY'
import json,sys
src,dst,base,w,wo=sys.argv[1:6]
try: m=json.load(open(src))
except Exception as e: m={"error":str(e)}
m["confirmed"]={"baseline_tests_with_change":base,"demo_with_change":w,"demo_without_change":wo,
  "how":"tools/confirm_seed.sh: cargo test --workspace (demo moved aside), cargo test --test seeded_demo with and without the src change, in the scratch worktree"}
json.dump(m,open(dst,"w"),indent=1)
PY
