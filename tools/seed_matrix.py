#!/usr/bin/env python3
"""Runs every seeded change under /verif/seeded against the quick check of the property it breaks:
apply the patch to /repo, run ./vcheck <prop>, revert.  Writes seeded/RESULTS.json and prints a table.
usage: tools/seed_matrix.py [seed-name ...]"""
import json, os, subprocess, sys, time
V = os.path.dirname(os.path.dirname(os.path.abspath(__file__)))
names = sys.argv[1:] or sorted(os.listdir(os.path.join(V, "seeded")))
names = [n for n in names if os.path.isdir(os.path.join(V, "seeded", n))]
res_path = os.path.join(V, "seeded", "RESULTS.json")
results = json.load(open(res_path)) if os.path.exists(res_path) else {}
for n in names:
    d = os.path.join(V, "seeded", n)
    prop = json.load(open(os.path.join(d, "meta.json"))).get("property") or n.split("-")[0]
    if subprocess.run(["git", "-C", "/repo", "status", "--porcelain", "--untracked-files=no"], capture_output=True, text=True).stdout.strip():
        print("refusing: /repo has uncommitted changes"); sys.exit(2)
    if subprocess.run(["git", "-C", "/repo", "apply", os.path.join(d, "patch.diff")]).returncode != 0:
        results[n] = {"property": prop, "error": "patch does not apply"}; print(n, "PATCH DOES NOT APPLY"); continue
    t0 = time.time()
    evp = os.path.join(V, "evidence", prop + ".json")
    keep = open(evp).read() if os.path.exists(evp) else None     # evidence must only ever describe the unchanged tree
    try:
        p = subprocess.run([os.path.join(V, "vcheck"), prop, "--tier", "quick"], cwd=V, capture_output=True, text=True, timeout=3000)
        out, rc = p.stdout, p.returncode
    finally:
        subprocess.run(["git", "-C", "/repo", "checkout", "--", "."])
        subprocess.run([sys.executable, os.path.join(V, "tools", "extract.py")], capture_output=True)   # coq/gen back to the unchanged tree
        if keep is not None:
            open(evp, "w").write(keep)
    viol = [l for l in out.splitlines() if l.startswith("VIOLATION")]
    found = [l for l in viol if not l.endswith("no-failing-input-found")]
    keys = []
    for l in found[:3]:
        try:
            rp = json.load(open(l.split("replay=")[1].split()[0]))
            keys.append((rp.get("observed") or "")[:160])
        except Exception:
            pass
    results[n] = {"property": prop, "rc": rc, "violation_lines": len(viol), "with_failing_input": len(found),
                  "first_observations": keys, "wall_s": round(time.time() - t0, 1)}
    print("%-7s %s rc=%d violations=%d with-failing-input=%d  %.0fs" % (n, prop, rc, len(viol), len(found), time.time() - t0))
    sys.stdout.flush()
    json.dump(results, open(res_path, "w"), indent=1, sort_keys=True)
