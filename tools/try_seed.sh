#!/bin/sh
# usage: tools/try_seed.sh <seed-name> <property> [tier]   -- applies the seeded patch to /repo, runs the check, reverts
NAME=$1; PROP=$2; TIER=${3:-quick}
cd /verif
git -C /repo apply /verif/seeded/$NAME/patch.diff || { echo "patch does not apply"; exit 2; }
cp /verif/evidence/$PROP.json /tmp/evidence_$PROP.keep 2>/dev/null   # evidence must only ever describe the unchanged tree
./vcheck $PROP --tier $TIER > /tmp/try_$NAME.out 2>&1; RC=$?
git -C /repo checkout -- .
python3 /verif/tools/extract.py > /dev/null   # bring coq/gen back to the unchanged tree
cp /tmp/evidence_$PROP.keep /verif/evidence/$PROP.json 2>/dev/null
echo "$NAME on $PROP: rc=$RC  $(grep -c '^VIOLATION' /tmp/try_$NAME.out) violation line(s)"
grep '^VIOLATION' /tmp/try_$NAME.out | head -3 | cut -c1-160
