#!/bin/sh
# usage: tools/allchecks.sh <seed> [tier]  -- runs every property's check on the current tree, prints rc and violation counts
SEED=${1:-20260929}; TIER=${2:-quick}
cd /verif
for i in 01 02 03 04 05 06 07 08 09 10 11 12 13 14 15 16 17 18 19 20; do
  VERIF_SEED=$SEED ./vcheck C$i --tier $TIER > /tmp/all_${SEED}_C$i.out 2>&1; rc=$?
  echo "seed=$SEED C$i rc=$rc violations=$(grep -c '^VIOLATION' /tmp/all_${SEED}_C$i.out) known=$(grep -c '^KNOWN-FINDING' /tmp/all_${SEED}_C$i.out)"
done
