#!/usr/bin/env python3
"""Writes MANIFEST.json from the table below (single source of truth for claims)."""
import json, os
HERE = os.path.dirname(os.path.dirname(os.path.abspath(__file__)))

TB = ("Coq 8.16.1 kernel incl. vm_compute (no native_compute); axioms: none declared here, only "
      "stdlib/Flocq ones named per theorem by Print Assumptions (audited against an allow-list on every run); "
      "tools/extract.py (constant finder; arithmetic re-checked in Coq); extraction (ExtrOcamlBasic, ExtrOCamlFloats, "
      "own float64.ml shim, Float.pow) and the Rust harness for the bit-exact correspondence; floating-point rounding is "
      "modelled (bit-exact replay), not verified, in the real-arithmetic theorems.")

CLAIMS = {
 "C02": dict(
    text="Order conditions of every rooted tree up to p (and failure at p+1), embedded-estimator orders and row sums are Coq theorems over the tableau regenerated from the Rust constants on every run; universally quantified over trees via a proved-complete enumeration.",
    technique="Coq proof: rational order-condition certificates (vm_compute + enumeration completeness) over constants translated from source",
    design="3/C02", partial=False),
 "C03": dict(
    text="Coq theorems (real-arithmetic semantics, any kernel/right-hand side/callback): accepted abscissae move strictly toward xend and never pass it, Success implies x = xend; tied to /repo by bit-exact replay of the extracted model over the configuration sweep, with the property's clauses (incl. evaluation times) checked on the implementation's call log.",
    technique="Coq proof of skeleton invariants over R + bit-exact model/implementation correspondence",
    design="3/C03", partial=True),
 "C11": dict(
    text="Coq theorems: step-budget count and bit-identical budget prefix (any number type), max_step bound with the 1% landing stretch (real semantics, any kernel); tied to /repo by bit-exact replay with random max_step/first_step/max_steps.",
    technique="Coq proof of skeleton invariants + bit-exact correspondence",
    design="3/C11", partial=True),
 "C12": dict(
    text="Coq theorems: the default handler is passive unless an event is terminal; two passive observers see literally the same solver trajectory (any number type, kernel, callbacks); tied to /repo by bit-exact replay of option-subset groups.",
    technique="Coq proof (relational invariant over the skeleton) + bit-exact correspondence",
    design="3/C12", partial=False),
 "C18": dict(
    text="Coq theorems for the four explicit solvers (any number type, right-hand side, callback): nfev equals the number of logged right-hand-side evaluations, naccpt <= nstep (RK4: =); tied to /repo by bit-exact replay comparing counters with recorded calls.",
    technique="Coq proof of counter invariants + bit-exact correspondence",
    design="3/C18", partial=True),
}

NA_REASON = "check not built yet in this revision (planned in DESIGN.md §5); not claimed until its theorem file and correspondence exist"
ALL = ["C%02d" % i for i in range(1, 21)]

def main():
    checks = []
    for pid in ALL:
        if pid not in CLAIMS:
            continue
        c = CLAIMS[pid]
        checks.append({
            "property_id": pid,
            "quick_cmd": "./vcheck %s --tier quick" % pid,
            "thorough_cmd": "./vcheck %s --tier thorough" % pid,
            "evidence_file": "/verif/evidence/%s.json" % pid,
            "replay_cmd_template": "./vcheck replay {path}",
            "engine": "coq-proof+correspondence",
            "level_claimed": {"category": "proof", "text": c["text"] + (" PARTIAL: see DESIGN.md." if c.get("partial") else ""), "design_ref": c["design"]},
            "level_note": TB,
            "technique": c["technique"],
        })
    man = {
        "version": 1,
        "setup_cmd": "./vcheck setup",
        "hooks": {
            "guard": "ivp_verif",
            "enable": "RUSTFLAGS=\"--cfg ivp_verif\" (set by vlib/harness.py when it builds /verif/harness against /repo)",
            "baseline_off_cmd": "cd /repo && cargo test --workspace --no-fail-fast --offline",
            "source_commits": [],
            "add_only": True,
        },
        "engines": [{
            "name": "coq-proof+correspondence", "path": "/verif/coq, /verif/harness, /verif/vlib",
            "serves_properties": sorted(CLAIMS),
            "kind_free_text": "Gallina model + Coq theorems; constants regenerated from source by tools/extract.py; hand-written model tied to /repo by bit-exact differential replay (OCaml-extracted model vs Rust harness)",
        }],
        "checks": checks,
        "not_applicable": [{"property_id": p, "reason": NA_REASON} for p in ALL if p not in CLAIMS],
        "notes": "See DESIGN.md. Driver: ./vcheck <id>. Known findings: known_findings.txt.",
    }
    with open(os.path.join(HERE, "MANIFEST.json"), "w") as fh:
        json.dump(man, fh, indent=1)
    print("MANIFEST.json: %d checks, %d not_applicable" % (len(checks), len(man["not_applicable"])))

if __name__ == "__main__":
    main()
