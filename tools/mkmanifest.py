#!/usr/bin/env python3
"""Writes MANIFEST.json from the table below (single source of truth for claims)."""
import json, os
HERE = os.path.dirname(os.path.dirname(os.path.abspath(__file__)))

TB = ("Coq 8.16.1 kernel incl. vm_compute (no native_compute); axioms: none declared here, only "
      "stdlib/Flocq ones named per theorem by Print Assumptions (audited against an allow-list on every run); "
      "tools/extract.py (constant finder; arithmetic re-checked in Coq); extraction (ExtrOcamlBasic, ExtrOCamlFloats, "
      "own float64.ml shim, Float.pow) and the Rust harness for the bit-exact correspondence; floating-point rounding is "
      "modelled (bit-exact replay), not verified, in the real-arithmetic theorems.")

def C(text, technique, design, partial=False):
    return dict(text=text, technique=technique, design=design, partial=partial)


TIE = " Tie to /repo: constants regenerated from the source each run; the extracted model is replayed against the implementation bit for bit on generated cases, and the property's clauses are checked on the implementation's results (failing-input search)."

CLAIMS = {
 "C01": C("Coq theorems on the DOPRI5, RK23 and DOP853 models (any number type, kernel, callback): the solution advances only through steps whose weighted error norm passed err <= 1; for DOPRI5 that norm is shown to be built from the user's atol/rtol. The global error bound itself is an analytic consequence and is only measured (closed-form families, tolerance sweeps)." + TIE,
          "Coq proof of the acceptance mechanism + bit-exact correspondence + accuracy experiment", "3/C01", True),
 "C02": C("Order conditions of every rooted tree up to p (and failure at p+1), embedded-estimator orders and row sums are Coq theorems over the tableaux regenerated from the Rust constants on every run, universally quantified over trees via a proved-complete enumeration: RK4 (4), RK23 (3, estimator 2->q=3), DOPRI5 (5, estimator 4->q=5), exact and as rounded to binary64; DOP853 (8; estimators of order 5 and 3; not 9) with the 30-digit decimals handled as scaled integers over the tableau's common denominator (every residual is M/D^|t| with |M| bounded by the certificate: <= gamma*1e-25, <= gamma*1e-13 for the binary64 values); Radau (5, not 6) for the effective matrix Aeff = T Lambda^-1 TI computed from the code's T, TI, U1, ALPH, BETA, whose stage equations on y'=lambda*y are proved (over the reals, every z with Q(z)<>0) to have the unique solution ynew = P(z)/Q(z) y with P, Q within 1e-15 of the (2,3) Pade approximant. That the code's Newton iteration has those stage equations as its fixed point is tied by the bit-exact replay and by single steps of the implementation compared with the Pade value (z down to -1e8), not by a theorem." + TIE,
          "Coq proof: rational / scaled-integer order-condition certificates (vm_compute + enumeration completeness) over constants translated from source; real-number proof of the stability function", "3/C02", True),
 "C03": C("Coq theorems (real-arithmetic semantics, any kernel / right-hand side / Jacobian / mass / callback): DOPRI5, DOP853, RK23, RK4 skeletons: accepted abscissae move strictly toward xend and never pass it, Success implies x = xend, x = xend implies Success or UserInterrupt; Radau and BDF (whole low-level solver): Success implies x = xend (Radau through the invariant that the `last` flag is cleared on every path that changes the step); BDF: every iteration and every run moves the abscissa in the direction of integration and never past xend; event-function evaluations during root refinement stay inside the step (C08). Not theorems: monotonicity / never-past-xend for Radau, the evaluation-time clause for the right-hand side, finiteness under Success -- replay + oracles over the configuration sweep (spans 1e-12.., first_step >= span, all six methods)." + TIE,
          "Coq proof of skeleton invariants over R + bit-exact correspondence", "3/C03", True),
 "C04": C("Coq theorems: on binary64 a NaN error norm fails every comparison and Rust's min/max drop NaN (Floats.FloatAxioms), rejections never enlarge the step (real semantics), a finite budget bounds the number of attempts. Float-level termination with an unlimited budget is not proved: watchdog runs on pathological problems (blow-up, discontinuous, NaN-/inf-returning right-hand sides; also combined with a min_step) plus the regression corpus." + TIE,
          "Coq proof of the termination mechanism + watchdog differential runs", "3/C04", True),
 "C05": C("Coq theorems: (any number type, any interpolant) the t_eval scan of an accepted step consumes exactly the pending requested times not beyond the step end and reports, in order, bit for bit and with the interpolant's value, those not before the step start; (reals, whole run) for any slack >= 0, any chain of accepted steps in either direction with any interpolants and any requested times sorted in the direction of integration inside the span, the initial callback plus the per-step scans report exactly the requested list -- same values, order, duplicates, nothing skipped or added -- with one state per time; the handler's `sample` is those scans; (any number type) the scan made when a terminal event stops the run consumes exactly the pending requested times not beyond the event time and reports, in order and with the interpolant's value, those not before the step start -- none beyond the event. Not theorems: the whole-run statement with a terminal event, independence of dense_output (replay), and number types with rounding." + TIE + " Grid-aware placements (inside, on a boundary, +-1 ulp, +-1e-12, +-1e-9).",
          "Coq proof of the sampling loop and of the whole-run invariant + bit-exact correspondence", "3/C05", True),
 "C06": C("Coq theorems over the reals, every dimension n, every h<>0 of either sign, every value of the stage derivatives: the DOPRI5, DOP853, RK4 and RK23 interpolants equal the old state at the left end and the new state at the right end of the step (RK23 via the exact rationals of the source constants), the Radau collocation polynomial (coefficient blocks built as in the accepted branch) equals the old state at the left end and y+Z3 at the right end; on a contiguous chain of segments sol(t) is evaluated for every t between the first and last covered time by a segment containing t, is OutOfRange outside and NotEnabled without dense output; the handler stores exactly the step's interpolant. Not proved: the BDF difference polynomial (history rescaling) -- replay + oracle only." + TIE,
          "Coq proof (interpolant endpoint identities, no-gap lookup) + bit-exact correspondence + dense-output oracles", "3/C06", True),
 "C07": C("Coq theorems for DOPRI5 (q=4), RK23 (q=3) and RK4's cubic Hermite (q=3), every dimension, h<>0 of either sign, every theta and stage values: (link, over the reals) the model's interpolant is the continuous Runge-Kutta formula y + h*sum_j b_j(theta) k_j with the weight polynomials assembled from the source constants; (order, exact rationals) those polynomials satisfy the continuous order conditions sum_j b_j(theta) Phi_j(t) = theta^|t|/gamma(t) for every rooted tree up to q, and DOPRI5's fail at order 5; the kernels produce attempts of the assumed shape. Uniform O(h^(q+1)) then follows by textbook theory (not formalised). Also: DOP853 (q=7), order part only: the 16-stage weight polynomials assembled from the source constants satisfy every continuous order condition up to order 7 (scaled integers, 1e-24) and fail at order 8; Radau: the dense output is the cubic through (0,y),(C1,y+Z1),(C2,y+Z2),(1,y+Z3), i.e. the collocation polynomial (order 3 by collocation theory). Not proved: the real-number link of DOP853's interpolate to its weight polynomials, BDF -- replay and slope experiment only." + TIE,
          "Coq proof (continuous order conditions over Qc + real-number link to the model's interpolant) + bit-exact correspondence + one-step slope experiment", "3/C07", True),
 "C08": C("Coq theorems: a reported event is a step endpoint with its stored state or (t_e, interpolant(t_e)); events of a step are a stable sort (permutation, ordered) of the detected ones; direction filter truth table (real semantics); every reported event time and every point at which the event function is evaluated during the refinement lies inside the accepted step, for any event function, converged or not (real semantics of the Brent variant). Not theorems: that the bracket keeps a sign change, convergence within 100 iterations." + TIE,
          "Coq proof (handler model) + bit-exact correspondence incl. every Brent iterate", "3/C08", True),
 "C09": C("Coq theorems: (any number type, event functions, interpolant, refinement outcome; no terminal event) in every accepted step exactly one event of function i is recorded when the direction-aware sign test fires on g_i at the two step ends and none otherwise, and the values remembered for the next step are the current ones; (real semantics) strictly opposite signs are always detected by All and by the matching one-sided filter only, equal strict signs never. Location of the event at the root of a single-root function is checked on grid-aware placements (replay + oracle)." + TIE,
          "Coq proof of the detection pass (count invariant) and of the detection predicate + bit-exact correspondence", "3/C09", True),
 "C10": C("Coq theorems (any number type, event functions, interpolants): a terminal event makes the newest sample the event point; the handler returns Interrupt iff a terminal event fired and never without a terminal configuration; until a callback answers Interrupt the handler computes exactly the same state under the configuration with all terminal flags cleared (prefix equality with the non-terminal run; the solver's steps coincide by C12); after an Interrupt no solver makes any further step, evaluation or callback (C19, all six solvers). Not a theorem: that events of the terminal step located before the terminal one are kept and later ones dropped in floating point ties -- replay + oracle (terminal placements, several functions in one step, counts 1..3)." + TIE,
          "Coq proof (handler model: terminal branch, prefix equality) + bit-exact correspondence", "3/C10", True),
 "C11": C("Coq theorems: step-budget count (nstep <= max_steps+1; NeedLargerNMax only when the budget is used up) and budget-independence of an iteration below the budget, i.e. bit-identical prefix (DOPRI5, DOP853, RK23, Radau, BDF; any number type, kernel, callback); max_step bound with the 1% landing stretch (DOPRI5, DOP853; RK23 without stretch; real semantics, any kernel); RK4 uses exactly the given step; BDF (real semantics, any right-hand side / Jacobian / callback / Newton outcome, min_step <= max_step): every iteration advances the abscissa by at most max_step. Not theorems: max_step for Radau, first_step for Radau and BDF, the automatic initial step." + TIE,
          "Coq proof of skeleton invariants (symbolic execution of each loop iteration) + bit-exact correspondence", "3/C11", True),
 "C12": C("Coq theorems: the default handler is passive unless an event is terminal; for ALL SIX solvers two passive observers (any callbacks that return Continue and leave the state alone) see literally the same solver run -- accepted steps, states, step sizes, flags, factorisations, statistics, evaluation logs, status (any number type, kernel / right-hand side / Jacobian / mass; RK23, RK4, Radau, BDF by erasure of the observer's data)." + TIE,
          "Coq proof (relational / erasure invariant over each solver loop) + bit-exact correspondence", "3/C12", False),
 "C13": C("Coq theorems: a scalar tolerance denotes the same per-component vector as the constant vector (all models read tolerances through it; any number type); (reals) the weighted RMS error norm of DOPRI5 and RK23 is unchanged by duplicating the system into m identical copies; the stage recurrence shared by all explicit methods mirrors under time reflection for any tableau -- mirrored evaluation times, identical state arguments, negated slopes -- and one DOPRI5 attempt of the reflected problem has the same new state, error vector and error norm. Not theorems: whole-run equivariance (step controller, handler), power-of-two scaling, the implicit methods, bit-identity in binary64 -- all decided by paired bit-exact runs (tolerance forms incl. mixed, reflection with events, scaling, copies)." + TIE,
          "Coq proof (tolerance representation, norm under duplication, reflection of the stage recurrence) + paired differential runs", "3/C13", True),
 "C14": C("Coq theorem (reals) about the Runge-Kutta matrix Radau effectively applies (Aeff = T Lambda^-1 TI from the regenerated constants): for every z = h*lambda <= 0 the stage equations of y'=lambda*y are uniquely solvable (Q(z) >= 1) and give ynew = R(z) y with |R(z)| <= 1, and |R(z)| <= 100/|z| + 1e-13 for |z| >= 1 -- decaying modes of any rate are damped for every step size; a fixed point of the transformed simplified Newton iteration (any real T, TI, eigenvalue data, h <> 0) satisfies the stage equations Z = h (T Lambda^-1 TI) G, and the matrix computed from the regenerated constants is that product. Not theorems: convergence of the simplified Newton iteration, BDF's stability, success/accuracy/step counts on nonlinear problems and invariants -- measured: Radau and BDF (incl. real and complex LU, Newton iterations) are replayed bit for bit on stiff linear/nonlinear problems with rates 1e2..1e10 (incl. an oscillatory forcing with kinks over several periods), single Radau steps are compared with the Pade value, and success, accuracy, step counts and invariants are checked on the implementation." + TIE,
          "Coq proof (stability function of the applied Radau matrix on the negative real axis) + bit-exact correspondence + stiff-problem oracles", "3/C14", True),
 "C15": C("Coq theorems: with no mass matrix the solvers read the identity whatever the mass storage; Full and Banded storage (and wider bands) holding the same entries denote the same matrix to the solvers." + TIE,
          "Coq proof (storage independence of the model's matrix reads) + bit-exact correspondence", "3/C15", True),
 "C16": C("Coq theorems over the reals, for every dimension n and every matrix: if lu_decomp succeeds then lin_solve returns x with A.x = b exactly (Hairer DEC/SOL with deferred row swaps, proved by induction over the elimination steps), every pivot is a column maximum so all stored multipliers have magnitude <= 1, success implies non-zero pivots, an exactly zero pivot column is rejected as singular, shape/pivot-length mismatches are rejected (any number type). Not proved: the floating-point backward-error bound (measured by the exact-rational residual oracle on the implementation); the complex twin is tied by replay and oracle only." + TIE,
          "Coq proof (exact-arithmetic LU/solve correctness, general n) + bit-exact correspondence + exact-rational residual oracle", "3/C16", True),
 "C17": C("Coq theorems for all sizes, bandwidths and indices: every constructor's entries are readable with the expected value (any number type), distinct in-band entries occupy distinct cells, off-band reads are zero, out-of-shape reads and illegal writes panic, a legal write changes exactly one entry; A+B and A-B for ALL NINE storage pairs (Full/Full, Banded/Banded with the widened band, Identity/Identity, and the six mixed pairs through the densifying fallback), component_add/sub/mul for every storage (implicit entries included) are the entrywise operations on the dense equivalents, and is_identity holds exactly when the dense equivalent is the identity (real instance). The by-value, assigning and by-reference operator variants are one model function each, tied to their separate Rust implementations by the replay." + TIE,
          "Coq proof (storage denotation of the Matrix model, all operators) + bit-exact operation-sequence correspondence", "3/C17", False),
 "C18": C("Coq theorems for all six solvers (any number type, right-hand side, Jacobian function, mass matrix, callback): nfev equals the number of logged right-hand-side evaluations (for BDF including the one made by the initial-step heuristic); for Radau and BDF njev equals the number of logged Jacobian evaluations (calls made inside a finite-difference Jacobian are not part of nfev); naccpt <= nstep for DOPRI5, DOP853 and RK23 (RK4: =), naccpt + nrejct <= nstep for Radau and BDF (whole low-level solver)." + TIE,
          "Coq proof of counter invariants (symbolic execution of each loop iteration) + bit-exact correspondence with a recording IVP", "3/C18", True),
 "C19": C("Coq theorems for all six low-level solvers (any number type, kernel / right-hand side / Jacobian / mass matrix, and ANY callback, wrapped in a recorder): the recorded calls are contiguous (each xold is exactly the previous x), the newest ends at the solver's final x, UserInterrupt iff the newest call returned Interrupt and no earlier call did (nothing runs after an Interrupt); for RK23, RK4, Radau and BDF stated for the whole solver started with an empty record, whose oldest call is (x0, x0, y0, no interpolant); DOPRI5 also: at most one call per loop iteration. Not theorems: the ModifiedSolution clauses (re-evaluation, no-op, linear doubling) and 'ends at xend on success' for Radau/BDF -- scripted-callback replays for all six solvers." + TIE,
          "Coq proof (callback-trace invariant by symbolic execution of each loop iteration) + scripted-callback bit-exact correspondence", "3/C19", True),
 "C20": C("Coq theorems: SciPy (n, m) layout of the transposition, status 0/1/-1 with success = status >= 0, and for every sparsity pattern the greedy grouping never puts two columns sharing a row into one group. Tie: the extension built from /repo is run in Python on the same cases as the Rust API and the model (bit for bit), grouping read through the cfg(ivp_verif) hook.",
          "Coq proof (layout, grouping validity) + Python/Rust/model differential", "3/C20", True),
}

NA_REASON = "check not built yet in this revision (planned in DESIGN.md §5); not claimed until its theorem file and correspondence exist"
ALL = ["C%02d" % i for i in range(1, 21)]

def main():
    checks = []
    for pid in ALL:
        if pid not in CLAIMS:
            continue
        c = CLAIMS[pid]
        checks.append({
            "property_id": pid,
            "quick_cmd": "./vcheck %s --tier quick" % pid,
            "thorough_cmd": "./vcheck %s --tier thorough" % pid,
            "evidence_file": "/verif/evidence/%s.json" % pid,
            "replay_cmd_template": "./vcheck replay {path}",
            "engine": "coq-proof+correspondence",
            "level_claimed": {"category": ("translation_validation" if "no theorem yet" in c["technique"] else "proof"), "text": c["text"] + (" PARTIAL: see DESIGN.md." if c.get("partial") else ""), "design_ref": c["design"]},
            "level_note": TB,
            "technique": c["technique"],
        })
    man = {
        "version": 1,
        "setup_cmd": "./vcheck setup",
        "hooks": {
            "guard": "ivp_verif",
            "enable": "RUSTFLAGS=\"--cfg ivp_verif\" (set by vlib/harness.py when it builds /verif/harness against /repo)",
            "baseline_off_cmd": "cd /repo && cargo test --workspace --no-fail-fast --offline",
            "source_commits": ["469a144"],
            "add_only": True,
        },
        "engines": [{
            "name": "coq-proof+correspondence", "path": "/verif/coq, /verif/harness, /verif/vlib",
            "serves_properties": sorted(CLAIMS),
            "kind_free_text": "Gallina model + Coq theorems; constants regenerated from source by tools/extract.py; hand-written model tied to /repo by bit-exact differential replay (OCaml-extracted model vs Rust harness)",
        }],
        "checks": checks,
        "not_applicable": [{"property_id": p, "reason": NA_REASON} for p in ALL if p not in CLAIMS],
        "notes": "See DESIGN.md. Driver: ./vcheck <id>. Known findings: known_findings.txt.",
    }
    with open(os.path.join(HERE, "MANIFEST.json"), "w") as fh:
        json.dump(man, fh, indent=1)
    print("MANIFEST.json: %d checks, %d not_applicable" % (len(checks), len(man["not_applicable"])))

if __name__ == "__main__":
    main()
