#!/usr/bin/env python3
"""Prints the markdown table 'which check catches which seeded change' from seeded/*/meta.json and seeded/RESULTS.json."""
import json, os
V = os.path.dirname(os.path.dirname(os.path.abspath(__file__)))
res = json.load(open(os.path.join(V, "seeded", "RESULTS.json")))
def cut(s, n):
    s = " ".join(str(s).split())
    return s if len(s) <= n else s[:n - 1] + "…"
print("| seed | property | the change (one line) | needs | caught by `./vcheck <property>` |")
print("|---|---|---|---|---|")
for name in sorted(d for d in os.listdir(os.path.join(V, "seeded")) if os.path.isdir(os.path.join(V, "seeded", d))):
    m = json.load(open(os.path.join(V, "seeded", name, "meta.json")))
    r = res.get(name, {})
    if r.get("with_failing_input"):
        how = "oracle: " + cut((r.get("first_observations") or [""])[0], 110)
    elif r.get("violation_lines"):
        how = "correspondence only (model and implementation differ; `no-failing-input-found`)"
    elif "error" in r:
        how = r["error"]
    else:
        how = "NOT CAUGHT"
    print("| %s | %s | %s | %s | %s |" % (name, m.get("property", name[:3]), cut(m.get("summary", ""), 150).replace("|", "/"),
                                         cut(m.get("needs", ""), 130).replace("|", "/"), how.replace("|", "/")))
