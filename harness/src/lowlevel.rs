//! Low-level solver API with scripted SolOut callbacks (C19) -- filled in later.
use std::collections::HashMap;
pub fn run(_kv: &HashMap<String, String>) -> String {
    "unimplemented\n".to_string()
}
pub fn implicit_defaults() -> String {
    String::new()
}
