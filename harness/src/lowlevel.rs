//! Low-level solver API with scripted SolOut callbacks (C19) -- filled in later.
use std::collections::HashMap;
pub fn run(_kv: &HashMap<String, String>) -> String {
    "unimplemented\n".to_string()
}
pub fn implicit_defaults() -> String {
    use ivp::methods::{BDF, RADAU};
    let r = RADAU::builder().build();
    let b = BDF::builder().build();
    let mut s = String::new();
    s.push_str(&format!(
        "defaults RADAU {} nstiff={} maxsteps={}\n",
        crate::hxlist(&[r.uround, r.safety_factor, r.scale_min, r.scale_max]),
        r.newton_maxiter,
        r.max_steps
    ));
    s.push_str(&format!("defaults BDF {} nstiff={} maxsteps={}\n", "", b.newton_maxiter, b.max_steps));
    s
}
