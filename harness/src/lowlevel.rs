//! Low-level solver API with scripted SolOut callbacks (C19).
use std::collections::HashMap;
use std::panic::{catch_unwind, AssertUnwindSafe};

use ivp::dense::StepInterpolant;
use ivp::methods::{BDF, DOP853, DOPRI5, RADAU, RK23, RK4};
use ivp::prelude::*;
use ivp::solout::SolOut;

use crate::{hx, hxlist, opt_f, parse_method, parse_problem, parse_tol, status_name, unhx, unlist, DefaultMass, H64};

/// script: "k:idx/act/val,..." with act in {I (Interrupt), M (y *= val, ModifiedSolution), N (ModifiedSolution, y unchanged)}
pub struct Scripted {
    pub actions: HashMap<usize, (char, f64)>,
    pub count: usize,
    pub trace: Vec<(f64, f64, Vec<f64>, bool, Vec<f64>)>,
}

impl SolOut for Scripted {
    fn solout(&mut self, xold: f64, x: &mut f64, y: &mut [f64], interp: Option<&StepInterpolant<'_>>) -> ControlFlag {
        let mid = xold + 0.5 * (*x - xold);
        let mut ym = vec![0.0; y.len()];
        if let Some(i) = interp {
            i.interpolate(mid, &mut ym);
        }
        self.trace.push((xold, *x, y.to_vec(), interp.is_some(), ym));
        let idx = self.count;
        self.count += 1;
        match self.actions.get(&idx) {
            Some(('I', _)) => ControlFlag::Interrupt,
            Some(('M', v)) => {
                for yi in y.iter_mut() {
                    *yi *= *v;
                }
                ControlFlag::ModifiedSolution
            }
            Some(('N', _)) => ControlFlag::ModifiedSolution,
            _ => ControlFlag::Continue,
        }
    }
}

pub fn run(kv: &HashMap<String, String>) -> String {
    let mut out = String::new();
    let prob = parse_problem(kv);
    let method = parse_method(&kv["method"]);
    let x0 = unhx(&kv["x0"]);
    let xend = unhx(&kv["xend"]);
    let y0 = unlist(&kv["y0"]);
    let rtol = parse_tol(&kv["rtol"]);
    let atol = parse_tol(&kv["atol"]);
    let first_step = opt_f(&kv["firststep"]);
    let max_step = opt_f(&kv["maxstep"]);
    let max_steps: usize = kv["maxsteps"].parse().unwrap();
    let full = kv.get("full").map(|s| s == "1").unwrap_or(false);
    let mut actions = HashMap::new();
    let sc = kv.get("script").map(|s| s.as_str()).unwrap_or("0:");
    let (_, body) = sc.split_once(':').unwrap();
    if !body.is_empty() {
        for t in body.split(',') {
            let p: Vec<&str> = t.split('/').collect();
            actions.insert(p[0].parse::<usize>().unwrap(), (p[1].chars().next().unwrap(), unhx(p[2])));
        }
    }
    let mut so = Scripted { actions, count: 0, trace: vec![] };
    let p = DefaultMass(&prob);
    let res = catch_unwind(AssertUnwindSafe(|| match method {
        Method::RK4 => RK4::builder().max_steps(max_steps).build().solve(
            &p, x0, &y0, xend, first_step.unwrap_or((xend - x0) / 100.0), Some(&mut so)),
        Method::RK23 => RK23::builder().maybe_max_step(max_step).maybe_first_step(first_step).max_steps(max_steps).build()
            .solve(&p, x0, &y0, xend, rtol.clone(), atol.clone(), Some(&mut so)),
        Method::DOPRI5 => DOPRI5::builder().maybe_max_step(max_step).maybe_first_step(first_step).max_steps(max_steps).build()
            .solve(&p, x0, &y0, xend, rtol.clone(), atol.clone(), Some(&mut so)),
        Method::DOP853 => DOP853::builder().maybe_max_step(max_step).maybe_first_step(first_step).max_steps(max_steps).build()
            .solve(&p, x0, &y0, xend, rtol.clone(), atol.clone(), Some(&mut so)),
        Method::RADAU => RADAU::builder().maybe_max_step(max_step).maybe_first_step(first_step).max_steps(max_steps)
            .mass_storage(MatrixStorage::Identity).build()
            .solve(&p, x0, &y0, xend, rtol.clone(), atol.clone(), Some(&mut so)),
        Method::BDF => BDF::builder().maybe_max_step(max_step).maybe_first_step(first_step).max_steps(max_steps).build()
            .solve(&p, x0, &y0, xend, rtol.clone(), atol.clone(), Some(&mut so)),
    }));
    match res {
        Err(_) => out.push_str("panic\n"),
        Ok(Err(_)) => out.push_str("error\n"),
        Ok(Ok(r)) => {
            out.push_str(&format!("status {}\n", status_name(&r.status)));
            out.push_str(&format!(
                "stats {} {} {} {} {} {}\n",
                r.evals.ode, r.evals.jac, r.evals.lu, r.steps.total, r.steps.accepted, r.steps.rejected
            ));
            out.push_str(&format!("hfinal {}\n", hx(r.h)));
            let mut h = H64::new();
            for (xo, x, y, has, ym) in &so.trace {
                h.f(*xo);
                h.f(*x);
                for v in y {
                    h.f(*v);
                }
                h.word(*has as u64);
                for v in ym {
                    h.f(*v);
                }
            }
            out.push_str(&format!("trace {} 0x{:016x}\n", so.trace.len(), h.0));
            for (k, (xo, x, y, has, ym)) in so.trace.iter().enumerate() {
                if full || k < 3 || k + 2 >= so.trace.len() {
                    out.push_str(&format!(" call {} {} {} {} {} {}\n", k, hx(*xo), hx(*x), hxlist(y), *has as u8, hxlist(ym)));
                }
            }
            crate::log_summary("odelog", &prob.odelog.borrow(), full, &mut out);
            crate::log_summary("jaclog", &prob.jaclog.borrow(), full, &mut out);
        }
    }
    out
}

pub fn implicit_defaults() -> String {
    let r = RADAU::builder().build();
    let b = BDF::builder().build();
    let mut s = String::new();
    s.push_str(&format!(
        "defaults RADAU {} nstiff={} maxsteps={}\n",
        crate::hxlist(&[r.uround, r.safety_factor, r.scale_min, r.scale_max]),
        r.newton_maxiter,
        r.max_steps
    ));
    s.push_str(&format!("defaults BDF {} nstiff={} maxsteps={}\n", "", b.newton_maxiter, b.max_steps));
    s
}
