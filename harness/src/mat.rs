//! Matrix / LU operation sequences (C16, C17).
use std::collections::HashMap;
use std::panic::{catch_unwind, AssertUnwindSafe};

use ivp::matrix::{lin_solve, lin_solve_complex, lu_decomp, lu_decomp_complex, Matrix, MatrixStorage};

use crate::{hx, hxlist, unhx, unlist};

fn parse_st(s: &str) -> MatrixStorage {
    if s == "identity" {
        MatrixStorage::Identity
    } else if s == "full" {
        MatrixStorage::Full
    } else {
        let p: Vec<&str> = s.split('-').collect();
        MatrixStorage::Banded { ml: p[1].parse().unwrap(), mu: p[2].parse().unwrap() }
    }
}

fn ctor(s: &str) -> Matrix {
    let p: Vec<&str> = s.split(':').collect();
    let u = |i: usize| -> usize { p[i].parse().unwrap() };
    match p[0] {
        "identity" => Matrix::identity(u(1)),
        "zeros" => Matrix::zeros(u(1), u(2)),
        "full" => Matrix::full(u(1), u(2)),
        "square" => Matrix::square(u(1)),
        "banded" => Matrix::banded(u(1), u(2), u(3)),
        "lower" => Matrix::lower_triangular(u(1)),
        "upper" => Matrix::upper_triangular(u(1)),
        "diag" => Matrix::diagonal(unlist(&format!("{}:{}", p[1], p.get(2).unwrap_or(&"")))),
        "fromvec" => Matrix::from_vec(u(1), u(2), unlist(&format!("{}:{}", p[3], p.get(4).unwrap_or(&"")))),
        "fromstorage" => Matrix::from_storage(u(1), u(2), parse_st(p[3])),
        _ => panic!("ctor"),
    }
}

fn build(c: &str, w: &str) -> Option<Matrix> {
    catch_unwind(AssertUnwindSafe(|| {
        let mut m = ctor(c);
        // writes: "k:i/j/hex,i/j/hex"
        let (_, body) = w.split_once(':').unwrap_or(("0", ""));
        if !body.is_empty() {
            for t in body.split(',') {
                let q: Vec<&str> = t.split('/').collect();
                let (i, j): (usize, usize) = (q[0].parse().unwrap(), q[1].parse().unwrap());
                m[(i, j)] = unhx(q[2]);
            }
        }
        m
    }))
    .ok()
}

fn st_name(s: &MatrixStorage) -> String {
    match s {
        MatrixStorage::Identity => "identity".into(),
        MatrixStorage::Full => "full".into(),
        MatrixStorage::Banded { ml, mu } => format!("banded-{}-{}", ml, mu),
    }
}

pub fn run_matrix(kv: &HashMap<String, String>) -> String {
    let mut out = String::new();
    let a = match build(&kv["a"], kv.get("aw").map(|s| s.as_str()).unwrap_or("0:")) {
        Some(a) => a,
        None => return "A panic\n".into(),
    };
    out.push_str("A ok\n");
    let bspec = kv.get("b").map(|s| s.as_str()).unwrap_or("none");
    let b = if bspec == "none" {
        None
    } else {
        match build(bspec, kv.get("bw").map(|s| s.as_str()).unwrap_or("0:")) {
            Some(b) => Some(b),
            None => return out + "B panic\n",
        }
    };
    let op = kv.get("op").map(|s| s.as_str()).unwrap_or("none").to_string();
    let r = catch_unwind(AssertUnwindSafe(|| {
        let p: Vec<&str> = op.split(':').collect();
        match p[0] {
            "none" => a.clone(),
            "add" => a.clone() + b.clone().unwrap(),
            "sub" => a.clone() - b.clone().unwrap(),
            "addassign" => {
                let mut x = a.clone();
                x += b.clone().unwrap();
                x
            }
            "subassign" => {
                let mut x = a.clone();
                x -= b.clone().unwrap();
                x
            }
            "subassignref" => {
                // the by-reference operator `x -= &b` (SubAssign<&Matrix>), a separate implementation
                let mut x = a.clone();
                let bb = b.clone().unwrap();
                x -= &bb;
                x
            }
            "cadd" => a.clone().component_add(unhx(p[1])),
            "csub" => a.clone().component_sub(unhx(p[1])),
            "cmul" => a.clone().component_mul(unhx(p[1])),
            "cmulmut" => {
                let mut x = a.clone();
                x.component_mul_mut(unhx(p[1]));
                x
            }
            _ => panic!("op"),
        }
    }));
    let r = match r {
        Ok(r) => r,
        Err(_) => return out + "op panic\n",
    };
    out.push_str(&format!("R {} {} {}\n", st_name(&r.storage), r.n, r.m));
    out.push_str(&format!("data {}\n", hxlist(&r.data)));
    for i in 0..r.n {
        let mut row = Vec::new();
        for j in 0..r.m {
            match catch_unwind(AssertUnwindSafe(|| r[(i, j)])) {
                Ok(v) => row.push(hx(v)),
                Err(_) => row.push("P".to_string()),
            }
        }
        out.push_str(&format!("row {} {}\n", i, row.join(",")));
    }
    // reads just outside the shape must panic
    let oob = catch_unwind(AssertUnwindSafe(|| r[(r.n, 0)])).is_err();
    out.push_str(&format!("oob {}\n", if oob { "P" } else { "ok" }));
    match catch_unwind(AssertUnwindSafe(|| r.is_identity())) {
        Ok(v) => out.push_str(&format!("isid {}\n", v)),
        Err(_) => out.push_str("isid P\n"),
    }
    out
}

pub fn run_lu(kv: &HashMap<String, String>) -> String {
    let mut out = String::new();
    let n: usize = kv["n"].parse().unwrap();
    let cols: usize = kv["cols"].parse().unwrap();
    let iplen: usize = kv["iplen"].parse().unwrap();
    let adata = unlist(&kv["a"]);
    let b0 = unlist(&kv["b"]);
    let mut a = Matrix::from_vec(n, cols, adata);
    let mut ip = vec![7usize; iplen];
    let res = catch_unwind(AssertUnwindSafe(|| lu_decomp(&mut a, &mut ip)));
    match res {
        Err(_) => return "res panic\n".into(),
        Ok(Err(e)) => {
            let s = format!("{:?}", e);
            let kind = if s.contains("Singular") {
                "singular"
            } else if s.contains("NonSquare") {
                "nonsquare"
            } else if s.contains("PivotSize") {
                "pivotsize"
            } else {
                "othererr"
            };
            return format!("res {}\n", kind);
        }
        Ok(Ok(())) => {}
    }
    out.push_str("res ok\n");
    out.push_str(&format!("lu {}\n", hxlist(&a.data)));
    let nip = if n == 1 { 1 } else { n - 1 };
    out.push_str(&format!("ip {}\n", ip[..nip].iter().map(|x| x.to_string()).collect::<Vec<_>>().join(",")));
    let before = a.clone();
    let mut b = b0.clone();
    let r = catch_unwind(AssertUnwindSafe(|| lin_solve(&a, &mut b, &ip)));
    if r.is_err() {
        return out + "solve panic\n";
    }
    out.push_str(&format!("x {}\n", hxlist(&b)));
    let same = before.data.iter().zip(a.data.iter()).all(|(p, q)| p.to_bits() == q.to_bits()) && before.storage == a.storage;
    out.push_str(&format!("a_untouched {}\n", same));
    out
}

/// complex LU: `luc id=.. n=.. iplen=.. ar=.. ai=.. br=.. bi=..` (square n x n, row-major)
pub fn run_luc(kv: &HashMap<String, String>) -> String {
    let mut out = String::new();
    let n: usize = kv["n"].parse().unwrap();
    let iplen: usize = kv["iplen"].parse().unwrap();
    let cols: usize = kv.get("cols").map(|c| c.parse().unwrap()).unwrap_or(n);
    let mut ar = Matrix::from_vec(n, cols, unlist(&kv["ar"]));
    let mut ai = Matrix::from_vec(n, cols, unlist(&kv["ai"]));
    let br0 = unlist(&kv["br"]);
    let bi0 = unlist(&kv["bi"]);
    let mut ip = vec![7usize; iplen];
    let res = catch_unwind(AssertUnwindSafe(|| lu_decomp_complex(&mut ar, &mut ai, &mut ip)));
    match res {
        Err(_) => return "res panic\n".into(),
        Ok(Err(e)) => {
            let s = format!("{:?}", e);
            let kind = if s.contains("Singular") {
                "singular"
            } else if s.contains("NonSquare") {
                "nonsquare"
            } else if s.contains("PivotSize") {
                "pivotsize"
            } else {
                "othererr"
            };
            return format!("res {}\n", kind);
        }
        Ok(Ok(())) => {}
    }
    out.push_str("res ok\n");
    out.push_str(&format!("lur {}\n", hxlist(&ar.data)));
    out.push_str(&format!("lui {}\n", hxlist(&ai.data)));
    let nip = if n == 1 { 1 } else { n - 1 };
    out.push_str(&format!("ip {}\n", ip[..nip].iter().map(|x| x.to_string()).collect::<Vec<_>>().join(",")));
    let (before_r, before_i) = (ar.clone(), ai.clone());
    let (mut br, mut bi) = (br0.clone(), bi0.clone());
    let r = catch_unwind(AssertUnwindSafe(|| lin_solve_complex(&ar, &ai, &mut br, &mut bi, &ip)));
    if r.is_err() {
        return out + "solve panic\n";
    }
    out.push_str(&format!("xr {}\n", hxlist(&br)));
    out.push_str(&format!("xi {}\n", hxlist(&bi)));
    let same = before_r.data.iter().zip(ar.data.iter()).all(|(p, q)| p.to_bits() == q.to_bits())
        && before_i.data.iter().zip(ai.data.iter()).all(|(p, q)| p.to_bits() == q.to_bits());
    out.push_str(&format!("a_untouched {}\n", same));
    out
}
