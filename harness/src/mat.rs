//! Matrix / LU operation sequences (C16, C17) -- filled in later.
use std::collections::HashMap;
pub fn run_matrix(_kv: &HashMap<String, String>) -> String {
    "unimplemented\n".to_string()
}
pub fn run_lu(_kv: &HashMap<String, String>) -> String {
    "unimplemented\n".to_string()
}
