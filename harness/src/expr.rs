//! Tiny expression language for right-hand sides / event functions that both sides evaluate
//! with the same IEEE operations in the same order.  Prefix form, tokens separated by ','.
#[derive(Clone, Debug)]
pub enum Expr {
    Const(f64),
    T,
    Y(usize),
    Add(Box<Expr>, Box<Expr>),
    Sub(Box<Expr>, Box<Expr>),
    Mul(Box<Expr>, Box<Expr>),
    Div(Box<Expr>, Box<Expr>),
    Neg(Box<Expr>),
    Abs(Box<Expr>),
    Sqrt(Box<Expr>),
    IfLt(Box<Expr>, Box<Expr>, Box<Expr>, Box<Expr>),
}

impl Expr {
    pub fn parse(s: &str) -> Expr {
        let toks: Vec<&str> = s.split(',').collect();
        let mut pos = 0;
        let e = Self::parse_at(&toks, &mut pos);
        assert!(pos == toks.len(), "trailing tokens in expr {}", s);
        e
    }
    fn parse_at(toks: &[&str], pos: &mut usize) -> Expr {
        let t = toks[*pos];
        *pos += 1;
        match t {
            "t" => Expr::T,
            "+" | "-" | "*" | "/" => {
                let a = Box::new(Self::parse_at(toks, pos));
                let b = Box::new(Self::parse_at(toks, pos));
                match t {
                    "+" => Expr::Add(a, b),
                    "-" => Expr::Sub(a, b),
                    "*" => Expr::Mul(a, b),
                    _ => Expr::Div(a, b),
                }
            }
            "neg" => Expr::Neg(Box::new(Self::parse_at(toks, pos))),
            "abs" => Expr::Abs(Box::new(Self::parse_at(toks, pos))),
            "sqrt" => Expr::Sqrt(Box::new(Self::parse_at(toks, pos))),
            "iflt" => {
                let a = Box::new(Self::parse_at(toks, pos));
                let b = Box::new(Self::parse_at(toks, pos));
                let c = Box::new(Self::parse_at(toks, pos));
                let d = Box::new(Self::parse_at(toks, pos));
                Expr::IfLt(a, b, c, d)
            }
            _ if t.starts_with('y') => Expr::Y(t[1..].parse().unwrap()),
            _ if t.starts_with('c') => Expr::Const(crate::unhx(&t[1..])),
            _ => panic!("bad token {}", t),
        }
    }
    pub fn eval(&self, t: f64, y: &[f64]) -> f64 {
        match self {
            Expr::Const(c) => *c,
            Expr::T => t,
            Expr::Y(i) => y[*i],
            Expr::Add(a, b) => a.eval(t, y) + b.eval(t, y),
            Expr::Sub(a, b) => a.eval(t, y) - b.eval(t, y),
            Expr::Mul(a, b) => a.eval(t, y) * b.eval(t, y),
            Expr::Div(a, b) => a.eval(t, y) / b.eval(t, y),
            Expr::Neg(a) => -a.eval(t, y),
            Expr::Abs(a) => a.eval(t, y).abs(),
            Expr::Sqrt(a) => a.eval(t, y).sqrt(),
            Expr::IfLt(a, b, c, d) => {
                if a.eval(t, y) < b.eval(t, y) {
                    c.eval(t, y)
                } else {
                    d.eval(t, y)
                }
            }
        }
    }
}
