//! Correspondence harness: reads cases (one per line, key=value tokens) from stdin, runs the
//! implementation in /repo on each and prints the observable result, floats as u64 bit patterns.
//! The OCaml driver (coq/extract/driver.ml) reads the same cases, runs the extracted Coq model
//! and prints the same format; vlib/harness.py diffs the two.
use std::cell::RefCell;
use std::collections::HashMap;
use std::io::{self, BufRead, Write};
use std::panic::{catch_unwind, AssertUnwindSafe};

use ivp::prelude::*;
use ivp::error::{Error, InterpolationError};
use ivp::methods::{Tolerance, DOP853, DOPRI5, RK23, RK4};

mod expr;
mod lowlevel;
mod mat;
use expr::Expr;

/// bit pattern with every NaN mapped to one canonical pattern (sign/payload of NaN are not
/// part of the compared behaviour)
pub fn bits(v: f64) -> u64 {
    if v.is_nan() { 0x7ff8000000000000 } else { v.to_bits() }
}
pub fn hx(v: f64) -> String {
    format!("0x{:016x}", bits(v))
}
pub fn unhx(s: &str) -> f64 {
    let s = s.trim_start_matches("0x");
    f64::from_bits(u64::from_str_radix(s, 16).expect("hex float"))
}
pub fn hxlist(v: &[f64]) -> String {
    v.iter().map(|x| hx(*x)).collect::<Vec<_>>().join(",")
}
pub fn unlist(s: &str) -> Vec<f64> {
    // "<k>:a,b,c"
    let (_, body) = s.split_once(':').unwrap_or(("0", ""));
    if body.is_empty() {
        vec![]
    } else {
        body.split(',').map(unhx).collect()
    }
}
pub fn opt_f(s: &str) -> Option<f64> {
    if s == "none" {
        None
    } else {
        Some(unhx(s))
    }
}

/// FNV-1a style hash over u64 words (same in driver.ml)
#[derive(Clone)]
pub struct H64(pub u64);
impl H64 {
    pub fn new() -> Self {
        H64(14695981039346656037)
    }
    pub fn word(&mut self, w: u64) {
        self.0 = (self.0 ^ w).wrapping_mul(1099511628211);
    }
    pub fn f(&mut self, v: f64) {
        self.word(bits(v))
    }
}

pub struct AstProblem {
    pub f: Vec<Expr>,
    pub events: Vec<(i32, Option<usize>, Expr)>,
    pub jac: Option<Vec<Vec<Expr>>>,
    pub mass: Option<Vec<Vec<f64>>>,
    pub odelog: RefCell<Vec<(f64, Vec<f64>)>>,
    pub evlog: RefCell<Vec<(f64, Vec<f64>)>>,
    pub jaclog: RefCell<Vec<(f64, Vec<f64>)>>,
    pub in_fd_jac: RefCell<bool>,
    pub fd_ode_calls: RefCell<usize>,
}

impl IVP for AstProblem {
    fn ode(&self, x: f64, y: &[f64], dydx: &mut [f64]) {
        if *self.in_fd_jac.borrow() {
            *self.fd_ode_calls.borrow_mut() += 1;
        } else {
            self.odelog.borrow_mut().push((x, y.to_vec()));
        }
        for (i, e) in self.f.iter().enumerate() {
            dydx[i] = e.eval(x, y);
        }
    }
    fn events(&self, x: f64, y: &[f64], out: &mut [f64]) {
        self.evlog.borrow_mut().push((x, y.to_vec()));
        for (i, (_, _, e)) in self.events.iter().enumerate() {
            out[i] = e.eval(x, y);
        }
    }
    fn n_events(&self) -> usize {
        self.events.len()
    }
    fn event_config(&self, i: usize) -> EventConfig {
        let mut c = EventConfig::new();
        let (d, term, _) = &self.events[i];
        c.direction(Direction::from(*d));
        if let Some(k) = term {
            c.terminal_count(*k);
        }
        c
    }
    fn jac(&self, x: f64, y: &[f64], j: &mut Matrix) {
        self.jaclog.borrow_mut().push((x, y.to_vec()));
        match &self.jac {
            Some(rows) => {
                for (r, row) in rows.iter().enumerate() {
                    for (c, e) in row.iter().enumerate() {
                        let v = e.eval(x, y);
                        let inband = match j.storage {
                            MatrixStorage::Banded { ml, mu } => {
                                let k = r as isize - c as isize;
                                k >= -(mu as isize) && k <= ml as isize
                            }
                            _ => true,
                        };
                        if inband {
                            j[(r, c)] = v;
                        }
                    }
                }
            }
            None => {
                // the trait's default finite-difference Jacobian, with its ode calls kept apart
                *self.in_fd_jac.borrow_mut() = true;
                let dim = y.len();
                let mut y_perturbed = y.to_vec();
                let mut f_perturbed = vec![0.0; dim];
                let mut f_origin = vec![0.0; dim];
                self.ode(x, y, &mut f_origin);
                let eps = f64::EPSILON.sqrt();
                for col in 0..dim {
                    let y_original_j = y[col];
                    let perturbation = eps * y_original_j.abs().max(1.0);
                    y_perturbed[col] = y_original_j + perturbation;
                    self.ode(x, &y_perturbed, &mut f_perturbed);
                    y_perturbed[col] = y_original_j;
                    for row in 0..dim {
                        j[(row, col)] = (f_perturbed[row] - f_origin[row]) / perturbation;
                    }
                }
                *self.in_fd_jac.borrow_mut() = false;
            }
        }
    }
    fn mass(&self, m: &mut Matrix) {
        if let Some(rows) = &self.mass {
            for (r, row) in rows.iter().enumerate() {
                for (c, v) in row.iter().enumerate() {
                    let inband = match m.storage {
                        MatrixStorage::Banded { ml, mu } => {
                            let k = r as isize - c as isize;
                            k >= -(mu as isize) && k <= ml as isize
                        }
                        MatrixStorage::Identity => false,
                        _ => true,
                    };
                    if inband {
                        m[(r, c)] = *v;
                    }
                }
            }
        }
    }
}

/// Same problem, but mass() is NOT overridden: the trait's default mass matrix is used.
pub struct DefaultMass<'a>(pub &'a AstProblem);
impl<'a> IVP for DefaultMass<'a> {
    fn ode(&self, x: f64, y: &[f64], dydx: &mut [f64]) {
        self.0.ode(x, y, dydx)
    }
    fn events(&self, x: f64, y: &[f64], out: &mut [f64]) {
        self.0.events(x, y, out)
    }
    fn n_events(&self) -> usize {
        self.0.n_events()
    }
    fn event_config(&self, i: usize) -> EventConfig {
        self.0.event_config(i)
    }
    fn jac(&self, x: f64, y: &[f64], j: &mut Matrix) {
        self.0.jac(x, y, j)
    }
}

/// Neither jac() nor mass() overridden: the trait's own finite-difference Jacobian.
pub struct AllDefaults<'a>(pub &'a AstProblem);
impl<'a> IVP for AllDefaults<'a> {
    fn ode(&self, x: f64, y: &[f64], dydx: &mut [f64]) {
        for (i, e) in self.0.f.iter().enumerate() {
            dydx[i] = e.eval(x, y);
        }
    }
    fn events(&self, x: f64, y: &[f64], out: &mut [f64]) {
        for (i, (_, _, e)) in self.0.events.iter().enumerate() {
            out[i] = e.eval(x, y);
        }
    }
    fn n_events(&self) -> usize {
        self.0.n_events()
    }
    fn event_config(&self, i: usize) -> EventConfig {
        self.0.event_config(i)
    }
}

pub fn parse_kv(line: &str) -> (String, HashMap<String, String>) {
    let mut it = line.split_whitespace();
    let kind = it.next().unwrap_or("").to_string();
    let mut m = HashMap::new();
    for tok in it {
        if let Some((k, v)) = tok.split_once('=') {
            m.insert(k.to_string(), v.to_string());
        }
    }
    (kind, m)
}

pub fn parse_tol(s: &str) -> Tolerance {
    let (k, body) = s.split_once(':').unwrap();
    if k == "s" {
        Tolerance::Scalar(unhx(body))
    } else {
        Tolerance::Vector(if body.is_empty() { vec![] } else { body.split(',').map(unhx).collect() })
    }
}

pub fn parse_method(s: &str) -> Method {
    match s {
        "RK4" => Method::RK4,
        "RK23" => Method::RK23,
        "DOPRI5" => Method::DOPRI5,
        "DOP853" => Method::DOP853,
        "RADAU" => Method::RADAU,
        "BDF" => Method::BDF,
        _ => panic!("method"),
    }
}

pub fn parse_problem(kv: &HashMap<String, String>) -> AstProblem {
    let fs = kv.get("f").map(|s| s.as_str()).unwrap_or("0:");
    let (_, body) = fs.split_once(':').unwrap();
    let f: Vec<Expr> = if body.is_empty() { vec![] } else { body.split(';').map(Expr::parse).collect() };
    let evs = kv.get("ev").map(|s| s.as_str()).unwrap_or("0:");
    let (_, body) = evs.split_once(':').unwrap();
    let events = if body.is_empty() {
        vec![]
    } else {
        body.split(';')
            .map(|e| {
                let mut p = e.splitn(3, '/');
                let d: i32 = p.next().unwrap().parse().unwrap();
                let t = p.next().unwrap();
                let term = if t == "none" { None } else { Some(t.parse().unwrap()) };
                (d, term, Expr::parse(p.next().unwrap()))
            })
            .collect()
    };
    let jac = kv.get("jac").and_then(|s| {
        if s == "none" {
            None
        } else {
            let (n, body) = s.split_once(':').unwrap();
            let n: usize = n.parse().unwrap();
            let es: Vec<Expr> = body.split(';').map(Expr::parse).collect();
            Some((0..n).map(|r| es[r * n..(r + 1) * n].to_vec()).collect())
        }
    });
    let mass = kv.get("mass").and_then(|s| {
        if s == "none" {
            None
        } else {
            let (n, body) = s.split_once(':').unwrap();
            let n: usize = n.parse().unwrap();
            let vs: Vec<f64> = body.split(',').map(unhx).collect();
            Some((0..n).map(|r| vs[r * n..(r + 1) * n].to_vec()).collect())
        }
    });
    AstProblem {
        f,
        events,
        jac,
        mass,
        odelog: RefCell::new(vec![]),
        evlog: RefCell::new(vec![]),
        jaclog: RefCell::new(vec![]),
        in_fd_jac: RefCell::new(false),
        fd_ode_calls: RefCell::new(0),
    }
}

pub fn status_name(s: &Status) -> &'static str {
    match s {
        Status::Success => "Success",
        Status::UserInterrupt => "UserInterrupt",
        Status::NeedLargerNMax => "NeedLargerNMax",
        Status::StepSizeTooSmall => "StepSizeTooSmall",
        Status::ProbablyStiff => "ProbablyStiff",
        Status::SingularMatrix => "SingularMatrix",
        Status::PoorConvergence => "PoorConvergence",
    }
}

pub fn log_summary(name: &str, log: &[(f64, Vec<f64>)], full: bool, out: &mut String) {
    let mut h = H64::new();
    for (t, y) in log {
        h.f(*t);
        for v in y {
            h.f(*v);
        }
    }
    out.push_str(&format!("{} {} 0x{:016x}\n", name, log.len(), h.0));
    if full {
        for (t, y) in log {
            out.push_str(&format!(" {}call {} {}\n", name, hx(*t), hxlist(y)));
        }
    }
}

pub fn parse_storage(s: &str) -> MatrixStorage {
    if s == "identity" {
        MatrixStorage::Identity
    } else if s == "full" {
        MatrixStorage::Full
    } else {
        // banded:ml:mu
        let p: Vec<&str> = s.split(':').collect();
        MatrixStorage::Banded { ml: p[1].parse().unwrap(), mu: p[2].parse().unwrap() }
    }
}

fn run_solve(kv: &HashMap<String, String>) -> String {
    let mut out = String::new();
    let prob = parse_problem(kv);
    let method = parse_method(&kv["method"]);
    let x0 = unhx(&kv["x0"]);
    let xend = unhx(&kv["xend"]);
    let y0 = unlist(&kv["y0"]);
    let full = kv.get("full").map(|s| s == "1").unwrap_or(false);
    let opts = Options::builder()
        .method(method)
        .rtol(parse_tol(&kv["rtol"]))
        .atol(parse_tol(&kv["atol"]))
        .maybe_max_steps(if kv["maxsteps"] == "none" { None } else { Some(kv["maxsteps"].parse::<usize>().unwrap()) })
        .maybe_t_eval(if kv["teval"] == "none" { None } else { Some(unlist(&kv["teval"])) })
        .maybe_first_step(opt_f(&kv["firststep"]))
        .maybe_max_step(opt_f(&kv["maxstep"]))
        .maybe_min_step(opt_f(kv.get("minstep").map(|s| s.as_str()).unwrap_or("none")))
        .dense_output(kv["dense"] == "1")
        .jac_storage(parse_storage(kv.get("jacstorage").map(|s| s.as_str()).unwrap_or("full")))
        .mass_storage(parse_storage(kv.get("massstorage").map(|s| s.as_str()).unwrap_or("identity")))
        .build();
    let query = unlist(kv.get("query").map(|s| s.as_str()).unwrap_or("0:"));
    let mk_opts = || {
        Options::builder()
            .method(method)
            .rtol(parse_tol(&kv["rtol"]))
            .atol(parse_tol(&kv["atol"]))
            .maybe_max_steps(if kv["maxsteps"] == "none" { None } else { Some(kv["maxsteps"].parse::<usize>().unwrap()) })
            .maybe_t_eval(if kv["teval"] == "none" { None } else { Some(unlist(&kv["teval"])) })
            .maybe_first_step(opt_f(&kv["firststep"]))
            .maybe_max_step(opt_f(&kv["maxstep"]))
            .maybe_min_step(opt_f(kv.get("minstep").map(|s| s.as_str()).unwrap_or("none")))
            .dense_output(kv["dense"] == "1")
            .jac_storage(parse_storage(kv.get("jacstorage").map(|s| s.as_str()).unwrap_or("full")))
            .mass_storage(parse_storage(kv.get("massstorage").map(|s| s.as_str()).unwrap_or("identity")))
            .build()
    };
    let res = catch_unwind(AssertUnwindSafe(|| {
        if prob.mass.is_some() {
            solve_ivp(&prob, x0, xend, &y0, opts)
        } else {
            solve_ivp(&DefaultMass(&prob), x0, xend, &y0, opts)
        }
    }));
    // the trait's own finite-difference Jacobian must give the same run as the instrumented copy
    let mut fdsame: Option<bool> = None;
    if prob.jac.is_none() && prob.mass.is_none() && matches!(method, Method::RADAU | Method::BDF) {
        let r2 = catch_unwind(AssertUnwindSafe(|| solve_ivp(&AllDefaults(&prob), x0, xend, &y0, mk_opts())));
        fdsame = Some(match (&res, &r2) {
            (Ok(Ok(a)), Ok(Ok(b))) => {
                a.t.iter().map(|v| v.to_bits()).eq(b.t.iter().map(|v| v.to_bits()))
                    && a.y.iter().flatten().map(|v| bits(*v)).eq(b.y.iter().flatten().map(|v| bits(*v)))
                    && a.nfev == b.nfev && a.njev == b.njev && a.nlu == b.nlu && a.nstep == b.nstep
                    && a.status == b.status
            }
            (Ok(Err(_)), Ok(Err(_))) => true,
            (Err(_), Err(_)) => true,
            _ => false,
        });
    }
    match res {
        Err(_) => out.push_str("panic\n"),
        Ok(Err(_e)) => out.push_str("error\n"),
        Ok(Ok(sol)) => {
            out.push_str(&format!("status {}\n", status_name(&sol.status)));
            out.push_str(&format!(
                "stats {} {} {} {} {} {}\n",
                sol.nfev, sol.njev, sol.nlu, sol.nstep, sol.naccpt, sol.nrejct
            ));
            out.push_str(&format!("t {} {}\n", sol.t.len(), hxlist(&sol.t)));
            out.push_str(&format!("y {}", sol.y.len()));
            for yi in &sol.y {
                out.push_str(&format!(" {}", hxlist(yi)));
            }
            out.push('\n');
            for (i, te) in sol.t_events.iter().enumerate() {
                out.push_str(&format!("tev {} {} {}\n", i, te.len(), hxlist(te)));
                out.push_str(&format!("yev {} {}", i, sol.y_events[i].len()));
                for yi in &sol.y_events[i] {
                    out.push_str(&format!(" {}", hxlist(yi)));
                }
                out.push('\n');
            }
            log_summary("odelog", &prob.odelog.borrow(), full, &mut out);
            log_summary("evlog", &prob.evlog.borrow(), full, &mut out);
            log_summary("jaclog", &prob.jaclog.borrow(), full, &mut out);
            if let Some(s) = fdsame {
                out.push_str(&format!("fd_default_same {}\n", s));
            }
            match sol.sol_span() {
                Some((a, b)) => out.push_str(&format!("span {} {}\n", hx(a), hx(b))),
                None => out.push_str("span none\n"),
            }
            // sol(t_i) against every stored sample (t_i, y_i)
            if sol.continuous_sol.is_some() {
                let mut maxdev = 0.0f64;
                let mut fails = 0usize;
                // every sample of a short run; of a long one (sol() scans the segments linearly) the first and last 100
                // and every (len/200)-th in between
                let nt = sol.t.len();
                let stride = std::cmp::max(1, nt / 200);
                for (idx, (ti, yi)) in sol.t.iter().zip(sol.y.iter()).enumerate() {
                    if nt > 2000 && idx >= 100 && idx + 100 < nt && idx % stride != 0 {
                        continue;
                    }
                    match sol.sol(*ti) {
                        Ok(v) => {
                            for (a, b) in v.iter().zip(yi.iter()) {
                                let dlt = (a - b).abs();
                                if dlt > maxdev || dlt.is_nan() {
                                    maxdev = dlt;
                                }
                            }
                        }
                        Err(_) => fails += 1,
                    }
                }
                out.push_str(&format!("selfsol fails={} maxdev={}\n", fails, hx(maxdev)));
            }
            // y_events against the continuous solution at t_events (per event function: worst deviation)
            if sol.continuous_sol.is_some() {
                for (i, (tev, yev)) in sol.t_events.iter().zip(sol.y_events.iter()).enumerate() {
                    let mut maxdev = 0.0f64;
                    let mut fails = 0usize;
                    for (te, ye) in tev.iter().zip(yev.iter()) {
                        match sol.sol(*te) {
                            Ok(v) => {
                                for (a, b) in v.iter().zip(ye.iter()) {
                                    let dlt = (a - b).abs();
                                    if dlt > maxdev || dlt.is_nan() {
                                        maxdev = dlt;
                                    }
                                }
                                if std::env::var("IVPH_DEBUG").is_ok() {
                                    if let Ok(g) = std::env::var("IVPH_GRID") {
                                        let w: f64 = g.parse().unwrap();
                                        let mut prev = true;
                                        for k in -2000i32..=2000 {
                                            let tt = *te + w * (k as f64) / 2000.0;
                                            let ok = sol.sol(tt).is_ok();
                                            if ok != prev { eprintln!("  grid: at t={:e} (k={}) sol ok -> {}", tt, k, ok); prev = ok; }
                                        }
                                    }
                                    eprintln!("evsol-debug ev={} te={:e} ye={:?} sol={:?} before={:?} after={:?}", i, te, ye, v, sol.sol(*te * (1.0 - 1e-9)), sol.sol(*te * (1.0 + 1e-9)));
                                }
                            }
                            Err(_) => fails += 1,
                        }
                    }
                    out.push_str(&format!("evsol {} fails={} maxdev={}\n", i, fails, hx(maxdev)));
                }
            }
            for q in &query {
                match sol.sol(*q) {
                    Ok(v) => out.push_str(&format!("sol {} ok {}\n", hx(*q), hxlist(&v))),
                    Err(Error::Interpolation(InterpolationError::NotEnabled)) => {
                        out.push_str(&format!("sol {} notenabled\n", hx(*q)))
                    }
                    Err(_) => out.push_str(&format!("sol {} outofrange\n", hx(*q))),
                }
            }
            // sol_many: the queries sol() answers, in the given and in the reversed order, and the whole list
            let okq: Vec<f64> = query.iter().cloned().filter(|q| sol.sol(*q).is_ok()).collect();
            let rev: Vec<f64> = okq.iter().rev().cloned().collect();
            for (tag, list, each) in [("f", &okq, true), ("r", &rev, true), ("a", &query, false)] {
                match sol.sol_many(list) {
                    Ok(vs) => {
                        if each {
                            for (t, v) in list.iter().zip(vs.iter()) {
                                out.push_str(&format!("solm {} {} ok {}\n", tag, hx(*t), hxlist(v)));
                            }
                        } else {
                            out.push_str(&format!("solm {} ok {}\n", tag, vs.len()));
                        }
                    }
                    Err(Error::Interpolation(InterpolationError::NotEnabled)) => out.push_str(&format!("solm {} notenabled\n", tag)),
                    Err(Error::Interpolation(InterpolationError::OutOfRange { t, .. })) => {
                        out.push_str(&format!("solm {} outofrange {}\n", tag, hx(t)))
                    }
                    Err(_) => out.push_str(&format!("solm {} error\n", tag)),
                }
            }
        }
    }
    out
}

fn defaults_line() -> String {
    // builder defaults of every method, as the implementation has them now
    let d5 = DOPRI5::builder().build();
    let d8 = DOP853::builder().build();
    let r23 = RK23::builder().build();
    let mut s = String::new();
    s.push_str(&format!(
        "defaults DOPRI5 {} nstiff={} maxsteps={}\n",
        hxlist(&[d5.uround, d5.safety_factor, d5.scale_min, d5.scale_max, d5.beta]),
        d5.stiff_test,
        d5.max_steps
    ));
    s.push_str(&format!(
        "defaults DOP853 {} nstiff={} maxsteps={}\n",
        hxlist(&[d8.uround, d8.safety_factor, d8.scale_min, d8.scale_max, d8.beta]),
        d8.stiff_test,
        d8.max_steps
    ));
    s.push_str(&format!(
        "defaults RK23 {} nstiff=0 maxsteps={}\n",
        hxlist(&[r23.safety_factor, r23.scale_min, r23.scale_max]),
        r23.max_steps
    ));
    s.push_str(&format!("defaults RK4 {} nstiff=0 maxsteps={}\n", "", RK4::builder().build().max_steps));
    s.push_str(&lowlevel::implicit_defaults());
    s
}

fn main() {
    let args: Vec<String> = std::env::args().collect();
    // silence panic messages (they are part of the compared behaviour, printed as `panic`)
    std::panic::set_hook(Box::new(|_| {}));
    if args.len() > 1 && args[1] == "defaults" {
        print!("{}", defaults_line());
        return;
    }
    let stdin = io::stdin();
    let stdout = io::stdout();
    let mut w = io::BufWriter::new(stdout.lock());
    for line in stdin.lock().lines() {
        let line = line.unwrap();
        if line.trim().is_empty() || line.starts_with('#') {
            continue;
        }
        let (kind, kv) = parse_kv(&line);
        let id = kv.get("id").cloned().unwrap_or_default();
        writeln!(w, "case {}", id).unwrap();
        let body = match kind.as_str() {
            "solve" => run_solve(&kv),
            "lowlevel" => lowlevel::run(&kv),
            "matrix" => mat::run_matrix(&kv),
            "lu" => mat::run_lu(&kv),
            "luc" => mat::run_luc(&kv),
            _ => "unknown-kind\n".to_string(),
        };
        w.write_all(body.as_bytes()).unwrap();
        writeln!(w, "end").unwrap();
    }
}
