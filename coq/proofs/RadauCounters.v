(* C18 for the Radau model: nfev = number of logged right-hand-side evaluations (those made while differencing a
   Jacobian are made inside `jacf` and are not logged), njev = number of logged Jacobian evaluations;
   for ANY right-hand side, Jacobian function, mass matrix, callback and number type. *)
Require Import List ZArith Bool Lia.
Require Import IVP.model.Lit IVP.model.Ops IVP.model.Vec IVP.model.Common IVP.model.LU IVP.model.LUc IVP.model.Radau.
Import ListNotations.

Section Counters.
  Context {F : Type} (O : Ops F) {H : Type}.
  Variable P : params (F:=F).
  Variable n : nat.
  Variable f : F -> list F -> list F.
  Variable jacf : F -> list F -> nat -> nat -> F.
  Variable mass : nat -> nat -> F.
  Variables (atolv rtolv : list F) (newton_tol xend posneg hmax hmin : F).
  Variable cb : H -> F -> F -> list F -> option (list F * F * F) -> H * flag F * list F.

  Definition counted (st : stats) (log jl : list (F * list F)) : Prop :=
    nfev st = N.of_nat (length log) /\ njev st = N.of_nat (length jl).

  Lemma counted_fev st log jl c : counted st log jl -> counted (add_fev st 1) (c :: log) jl.
  Proof. unfold counted. intros [A B]. cbn [nfev njev add_fev length]. split; [lia|exact B]. Qed.
  Lemma counted_fevs st log jl cs :
    counted st log jl -> counted (add_fev st (N.of_nat (length cs))) (cs ++ log) jl.
  Proof. unfold counted. intros [A B]. cbn [nfev njev add_fev]. rewrite app_length. split; [lia|exact B]. Qed.
  Lemma counted_jev st log jl c : counted st log jl -> counted (add_jev st 1) log (c :: jl).
  Proof. unfold counted. intros [A B]. cbn [nfev njev add_jev length]. split; [exact A|lia]. Qed.
  Lemma counted_lu st log jl k : counted st log jl -> counted (add_lu st k) log jl.
  Proof. exact (fun x => x). Qed.
  Lemma counted_step st log jl : counted st log jl -> counted (add_step st) log jl.
  Proof. exact (fun x => x). Qed.
  Lemma counted_acc st log jl : counted st log jl -> counted (add_acc st) log jl.
  Proof. exact (fun x => x). Qed.
  Lemma counted_rej st log jl : counted st log jl -> counted (add_rej st) log jl.
  Proof. exact (fun x => x). Qed.

  Notation step := (step O P n f jacf mass atolv rtolv newton_tol xend posneg hmax hmin cb).

  Definition out_counted (o : state (F:=F) H + result (F:=F) H) : Prop :=
    match o with
    | inl s' => counted (s_stats H s') (s_log H s') (s_jaclog H s')
    | inr r => counted (r_stats r) (r_log r) (r_jaclog r)
    end.

  Lemma halve_counted s st log jl jac e1 e2 d :
    counted st log jl -> out_counted (halve O s st log jl jac e1 e2 d).
  Proof. intros Hc. unfold halve. destruct (N.ltb _ _); exact Hc. Qed.

  Hint Resolve counted_fev counted_fevs counted_jev counted_lu counted_step counted_acc counted_rej : cnt.

  Ltac fin := cbn [s_stats s_log s_jaclog r_stats r_log r_jaclog out_counted]; auto 30 with cnt.

  Ltac nxt := cbv beta iota; cbn [out_counted s_stats s_log s_jaclog r_stats r_log r_jaclog].
  (* split on the scrutinee at the head of the term, innermost first *)
  Ltac hd :=
    match goal with
    | |- out_counted (if ?c then _ else _) => destruct c
    | |- out_counted (match (if ?c then _ else _) with _ => _ end) => destruct c
    | |- out_counted (match (match ?c with _ => _ end) with _ => _ end) => destruct c
    | |- out_counted (match ?c with _ => _ end) => destruct c
    end; nxt.

  Lemma step_counted s :
    counted (s_stats H s) (s_log H s) (s_jaclog H s) -> out_counted (step s).
  Proof.
    intros Hc. unfold Radau.step, halve, build_e2. cbv zeta. nxt.
    repeat hd. all: fin.
  Qed.

  Theorem loop_counted fuel s r :
    counted (s_stats H s) (s_log H s) (s_jaclog H s) ->
    loop O P n f jacf mass atolv rtolv newton_tol xend posneg hmax hmin cb fuel s = Some r ->
    counted (r_stats r) (r_log r) (r_jaclog r).
  Proof.
    revert s. induction fuel as [|k IH]; intros s Hc Hl; [discriminate|].
    cbn [loop] in Hl. pose proof (step_counted s Hc) as Hs.
    destruct (step s) as [s'|r'].
    - eapply IH; eauto.
    - now inversion Hl; subst.
  Qed.
End Counters.

(* the whole solver: nfev and njev of the result count the logged evaluations *)
Theorem solve_counted {F : Type} (O : Ops F) {H : Type} (P : params) f jacf mass x0 y0 xend rtol atol
        (cb : H -> F -> F -> list F -> option (list F * F * F) -> H * flag F * list F) cb0 fuel r :
  solve O P f jacf mass x0 y0 xend rtol atol cb cb0 fuel = Some r ->
  nfev (r_stats r) = N.of_nat (length (r_log r)) /\ njev (r_stats r) = N.of_nat (length (r_jaclog r)).
Proof.
  unfold solve.
  repeat match goal with |- (if ?c then None else _) = Some _ -> _ => destruct c; [discriminate|] end.
  cbv zeta.
  destruct (cb cb0 x0 x0 y0 None) as [[cbs fl] y].
  destruct fl; intros E; try (inversion E; subst; split; reflexivity);
    (eapply loop_counted; [|exact E]); cbn [s_stats s_log s_jaclog]; split; reflexivity.
Qed.
