Require Import List Lia.
Require Import IVP.model.Lit IVP.model.Ops IVP.model.Vec IVP.model.RK.
Import ListNotations.

Section RKFacts.
  Context {F : Type} (O : Ops F).

  Lemma run_stages_calls f x h y sts : forall ks calls,
    length (snd (run_stages O f x h y sts ks calls)) = length calls + length sts.
  Proof.
    induction sts as [|s r IH]; intros ks calls; simpl; [lia|].
    rewrite IH, app_length. simpl. lia.
  Qed.

  Lemma run_stages_ks f x h y sts : forall ks calls,
    length (fst (run_stages O f x h y sts ks calls)) = length ks + length sts.
  Proof.
    induction sts as [|s r IH]; intros ks calls; simpl; [lia|].
    rewrite IH, app_length. simpl. lia.
  Qed.

  (* every logged evaluation time is a stage time of the tableau *)
  Lemma run_stages_times f x h y sts : forall ks calls,
    map fst (snd (run_stages O f x h y sts ks calls)) =
    map fst calls ++ map (fun s => stage_time O x h (st_c s)) sts.
  Proof.
    induction sts as [|s r IH]; intros ks calls; simpl; [now rewrite app_nil_r|].
    rewrite IH, map_app, <- app_assoc. reflexivity.
  Qed.
End RKFacts.
