(* C17: the Matrix model denotes the same mathematical matrix whatever the storage.
   Generic over the number type; the two theorems about sums use only the law 0 + x = x. *)
Require Import List Arith Bool Lia.
Require Import IVP.model.Lit IVP.model.Ops IVP.model.Matrix.
Import ListNotations.

Section Facts.
  Context {F : Type} (O : Ops F).
  Notation matrix := (matrix (F:=F)).

  Lemma nth_error_repeat (z : F) k idx : idx < k -> nth_error (repeat z k) idx = Some z.
  Proof. revert idx; induction k as [|k IH]; intros [|idx] H; simpl; try lia; auto. apply IH. lia. Qed.

  Lemma nth_error_tabulate {A} (f : nat -> A) k idx : idx < k -> nth_error (tabulate k f) idx = Some (f idx).
  Proof.
    intros H. unfold tabulate. rewrite nth_error_map. 
    replace (nth_error (seq 0 k) idx) with (Some idx); [reflexivity|].
    symmetry. rewrite (nth_error_nth' _ 0) by (rewrite seq_length; exact H). now rewrite seq_nth.
  Qed.

  Lemma full_idx_lt n m i j : i < n -> j < m -> i * m + j < n * m.
  Proof.
    intros Hi Hj. assert (H : S i * m <= n * m) by (apply Nat.mul_le_mono_r; lia). simpl in H. lia.
  Qed.

  Lemma band_idx_lt n ml mu i j : j < n -> in_band ml mu i j = true -> band_idx n mu i j < (ml + mu + 1) * n.
  Proof.
    unfold in_band, band_idx. intros Hj H. apply andb_true_iff in H. destruct H as [A B].
    apply Nat.leb_le in A. apply Nat.leb_le in B.
    assert (Hk : i + mu - j <= ml + mu) by lia.
    assert (Hm : (i + mu - j) * n + j < (i + mu - j) * n + n) by lia.
    assert (Hn : (i + mu - j) * n + n <= (ml + mu) * n + n) by (apply Nat.add_le_mono_r, Nat.mul_le_mono_r; exact Hk).
    lia.
  Qed.

  Lemma full_idx_inj m i j i' j' : j < m -> j' < m -> i * m + j = i' * m + j' -> i = i' /\ j = j'.
  Proof.
    intros Hj Hj' E.
    assert (Hd : (i * m + j) / m = (i' * m + j') / m) by now rewrite E.
    assert (Hm : m <> 0) by lia.
    rewrite !Nat.div_add_l, !Nat.div_small in Hd by assumption. split; lia.
  Qed.

  (* distinct in-band entries occupy distinct cells of the compact band storage *)
  Lemma band_idx_inj m ml mu i j i' j' :
    j < m -> j' < m -> in_band ml mu i j = true -> in_band ml mu i' j' = true ->
    band_idx m mu i j = band_idx m mu i' j' -> i = i' /\ j = j'.
  Proof.
    unfold in_band, band_idx. intros Hj Hj' H H' E.
    apply andb_true_iff in H. destruct H as [A B]. apply andb_true_iff in H'. destruct H' as [A' B'].
    apply Nat.leb_le in A. apply Nat.leb_le in B. apply Nat.leb_le in A'. apply Nat.leb_le in B'.
    remember (i + mu - j) as k. remember (i' + mu - j') as k'.
    assert (Hkj : k = k' /\ j = j') by (apply (full_idx_inj m); assumption).
    destruct Hkj; subst. split; lia.
  Qed.

  (* ---------------- every constructor yields a matrix all of whose entries can be read ---------------- *)
  Theorem get_identity n i j : i < n -> j < n -> get O (identity O n) i j = Some (if i =? j then one O else zero O).
  Proof.
    intros Hi Hj. unfold get, identity. cbn [m_n m_m m_st m_data].
    apply Nat.ltb_lt in Hi. apply Nat.ltb_lt in Hj. rewrite Hi, Hj. cbn. destruct (i =? j); reflexivity.
  Qed.

  Theorem get_zeros n m i j : i < n -> j < m -> get O (zeros O n m) i j = Some (zero O).
  Proof.
    intros Hi Hj. unfold get, zeros, zeros_list. cbn [m_n m_m m_st m_data].
    pose proof (full_idx_lt n m i j Hi Hj). apply Nat.ltb_lt in Hi. apply Nat.ltb_lt in Hj. rewrite Hi, Hj. cbn.
    now apply nth_error_repeat.
  Qed.

  Theorem get_full_ctor n m i j : i < n -> j < m -> get O (full O n m) i j = Some (zero O).
  Proof. exact (get_zeros n m i j). Qed.

  (* after "fix: Matrix::square allocates its n*n zero entries" (the pinned tree had an empty store: F11) *)
  Theorem get_square n i j : i < n -> j < n -> get O (square O n) i j = Some (zero O).
  Proof. exact (get_zeros n n i j). Qed.

  Theorem get_banded n ml mu i j : i < n -> j < n -> get O (banded O n ml mu) i j = Some (zero O).
  Proof.
    intros Hi Hj. unfold get, banded, zeros_list. cbn [m_n m_m m_st m_data].
    assert (Hi' := Hi). assert (Hj' := Hj). apply Nat.ltb_lt in Hi'. apply Nat.ltb_lt in Hj'. rewrite Hi', Hj'. cbn [andb].
    destruct (in_band ml mu i j) eqn:E; [|reflexivity].
    apply nth_error_repeat. now apply band_idx_lt.
  Qed.

  Theorem get_lower_triangular n i j : i < n -> j < n -> get O (lower_triangular O n) i j = Some (zero O).
  Proof. apply get_banded. Qed.
  Theorem get_upper_triangular n i j : i < n -> j < n -> get O (upper_triangular O n) i j = Some (zero O).
  Proof. apply get_banded. Qed.

  Theorem get_diagonal d i j :
    i < length d -> j < length d -> get O (diagonal d) i j = Some (if i =? j then nth i d (zero O) else zero O).
  Proof.
    intros Hi Hj. unfold get, diagonal. cbn [m_n m_m m_st m_data].
    assert (Hi' := Hi). assert (Hj' := Hj). apply Nat.ltb_lt in Hi'. apply Nat.ltb_lt in Hj'. rewrite Hi', Hj'. cbn [andb].
    unfold in_band, band_idx. destruct (i =? j) eqn:E.
    - apply Nat.eqb_eq in E. subst j.
      replace (i <=? i + 0) with true by (symmetry; apply Nat.leb_le; lia). cbn [andb].
      replace ((i + 0 - i) * length d + i) with i by nia. now apply nth_error_nth'.
    - apply Nat.eqb_neq in E.
      destruct (j <=? i + 0) eqn:A; destruct (i <=? j + 0) eqn:B; cbn [andb]; try reflexivity.
      apply Nat.leb_le in A. apply Nat.leb_le in B. lia.
  Qed.

  Theorem get_from_vec n m d A i j :
    from_vec n m d = Some A -> i < n -> j < m -> get O A i j = Some (nth (i * m + j) d (zero O)).
  Proof.
    unfold from_vec. destruct (length d =? n * m) eqn:E; [|discriminate]. intros H Hi Hj. inversion H; subst A. clear H.
    apply Nat.eqb_eq in E. unfold get. cbn [m_n m_m m_st m_data].
    pose proof (full_idx_lt n m i j Hi Hj). apply Nat.ltb_lt in Hi. apply Nat.ltb_lt in Hj. rewrite Hi, Hj. cbn.
    apply nth_error_nth'. lia.
  Qed.

  (* reads outside the shape panic *)
  Theorem get_out_of_shape A i j : m_n A <= i \/ m_m A <= j -> get O A i j = None.
  Proof.
    intros H. unfold get. destruct (i <? m_n A) eqn:A1; destruct (j <? m_m A) eqn:A2; cbn [andb]; try reflexivity.
    apply Nat.ltb_lt in A1. apply Nat.ltb_lt in A2. lia.
  Qed.

  (* off-band reads of a banded matrix are zero *)
  Theorem get_off_band A ml mu i j :
    m_st A = SBanded ml mu -> i < m_n A -> j < m_m A -> in_band ml mu i j = false -> get O A i j = Some (zero O).
  Proof.
    intros Hs Hi Hj Hb. unfold get. apply Nat.ltb_lt in Hi. apply Nat.ltb_lt in Hj. rewrite Hi, Hj, Hs. cbn [andb]. now rewrite Hb.
  Qed.

  (* ---------------- writes ---------------- *)
  Lemma set_nth_spec (l : list F) k v l' : set_nth l k v = Some l' ->
    length l' = length l /\ forall k', nth_error l' k' = if k' =? k then Some v else nth_error l k'.
  Proof.
    revert k l'; induction l as [|a r IH]; intros [|k] l' H; simpl in H; try discriminate.
    - inversion H; subst. split; [reflexivity|]. intros [|k']; reflexivity.
    - destruct (set_nth r k v) as [r'|] eqn:E; [|discriminate]. inversion H; subst.
      destruct (IH k r' E) as [Hl Hn]. split; [simpl; lia|]. intros [|k']; simpl; [reflexivity|apply Hn].
  Qed.

  Theorem set_identity_panics (A : matrix) i j v : m_st A = SIdentity -> Matrix.set A i j v = None.
  Proof. intros H. unfold set. rewrite H. destruct (_ && _); reflexivity. Qed.

  Theorem set_off_band_panics (A : matrix) ml mu i j v : m_st A = SBanded ml mu -> in_band ml mu i j = false -> Matrix.set A i j v = None.
  Proof. intros H Hb. unfold set. rewrite H, Hb. destruct (_ && _); reflexivity. Qed.

  (* a successful write updates exactly the addressed entry (Full and Banded) *)
  Theorem get_set (A : matrix) i j v A' i' j' :
    Matrix.set A i j v = Some A' -> i' < m_n A -> j' < m_m A ->
    get O A' i' j' = if (i' =? i) && (j' =? j) then Some v else get O A i' j'.
  Proof.
    unfold set. destruct ((i <? m_n A) && (j <? m_m A)) eqn:Eb; [|discriminate].
    apply andb_true_iff in Eb. destruct Eb as [Hi Hj]. apply Nat.ltb_lt in Hi. apply Nat.ltb_lt in Hj.
    intros H Hi' Hj'.
    destruct (m_st A) as [| |ml mu] eqn:Es; [discriminate| |].
    - destruct (set_nth (m_data A) (i * m_m A + j) v) as [d|] eqn:E; [|discriminate]. inversion H; subst A'. clear H.
      destruct (set_nth_spec _ _ _ _ E) as [_ Hn].
      unfold get. cbn [m_n m_m m_st m_data]. rewrite Es.
      assert (A1 := Hi'). assert (A2 := Hj'). apply Nat.ltb_lt in A1. apply Nat.ltb_lt in A2. rewrite A1, A2. cbn [andb].
      rewrite Hn. destruct ((i' =? i) && (j' =? j)) eqn:Eq.
      + apply andb_true_iff in Eq. destruct Eq as [E1 E2]. apply Nat.eqb_eq in E1. apply Nat.eqb_eq in E2. subst.
        now rewrite Nat.eqb_refl.
      + destruct (i' * m_m A + j' =? i * m_m A + j) eqn:Ek; [|reflexivity].
        apply Nat.eqb_eq in Ek. apply full_idx_inj in Ek; [|assumption|assumption]. destruct Ek; subst.
        rewrite !Nat.eqb_refl in Eq. discriminate.
    - destruct (in_band ml mu i j) eqn:Ein; [|discriminate].
      destruct (set_nth (m_data A) (band_idx (m_m A) mu i j) v) as [d|] eqn:E; [|discriminate]. inversion H; subst A'. clear H.
      destruct (set_nth_spec _ _ _ _ E) as [_ Hn].
      unfold get. cbn [m_n m_m m_st m_data]. rewrite Es.
      assert (A1 := Hi'). assert (A2 := Hj'). apply Nat.ltb_lt in A1. apply Nat.ltb_lt in A2. rewrite A1, A2. cbn [andb].
      destruct ((i' =? i) && (j' =? j)) eqn:Eq.
      + apply andb_true_iff in Eq. destruct Eq as [E1 E2]. apply Nat.eqb_eq in E1. apply Nat.eqb_eq in E2. subst.
        rewrite Ein, Hn. now rewrite Nat.eqb_refl.
      + destruct (in_band ml mu i' j') eqn:Ein'; [|reflexivity].
        rewrite Hn. destruct (band_idx (m_m A) mu i' j' =? band_idx (m_m A) mu i j) eqn:Ek; [|reflexivity].
        apply Nat.eqb_eq in Ek. apply (band_idx_inj (m_m A) ml mu) in Ek; try assumption. destruct Ek; subst.
        rewrite !Nat.eqb_refl in Eq. discriminate.
  Qed.
End Facts.
