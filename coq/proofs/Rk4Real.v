(* C03 / C11 for the fixed-step RK4 skeleton in real arithmetic, for ANY kernel, right-hand side and
   callback: abscissae move strictly toward xend by exactly h, except the last step, which is the
   remaining distance (less than 1.01 |h|) and lands on xend; Success is reported exactly there. *)
Require Import Reals Lra List ZArith Bool QArith Qreals.
Require Import IVP.model.Lit IVP.model.Ops IVP.model.Vec IVP.model.Common IVP.model.RK IVP.model.Rk4
               IVP.model.RealOps IVP.gen.Inline.
Import ListNotations.
Local Open Scope R_scope.

Lemma lit_1_01' : lit Rops L1_01 = 101 / 100.
Proof. cbn. unfold Q2R. simpl. lra. Qed.

Section Real.
  Context {H : Type}.
  Variable P : params.
  Variable f : R -> list R -> list R.
  Variables (xend h : R).
  Variable cb : H -> R -> R -> list R -> option (list R * R * R) -> H * flag R * list R.
  Variable kern : R -> list R -> list R -> R -> attempt (F:=R).

  Hypothesis Hh : h <> 0.
  Notation sg := (Rsignum h).
  Notation step := (step Rops P f xend h cb kern).

  Lemma sg_cases : (sg = 1 /\ 0 < h) \/ (sg = -1 /\ h < 0).
  Proof. unfold Rsignum. destruct (Rle_dec 0 h); [left|right]; split; lra. Qed.

  Definition Inv (s : state H) : Prop := 0 < (xend - s_x s) * sg.

  (* the step attempted from x *)
  Definition htry (x : R) : R :=
    if Rltb 0 ((x + 101 / 100 * h - xend) * sg) then xend - x else h.

  Theorem step_discipline s :
    Inv s ->
    0 < htry (s_x s) * sg /\ Rabs (htry (s_x s)) < 101 / 100 * Rabs h /\
    match step s with
    | inl s' => Inv s' /\ s_x s' = s_x s + h
    | inr r => (r_status r = NeedLargerNMax /\ r_x r = s_x s) \/
               (r_x r = s_x s + htry (s_x s) /\ 0 <= (xend - r_x r) * sg /\
                (r_status r = Success \/ r_status r = UserInterrupt) /\
                (r_status r = Success -> r_x r = xend))
    end.
  Proof.
    intros Hx. unfold Inv in Hx.
    assert (Hs1 : 0 < htry (s_x s) * sg /\ Rabs (htry (s_x s)) < 101 / 100 * Rabs h).
    { unfold htry. destruct (Rltb 0 _) eqn:E; [apply Rltb_true in E|apply Rltb_false in E];
        destruct sg_cases as [[Es Hp]|[Es Hp]]; rewrite Es in *.
      - split; [lra|]. rewrite !Rabs_right; lra.
      - split; [lra|]. rewrite !Rabs_left; lra.
      - split; [lra|]. rewrite !Rabs_right; lra.
      - split; [lra|]. rewrite !Rabs_left; lra. }
    destruct Hs1 as [Hs1 Hs2]. split; [exact Hs1|]. split; [exact Hs2|].
    unfold Rk4.step. destruct (N.leb _ _); [left; split; reflexivity|].
    rewrite lit_1_01'. cbn [ltb mul sub add zero Rops signum].
    fold (htry (s_x s)).
    set (a := kern _ _ _ _).
    destruct (cb _ _ _ _ _) as [[cbs fl] ycb].
    assert (Hgen : forall k1 st lg,
       match (if Rltb 0 ((s_x s + 101 / 100 * h - xend) * sg)
              then inr (mkR Success (htry (s_x s)) st (s_x s + htry (s_x s)) ycb lg cbs)
              else inl (mkS (s_x s + htry (s_x s)) ycb k1 st lg cbs)) : state H + result H with
       | inl s' => Inv s' /\ s_x s' = s_x s + h
       | inr r => (r_status r = NeedLargerNMax /\ r_x r = s_x s) \/
                  (r_x r = s_x s + htry (s_x s) /\ 0 <= (xend - r_x r) * sg /\
                   (r_status r = Success \/ r_status r = UserInterrupt) /\
                   (r_status r = Success -> r_x r = xend))
       end).
    { intros k1 st lg. unfold htry. destruct (Rltb 0 _) eqn:E.
      - right. cbn [r_x r_status]. split; [reflexivity|].
        replace (s_x s + (xend - s_x s)) with xend by ring. split; [lra|]. split; [now left|reflexivity].
      - apply Rltb_false in E. unfold Inv. cbn [s_x]. split; [|reflexivity].
        destruct sg_cases as [[Es Hp]|[Es Hp]]; rewrite Es in *; lra. }
    destruct fl; try apply Hgen.
    right. cbn [r_x r_status]. split; [reflexivity|]. split.
    - unfold htry. destruct (Rltb 0 _) eqn:E; [replace (s_x s + (xend - s_x s)) with xend by ring; lra|].
      apply Rltb_false in E. destruct sg_cases as [[Es Hp]|[Es Hp]]; rewrite Es in *; lra.
    - split; [now right|discriminate].
  Qed.

  Theorem loop_discipline fuel s r :
    Inv s -> loop Rops P f xend h cb kern fuel s = Some r ->
    0 <= (xend - r_x r) * sg /\ 0 <= (r_x r - s_x s) * sg /\ (r_status r = Success -> r_x r = xend).
  Proof.
    revert s. induction fuel as [|k IH]; intros s Hi Hl; [discriminate|].
    simpl in Hl. destruct (step_discipline s Hi) as [Hs1 [_ Hs]].
    destruct (step s) as [s'|r'].
    - destruct Hs as [Hi' Hm]. specialize (IH s' Hi' Hl).
      destruct IH as [A [B C]]. repeat split; try assumption. rewrite Hm in B.
      assert (0 < h * sg) by (destruct sg_cases as [[Es Hp]|[Es Hp]]; rewrite Es; lra).
      replace ((r_x r - s_x s) * sg) with ((r_x r - (s_x s + h)) * sg + h * sg) by ring. lra.
    - inversion Hl; subst r'. unfold Inv in Hi. destruct Hs as [[Hst Hxr]|[Hxr [He [Hst Hsx]]]].
      + rewrite Hxr. repeat split; try lra. rewrite Hst. discriminate.
      + repeat split; try assumption. rewrite Hxr. replace (s_x s + htry (s_x s) - s_x s) with (htry (s_x s)) by ring. lra.
  Qed.
End Real.
