(* C03 for the BDF model, honest status: Success is reported only when the abscissa has reached xend.
   Real-number semantics; ANY right-hand side, Jacobian, callback, tolerances, parameters; direction = +-1. *)
Require Import List ZArith Bool Lia Reals Lra QArith Qreals.
Require Import IVP.gen.Inline.
Require Import IVP.model.Lit IVP.model.Ops IVP.model.Vec IVP.model.Common IVP.model.LU IVP.model.Bdf IVP.model.RealOps.
Import ListNotations.
Local Open Scope R_scope.

Section Status.
  Context {H : Type}.
  Variable P : params (F:=R).
  Variable n : nat.
  Variable f : R -> list R -> list R.
  Variable jacf : R -> list R -> nat -> nat -> R.
  Variables (atolv rtolv : list R) (newton_tol : R) (maxiter : nat) (xend direction hmax hmin : R).
  Variable cb : H -> R -> R -> list R -> option (list R * R * R) -> H * flag R * list R.
  Hypothesis Hdir : direction = 1 \/ direction = -1.
  Notation step := (step Rops P n f jacf atolv rtolv newton_tol maxiter xend direction hmax hmin cb).

  Definition out_ok (o : state (F:=R) H + result (F:=R) H) : Prop :=
    match o with
    | inl _ => True
    | inr r => r_status r = Success -> r_x r = xend
    end.

  Ltac nxt := cbv beta iota.
  Ltac hd :=
    match goal with
    | |- out_ok (if ?c then _ else _) => destruct c eqn:?
    | |- out_ok (match (if ?c then _ else _) with _ => _ end) => destruct c eqn:?
    | |- out_ok (match (match ?c with _ => _ end) with _ => _ end) => destruct c
    | |- out_ok (match ?c with _ => _ end) => destruct c
    end; nxt.
  Ltac facts :=
    repeat match goal with
           | E : (_ && _) = true |- _ => apply andb_true_iff in E; destruct E
           | E : (_ || _) = true |- _ => apply orb_true_iff in E; destruct E
           | E : (_ || _) = false |- _ => apply orb_false_iff in E; destruct E
           | E : negb _ = true |- _ => apply negb_true_iff in E
           | E : ltb Rops _ _ = true |- _ => cbn [ltb Rops] in E; apply Rltb_true in E
           | E : ltb Rops _ _ = false |- _ => cbn [ltb Rops] in E; apply Rltb_false in E
           | E : leb Rops _ _ = true |- _ => cbn [leb Rops] in E; apply Rleb_true in E
           | E : leb Rops _ _ = false |- _ => cbn [leb Rops] in E; apply Rleb_false in E
           | E : eqb Rops _ _ = true |- _ => cbn [eqb Rops] in E; apply Reqb_true in E
           end.

  Lemma step_status s : out_ok (step s).
  Proof.
    unfold Bdf.step, retry, hres. cbv zeta. nxt.
    repeat hd.
    all: cbv beta iota delta [out_ok r_status r_x]; try exact I; intros E; try discriminate E.
    all: facts; cbn [add sub mul abs zero Rops] in *.
    (* `beside` never holds over the reals: rest <> 0 and x_new + rest / 10 = x_new *)
    all: try (match goal with
              | Hb : eqb Rops ?r 0 = false, He : (?a + lit Rops L0_1 * ?r)%R = ?a |- _ =>
                  exfalso; cbn [eqb Rops] in Hb;
                  assert (Hr : r = 0%R) by (cbn [lit Rops lit_q L0_1] in He; unfold Q2R in He; cbn in He; lra);
                  rewrite Hr in Hb; unfold Reqb in Hb; destruct (Req_EM_T 0 0) as [_|ne]; [discriminate Hb|apply ne; reflexivity]
              end).
    all: try (match goal with Ha : Rabs (xend - ?x) = 0 |- ?x = xend =>
                destruct (Req_dec x xend) as [e|ne]; [exact e|];
                exfalso; apply (Rabs_no_R0 (xend - x)); [lra|exact Ha] end).
    all: destruct Hdir as [Hd|Hd]; rewrite Hd in *; lra.
  Qed.

  Theorem loop_status fuel s r :
    loop Rops P n f jacf atolv rtolv newton_tol maxiter xend direction hmax hmin cb fuel s = Some r ->
    r_status r = Success -> r_x r = xend.
  Proof.
    revert s. induction fuel as [|k IH]; intros s Hl; [discriminate|].
    cbn [loop] in Hl. pose proof (step_status s) as Hs. destruct (step s) as [s'|r'].
    - eapply IH; eauto.
    - inversion Hl; subst. exact Hs.
  Qed.
End Status.

(* the whole low-level solver (a non-empty state vector; the empty one is answered without integrating) *)
Theorem solve_status {H : Type} (P : params (F:=R)) f jacf x0 y0 xend rtol atol
        (cb : H -> R -> R -> list R -> option (list R * R * R) -> H * flag R * list R) cb0 fuel r :
  y0 <> [] ->
  solve Rops P f jacf x0 y0 xend rtol atol cb cb0 fuel = Some r ->
  r_status r = Success -> r_x r = xend.
Proof.
  intros Hy. unfold solve. cbv zeta.
  destruct (Nat.eqb (length y0) 0) eqn:E0; [apply PeanoNat.Nat.eqb_eq in E0; destruct y0; [contradiction|discriminate]|].
  repeat match goal with |- (if ?c then None else _) = Some _ -> _ => destruct c; [discriminate|] end.
  destruct (match p_first_step P with Some _ => _ | None => _ end) as [[[habs st] lg]|]; [|discriminate].
  destruct (cb cb0 x0 x0 y0 None) as [[cbs fl] y].
  assert (Hd : signum Rops (sub Rops xend x0) = 1 \/ signum Rops (sub Rops xend x0) = -1).
  { cbn [signum Rops]. unfold Rsignum. destruct (Rle_dec 0 _); [left|right]; reflexivity. }
  destruct fl; intros E; try (inversion E; subst; cbn [r_status]; discriminate);
    (eapply loop_status; [exact Hd|exact E]).
Qed.
