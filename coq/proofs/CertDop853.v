(* Order certificates for DOP853 (30-digit decimal coefficients): scaled-integer elementary weights. *)
Require Import List ZArith QArith Qcanon Lia.
Require Import IVP.model.Lit IVP.model.RK IVP.model.Trees IVP.model.Vec IVP.model.Order IVP.model.Tableau.
Require Import IVP.proofs.TreesFacts IVP.proofs.OrderFacts IVP.proofs.CertSmall.
Require Import IVP.proofs.ScaleFacts.
Import ListNotations.
Local Open Scope Qc_scope.

(* common denominator of a rational array, and its integer numerators *)
Definition den_lcm (l : list Qc) : Z := fold_right (fun q acc => Z.lcm (Zpos (Qden (this q))) acc) 1%Z l.
Definition toZ (D : Z) (q : Qc) : Z := Qnum (Qred (this q * inject_Z D)).
Definition mat_eqb (A B : list qvec) : bool :=
  Nat.eqb (length A) (length B) && forallb (fun ab => qvec_eqb (fst ab) (snd ab)) (combine A B).
Lemma mat_eqb_correct A B : mat_eqb A B = true -> A = B.
Proof.
  unfold mat_eqb. intros H. apply andb_prop in H. destruct H as [Hl H]. apply Nat.eqb_eq in Hl.
  revert B Hl H. induction A as [|a A IH]; intros [|b B] Hl H; try discriminate; [reflexivity|].
  cbn [combine forallb fst snd] in H. apply andb_prop in H. destruct H as [Hab H].
  apply qvec_eqb_correct in Hab. subst b. f_equal. apply IH; [simpl in Hl; lia|exact H].
Qed.

Module DOP853C.
  Definition A (q : sel) := dense_A q 12 DOP853T.stages12.
  Definition b (q : sel) := dense_row q 12 DOP853T.b.
  Definition er (q : sel) := dense_row q 12 DOP853T.er.
  Definition bh (q : sel) := dense_row q 12 DOP853T.bh.
  Definition c (q : sel) := dense_c q DOP853T.stages12 1.
  (* second estimator: (b - bhh) . k *)
  Definition e2 (q : sel) : qvec := map2 (fun x y => x - y) (b q) (bh q).

  Section Scaled.
    Variable q : sel.
    Definition D : Z := Z.lcm (den_lcm (concat (A q))) (Z.lcm (den_lcm (b q)) (Z.lcm (den_lcm (er q)) (den_lcm (bh q)))).
    Definition Ai : list (list Z) := map (map (toZ D)) (A q).
    Definition bi : list Z := map (toZ D) (b q).
    Definition eri : list Z := map (toZ D) (er q).
    Definition e2i : list Z := map (toZ D) (e2 q).
  End Scaled.
End DOP853C.


(* ---- certificates (vm_compute over Z on the constants regenerated from src/methods/dop853.rs) ---- *)
Module DOP853Cert.
  Import DOP853C.
  Definition leaf := Node [].
  Definition bushy (k : nat) := Node (repeat leaf k).

  Lemma D_pos q : (0 <? D q)%Z = true -> (0 < D q)%Z.
  Proof. apply Z.ltb_lt. Qed.
  Lemma Dlit_pos : (0 < D lit_q)%Z.  Proof. apply D_pos. vm_compute. reflexivity. Qed.
  Lemma Df64_pos : (0 < D f64_q)%Z.  Proof. apply D_pos. vm_compute. reflexivity. Qed.

  (* the rational tableau IS the scaled integer tableau *)
  Lemma A_lit : A lit_q = Aq (Ai lit_q) (D lit_q).
  Proof. apply mat_eqb_correct. vm_compute. reflexivity. Qed.
  Lemma b_lit : b lit_q = bq (bi lit_q) (D lit_q).
  Proof. apply qvec_eqb_correct. vm_compute. reflexivity. Qed.
  Lemma er_lit : er lit_q = map (Qcmult (/ Z2Qc (D lit_q))) (zq (eri lit_q)).
  Proof. apply qvec_eqb_correct. vm_compute. reflexivity. Qed.
  Lemma e2_lit : e2 lit_q = map (Qcmult (/ Z2Qc (D lit_q))) (zq (e2i lit_q)).
  Proof. apply qvec_eqb_correct. vm_compute. reflexivity. Qed.
  Lemma A_f64 : A f64_q = Aq (Ai f64_q) (D f64_q).
  Proof. apply mat_eqb_correct. vm_compute. reflexivity. Qed.
  Lemma b_f64 : b f64_q = bq (bi f64_q) (D f64_q).
  Proof. apply qvec_eqb_correct. vm_compute. reflexivity. Qed.

  Lemma order8 : check_all ZK (Ai lit_q) 12 (zcond_approx (D lit_q) 1 (10^25) (bi lit_q)) 8 = true.
  Proof. vm_compute. reflexivity. Qed.
  Lemma order8_f64 : check_all ZK (Ai f64_q) 12 (zcond_approx (D f64_q) 1 (10^13) (bi f64_q)) 8 = true.
  Proof. vm_compute. reflexivity. Qed.
  Lemma est5 : check_all ZK (Ai lit_q) 12 (zcond_zero_approx (D lit_q) 1 (10^25) (eri lit_q)) 5 = true.
  Proof. vm_compute. reflexivity. Qed.
  Lemma est3 : check_all ZK (Ai lit_q) 12 (zcond_zero_approx (D lit_q) 1 (10^25) (e2i lit_q)) 3 = true.
  Proof. vm_compute. reflexivity. Qed.

  (* row sums: |sum_j a_ij - c_i| <= tol for every stage *)
  Definition rows_close (tol : Qc) (u v : qvec) : bool :=
    Nat.eqb (length u) (length v) && forallb (fun xy => qleb (qabs (fst xy - snd xy)) tol) (combine u v).
  Lemma rowsums : rows_close (Q2Qc (1 # 10^28)) (row_sums (A lit_q)) (c lit_q) = true.
  Proof. vm_compute. reflexivity. Qed.
  Lemma rowsums_f64 : rows_close (Q2Qc (1 # 10^14)) (row_sums (A f64_q)) (c f64_q) = true.
  Proof. vm_compute. reflexivity. Qed.

  Lemma rows_close_spec tol u v :
    rows_close tol u v = true ->
    length u = length v /\ forall i, (i < length u)%nat -> qabs (nth i u 0 - nth i v 0) <= tol.
  Proof.
    unfold rows_close. intros H. apply andb_prop in H. destruct H as [Hl H]. apply Nat.eqb_eq in Hl.
    split; [exact Hl|]. revert v Hl H. induction u as [|x u IH]; intros [|y v] Hl H i Hi; try discriminate;
      cbn [length] in *; [lia|].
    cbn [combine forallb fst snd] in H. apply andb_prop in H. destruct H as [Hxy H].
    destruct i as [|i]; cbn [nth]; [now apply qleb_le|]. apply IH; [lia|exact H|lia].
  Qed.

  (* ---- the next order fails: residuals of the bushy trees, as integers over D^size ---- *)
  Definition t9 : tree := bushy 8.
  Definition t6 : tree := bushy 5.
  Definition t4 : tree := bushy 3.
  Definition M9 : Z := (gamma t9 * kdot ZK (bi lit_q) (Phi ZK (Ai lit_q) 12 t9) - (D lit_q) ^ Z.of_nat (size t9))%Z.
  Definition M6 : Z := kdot ZK (eri lit_q) (Phi ZK (Ai lit_q) 12 t6).
  Definition M4 : Z := kdot ZK (e2i lit_q) (Phi ZK (Ai lit_q) 12 t4).
  Lemma M9_val : (10^8 <=? Z.abs M9 * 10^12 / (D lit_q) ^ 9)%Z = true.      (* |residual| >= 1e-4 *)
  Proof. vm_compute. reflexivity. Qed.
  Lemma M6_val : (10^8 <=? Z.abs M6 * 10^12 / (D lit_q) ^ 6)%Z = true.
  Proof. vm_compute. reflexivity. Qed.
  Lemma M4_val : (10^10 <=? Z.abs M4 * 10^12 / (D lit_q) ^ 4)%Z = true.     (* >= 1e-2 *)
  Proof. vm_compute. reflexivity. Qed.
  Lemma size_t9 : size t9 = 9%nat.  Proof. reflexivity. Qed.
  Lemma size_t6 : size t6 = 6%nat.  Proof. reflexivity. Qed.
  Lemma size_t4 : size t4 = 4%nat.  Proof. reflexivity. Qed.

  (* from here on the big constants are never unfolded by unification / conversion *)
  Global Opaque D Ai bi eri e2i M9 M6 M4 t9 t6 t4.

  Notation iD := (/ Z2Qc (D lit_q)).

  Lemma order8_sound : forall t, (size t <= 8)%nat -> exists M : Z,
      Z2Qc (gamma t) * qdot (b lit_q) (Phi QcK (A lit_q) 12 t) - 1 = iD ^ size t * Z2Qc M /\
      (Z.abs M * 10^25 <= gamma t * 1 * (D lit_q) ^ Z.of_nat (size t))%Z.
  Proof.
    rewrite A_lit, b_lit.
    exact (zcheck_approx_sound (Ai lit_q) (bi lit_q) 12 (D lit_q) Dlit_pos 1 (10^25) 8 order8).
  Qed.
  Lemma order8_f64_sound : forall t, (size t <= 8)%nat -> exists M : Z,
      Z2Qc (gamma t) * qdot (b f64_q) (Phi QcK (A f64_q) 12 t) - 1 = (/ Z2Qc (D f64_q)) ^ size t * Z2Qc M /\
      (Z.abs M * 10^13 <= gamma t * 1 * (D f64_q) ^ Z.of_nat (size t))%Z.
  Proof.
    rewrite A_f64, b_f64.
    exact (zcheck_approx_sound (Ai f64_q) (bi f64_q) 12 (D f64_q) Df64_pos 1 (10^13) 8 order8_f64).
  Qed.
  Lemma est5_sound : forall t, (size t <= 5)%nat -> exists M : Z,
      qdot (er lit_q) (Phi QcK (A lit_q) 12 t) = iD ^ size t * Z2Qc M /\
      (Z.abs M * 10^25 <= 1 * (D lit_q) ^ Z.of_nat (size t))%Z.
  Proof.
    rewrite A_lit, er_lit.
    exact (zcheck_zero_approx_sound (Ai lit_q) 12 (D lit_q) (eri lit_q) 1 (10^25) 5 est5).
  Qed.
  Lemma est3_sound : forall t, (size t <= 3)%nat -> exists M : Z,
      qdot (e2 lit_q) (Phi QcK (A lit_q) 12 t) = iD ^ size t * Z2Qc M /\
      (Z.abs M * 10^25 <= 1 * (D lit_q) ^ Z.of_nat (size t))%Z.
  Proof.
    rewrite A_lit, e2_lit.
    exact (zcheck_zero_approx_sound (Ai lit_q) 12 (D lit_q) (e2i lit_q) 1 (10^25) 3 est3).
  Qed.
  Lemma resid9_eq :
    Z2Qc (gamma t9) * qdot (b lit_q) (Phi QcK (A lit_q) 12 t9) - 1 = iD ^ size t9 * Z2Qc M9.
  Proof.
    rewrite A_lit, b_lit.
    pose proof (cond_value (Ai lit_q) (bi lit_q) 12 (D lit_q) Dlit_pos t9) as H.
    Transparent M9. unfold M9. Opaque M9. exact H.
  Qed.
  Lemma resid6_eq : qdot (er lit_q) (Phi QcK (A lit_q) 12 t6) = iD ^ size t6 * Z2Qc M6.
  Proof.
    rewrite A_lit, er_lit.
    pose proof (zero_value (Ai lit_q) 12 (D lit_q) (eri lit_q) t6) as H.
    Transparent M6. unfold M6. Opaque M6. exact H.
  Qed.
  Lemma resid4_eq : qdot (e2 lit_q) (Phi QcK (A lit_q) 12 t4) = iD ^ size t4 * Z2Qc M4.
  Proof.
    rewrite A_lit, e2_lit.
    pose proof (zero_value (Ai lit_q) 12 (D lit_q) (e2i lit_q) t4) as H.
    Transparent M4. unfold M4. Opaque M4. exact H.
  Qed.
End DOP853Cert.
