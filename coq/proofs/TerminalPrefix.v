(* C10, "everything reported before the stop is identical to what the same run reports without the terminal flag":
   as long as a callback of the handler does not answer Interrupt, it computes exactly the same new handler state as the
   handler of the configuration in which every terminal flag has been cleared -- for ANY number type, event functions,
   interpolants.  (The solver's trajectory up to there is the same under both handlers by C12: both are passive.) *)
Require Import List Arith Bool ZArith Lia.
Require Import IVP.model.Lit IVP.model.Ops IVP.model.Vec IVP.model.Common IVP.model.SolOut.
Require Import IVP.proofs.SolOutFacts.
Import ListNotations.

Section Prefix.
  Context {F : Type} (O : Ops F).

  Definition clear_ec (c : event_config) : event_config := mkEC (ec_dir c) None.
  Definition clear_terminal (C : hconfig (F:=F)) : hconfig (F:=F) :=
    mkHC (hc_t_eval C) (hc_dense C) (hc_first_step C) (hc_x0 C) (hc_tol C) (hc_events C) (hc_nevents C)
         (map clear_ec (hc_evcfg C)) (hc_interp C).

  Lemma nth_clear C i :
    nth i (hc_evcfg (clear_terminal C)) (mkEC DirAll None) = clear_ec (nth i (hc_evcfg C) (mkEC DirAll None)).
  Proof. cbn [clear_terminal hc_evcfg]. change (mkEC DirAll None) with (clear_ec (mkEC DirAll None)) at 1. apply map_nth. Qed.

  Lemma clear_no_terminal C : no_terminal (clear_terminal C).
  Proof. unfold no_terminal. cbn [clear_terminal hc_evcfg]. apply Forall_forall. intros c Hc.
         apply in_map_iff in Hc. destruct Hc as [c0 [<- _]]. reflexivity. Qed.

  Lemma process_events_prefix C fwd xold interp : forall evs s,
    snd (process_events O C fwd xold interp evs s) = false ->
    process_events O (clear_terminal C) fwd xold interp evs s = process_events O C fwd xold interp evs s.
  Proof.
    induction evs as [|[[te i] ye] rest IH]; intros s Hs; cbn [process_events] in *; [reflexivity|].
    rewrite nth_clear. cbn [clear_ec ec_terminal].
    destruct (ec_terminal (nth i (hc_evcfg C) (mkEC DirAll None))) as [limit|].
    - destruct (N.leb limit _).
      + (* terminal fired: excluded *)
        exfalso. revert Hs. cbv zeta.
        destruct (match hc_t_eval C with Some _ => _ | None => _ end) as [[nx t1] y1]. cbn [snd]. discriminate.
      + apply IH. exact Hs.
    - apply IH. exact Hs.
  Qed.

  Lemma interp_of_clear C n sg xi : interp_of O (clear_terminal C) n sg xi = interp_of O C n sg xi.
  Proof. reflexivity. Qed.

  Lemma locate_clear C i xold x yold y gp gc sg :
    locate_event O (clear_terminal C) i xold x yold y gp gc sg = locate_event O C i xold x yold y gp gc sg.
  Proof. reflexivity. Qed.

  Theorem detect_events_prefix C s xold x y sg :
    snd (detect_events O C s xold x y sg) = false ->
    detect_events O (clear_terminal C) s xold x y sg = detect_events O C s xold x y sg.
  Proof.
    unfold detect_events. cbn [clear_terminal hc_nevents hc_events].
    destruct (Nat.ltb 0 (hc_nevents C)); [|reflexivity]. cbv zeta. cbn [hs_yold].
    destruct (hs_yold s) as [yold|]; [|reflexivity].
    (* the detection fold reads only the directions *)
    match goal with |- context [fold_left ?body1 (seq 0 (hc_nevents C)) ?a0] =>
      lazymatch body1 with context [clear_terminal C] => set (b1 := body1); set (acc0 := a0) end end.
    match goal with |- context [fold_left ?body2 (seq 0 (hc_nevents C)) acc0] =>
      lazymatch body2 with context [clear_terminal C] => fail | _ => set (b2 := body2) end end.
    assert (Eb : forall acc i, b1 acc i = b2 acc i).
    { intros [[det log] u] i. subst b1 b2. cbv beta. rewrite nth_clear. cbn [clear_ec ec_dir]. reflexivity. }
    assert (Ef : forall l acc, fold_left b1 l acc = fold_left b2 l acc).
    { induction l as [|i l IH]; intros acc; cbn [fold_left]; [reflexivity|]. now rewrite Eb, IH. }
    rewrite Ef. destruct (fold_left b2 (seq 0 (hc_nevents C)) acc0) as [[det log] unconv].
    match goal with |- context [process_events O C ?fw ?xo ?ip ?evs ?s0] =>
      pose proof (process_events_prefix C fw xo ip evs s0) as Hp;
      match goal with |- context [process_events O (clear_terminal C) ?a ?b ?c ?d ?e] =>
        change (process_events O (clear_terminal C) a b c d e) with (process_events O (clear_terminal C) fw xo ip evs s0)
      end;
      destruct (process_events O C fw xo ip evs s0) as [s1 term] eqn:Epe
    end.
    cbn [snd]. intros Hs. rewrite (Hp Hs). reflexivity.
  Qed.

  Theorem solout_prefix C s xold x y sg :
    snd (solout O C s xold x y sg) = Continue ->
    solout O (clear_terminal C) s xold x y sg = solout O C s xold x y sg.
  Proof.
    unfold solout. intros Hc.
    assert (Hd : snd (detect_events O C (collect_dense O C s xold x sg) xold x y sg) = false).
    { destruct (snd (detect_events O C (collect_dense O C s xold x sg) xold x y sg)); [discriminate Hc|reflexivity]. }
    change (collect_dense O (clear_terminal C) s xold x sg) with (collect_dense O C s xold x sg).
    rewrite (detect_events_prefix C _ xold x y sg Hd), Hd. reflexivity.
  Qed.
End Prefix.
