(* C05 / C10: the t_eval scan made when a terminal event stops the run (model/SolOut.v scan_terminal).
   It consumes a prefix of the still-pending requested times: exactly those not beyond the event time; of these it
   reports, in their order and each with the step interpolant's value at that very time, the ones not before the step
   start (within tol); it never reorders, invents or drops a requested time, and reports none beyond the event.
   Any number type, any interpolant. *)
Require Import List Arith Lia.
Require Import IVP.model.Ops IVP.model.SolOut.
Import ListNotations.

Section Scan.
  Context {F : Type} (O : Ops F).

  Theorem scan_terminal_spec (fwd : bool) (tol xold tev : F) (interp : F -> list F) :
    forall (te : list F) (i : nat) (t : list F) (ys : list (list F)),
    let inside (v : F) := if fwd then leb O v tev else leb O tev v in
    let take (v : F) := if fwd then leb O (sub O xold tol) v else leb O v (add O xold tol) in
    exists k, k <= length te /\
      Forall (fun v => inside v = true) (firstn k te) /\
      (match nth_error te k with Some v => inside v = false | None => True end) /\
      scan_terminal O fwd tol xold tev interp te i t ys =
        (i + k, rev (filter take (firstn k te)) ++ t, rev (map interp (filter take (firstn k te))) ++ ys).
  Proof.
    induction te as [|v r IH]; intros i t ys inside take.
    - exists 0. simpl. repeat split; auto. now rewrite Nat.add_0_r.
    - cbn [scan_terminal]. fold (inside v). fold (take v).
      destruct (inside v) eqn:Ei.
      + destruct (take v) eqn:Et.
        * destruct (IH (S i) (v :: t) (interp v :: ys)) as [k [Hk [Hf [Hn He]]]].
          exists (S k). cbn [firstn nth_error filter length]. fold (take v). rewrite Et.
          repeat split; [lia|constructor; assumption|exact Hn|].
          fold inside in He. fold take in He. rewrite He. cbn [map rev]. rewrite <- !app_assoc. cbn [app].
          replace (i + S k) with (S i + k) by lia. reflexivity.
        * destruct (IH (S i) t ys) as [k [Hk [Hf [Hn He]]]].
          exists (S k). cbn [firstn nth_error filter length]. fold (take v). rewrite Et.
          repeat split; [lia|constructor; assumption|exact Hn|].
          fold inside in He. fold take in He. rewrite He.
          replace (i + S k) with (S i + k) by lia. reflexivity.
      + exists 0. cbn [firstn nth_error filter map rev app]. repeat split; auto; [lia|]. now rewrite Nat.add_0_r.
  Qed.
End Scan.
