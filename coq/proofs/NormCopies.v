(* C13, duplication: the weighted RMS error norm of DOPRI5 / RK23 (and with it the accept/reject decision and the next
   step size, which depend on the state only through it) is unchanged when the system is replaced by m independent
   identical copies -- real-number semantics: sqrt(m S / (m n)) = sqrt(S / n). *)
Require Import List Arith Lia Reals Lra.
Require Import IVP.model.Lit IVP.model.Ops IVP.model.Vec IVP.model.RealOps.
Require IVP.model.Dopri5 IVP.model.Rk23.
Import ListNotations.
Local Open Scope R_scope.

Notation rv := (list R).
Definition dup {A} (m : nat) (l : list A) : list A := concat (repeat l m).

Lemma ofnat_INR n : ofnat Rops n = INR n.
Proof.
  induction n as [|n IH]; [reflexivity|]. cbn [ofnat add one Rops]. rewrite IH, S_INR. reflexivity.
Qed.

Lemma dup_length {A} m (l : list A) : length (dup m l) = (m * length l)%nat.
Proof. unfold dup. induction m as [|m IH]; cbn [repeat concat]; [reflexivity|]. rewrite app_length, IH. lia. Qed.

Lemma combine_app {A B} (a a' : list A) (b b' : list B) :
  length a = length b -> combine (a ++ a') (b ++ b') = combine a b ++ combine a' b'.
Proof.
  revert b. induction a as [|x a IH]; intros [|y b] H; cbn in H; try discriminate; [reflexivity|].
  cbn [app combine]. f_equal. apply IH. lia.
Qed.
Lemma combine_dup {A B} m (a : list A) (b : list B) :
  length a = length b -> combine (dup m a) (dup m b) = dup m (combine a b).
Proof.
  intros H. unfold dup. induction m as [|m IH]; cbn [repeat concat]; [reflexivity|].
  rewrite combine_app by exact H. now rewrite IH.
Qed.

Lemma fold_left_ext' {A B} (f g : A -> B -> A) l a :
  (forall a b, f a b = g a b) -> fold_left f l a = fold_left g l a.
Proof. intros H. revert a. induction l as [|b l IH]; intros a; cbn [fold_left]; [reflexivity|]. now rewrite H, IH. Qed.

Section Sum.
  Context {X : Type} (term : X -> R).
  Definition ssum (l : list X) : R := fold_left (fun acc q => acc + term q) l 0.
  Lemma fold_shift l a : fold_left (fun acc q => acc + term q) l a = a + ssum l.
  Proof.
    unfold ssum. revert a. induction l as [|q l IH]; intros a; cbn [fold_left]; [lra|].
    rewrite IH, (IH (0 + term q)). lra.
  Qed.
  Lemma ssum_app l l' : ssum (l ++ l') = ssum l + ssum l'.
  Proof. unfold ssum at 1. rewrite fold_left_app, fold_shift. reflexivity. Qed.
  Lemma ssum_dup m l : ssum (dup m l) = INR m * ssum l.
  Proof.
    unfold dup. induction m as [|m IH]; cbn [repeat concat]; [unfold ssum; cbn; lra|].
    rewrite ssum_app, IH, S_INR. lra.
  Qed.
End Sum.

Lemma sqrt_ratio (S0 : R) n m : (0 < n)%nat -> (0 < m)%nat ->
  R_sqrt.sqrt (INR m * S0 / INR (m * n)) = R_sqrt.sqrt (S0 / INR n).
Proof.
  intros Hn Hm. f_equal. rewrite mult_INR.
  assert (0 < INR n) by (apply lt_0_INR; exact Hn). assert (0 < INR m) by (apply lt_0_INR; exact Hm).
  field. split; lra.
Qed.

Theorem dopri5_errnorm_copies m (atolv rtolv y ynew e : rv) :
  (0 < m)%nat -> (0 < length y)%nat ->
  length atolv = length y -> length rtolv = length y -> length ynew = length y -> length e = length y ->
  Dopri5.errnorm Rops (dup m atolv) (dup m rtolv) (dup m y) (dup m ynew) (dup m e) =
  Dopri5.errnorm Rops atolv rtolv y ynew e.
Proof.
  intros Hm Hn Ha Hr Hy He. unfold Dopri5.errnorm. cbv zeta.
  rewrite !combine_dup by (rewrite ?combine_length, ?Ha, ?Hr, ?Hy, ?He, ?Nat.min_id; reflexivity).
  rewrite dup_length, !ofnat_INR. cbn [add div sqrt zero Rops].
  set (term := fun q : R * R * R * R * R => let '(a, r, yi, y1i, ei) := q in
                 ei / (a + r * Rmax (Rabs yi) (Rabs y1i)) * (ei / (a + r * Rmax (Rabs yi) (Rabs y1i)))).
  match goal with |- context [fold_left ?f _ 0] => assert (E : forall l, fold_left f l 0 = ssum term l) end.
  { intros l. unfold ssum. apply fold_left_ext'. intros acc [[[[a r] yi] y1i] ei]. reflexivity. }
  rewrite !E, ssum_dup. apply sqrt_ratio; assumption.
Qed.

Theorem rk23_errnorm_copies m (atolv rtolv y ynew e : rv) :
  (0 < m)%nat -> (0 < length y)%nat ->
  length atolv = length y -> length rtolv = length y -> length ynew = length y -> length e = length y ->
  Rk23.errnorm Rops (dup m atolv) (dup m rtolv) (dup m y) (dup m ynew) (dup m e) =
  Rk23.errnorm Rops atolv rtolv y ynew e.
Proof.
  intros Hm Hn Ha Hr Hy He. unfold Rk23.errnorm. cbv zeta.
  rewrite !combine_dup by (rewrite ?combine_length, ?Ha, ?Hr, ?Hy, ?He, ?Nat.min_id; reflexivity).
  rewrite dup_length, !ofnat_INR. cbn [add div sqrt zero Rops].
  set (term := fun q : R * R * R * R * R => let '(a, r, yi, y1i, ei) := q in
                 sq Rops (ei / (a + r * Rmax (Rabs y1i) (Rabs yi)))).
  match goal with |- context [fold_left ?f _ 0] => assert (E : forall l, fold_left f l 0 = ssum term l) end.
  { intros l. unfold ssum. apply fold_left_ext'. intros acc [[[[a r] yi] y1i] ei]. reflexivity. }
  rewrite !E, ssum_dup. apply sqrt_ratio; assumption.
Qed.
