(* The SolOut protocol (C19) as an invariant on the recorded callback trace, shared by the RK23, RK4, Radau and BDF
   skeletons (DOPRI5 and DOP853 have their own, older, files).  Any callback is wrapped in a recorder; the trace is
   newest first. *)
Require Import List ZArith Bool.
Require Import IVP.model.Common.
Import ListNotations.

Section Defs.
  Context {F H : Type}.
  Record call := mkCall { c_xold : F; c_x : F; c_y : list F; c_interp : option (list F * F * F); c_flag : flag F }.

  Variable cb : H -> F -> F -> list F -> option (list F * F * F) -> H * flag F * list F.
  Definition rec_cb (hs : H * list call) (xold x : F) (y : list F) (sg : option (list F * F * F))
    : (H * list call) * flag F * list F :=
    let '(h', fl, y') := cb (fst hs) xold x y sg in ((h', mkCall xold x y sg fl :: snd hs), fl, y').

  Fixpoint contiguous (tr : list call) : Prop :=
    match tr with
    | c2 :: ((c1 :: _) as rest) => c_xold c2 = c_x c1 /\ contiguous rest
    | _ => True
    end.
  Definition quiet (tr : list call) : Prop := Forall (fun c => c_flag c <> Interrupt) tr.

  (* while the solver runs: calls are contiguous, the newest ends at the current abscissa, none asked to stop, and the
     oldest is the initial call c0 *)
  Definition st_ok (c0 : call) (x : F) (tr : list call) : Prop :=
    contiguous tr /\ (exists c rest, tr = c :: rest /\ c_x c = x) /\ quiet tr /\ last tr c0 = c0.
  (* when it has returned: contiguous, the newest call ends at the final abscissa, UserInterrupt exactly when that
     call returned Interrupt, no earlier call did (nothing ran after an Interrupt), the oldest is the initial call *)
  Definition res_ok (c0 : call) (st : status) (x : F) (tr : list call) : Prop :=
    contiguous tr /\
    (exists c rest, tr = c :: rest /\ c_x c = x /\ (st = UserInterrupt <-> c_flag c = Interrupt) /\ quiet rest) /\
    last tr c0 = c0.

  Lemma keep c0 st x tr : st_ok c0 x tr -> st <> UserInterrupt -> res_ok c0 st x tr.
  Proof.
    intros [Hc [[c [rest [-> Hx]]] [Hq Hl]]] Hs. split; [exact Hc|]. split; [|exact Hl]. exists c, rest.
    inversion Hq; subst. repeat split; try assumption; intro; contradiction.
  Qed.
  Lemma push_st c0 x x' y sg fl tr :
    st_ok c0 x tr -> fl <> Interrupt -> st_ok c0 x' (mkCall x x' y sg fl :: tr).
  Proof.
    intros [Hc [[c [rest [-> Hx]]] [Hq Hl]]] Hf. split; [|split; [|split]].
    - cbn [contiguous c_xold]. split; [symmetry; exact Hx|exact Hc].
    - eexists _, _. split; reflexivity.
    - constructor; assumption.
    - exact Hl.
  Qed.
  Lemma push_res c0 st x x' y sg fl tr :
    st_ok c0 x tr -> (st = UserInterrupt <-> fl = Interrupt) -> res_ok c0 st x' (mkCall x x' y sg fl :: tr).
  Proof.
    intros [Hc [[c [rest [-> Hx]]] [Hq Hl]]] Hf. split; [|split; [|exact Hl]].
    - cbn [contiguous c_xold]. split; [symmetry; exact Hx|exact Hc].
    - eexists _, _. repeat split; try reflexivity; try apply Hf; exact Hq.
  Qed.
  (* the very first call: xold = x = x0, the initial state, no interpolant *)
  Lemma first_st x y fl : fl <> Interrupt -> st_ok (mkCall x x y None fl) x [mkCall x x y None fl].
  Proof.
    intros Hf. split; [exact I|]. split; [eexists _, _; split; reflexivity|]. split; [|reflexivity].
    constructor; [exact Hf|constructor].
  Qed.
  Lemma first_res st x y fl :
    (st = UserInterrupt <-> fl = Interrupt) -> res_ok (mkCall x x y None fl) st x [mkCall x x y None fl].
  Proof.
    intros Hf. split; [exact I|]. split; [|reflexivity].
    eexists _, _. repeat split; try reflexivity; try apply Hf. constructor.
  Qed.
End Defs.

(* closing tactic for the leaves of a symbolic execution of one loop iteration *)
Ltac protocol_leaf :=
  first [ assumption
        | apply keep; [assumption|discriminate]
        | apply push_st; [assumption|discriminate]
        | apply push_res; [assumption|split; intro; (discriminate || reflexivity)] ].
