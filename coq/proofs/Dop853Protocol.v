(* DOP853 skeleton, generic over the number type, the kernel, the right-hand side and the callback:
   C19 (SolOut protocol: first call, one call per accepted step, contiguous intervals, Interrupt stops),
   C11 (step budget), C12 (passive observers cannot change the trajectory). *)
Require Import List ZArith Bool Lia.
Require Import IVP.model.Lit IVP.model.Ops IVP.model.Vec IVP.model.Common IVP.model.RK IVP.model.Dop853.
Import ListNotations.

Section Protocol.
  Context {F : Type} (O : Ops F) {H : Type}.
  Variable P : params (F:=F).
  Variable f : F -> list F -> list F.
  Variables (xend posneg hmax : F).
  Variable cb : H -> F -> F -> list F -> option (list F * F * F) -> H * flag F * list F.
  Variable kern : F -> list F -> list F -> F -> attempt (F:=F).

  (* a callback invocation as the user sees it *)
  Record call := mkCall { c_xold : F; c_x : F; c_y : list F; c_interp : option (list F * F * F);
                          c_flag : flag F }.

  (* wrap any callback so that it records its invocations (newest first) *)
  Definition rec_cb (hs : H * list call) (xold x : F) (y : list F) (sg : option (list F * F * F))
    : (H * list call) * flag F * list F :=
    let '(h', fl, y') := cb (fst hs) xold x y sg in
    ((h', mkCall xold x y sg fl :: snd hs), fl, y').

  Notation stepR := (step O P f xend posneg hmax rec_cb kern).

  (* the trace is well formed w.r.t. the current abscissa:
     newest call ends at the current x; consecutive calls are contiguous *)
  Fixpoint contiguous (tr : list call) : Prop :=
    match tr with
    | c2 :: ((c1 :: _) as rest) => c_xold c2 = c_x c1 /\ contiguous rest
    | _ => True
    end.
  Definition trace_ok (x : F) (tr : list call) : Prop :=
    contiguous tr /\ match tr with c :: _ => c_x c = x | [] => False end.
  Definition no_interrupt (tr : list call) : Prop :=
    Forall (fun c => c_flag c <> Interrupt) tr.

  Lemma step_trace s :
    trace_ok (s_x s) (snd (s_cb s)) -> no_interrupt (snd (s_cb s)) ->
    match stepR s with
    | inl s' => trace_ok (s_x s') (snd (s_cb s')) /\ no_interrupt (snd (s_cb s'))
                /\ (snd (s_cb s') = snd (s_cb s) \/
                    exists c, snd (s_cb s') = c :: snd (s_cb s) /\ c_xold c = s_x s /\ c_x c = s_x s')
    | inr r =>
        (* either no further call was made, or exactly one *)
        (snd (r_cb r) = snd (s_cb s) /\ r_status r <> UserInterrupt /\ r_x r = s_x s) \/
        (exists c, snd (r_cb r) = c :: snd (s_cb s) /\ c_xold c = s_x s /\ c_x c = r_x r /\
                   (r_status r = UserInterrupt <-> c_flag c = Interrupt) /\
                   (r_status r = UserInterrupt \/ r_status r = Success))
    end.
  Proof.
    intros [Hc Hx] Hn. unfold step.
    destruct (N.ltb _ _); [left; repeat split; discriminate|].
    destruct (leb O _ _); [left; repeat split; discriminate|].
    destruct (landing _ _ _ _ _ _) as [h last].
    set (a := kern (s_x s) (s_y s) (s_k1 s) h).
    destruct (leb O (at_err a) (one O)).
    - destruct (stiff_test _ _ _ _ _ _ _) as [[[hlamb nonstiff] iasti] sexit].
      destruct sexit; [left; repeat split; discriminate|].
      unfold rec_cb at 1.
      destruct (dense_stage _ _ _ _ _ _ _ _ _ _) as [[cont st2] lg2].
      destruct (cb _ _ _ _ _) as [[cbs fl] ycb].
      set (c := mkCall (s_x s) (add O (s_x s) h) (at_ynew a) _ fl).
      assert (Htr : trace_ok (add O (s_x s) h) (c :: snd (s_cb s))).
      { split; [|reflexivity]. destruct (snd (s_cb s)) as [|c1 rest] eqn:E; [exact I|].
        split; [symmetry; exact Hx|exact Hc]. }
      destruct fl.
      + destruct (after_flag _ _ _ _ _ _ _) as [[k1 st'] lg'].
        destruct last.
        * right. exists c. cbn [r_cb r_status r_x snd]. repeat split; try reflexivity; try discriminate.
          now right.
        * cbn [s_cb s_x snd]. split; [exact Htr|]. split.
          { constructor; [discriminate|exact Hn]. }
          right. exists c. repeat split.
      + right. exists c. cbn [r_cb r_status r_x snd]. repeat split; try reflexivity. now left.
      + destruct (after_flag _ _ _ _ _ _ _) as [[k1 st'] lg'].
        destruct last.
        * right. exists c. cbn [r_cb r_status r_x snd]. repeat split; try reflexivity; try discriminate.
          now right.
        * cbn [s_cb s_x snd]. split; [exact Htr|]. split.
          { constructor; [discriminate|exact Hn]. }
          right. exists c. repeat split.
      + destruct (after_flag _ _ _ _ _ _ _) as [[k1 st'] lg'].
        destruct last.
        * right. exists c. cbn [r_cb r_status r_x snd]. repeat split; try reflexivity; try discriminate.
          now right.
        * cbn [s_cb s_x snd]. split; [exact Htr|]. split.
          { constructor; [discriminate|exact Hn]. }
          right. exists c. repeat split.
    - cbn [s_cb s_x]. split; [split; assumption|]. split; [exact Hn|]. now left.
  Qed.

  (* C19: the whole run -- contiguous intervals, and Interrupt is the last thing that happens *)
  Theorem loop_trace fuel s r :
    trace_ok (s_x s) (snd (s_cb s)) -> no_interrupt (snd (s_cb s)) ->
    loop O P f xend posneg hmax rec_cb kern fuel s = Some r ->
    contiguous (snd (r_cb r)) /\
    (match snd (r_cb r) with c :: _ => c_x c = r_x r | [] => False end) /\
    (r_status r = UserInterrupt <->
       match snd (r_cb r) with c :: _ => c_flag c = Interrupt | [] => False end) /\
    (match snd (r_cb r) with c :: rest => no_interrupt rest | [] => True end).
  Proof.
    revert s. induction fuel as [|k IH]; intros s Ht Hn Hl; [discriminate|].
    simpl in Hl. pose proof (step_trace s Ht Hn) as Hs.
    destruct (stepR s) as [s'|r'].
    - destruct Hs as [Ht' [Hn' _]]. eapply IH; eauto.
    - inversion Hl; subst r'. clear Hl. destruct Ht as [Hc Hx].
      destruct Hs as [[Heq [Hst Hxr]]|[c [Heq [Hxo [Hxc [Hiff Hor]]]]]].
      + rewrite Heq. destruct (snd (s_cb s)) as [|c0 rest] eqn:E; [contradiction|].
        repeat split; try assumption.
        * congruence.
        * intros Hu; contradiction.
        * intros Hi. inversion Hn; subst. contradiction.
        * inversion Hn; assumption.
      + rewrite Heq. repeat split.
        * destruct (snd (s_cb s)) as [|c0 rest] eqn:E; [exact I|]. split; [congruence|exact Hc].
        * exact Hxc.
        * apply Hiff.
        * apply Hiff.
        * exact Hn.
  Qed.

  (* ---------------- C11: the step budget ---------------- *)
  Lemma step_budget s :
    (nstep (s_stats s) <= p_max_steps P + 1)%N ->
    match step O P f xend posneg hmax cb kern s with
    | inl s' => (nstep (s_stats s') <= p_max_steps P + 1)%N
    | inr r => (nstep (r_stats r) <= p_max_steps P + 1)%N /\
               (r_status r = NeedLargerNMax -> (p_max_steps P < nstep (r_stats r))%N)
    end.
  Proof.
    intros Hb. unfold step.
    destruct (N.ltb _ _) eqn:E.
    { apply N.ltb_lt in E. split; [exact Hb|]. intros _. exact E. }
    apply N.ltb_ge in E.
    destruct (leb O _ _); [split; [exact Hb|discriminate]|].
    destruct (landing _ _ _ _ _ _) as [h last].
    set (a := kern (s_x s) (s_y s) (s_k1 s) h).
    assert (Hs : (nstep (s_stats s) + 1 <= p_max_steps P + 1)%N) by lia.
    destruct (leb O (at_err a) (one O)).
    - destruct (stiff_test _ _ _ _ _ _ _) as [[[hlamb nonstiff] iasti] sexit].
      destruct sexit; [split; [exact Hs|discriminate]|].
      destruct (dense_stage _ _ _ _ _ _ _ _ _ _) as [[cont st2] lg2] eqn:Ed.
      assert (Hst2 : nstep st2 = (nstep (s_stats s) + 1)%N).
      { unfold dense_stage in Ed. destruct (p_dense P).
        - destruct (finish_dense _ _ _ _ _ _ _) as [c dc]. inversion Ed; reflexivity.
        - inversion Ed; reflexivity. }
      destruct (cb _ _ _ _ _) as [[cbs fl] ycb].
      destruct fl; try (cbn [r_stats r_status]; rewrite Hst2; split; [exact Hs|discriminate]);
        (destruct (after_flag _ _ _ _ _ _ _) as [[k1 st'] lg'] eqn:Ea;
         assert (Hst : nstep st' = nstep st2)
           by (cbn [after_flag] in Ea; inversion Ea; reflexivity);
         destruct last; cbn [r_stats r_status s_stats]; rewrite Hst, Hst2;
         [split; [exact Hs|discriminate] | exact Hs]).
    - cbn [s_stats]. destruct (N.ltb 1 _); exact Hs.
  Qed.

  Theorem loop_budget fuel s r :
    (nstep (s_stats s) <= p_max_steps P + 1)%N ->
    loop O P f xend posneg hmax cb kern fuel s = Some r ->
    (nstep (r_stats r) <= p_max_steps P + 1)%N /\
    (r_status r = NeedLargerNMax -> (p_max_steps P < nstep (r_stats r))%N).
  Proof.
    revert s. induction fuel as [|k IH]; intros s Hb Hl; [discriminate|].
    simpl in Hl. pose proof (step_budget s Hb) as Hs.
    destruct (step O P f xend posneg hmax cb kern s) as [s'|r'].
    - eapply IH; eauto.
    - now inversion Hl; subst.
  Qed.
End Protocol.

(* the budget is only ever read by the test at the top of the loop: below the budget, the
   budgeted run and the unbudgeted run take literally the same step (bit-identical prefix) *)
Section BudgetPrefix.
  Context {F : Type} (O : Ops F) {H : Type}.
  Definition with_budget (P : params (F:=F)) (n : N) : params :=
    mkP (p_uround P) (p_safety P) (p_scale_min P) (p_scale_max P) (p_beta P) (p_max_step P)
        (p_first_step P) n (p_nstiff P) (p_dense P).

  Theorem step_budget_prefix (P : params) f xend posneg hmax
          (cb : H -> F -> F -> list F -> option (list F * F * F) -> H * flag F * list F) kern (n1 n2 : N) s :
    (nstep (s_stats s) <= n1)%N -> (nstep (s_stats s) <= n2)%N ->
    step O (with_budget P n1) f xend posneg hmax cb kern s =
    step O (with_budget P n2) f xend posneg hmax cb kern s.
  Proof.
    intros H1 H2. unfold step. cbn [with_budget p_max_steps].
    apply N.ltb_ge in H1. apply N.ltb_ge in H2. rewrite H1, H2. reflexivity.
  Qed.
End BudgetPrefix.

(* ---------------- C12: passive observers ---------------- *)
Section Passive.
  Context {F : Type} (O : Ops F) {H1 H2 : Type}.
  Variable P : params (F:=F).
  Variable f : F -> list F -> list F.
  Variables (xend posneg hmax : F).
  Variable cb1 : H1 -> F -> F -> list F -> option (list F * F * F) -> H1 * flag F * list F.
  Variable cb2 : H2 -> F -> F -> list F -> option (list F * F * F) -> H2 * flag F * list F.
  Variable kern : F -> list F -> list F -> F -> attempt (F:=F).
  (* passive: never interrupts, never modifies *)
  Hypothesis passive1 : forall h xold x y sg, exists h', cb1 h xold x y sg = (h', Continue, y).
  Hypothesis passive2 : forall h xold x y sg, exists h', cb2 h xold x y sg = (h', Continue, y).

  (* everything but the observer's own state *)
  Definition core {X} (s : state (F:=F) X) :=
    (s_x s, s_y s, s_k1 s, s_h s, s_facold s, s_last s, s_reject s, s_nonstiff s, s_hlamb s,
     s_iasti s, s_stats s, s_log s).
  Definition rcore {X} (r : result (F:=F) X) := (r_status r, r_h r, r_stats r, r_x r, r_y r, r_log r).

  Lemma stiff_test_core (s1 : state H1) (s2 : state H2) y h a st :
    core s1 = core s2 -> stiff_test O P s1 y h a st = stiff_test O P s2 y h a st.
  Proof.
    unfold core, stiff_test. intros E. inversion E. repeat match goal with Hq : _ = _ |- _ => rewrite Hq end.
    reflexivity.
  Qed.

  Lemma step_passive (s1 : state H1) (s2 : state H2) :
    core s1 = core s2 ->
    match step O P f xend posneg hmax cb1 kern s1, step O P f xend posneg hmax cb2 kern s2 with
    | inl a, inl b => core a = core b
    | inr a, inr b => rcore a = rcore b
    | _, _ => False
    end.
  Proof.
    intros E. pose proof (stiff_test_core s1 s2) as Hst. specialize (fun y h a st => Hst y h a st E).
    unfold core in E. inversion E as [[Ex Ey Ek Eh Ef El Er En Ehl Ei Es Elg]].
    unfold step. rewrite <- Ex, <- Ey, <- Ek, <- Eh, <- Ef, <- El, <- Er, <- En, <- Ehl, <- Ei, <- Es, <- Elg.
    destruct (N.ltb _ _); [unfold rcore; cbn; congruence|].
    destruct (leb O _ _); [unfold rcore; cbn; congruence|].
    destruct (landing _ _ _ _ _ _) as [h last].
    set (a := kern (s_x s1) (s_y s1) (s_k1 s1) h).
    destruct (leb O (at_err a) (one O)).
    - rewrite <- Hst.
      destruct (stiff_test _ _ _ _ _ _ _) as [[[hlamb nonstiff] iasti] sexit].
      destruct sexit; [reflexivity|].
      destruct (dense_stage _ _ _ _ _ _ _ _ _ _) as [[cont st2] lg2].
      destruct (passive1 (s_cb s1) (s_x s1) (add O (s_x s1) h) (at_ynew a)
                         (if p_dense P then Some (cont, s_x s1, h) else None)) as [h1 E1].
      destruct (passive2 (s_cb s2) (s_x s1) (add O (s_x s1) h) (at_ynew a)
                         (if p_dense P then Some (cont, s_x s1, h) else None)) as [h2 E2].
      rewrite E1, E2. cbn [after_flag].
      destruct last; reflexivity.
    - reflexivity.
  Qed.

  Theorem loop_passive fuel (s1 : state H1) (s2 : state H2) :
    core s1 = core s2 ->
    match loop O P f xend posneg hmax cb1 kern fuel s1, loop O P f xend posneg hmax cb2 kern fuel s2 with
    | Some a, Some b => rcore a = rcore b
    | None, None => True
    | _, _ => False
    end.
  Proof.
    revert s1 s2. induction fuel as [|k IH]; intros s1 s2 E; [exact I|].
    simpl. pose proof (step_passive s1 s2 E) as Hs.
    destruct (step O P f xend posneg hmax cb1 kern s1) as [a|a],
             (step O P f xend posneg hmax cb2 kern s2) as [b|b]; try contradiction.
    - apply IH. exact Hs.
    - exact Hs.
  Qed.
End Passive.
