(* C03 / C11 for the BDF model, real-number semantics: one iteration of the solver never moves the abscissa backwards,
   never past xend, and never by more than max_step -- for ANY right-hand side, Jacobian, callback, tolerances,
   Newton outcome, order history; direction = +-1; min_step <= max_step (a lower bound above the upper one is not a
   valid configuration).  Whole runs follow by induction on the number of iterations. *)
Require Import List ZArith Bool Lia Reals Lra QArith Qreals.
Require Import IVP.gen.Inline.
Require Import IVP.model.Lit IVP.model.Ops IVP.model.Vec IVP.model.Common IVP.model.LU IVP.model.Bdf IVP.model.RealOps.
Import ListNotations.
Local Open Scope R_scope.

Lemma minpos_pos : 0 < lit Rops LMINPOS.
Proof.
  cbn [lit Rops]. replace 0 with (Q2R 0) by (unfold Q2R; cbn; lra).
  apply Qlt_Rlt. vm_compute. reflexivity.
Qed.

Section Bounds.
  Context {H : Type}.
  Variable P : params (F:=R).
  Variable n : nat.
  Variable f : R -> list R -> list R.
  Variable jacf : R -> list R -> nat -> nat -> R.
  Variables (atolv rtolv : list R) (newton_tol : R) (maxiter : nat) (xend direction hmax hmin : R).
  Variable cb : H -> R -> R -> list R -> option (list R * R * R) -> H * flag R * list R.
  Hypothesis Hdir : direction = 1 \/ direction = -1.
  Hypothesis Hmax : 0 <= hmax.
  Hypothesis Hmin : hmin <= hmax.
  Notation step := (step Rops P n f jacf atolv rtolv newton_tol maxiter xend direction hmax hmin cb).

  (* the abscissa has not passed xend *)
  Definition Inv (s : state (F:=R) H) : Prop := 0 <= direction * (xend - s_x H s).

  Definition out_good (x : R) (o : state (F:=R) H + result (F:=R) H) : Prop :=
    match o with
    | inl s' => 0 <= direction * (xend - s_x H s') /\ 0 <= direction * (s_x H s' - x) <= hmax
    | inr r => 0 <= direction * (xend - r_x r) /\ 0 <= direction * (r_x r - x) <= hmax
    end.

  Ltac nxt := cbv beta iota.
  Ltac hd :=
    match goal with
    | |- out_good _ (if ?c then _ else _) => destruct c eqn:?
    | |- out_good _ (match (if ?c then _ else _) with _ => _ end) => destruct c eqn:?
    | |- out_good _ (match (match ?c with _ => _ end) with _ => _ end) => destruct c
    | |- out_good _ (match ?c with _ => _ end) => destruct c
    end; nxt.
  Ltac facts :=
    repeat match goal with
           | E : (_ && _) = true |- _ => apply andb_true_iff in E; destruct E
           | E : (_ || _) = true |- _ => apply orb_true_iff in E; destruct E
           | E : (_ || _) = false |- _ => apply orb_false_iff in E; destruct E
           | E : negb _ = true |- _ => apply negb_true_iff in E
           | E : ltb Rops _ _ = true |- _ => cbn [ltb Rops] in E; apply Rltb_true in E
           | E : ltb Rops _ _ = false |- _ => cbn [ltb Rops] in E; apply Rltb_false in E
           | E : leb Rops _ _ = true |- _ => cbn [leb Rops] in E; apply Rleb_true in E
           | E : leb Rops _ _ = false |- _ => cbn [leb Rops] in E; apply Rleb_false in E
           | E : eqb Rops _ _ = true |- _ => cbn [eqb Rops] in E; apply Reqb_true in E
           end.

  Lemma step_bounds s : Inv s -> out_good (s_x H s) (step s).
  Proof.
    intros HI. unfold Inv in HI. pose proof minpos_pos as Hmp.
    unfold Bdf.step, retry, hres. cbv zeta. nxt.
    repeat hd.
    all: cbv beta iota delta [out_good]; cbn [s_x r_x].
    all: facts; cbn [add sub mul abs zero Rops] in *.
    (* `beside` never holds over the reals *)
    all: try (match goal with
              | Hb : eqb Rops ?r 0 = false, He : (?a + lit Rops L0_1 * ?r)%R = ?a |- _ =>
                  exfalso; cbn [eqb Rops] in Hb;
                  assert (Hr : r = 0%R) by (cbn [lit Rops lit_q L0_1] in He; unfold Q2R in He; cbn in He; lra);
                  rewrite Hr in Hb; unfold Reqb in Hb; destruct (Req_EM_T 0 0) as [_|ne]; [discriminate Hb|apply ne; reflexivity]
              end).
    all: destruct Hdir as [Hd|Hd]; rewrite Hd in *; lra.
  Qed.

  (* whole runs: the final abscissa is between the starting one and xend, in the direction of integration *)
  Theorem loop_bounds fuel s r :
    Inv s ->
    loop Rops P n f jacf atolv rtolv newton_tol maxiter xend direction hmax hmin cb fuel s = Some r ->
    0 <= direction * (xend - r_x r) /\ 0 <= direction * (r_x r - s_x H s).
  Proof.
    revert s. induction fuel as [|k IH]; intros s HI Hl; [discriminate|].
    cbn [loop] in Hl. pose proof (step_bounds s HI) as Hs. destruct (step s) as [s'|r'].
    - destruct Hs as [HI' [Hm _]]. destruct (IH s' HI' Hl) as [A B]. split; [exact A|].
      destruct Hdir as [Hd|Hd]; rewrite Hd in *; lra.
    - inversion Hl; subst. destruct Hs as [A [B _]]. split; assumption.
  Qed.
End Bounds.
