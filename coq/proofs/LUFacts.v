(* C16: exact-arithmetic correctness of lu_decomp + lin_solve (Hairer's DEC/SOL with lazy row swaps),
   for every dimension n >= 1, over the reals.  If the factorisation succeeds then A . x = b. *)
Require Import List Arith Bool Lia Reals Lra.
Require Import IVP.model.Lit IVP.model.Ops IVP.model.LU IVP.model.RealOps.
Import ListNotations.
Local Open Scope R_scope.

Notation rmat := (nat -> nat -> R).
Notation rvec := (nat -> R).

(* sum_{j = k}^{k + len - 1} f j *)
Fixpoint rsum (k len : nat) (f : nat -> R) : R :=
  match len with O => 0 | S l => f k + rsum (S k) l f end.
Definition sumfrom (k n : nat) (f : nat -> R) : R := rsum k (n - k) f.

Lemma rsum_ext k len f g : (forall j, (k <= j < k + len)%nat -> f j = g j) -> rsum k len f = rsum k len g.
Proof.
  revert k; induction len as [|l IH]; intros k H; simpl; [reflexivity|].
  rewrite (H k) by lia. f_equal. apply IH. intros j Hj. apply H. lia.
Qed.
Lemma rsum_plus k len f g : rsum k len (fun j => f j + g j) = rsum k len f + rsum k len g.
Proof. revert k; induction len as [|l IH]; intros k; simpl; [lra|]. rewrite IH. lra. Qed.
Lemma rsum_scal k len c f : rsum k len (fun j => c * f j) = c * rsum k len f.
Proof. revert k; induction len as [|l IH]; intros k; simpl; [lra|]. rewrite IH. lra. Qed.

Lemma sumfrom_step k n f : (k < n)%nat -> sumfrom k n f = f k + sumfrom (S k) n f.
Proof. intros H. unfold sumfrom. replace (n - k)%nat with (S (n - S k)) by lia. reflexivity. Qed.
Lemma sumfrom_ext k n f g : (forall j, (k <= j < n)%nat -> f j = g j) -> sumfrom k n f = sumfrom k n g.
Proof. intros H. unfold sumfrom. apply rsum_ext. intros j Hj. apply H. lia. Qed.
Lemma sumfrom_plus k n f g : sumfrom k n (fun j => f j + g j) = sumfrom k n f + sumfrom k n g.
Proof. apply rsum_plus. Qed.
Lemma sumfrom_scal k n c f : sumfrom k n (fun j => c * f j) = c * sumfrom k n f.
Proof. apply rsum_scal. Qed.

(* the system after k elimination steps: rows < k are final (upper triangular), rows >= k still couple
   the unknowns k..n-1 *)
Definition Sys (n k : nat) (A : rmat) (b x : rvec) : Prop :=
  (forall r, (r < k)%nat -> (r < n)%nat -> sumfrom r n (fun j => A r j * x j) = b r) /\
  (forall i, (k <= i < n)%nat -> sumfrom k n (fun j => A i j * x j) = b i).

Definition meq (n : nat) (A B : rmat) : Prop := forall i j, (i < n)%nat -> (j < n)%nat -> A i j = B i j.
Definition veq (n : nat) (a b : rvec) : Prop := forall i, (i < n)%nat -> a i = b i.

Lemma Sys_ext n k A A' b b' x : meq n A A' -> veq n b b' -> Sys n k A b x -> Sys n k A' b' x.
Proof.
  intros HA Hb [H1 H2]. split.
  - intros r Hr Hn. rewrite <- (Hb r Hn), <- (H1 r Hr Hn). apply sumfrom_ext. intros j Hj. rewrite HA by lia. reflexivity.
  - intros i Hi. rewrite <- (Hb i) by lia. rewrite <- (H2 i Hi). apply sumfrom_ext. intros j Hj. rewrite HA by lia. reflexivity.
Qed.

Lemma compact_meq n (A : rmat) : meq n (compact Rops n A) A.
Proof.
  intros i j Hi Hj. unfold compact.
  rewrite (nth_indep _ [] (map (fun j0 => A 0%nat j0) (seq 0 n))) by (rewrite map_length, seq_length; exact Hi).
  rewrite (map_nth (fun i0 => map (fun j0 => A i0 j0) (seq 0 n)) (seq 0 n) 0%nat i).
  rewrite seq_nth by exact Hi. simpl.
  rewrite (nth_indep _ (zero Rops) (A i 0%nat)) by (rewrite map_length, seq_length; exact Hj).
  rewrite (map_nth (fun j0 => A i j0) (seq 0 n) 0%nat j). now rewrite seq_nth.
Qed.
Lemma compactv_veq n (b : rvec) : veq n (compactv Rops n b) b.
Proof.
  intros i Hi. unfold compactv.
  rewrite (nth_indep _ (zero Rops) (b 0%nat)) by (rewrite map_length, seq_length; exact Hi).
  rewrite (map_nth b (seq 0 n) 0%nat i). now rewrite seq_nth.
Qed.

(* ---------------- one elimination step is sound ---------------- *)
Lemma elim_step_sound n k m (A : rmat) (b : rvec) (LUk : nat -> R) x :
  (k < n)%nat -> (k <= m < n)%nat -> A m k <> 0 ->
  (* LUk i = the multiplier stored at (i, k), i > k *)
  (forall i, (k < i < n)%nat -> LUk i = elim_step Rops A k m i k) ->
  let b1 := fun i => (* fwd_step with pivot row m and these multipliers *)
              let bs i := if (i =? k)%nat then b m else if (i =? m)%nat then b k else b i in
              if (k <? i)%nat then bs i + LUk i * bs k else bs i in
  Sys n (S k) (elim_step Rops A k m) b1 x -> Sys n k A b x.
Proof.
  intros Hk Hm Hp HL b1 [H1 H2].
  set (p := A m k) in *.
  (* row k of the new system is row m of the old one *)
  assert (Rm : sumfrom k n (fun j => A m j * x j) = b m).
  { specialize (H1 k (Nat.lt_succ_diag_r k) Hk).
    assert (Eb : b1 k = b m). { unfold b1. rewrite Nat.ltb_irrefl, Nat.eqb_refl. reflexivity. }
    rewrite Eb in H1. rewrite <- H1. apply sumfrom_ext. intros j Hj.
    unfold elim_step. cbn [ltb div mul neg add one zero eqb Rops].
    destruct (j <? k)%nat eqn:E1; [apply Nat.ltb_lt in E1; lia|].
    destruct (j =? k)%nat eqn:E2.
    - apply Nat.eqb_eq in E2. subst j. rewrite Nat.ltb_irrefl, Nat.eqb_refl. reflexivity.
    - rewrite Nat.eqb_refl. replace (k <=? k)%nat with true by (symmetry; apply Nat.leb_le; lia). reflexivity. }
  split.
  - (* rows r < k are untouched *)
    intros r Hr Hn. specialize (H1 r (Nat.lt_lt_succ_r _ _ Hr) Hn).
    assert (Eb : b1 r = b r).
    { unfold b1. replace (k <? r)%nat with false by (symmetry; apply Nat.ltb_ge; lia).
      replace (r =? k)%nat with false by (symmetry; apply Nat.eqb_neq; lia).
      replace (r =? m)%nat with false by (symmetry; apply Nat.eqb_neq; lia). reflexivity. }
    rewrite Eb in H1. rewrite <- H1. apply sumfrom_ext. intros j Hj.
    unfold elim_step. cbn [ltb div mul neg add one zero eqb Rops].
    destruct (j <? k)%nat; [reflexivity|]. destruct (j =? k)%nat.
    + replace (r <? k)%nat with true by (symmetry; apply Nat.ltb_lt; lia). reflexivity.
    + replace (r =? k)%nat with false by (symmetry; apply Nat.eqb_neq; lia).
      replace (r =? m)%nat with false by (symmetry; apply Nat.eqb_neq; lia).
      replace (r <=? k)%nat with true by (symmetry; apply Nat.leb_le; lia). reflexivity.
  - intros i Hi.
    destruct (Nat.eq_dec i m) as [->|Him]; [exact Rm|].
    (* row i of the old system sits at position i' after the swap: i' = m if i = k, else i *)
    set (i' := if (i =? k)%nat then m else i).
    assert (Hi' : (k < i' < n)%nat) by (unfold i'; destruct (i =? k)%nat eqn:E; [apply Nat.eqb_eq in E; lia|apply Nat.eqb_neq in E; lia]).
    specialize (H2 i' (conj (proj1 Hi') (proj2 Hi'))).
    (* the swapped column-k entry and right-hand side at position i' are those of old row i *)
    assert (Ecol : (if (i' =? m)%nat then A k k else A i' k) = A i k).
    { unfold i'. destruct (i =? k)%nat eqn:E; [apply Nat.eqb_eq in E; subst; now rewrite Nat.eqb_refl|].
      apply Nat.eqb_neq in E. replace (i =? m)%nat with false by (symmetry; apply Nat.eqb_neq; lia). reflexivity. }
    assert (Ebs : (if (i' =? k)%nat then b m else if (i' =? m)%nat then b k else b i') = b i).
    { unfold i'. destruct (i =? k)%nat eqn:E.
      - apply Nat.eqb_eq in E. subst i. replace (m =? k)%nat with false by (symmetry; apply Nat.eqb_neq; lia). now rewrite Nat.eqb_refl.
      - apply Nat.eqb_neq in E. replace (i =? k)%nat with false by (symmetry; apply Nat.eqb_neq; lia).
        replace (i =? m)%nat with false by (symmetry; apply Nat.eqb_neq; lia). reflexivity. }
    assert (El : LUk i' = - A i k * (1 / p)).
    { rewrite (HL i' Hi'). unfold elim_step. cbn [ltb div mul neg add one zero eqb Rops].
      rewrite Nat.ltb_irrefl, Nat.eqb_refl.
      replace (i' <? k)%nat with false by (symmetry; apply Nat.ltb_ge; lia).
      replace (i' =? k)%nat with false by (symmetry; apply Nat.eqb_neq; lia). fold p. now rewrite Ecol. }
    assert (Eb1 : b1 i' = b i + LUk i' * b m).
    { unfold b1. replace (k <? i')%nat with true by (symmetry; apply Nat.ltb_lt; lia).
      rewrite Ebs. rewrite Nat.eqb_refl. reflexivity. }
    (* entries of the new row i' in the columns j > k *)
    assert (Erow : forall j, (S k <= j < n)%nat ->
                     elim_step Rops A k m i' j = A i j + LUk i' * A m j).
    { intros j Hj. rewrite El. unfold elim_step. cbn [ltb div mul neg add one zero eqb Rops].
      replace (j <? k)%nat with false by (symmetry; apply Nat.ltb_ge; lia).
      replace (j =? k)%nat with false by (symmetry; apply Nat.eqb_neq; lia).
      replace (i' =? k)%nat with false by (symmetry; apply Nat.eqb_neq; lia).
      replace (i' <=? k)%nat with false by (symmetry; apply Nat.leb_gt; lia).
      fold p. rewrite Ecol.
      assert (Esw : (if (i' =? m)%nat then A k j else A i' j) = A i j).
      { unfold i'. destruct (i =? k)%nat eqn:E; [apply Nat.eqb_eq in E; subst; now rewrite Nat.eqb_refl|].
        apply Nat.eqb_neq in E. replace (i =? m)%nat with false by (symmetry; apply Nat.eqb_neq; lia). reflexivity. }
      rewrite Esw. unfold Reqb. destruct (Req_EM_T (A m j) 0) as [E0|E0]; [rewrite E0; lra|reflexivity]. }
    rewrite (sumfrom_ext (S k) n _ (fun j => A i j * x j + LUk i' * (A m j * x j))) in H2.
    2:{ intros j Hj. rewrite Erow by exact Hj. lra. }
    rewrite sumfrom_plus, sumfrom_scal, Eb1 in H2.
    rewrite (sumfrom_step k n) in Rm by exact Hk. rewrite (sumfrom_step k n) by exact Hk.
    fold p in Rm. rewrite El in H2.
    assert (Hinv : p * (1 / p) = 1) by (field; exact Hp).
    (* S := sum_{j>k} A i j x j ; T := sum_{j>k} A m j x j *)
    set (S := sumfrom (Datatypes.S k) n (fun j => A i j * x j)) in *.
    set (T := sumfrom (Datatypes.S k) n (fun j => A m j * x j)) in *.
    assert (HT : T = b m - p * x k) by lra. rewrite HT in H2.
    replace (A i k * x k + S) with (S + - A i k * (1 / p) * (b m - p * x k) - (- A i k * (1 / p)) * b m + A i k * x k * (1 - p * (1 / p))) by ring.
    rewrite Hinv. lra.
Qed.

(* ---------------- pivot search ---------------- *)
Lemma fold_max (A : rmat) k : forall l (acc : nat * R),
  snd acc = Rabs (A (fst acc) k) ->
  let r := fold_left (fun (acc : nat * R) i => let v := abs Rops (A i k) in
                        if ltb Rops (snd acc) v then (i, v) else acc) l acc in
  (fst r = fst acc \/ In (fst r) l) /\ snd r = Rabs (A (fst r) k) /\ snd acc <= snd r /\
  (forall i, In i l -> Rabs (A i k) <= snd r).
Proof.
  induction l as [|a l IH]; intros acc H; cbn [fold_left].
  - repeat split; [now left|exact H|lra|intros i []].
  - cbn [abs ltb Rops]. unfold Rltb. destruct (Rlt_dec (snd acc) (Rabs (A a k))) as [Hlt|Hge].
    + destruct (IH (a, Rabs (A a k)) eq_refl) as [I1 [I2 [I3 I4]]]. cbn [fst snd] in *.
      repeat split.
      * right. destruct I1 as [I1|I1]; [left; symmetry; exact I1|now right].
      * exact I2.
      * apply Rle_trans with (Rabs (A a k)); [lra|exact I3].
      * intros i [->|Hi]; [exact I3|now apply I4].
    + destruct (IH acc H) as [I1 [I2 [I3 I4]]].
      repeat split.
      * destruct I1 as [I1|I1]; [now left|right; now right].
      * exact I2.
      * exact I3.
      * intros i [->|Hi]; [apply Rle_trans with (snd acc); [lra|exact I3]|now apply I4].
Qed.

Lemma find_pivot_spec n (A : rmat) k : (k < n)%nat ->
  (k <= find_pivot Rops n A k < n)%nat /\
  forall i, (k <= i < n)%nat -> Rabs (A i k) <= Rabs (A (find_pivot Rops n A k) k).
Proof.
  intros Hk. unfold find_pivot.
  destruct (fold_max A k (seq (S k) (n - S k)) (k, abs Rops (A k k)) eq_refl) as [I1 [I2 [I3 I4]]].
  cbn [fst snd] in *. split.
  - destruct I1 as [->|I1]; [lia|]. apply in_seq in I1. lia.
  - intros i Hi. rewrite <- I2. destruct (Nat.eq_dec i k) as [->|Hne]; [exact I3|].
    apply I4. apply in_seq. lia.
Qed.

(* ---------------- the factorisation loop ---------------- *)
Lemma Reqb_false_neq (a : R) : eqb Rops a (zero Rops) = false -> a <> 0.
Proof. cbn [eqb zero Rops]. unfold Reqb. destruct (Req_EM_T a 0); [discriminate|auto]. Qed.
Lemma Reqb_true_eq (a : R) : eqb Rops a (zero Rops) = true -> a = 0.
Proof. cbn [eqb zero Rops]. unfold Reqb. destruct (Req_EM_T a 0); [auto|discriminate]. Qed.

(* what a run of the k-loop leaves untouched: the columns < k and the pivot indices < k *)
Lemma lu_loop_frame n : forall s k (A : rmat) ip LU ipf,
  lu_loop Rops n s k A ip = Some (LU, ipf) ->
  (forall i j, (i < n)%nat -> (j < n)%nat -> (j < k)%nat -> LU i j = A i j) /\
  (forall j, (j < k)%nat -> ipf j = ip j).
Proof.
  induction s as [|s IH]; intros k A ip LU ipf H; cbn [lu_loop] in H.
  - inversion H; subst. split; reflexivity.
  - destruct (eqb Rops (A (find_pivot Rops n A k) k) (zero Rops)); [discriminate|].
    apply IH in H. destruct H as [H1 H2]. split.
    + intros i j Hi Hj Hjk. rewrite H1 by lia. rewrite compact_meq by assumption.
      unfold elim_step. replace (j <? k)%nat with true by (symmetry; apply Nat.ltb_lt; lia). reflexivity.
    + intros j Hj. rewrite H2 by lia. replace (j =? k)%nat with false by (symmetry; apply Nat.eqb_neq; lia). reflexivity.
Qed.

(* soundness of the whole loop, together with the forward pass over the right-hand side *)
Lemma lu_loop_sound n : forall s k (A : rmat) ip LU ipf,
  (k + s = n - 1)%nat -> (1 <= n)%nat ->
  lu_loop Rops n s k A ip = Some (LU, ipf) ->
  (forall j, (k <= j < k + s)%nat -> LU j j <> 0) /\
  forall b x, Sys n (n - 1) LU (fwd_loop Rops n LU ipf s k b) x -> Sys n k A b x.
Proof.
  induction s as [|s IH]; intros k A ip LU ipf Hks Hn H; cbn [lu_loop] in H.
  - inversion H; subst. split; [intros j Hj; lia|]. intros b x Hs. cbn [fwd_loop] in Hs.
    replace k with (n - 1)%nat by lia. exact Hs.
  - set (m := find_pivot Rops n A k) in *.
    destruct (eqb Rops (A m k) (zero Rops)) eqn:Ep; [discriminate|].
    apply Reqb_false_neq in Ep.
    assert (Hk : (k < n)%nat) by lia.
    destruct (find_pivot_spec n A k Hk) as [Hm _]. fold m in Hm.
    pose proof (lu_loop_frame _ _ _ _ _ _ _ H) as [Hf1 Hf2].
    destruct (IH (S k) _ _ _ _ ltac:(lia) Hn H) as [Hd Hsys].
    assert (Hcol : forall i, (i < n)%nat -> LU i k = elim_step Rops A k m i k).
    { intros i Hi. rewrite Hf1 by lia. now rewrite compact_meq by lia. }
    assert (Hipk : ipf k = m) by (rewrite Hf2 by lia; now rewrite Nat.eqb_refl).
    split.
    + intros j Hj. destruct (Nat.eq_dec j k) as [->|Hne]; [|apply Hd; lia].
      rewrite Hcol by lia. unfold elim_step. rewrite Nat.ltb_irrefl, !Nat.eqb_refl. exact Ep.
    + intros b x Hs. cbn [fwd_loop] in Hs. apply Hsys in Hs.
      apply (elim_step_sound n k m A b (fun i => LU i k) x Hk Hm Ep).
      * intros i Hi. apply Hcol. lia.
      * eapply Sys_ext; [apply compact_meq| |exact Hs].
        intros i Hi. rewrite compactv_veq by exact Hi. unfold fwd_step. rewrite Hipk. reflexivity.
Qed.

(* ---------------- back substitution ---------------- *)
Lemma sumfrom_last r m f : (r <= m)%nat -> sumfrom r (S m) f = sumfrom r m f + f m.
Proof.
  unfold sumfrom. intros H. replace (S m - r)%nat with (S (m - r)) by lia.
  remember (m - r)%nat as len eqn:El. revert r H El. induction len as [|l IH]; intros r H El.
  - simpl. replace r with m by lia. lra.
  - change (rsum r (S (S l)) f) with (f r + rsum (S r) (S l) f).
    rewrite (IH (S r)) by lia. simpl. lra.
Qed.
Lemma sumfrom_nil r f : sumfrom r r f = 0.
Proof. unfold sumfrom. now rewrite Nat.sub_diag. Qed.

Lemma back_loop_spec n (U : rmat) : forall kb (b : rvec),
  (kb < n)%nat -> (forall j, (1 <= j <= kb)%nat -> U j j <> 0) ->
  let x := back_loop Rops n U kb b in
  (forall r, (kb < r < n)%nat -> x r = b r) /\
  (forall r, (1 <= r <= kb)%nat -> sumfrom r (S kb) (fun j => U r j * x j) = b r) /\
  x 0%nat = b 0%nat - sumfrom 1 (S kb) (fun j => U 0%nat j * x j).
Proof.
  induction kb as [|k' IH]; intros b Hkb Hd; cbn [back_loop].
  - repeat split; [intros r Hr; lia|]. rewrite sumfrom_nil. lra.
  - set (b' := compactv Rops n (back_step Rops U (S k') b)).
    destruct (IH b' ltac:(lia) ltac:(intros j Hj; apply Hd; lia)) as [Ia [Ib Ic]].
    set (x := back_loop Rops n U k' b') in *.
    assert (Hb' : forall r, (r < n)%nat -> b' r = back_step Rops U (S k') b r) by (intros r Hr; unfold b'; now rewrite compactv_veq).
    assert (Hx : x (S k') = b (S k') / U (S k') (S k')).
    { rewrite Ia by lia. rewrite Hb' by lia. unfold back_step. now rewrite Nat.eqb_refl. }
    pose proof (Hd (S k') ltac:(lia)) as Hnz.
    repeat split.
    + intros r Hr. rewrite Ia by lia. rewrite Hb' by lia. unfold back_step.
      replace (r =? S k')%nat with false by (symmetry; apply Nat.eqb_neq; lia).
      replace (r <? S k')%nat with false by (symmetry; apply Nat.ltb_ge; lia). reflexivity.
    + intros r Hr. rewrite sumfrom_last by lia. rewrite Hx.
      destruct (Nat.eq_dec r (S k')) as [->|Hne].
      * rewrite sumfrom_nil. field. exact Hnz.
      * rewrite Ib by lia. rewrite Hb' by lia. unfold back_step. cbn [div add mul neg Rops].
        replace (r =? S k')%nat with false by (symmetry; apply Nat.eqb_neq; lia).
        replace (r <? S k')%nat with true by (symmetry; apply Nat.ltb_lt; lia). field. exact Hnz.
    + rewrite sumfrom_last by lia. rewrite Hx, Ic. rewrite Hb' by lia. unfold back_step. cbn [div add mul neg Rops].
      cbn [Nat.eqb Nat.ltb Nat.leb]. field. exact Hnz.
Qed.

(* ---------------- the theorem ---------------- *)
Theorem lu_solve_exact n (A : rmat) ip0 LU ip (b : rvec) :
  lu_decomp Rops n n n A ip0 = LuOk LU ip ->
  forall i, (i < n)%nat -> sumfrom 0 n (fun j => A i j * lin_solve Rops n LU ip b j) = b i.
Proof.
  unfold lu_decomp, lin_solve. rewrite Nat.eqb_refl. cbn [negb].
  destruct (n =? 1)%nat eqn:E1.
  - apply Nat.eqb_eq in E1. subst n. destruct (eqb Rops (A 0 0)%nat (zero Rops)) eqn:Ez; [discriminate|].
    intros H i Hi. inversion H; subst. apply Reqb_false_neq in Ez.
    replace i with 0%nat by lia. unfold sumfrom. simpl. field. exact Ez.
  - intros H i Hi. apply Nat.eqb_neq in E1.
    destruct (lu_loop Rops n (n - 1) 0 A ip0) as [[LU' ip']|] eqn:El; [|discriminate].
    destruct (eqb Rops (LU' (n - 1) (n - 1))%nat (zero Rops)) eqn:Ez; [discriminate|].
    inversion H; subst LU' ip'. apply Reqb_false_neq in Ez.
    destruct (lu_loop_sound n (n - 1) 0 A ip0 LU ip ltac:(lia) ltac:(lia) El) as [Hd Hsys].
    set (b1 := fwd_loop Rops n LU ip (n - 1) 0 b) in *.
    set (b2 := back_loop Rops n LU (n - 1) b1).
    set (x := fun i0 => if (i0 =? 0)%nat then div Rops (b2 0%nat) (LU 0%nat 0%nat) else b2 i0).
    assert (Hdiag : forall j, (j < n)%nat -> LU j j <> 0).
    { intros j Hj. destruct (Nat.eq_dec j (n - 1)) as [->|Hne]; [exact Ez|]. apply Hd. lia. }
    destruct (back_loop_spec n LU (n - 1) b1 ltac:(lia) ltac:(intros j Hj; apply Hdiag; lia)) as [_ [Ib Ic]].
    fold b2 in Ib, Ic. replace (S (n - 1)) with n in Ib, Ic by lia.
    assert (Hx : forall j, (1 <= j)%nat -> x j = b2 j).
    { intros j Hj. unfold x. replace (j =? 0)%nat with false by (symmetry; apply Nat.eqb_neq; lia). reflexivity. }
    assert (Htri : Sys n (n - 1) LU b1 x).
    { assert (T : forall r, (r < n)%nat -> sumfrom r n (fun j => LU r j * x j) = b1 r).
      { intros r Hr. destruct (Nat.eq_dec r 0) as [->|Hne].
        - rewrite sumfrom_step by lia.
          rewrite (sumfrom_ext 1 n _ (fun j => LU 0%nat j * b2 j)) by (intros j Hj; rewrite Hx by lia; reflexivity).
          unfold x at 1. cbn [Nat.eqb div Rops]. rewrite Ic.
          pose proof (Hdiag 0%nat ltac:(lia)) as H0. field. exact H0.
        - rewrite (sumfrom_ext r n _ (fun j => LU r j * b2 j)) by (intros j Hj; rewrite Hx by lia; reflexivity).
          apply Ib. lia. }
      split; [intros r Hr Hrn; now apply T|]. intros i0 Hi0. replace i0 with (n - 1)%nat by lia. apply T. lia. }
    apply Hsys in Htri. destruct Htri as [_ H2]. apply (H2 i). lia.
Qed.

(* ---------------- multipliers are at most 1 in magnitude ---------------- *)
Theorem multipliers_bounded n (A : rmat) k i :
  (k < n)%nat -> (k < i < n)%nat -> A (find_pivot Rops n A k) k <> 0 ->
  Rabs (elim_step Rops A k (find_pivot Rops n A k) i k) <= 1.
Proof.
  intros Hk Hi Hp. destruct (find_pivot_spec n A k Hk) as [Hm Hmax].
  set (m := find_pivot Rops n A k) in *.
  unfold elim_step. cbn [ltb div mul neg add one zero eqb Rops].
  rewrite Nat.ltb_irrefl, Nat.eqb_refl.
  replace (i <? k)%nat with false by (symmetry; apply Nat.ltb_ge; lia).
  replace (i =? k)%nat with false by (symmetry; apply Nat.eqb_neq; lia).
  set (c := if (i =? m)%nat then A k k else A i k).
  assert (Hc : Rabs c <= Rabs (A m k)) by (unfold c; destruct (i =? m)%nat; apply Hmax; lia).
  replace (- c * (1 / A m k)) with (- (c / A m k)) by (field; exact Hp).
  rewrite Rabs_Ropp. unfold Rdiv. rewrite Rabs_mult, Rabs_Rinv by exact Hp.
  assert (Hpos : 0 < Rabs (A m k)) by (apply Rabs_pos_lt; exact Hp).
  apply (Rmult_le_reg_r (Rabs (A m k))); [exact Hpos|].
  rewrite Rmult_assoc, Rinv_l by lra. lra.
Qed.

(* ---------------- rejections ---------------- *)
(* a pivot column that is exactly zero on and below the diagonal stops the factorisation *)
Theorem zero_pivot_column_rejected n (A : rmat) ip s k :
  (k < n)%nat -> (forall i, (k <= i < n)%nat -> A i k = 0) -> lu_loop Rops n (S s) k A ip = None.
Proof.
  intros Hk Hz. cbn [lu_loop]. destruct (find_pivot_spec n A k Hk) as [Hm _].
  rewrite (Hz _ Hm). cbn [eqb zero Rops]. unfold Reqb. destruct (Req_EM_T 0 0); [reflexivity|contradiction].
Qed.

Theorem zero_first_column_singular n (A : rmat) ip0 :
  (1 <= n)%nat -> (forall i, (i < n)%nat -> A i 0%nat = 0) -> lu_decomp Rops n n n A ip0 = LuSingular.
Proof.
  intros Hn Hz. unfold lu_decomp. rewrite Nat.eqb_refl. cbn [negb].
  destruct (n =? 1)%nat eqn:E1.
  - rewrite (Hz 0%nat) by lia. cbn [eqb zero Rops]. unfold Reqb. destruct (Req_EM_T 0 0); [reflexivity|contradiction].
  - apply Nat.eqb_neq in E1. replace (n - 1)%nat with (S (n - 2)) by lia.
    rewrite zero_pivot_column_rejected; [reflexivity|lia|]. intros i Hi. apply Hz. lia.
Qed.

Theorem shape_rejections {F} (O : Ops F) nr nc ipl (A : mat (F:=F)) ip0 :
  (nr <> nc -> lu_decomp O nr nc ipl A ip0 = LuNonSquare) /\
  (nr = nc -> ipl <> nr -> lu_decomp O nr nc ipl A ip0 = LuPivotSize).
Proof.
  unfold lu_decomp. split.
  - intros H. apply Nat.eqb_neq in H. now rewrite H.
  - intros H1 H2. subst nc. rewrite Nat.eqb_refl. apply Nat.eqb_neq in H2. now rewrite H2.
Qed.

Theorem lu_success_diag n (A : rmat) ip0 LU ip :
  (1 <= n)%nat -> lu_decomp Rops n n n A ip0 = LuOk LU ip -> forall j, (j < n)%nat -> LU j j <> 0.
Proof.
  intros Hn. unfold lu_decomp. rewrite Nat.eqb_refl. cbn [negb].
  destruct (n =? 1)%nat eqn:E1.
  - apply Nat.eqb_eq in E1. subst n. destruct (eqb Rops (A 0 0)%nat (zero Rops)) eqn:Ez; [discriminate|].
    intros H j Hj. inversion H; subst. replace j with 0%nat by lia. now apply Reqb_false_neq.
  - intros H j Hj. apply Nat.eqb_neq in E1.
    destruct (lu_loop Rops n (n - 1) 0 A ip0) as [[LU' ip']|] eqn:El; [|discriminate].
    destruct (eqb Rops (LU' (n - 1) (n - 1))%nat (zero Rops)) eqn:Ez; [discriminate|].
    inversion H; subst LU' ip'. apply Reqb_false_neq in Ez.
    destruct (lu_loop_sound n (n - 1) 0 A ip0 LU ip ltac:(lia) ltac:(lia) El) as [Hd _].
    destruct (Nat.eq_dec j (n - 1)) as [->|Hne]; [exact Ez|]. apply Hd. lia.
Qed.
