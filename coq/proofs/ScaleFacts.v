(* Scaled-integer order certificates.  The 30-digit DOP853 coefficients (and the binary64 values of
   every tableau) are rationals with a common denominator D.  Elementary weights are homogeneous of
   degree size(t)-1 in the entries of A, so they can be computed over Z (no gcds) and the order
   condition  gamma * b.Phi = 1  becomes  gamma * (bint . N) = D^size.  This file proves that the
   integer check implies the rational statement. *)
Require Import List ZArith QArith Qcanon Lia.
Require Import IVP.model.Lit IVP.model.RK IVP.model.Trees IVP.model.Vec IVP.model.Order.
Require Import IVP.proofs.TreesFacts IVP.proofs.OrderFacts.
Import ListNotations.
Local Open Scope Qc_scope.

(* ---------- Z2Qc is a ring homomorphism ---------- *)
Lemma Z2Qc_0 : Z2Qc 0 = 0.
Proof. apply Qc_is_canon. reflexivity. Qed.
Lemma Z2Qc_1 : Z2Qc 1 = 1.
Proof. apply Qc_is_canon. reflexivity. Qed.
Lemma Z2Qc_add a b : Z2Qc (a + b) = Z2Qc a + Z2Qc b.
Proof.
  apply Qc_is_canon. unfold Z2Qc, Qcplus. cbn [this Q2Qc].
  rewrite !Qred_correct. rewrite inject_Z_plus. reflexivity.
Qed.
Lemma Z2Qc_mul a b : Z2Qc (a * b) = Z2Qc a * Z2Qc b.
Proof.
  apply Qc_is_canon. unfold Z2Qc, Qcmult. cbn [this Q2Qc].
  rewrite !Qred_correct. rewrite inject_Z_mult. reflexivity.
Qed.
Lemma Z2Qc_le a b : (a <= b)%Z -> Z2Qc a <= Z2Qc b.
Proof.
  intros H. unfold Qcle, Z2Qc. cbn [this Q2Qc]. rewrite !Qred_correct.
  rewrite <- Zle_Qle. exact H.
Qed.
Lemma Z2Qc_pos a : (0 < a)%Z -> 0 < Z2Qc a.
Proof.
  intros H. unfold Qclt, Z2Qc. cbn [this Q2Qc]. rewrite !Qred_correct.
  change (inject_Z 0 < inject_Z a)%Q. rewrite <- Zlt_Qlt. exact H.
Qed.

Lemma Qcpower_add (c : Qc) a b : c ^ (a + b) = c ^ a * c ^ b.
Proof. induction a as [|a IH]; cbn [Nat.add Qcpower]; [ring|]. rewrite IH. ring. Qed.

Lemma Z2Qc_pow D n : Z2Qc (D ^ Z.of_nat n) = Z2Qc D ^ n.
Proof.
  induction n as [|n IHn]; [cbn [Z.of_nat]; rewrite Z.pow_0_r; apply Z2Qc_1|].
  rewrite Nat2Z.inj_succ, Z.pow_succ_r by lia. rewrite Z2Qc_mul, IHn. reflexivity.
Qed.

(* ---------- scaling a tableau by a constant ---------- *)
Section Scaling.
  Variable c : Qc.
  Notation sc d := (map (Qcmult d)).

  Lemma qdot_scale_l d r v : qdot (sc d r) v = d * qdot r v.
  Proof.
    unfold kdot. revert v. induction r as [|x r IH]; intros [|y v]; cbn [map map2 fold_right];
      try (cbn; ring).
    rewrite IH. cbn. ring.
  Qed.
  Lemma qdot_scale_r d r v : qdot r (sc d v) = d * qdot r v.
  Proof.
    unfold kdot. revert v. induction r as [|x r IH]; intros [|y v]; cbn [map map2 fold_right];
      try (cbn; ring).
    rewrite IH. cbn. ring.
  Qed.
  Lemma kmv_scale_A d A v : kmv QcK (map (sc d) A) v = sc d (kmv QcK A v).
  Proof. unfold kmv. rewrite !map_map. apply map_ext. intros r. apply qdot_scale_l. Qed.
  Lemma kmv_scale_v d A v : kmv QcK A (sc d v) = sc d (kmv QcK A v).
  Proof. unfold kmv. rewrite !map_map. apply map_ext. intros r. apply qdot_scale_r. Qed.
  Lemma kvmul_scale d e u v : kvmul QcK (sc d u) (sc e v) = sc (d * e) (kvmul QcK u v).
  Proof.
    unfold kvmul. revert v. induction u as [|x u IH]; intros [|y v]; cbn [map map2]; try reflexivity.
    rewrite IH. f_equal. cbn. ring.
  Qed.
  Lemma sc_one v : sc 1 v = v.
  Proof. induction v as [|x v IH]; cbn [map]; [reflexivity|]. rewrite IH. f_equal. ring. Qed.
  Lemma sc_sc d e v : sc d (sc e v) = sc (d * e) v.
  Proof. rewrite map_map. apply map_ext. intros x. ring. Qed.

  Variables (A : list qvec) (s : nat).
  Notation A' := (map (sc c) A).

  Lemma Phi_scale t : Phi QcK A' s t = sc (c ^ (size t - 1)) (Phi QcK A s t).
  Proof.
    induction t as [cs IH] using tree_ind'. rewrite !Phi_Node, size_Node.
    replace (S (sizeF cs) - 1)%nat with (sizeF cs) by lia.
    induction IH as [|t r Ht _ IHr]; cbn [PhiF].
    - change (sizeF []) with 0%nat. cbn [Qcpower]. now rewrite sc_one.
    - rewrite IHr, Ht, kmv_scale_A, kmv_scale_v, sc_sc, kvmul_scale. do 2 f_equal.
      rewrite sizeF_cons. pose proof (size_pos t) as Hp.
      replace (size t + sizeF r)%nat with (S (size t - 1) + sizeF r)%nat by lia.
      rewrite Qcpower_add. cbn [Qcpower]. ring.
  Qed.
End Scaling.

(* ---------- integer tableau -> rational tableau ---------- *)
Definition zq (l : list Z) : qvec := map Z2Qc l.
Lemma Phi_int (Ai : list (list Z)) s t :
  Phi QcK (map zq Ai) s t = zq (Phi ZK Ai s t).
Proof.
  unfold zq. symmetry.
  apply (hom_Phi ZK QcK Z2Qc Z2Qc_0 Z2Qc_1 Z2Qc_add Z2Qc_mul).
Qed.
Lemma qdot_int (a b : list Z) : qdot (zq a) (zq b) = Z2Qc (kdot ZK a b).
Proof.
  unfold zq. symmetry.
  apply (hom_dot ZK QcK Z2Qc Z2Qc_0 Z2Qc_add Z2Qc_mul).
Qed.

(* the integer form of the conditions: with A = Ai/D, b = bi/D,
     gamma * b.Phi(t) - 1 = (gamma * (bi.N) - D^size) / D^size                *)
Definition zcond_approx (D tn td : Z) (bi : list Z) (v : wval (K := Z)) : bool :=
  let g := w_gamma v in
  let Dn := (D ^ Z.of_nat (w_size v))%Z in
  (Z.abs (g * kdot ZK bi (w_phi v) - Dn) * td <=? g * tn * Dn)%Z.
Definition zcond_zero_approx (D tn td : Z) (wi : list Z) (v : wval (K := Z)) : bool :=
  let Dn := (D ^ Z.of_nat (w_size v))%Z in
  (Z.abs (kdot ZK wi (w_phi v)) * td <=? tn * Dn)%Z.

Section IntSound.
  Variables (Ai : list (list Z)) (bi : list Z) (s : nat) (D : Z).
  Hypothesis HD : (0 < D)%Z.
  Let cq : Qc := / Z2Qc D.
  Definition Aq : list qvec := map (fun r => map (Qcmult cq) (zq r)) Ai.
  Definition bq : qvec := map (Qcmult cq) (zq bi).

  Lemma Aq_eq : Aq = map (map (Qcmult cq)) (map zq Ai).
  Proof. unfold Aq. now rewrite map_map. Qed.

  Lemma wof_size t : w_size (wof ZK Ai s t) = size t.
  Proof. reflexivity. Qed.

  Lemma cq_inv n : cq ^ n * Z2Qc D ^ n = 1.
  Proof.
    assert (HD0 : Z2Qc D <> 0).
    { intro H0. pose proof (Z2Qc_pos D HD) as Hp'. rewrite H0 in Hp'. now apply Qclt_not_eq in Hp'. }
    unfold cq. induction n as [|n IHn]; cbn [Qcpower]; [ring|].
    transitivity ((/ Z2Qc D * Z2Qc D) * ((/ Z2Qc D) ^ n * Z2Qc D ^ n)); [ring|].
    rewrite IHn, Qcmult_inv_l by exact HD0. ring.
  Qed.

  Lemma cond_value t :
    Z2Qc (gamma t) * qdot bq (Phi QcK Aq s t) - 1 =
    cq ^ (size t) * Z2Qc (gamma t * kdot ZK bi (Phi ZK Ai s t) - D ^ Z.of_nat (size t)).
  Proof.
    rewrite Aq_eq, Phi_scale, Phi_int. unfold bq. rewrite qdot_scale_l, qdot_scale_r, qdot_int.
    pose proof (size_pos t) as Hp.
    set (B := kdot ZK bi (Phi ZK Ai s t)).
    replace (gamma t * B - D ^ Z.of_nat (size t))%Z
      with (gamma t * B + (-1) * D ^ Z.of_nat (size t))%Z by ring.
    rewrite Z2Qc_add, !Z2Qc_mul, Z2Qc_pow.
    assert (Hm1 : Z2Qc (-1) = - (1)) by (apply Qc_is_canon; reflexivity).
    rewrite Hm1.
    destruct (size t) as [|m]; [lia|]. replace (S m - 1)%nat with m by lia.
    transitivity (cq ^ S m * (Z2Qc (gamma t) * Z2Qc B) - cq ^ S m * Z2Qc D ^ S m);
      [rewrite cq_inv; cbn [Qcpower]; ring|ring].
  Qed.

  (* the residual of the order condition of t is M / D^size(t) with the integer M bounded by the certificate *)
  Theorem zcheck_approx_sound (tn td : Z) p :
    check_all ZK Ai s (zcond_approx D tn td bi) p = true ->
    forall t, (size t <= p)%nat ->
      exists M : Z,
        Z2Qc (gamma t) * qdot bq (Phi QcK Aq s t) - 1 = cq ^ (size t) * Z2Qc M /\
        (Z.abs M * td <= gamma t * tn * D ^ Z.of_nat (size t))%Z.
  Proof.
    intros H t Ht. apply (check_all_sound _ _ _ _ _ H) in Ht.
    unfold zcond_approx in Ht. cbn [w_gamma w_phi w_size wof] in Ht. apply Z.leb_le in Ht.
    eexists. split; [apply cond_value|exact Ht].
  Qed.

  Lemma zero_value (wi : list Z) t :
    qdot (map (Qcmult cq) (zq wi)) (Phi QcK Aq s t) = cq ^ (size t) * Z2Qc (kdot ZK wi (Phi ZK Ai s t)).
  Proof.
    rewrite Aq_eq, Phi_scale, Phi_int. rewrite qdot_scale_l, qdot_scale_r, qdot_int.
    pose proof (size_pos t) as Hp.
    replace (size t) with (S (size t - 1)) at 2 by lia. cbn [Qcpower]. ring.
  Qed.

  Theorem zcheck_zero_approx_sound (wi : list Z) (tn td : Z) p :
    check_all ZK Ai s (zcond_zero_approx D tn td wi) p = true ->
    forall t, (size t <= p)%nat ->
      exists M : Z,
        qdot (map (Qcmult cq) (zq wi)) (Phi QcK Aq s t) = cq ^ (size t) * Z2Qc M /\
        (Z.abs M * td <= tn * D ^ Z.of_nat (size t))%Z.
  Proof.
    intros H t Ht. apply (check_all_sound _ _ _ _ _ H) in Ht.
    unfold zcond_zero_approx in Ht. cbn [w_gamma w_phi w_size wof] in Ht. apply Z.leb_le in Ht.
    eexists. split; [apply zero_value|exact Ht].
  Qed.
End IntSound.
