(* C09: per accepted step and per event function, exactly one event is recorded when the direction-aware sign test
   `crossed` fires on the function's values at the two step ends, and none otherwise -- for ANY number type, event
   functions, interpolants and (non-terminal) configurations.  Also: after the callback the remembered values are the
   current ones, so the next step compares against this step's right end. *)
Require Import List Arith Bool ZArith Lia Permutation.
Require Import IVP.model.Lit IVP.model.Ops IVP.model.Vec IVP.model.Common IVP.model.SolOut.
Require Import IVP.proofs.SolOutFacts.
Import ListNotations.

Section Count.
  Context {F : Type} (O : Ops F).
  Notation ev := (F * nat * list F)%type.
  Definition idx (e : ev) : nat := snd (fst e).
  Definition cnt (i : nat) (l : list ev) : nat := length (filter (fun e => Nat.eqb (idx e) i) l).

  Lemma upd_length {A} (l : list A) i f : length (upd l i f) = length l.
  Proof. revert i. induction l as [|a l IH]; intros [|i]; cbn [upd length]; auto. Qed.
  Lemma upd_nth_same {A} (l : list A) i f d : (i < length l)%nat -> nth i (upd l i f) d = f (nth i l d).
  Proof. revert i. induction l as [|a l IH]; intros [|i] H; cbn [upd nth length] in *; try lia; auto. apply IH. lia. Qed.
  Lemma upd_nth_other {A} (l : list A) i j f d : i <> j -> nth j (upd l i f) d = nth j l d.
  Proof. revert i j. induction l as [|a l IH]; intros [|i] [|j] H; cbn [upd nth]; auto; try lia. Qed.

  (* without terminal events every detected event is recorded, in its function's list *)
  Lemma process_all C fwd xold interp : forall evs s,
    no_terminal C -> (forall e, In e evs -> (idx e < length (hs_tev s))%nat) ->
    let s' := fst (process_events O C fwd xold interp evs s) in
    length (hs_tev s') = length (hs_tev s) /\
    forall i, length (nth i (hs_tev s') []) = (length (nth i (hs_tev s) []) + cnt i evs)%nat.
  Proof.
    induction evs as [|[[te i0] ye] rest IH]; intros s Hn Hi; cbn [process_events].
    - cbn [fst]. split; [reflexivity|]. intros i. unfold cnt. cbn. lia.
    - rewrite (nth_no_terminal C i0 Hn). cbv beta iota zeta.
      match goal with |- context [process_events O C fwd xold interp rest ?s1] => set (s1' := s1) end.
      assert (Hl1 : length (hs_tev s1') = length (hs_tev s)) by (subst s1'; cbn [hs_tev]; apply upd_length).
      assert (Hi1 : forall e, In e rest -> (idx e < length (hs_tev s1'))%nat).
      { intros e He. rewrite Hl1. apply Hi. right. exact He. }
      destruct (IH s1' Hn Hi1) as [A B]. cbv zeta in A, B. split; [rewrite A; exact Hl1|].
      intros i. rewrite B. subst s1'. cbn [hs_tev].
      assert (Hi0 : (i0 < length (hs_tev s))%nat) by (apply (Hi (te, i0, ye)); left; reflexivity).
      unfold cnt at 2. cbn [filter idx fst snd].
      destruct (Nat.eqb_spec i0 i) as [->|Hne].
      + rewrite upd_nth_same by exact Hi0. cbn [length]. unfold cnt. lia.
      + rewrite upd_nth_other by exact Hne. unfold cnt. lia.
  Qed.

  Lemma cnt_perm i l l' : Permutation l l' -> cnt i l = cnt i l'.
  Proof.
    unfold cnt. intros Hp. induction Hp; cbn [filter]; auto.
    - destruct (Nat.eqb _ _); cbn [length]; auto.
    - destruct (Nat.eqb (idx y) i), (Nat.eqb (idx x) i); cbn [length]; auto.
    - congruence.
  Qed.

  (* ---- the detection pass: one candidate per function whose values at the step ends satisfy `crossed` ---- *)
  Section Detect.
    Variables (C : hconfig (F:=F)) (xold x : F) (yold y : list F) (sg : option (list F * F * F)) (prev gcurr : list F).
    Definition crossb (i : nat) : bool :=
      crossed O (nth i prev (zero O)) (nth i gcurr (zero O)) (ec_dir (nth i (hc_evcfg C) (mkEC DirAll None))).
    Definition body (acc : list ev * list (F * list F) * N) (i : nat) : list ev * list (F * list F) * N :=
      let '(det, log, unconv) := acc in
      let gp := nth i prev (zero O) in
      let gc := nth i gcurr (zero O) in
      let cfg := nth i (hc_evcfg C) (mkEC DirAll None) in
      if crossed O gp gc (ec_dir cfg) then
        let '(te, ye, pts, conv) := locate_event O C i xold x yold y gp gc sg in
        (det ++ [(te, i, ye)],
         fold_left (fun l p => (p, interp_of O C (length y) sg p) :: l) pts log,
         if conv then unconv else (unconv + 1)%N)
      else acc.

    Lemma cnt_app i (l1 l2 : list ev) : cnt i (l1 ++ l2) = (cnt i l1 + cnt i l2)%nat.
    Proof. unfold cnt. rewrite filter_app, app_length. reflexivity. Qed.

    Lemma det_fold : forall l acc,
      NoDup l ->
      forall i, cnt i (fst (fst (fold_left body l acc))) =
                (cnt i (fst (fst acc)) + (if existsb (Nat.eqb i) l && crossb i then 1 else 0))%nat.
    Proof.
      induction l as [|j l IH]; intros [[det log] u] Hnd i; cbn [fold_left fst existsb andb]; [lia|].
      inversion Hnd as [|? ? Hnot Hnd']; subst.
      rewrite IH by exact Hnd'. unfold body. cbv zeta. fold (crossb j).
      destruct (Nat.eqb_spec i j) as [->|Hne].
      - assert (Ex : existsb (Nat.eqb j) l = false).
        { apply not_true_is_false. intro E. apply existsb_exists in E. destruct E as [k [Hk Ek]].
          apply Nat.eqb_eq in Ek. subst k. contradiction. }
        rewrite Ex. cbn [orb andb].
        destruct (crossb j).
        + destruct (locate_event _ _ _ _ _ _ _ _ _ _) as [[[te ye] pts] conv]. cbn [fst].
          rewrite cnt_app. unfold cnt at 2. cbn [filter idx fst snd]. rewrite Nat.eqb_refl. cbn [length]. lia.
        + cbn [fst]. lia.
      - cbn [orb]. destruct (crossb j).
        + destruct (locate_event _ _ _ _ _ _ _ _ _ _) as [[[te ye] pts] conv]. cbn [fst].
          rewrite cnt_app. unfold cnt at 2. cbn [filter idx fst snd].
          destruct (Nat.eqb_spec j i); [congruence|]. cbn [length]. lia.
        + cbn [fst]. lia.
    Qed.

    Lemma det_idx : forall l acc,
      (forall e, In e (fst (fst acc)) -> In (idx e) l \/ (idx e < hc_nevents C)%nat) ->
      (forall j, In j l -> (j < hc_nevents C)%nat) ->
      forall e, In e (fst (fst (fold_left body l acc))) -> (idx e < hc_nevents C)%nat.
    Proof.
      induction l as [|j l IH]; intros [[det log] u] Hacc Hl e He; cbn [fold_left fst] in *.
      - destruct (Hacc e He) as [[]|H]; exact H.
      - eapply IH; [| |exact He].
        + unfold body. cbv zeta. destruct (crossed O _ _ _).
          * destruct (locate_event _ _ _ _ _ _ _ _ _ _) as [[[te ye] pts] conv]. cbn [fst].
            intros e' He'. apply in_app_or in He'. destruct He' as [He'|[<-|[]]].
            { destruct (Hacc e' He') as [[<-|H]|H]; [right; apply Hl; left; reflexivity|left; exact H|right; exact H]. }
            { right. cbn [idx fst snd]. apply Hl. left. reflexivity. }
          * cbn [fst]. intros e' He'. destruct (Hacc e' He') as [[<-|H]|H];
              [right; apply Hl; left; reflexivity|left; exact H|right; exact H].
        + intros k Hk. apply Hl. right. exact Hk.
    Qed.
  End Detect.

  (* ---- the theorem: one event per crossed step and function, none otherwise ---- *)
  Theorem events_per_step C s xold x y sg yold :
    no_terminal C -> (0 < hc_nevents C)%nat -> hs_yold s = Some yold -> length (hs_tev s) = hc_nevents C ->
    let s' := fst (detect_events O C s xold x y sg) in
    let gcurr := hc_events C x y in
    hs_prev s' = gcurr /\
    length (hs_tev s') = hc_nevents C /\
    forall i, (i < hc_nevents C)%nat ->
      length (nth i (hs_tev s') []) =
      (length (nth i (hs_tev s) []) + (if crossb C (hs_prev s) gcurr i then 1 else 0))%nat.
  Proof.
    intros Hn Hpos Hy Hlen. unfold detect_events.
    apply Nat.ltb_lt in Hpos. rewrite Hpos. cbv zeta. cbn [hs_yold]. rewrite Hy. cbn [hs_prev hs_evlog hs_brent_unconverged].
    change (fun (acc : list ev * list (F * list F) * N) (i : nat) => _) with
      (body C xold x yold y sg (hs_prev s) (hc_events C x y)).
    set (fd := fold_left (body C xold x yold y sg (hs_prev s) (hc_events C x y)) (seq 0 (hc_nevents C))
                         ([], (x, y) :: hs_evlog s, hs_brent_unconverged s)).
    pose proof (det_fold C xold x yold y sg (hs_prev s) (hc_events C x y) (seq 0 (hc_nevents C))
                         ([], (x, y) :: hs_evlog s, hs_brent_unconverged s) (seq_NoDup _ _)) as Hcnt.
    pose proof (det_idx C xold x yold y sg (hs_prev s) (hc_events C x y) (seq 0 (hc_nevents C))
                        ([], (x, y) :: hs_evlog s, hs_brent_unconverged s)) as Hidx.
    fold fd in Hcnt, Hidx. destruct fd as [[det log] unconv]. cbn [fst] in Hcnt, Hidx.
    assert (Hidx' : forall e, In e det -> (idx e < hc_nevents C)%nat).
    { apply Hidx; [intros e []|intros j Hj; apply in_seq in Hj; lia]. }
    set (before := if ltb O xold x then _ else _).
    destruct (sort_ev_sorted before det) as [_ Hperm].
    match goal with |- context [process_events O C ?fw xold ?ip (sort_ev before det) ?s0] =>
      pose proof (process_all C fw xold ip (sort_ev before det) s0 Hn) as Hp;
      destruct (process_events O C fw xold ip (sort_ev before det) s0) as [s1 term] eqn:Epe
    end.
    cbn [fst hs_prev hs_tev] in *.
    assert (Hpre : forall e, In e (sort_ev before det) -> (idx e < length (hs_tev s))%nat).
    { intros e He. rewrite Hlen. apply Hidx'. eapply Permutation_in; [apply Permutation_sym; exact Hperm|exact He]. }
    specialize (Hp Hpre). cbv zeta in Hp. destruct Hp as [Hl Hc].
    split; [reflexivity|]. split; [rewrite Hl; exact Hlen|].
    intros i Hi. rewrite Hc, <- (cnt_perm i _ _ Hperm), Hcnt. cbn [cnt filter length Nat.add].
    assert (Ex : existsb (Nat.eqb i) (seq 0 (hc_nevents C)) = true).
    { apply existsb_exists. exists i. split; [apply in_seq; lia|apply Nat.eqb_refl]. }
    rewrite Ex. cbn [andb]. reflexivity.
  Qed.
End Count.
