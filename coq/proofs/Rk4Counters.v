(* C18 for the RK4 skeleton (after the "fix: RK4 counts ..." commit): nfev and naccpt. *)
Require Import List ZArith Bool Lia.
Require Import IVP.model.Lit IVP.model.Ops IVP.model.Vec IVP.model.Common IVP.model.RK IVP.model.Rk4
               IVP.model.Tableau IVP.proofs.RKFacts.
Import ListNotations.

Section Counters.
  Context {F : Type} (O : Ops F) {H : Type}.
  Variable P : params.
  Variable f : F -> list F -> list F.
  Variables (xend h : F).
  Variable cb : H -> F -> F -> list F -> option (list F * F * F) -> H * flag F * list F.
  Variable kern : F -> list F -> list F -> F -> attempt (F:=F).
  Hypothesis kern_calls : forall x y k h, length (at_calls (kern x y k h)) = 4.

  Definition counted (st : stats) (log : list (F * list F)) : Prop :=
    nfev st = N.of_nat (length log) /\ naccpt st = nstep st.

  Lemma step_counted s :
    counted (s_stats s) (s_log s) ->
    match step O P f xend h cb kern s with
    | inl s' => counted (s_stats s') (s_log s')
    | inr r => counted (r_stats r) (r_log r)
    end.
  Proof.
    intros Hc. unfold step.
    destruct (N.leb _ _); [exact Hc|].
    set (last := ltb O (zero O) _).
    set (h' := if last then _ else _).
    set (a := kern (s_x s) (s_y s) (s_k1 s) h').
    assert (Hk : counted (add_acc (add_step (add_fev (s_stats s) 4))) (rev_append (at_calls a) (s_log s))).
    { assert (Hl : length (at_calls a) = 4) by apply kern_calls. destruct Hc as [Hc1 Hc2].
      unfold counted. simpl. rewrite rev_append_rev, app_length, rev_length, Hl, Hc1, Hc2. split; lia. }
    destruct (cb _ _ _ _ _) as [[cbs fl] ycb].
    destruct fl; cbn [r_stats r_log s_stats s_log]; try exact Hk;
      try (destruct last; cbn [r_stats r_log s_stats s_log]; exact Hk).
    assert (Hm : counted (add_fev (add_acc (add_step (add_fev (s_stats s) 4))) 1)
                         ((add O (s_x s) h', ycb) :: rev_append (at_calls a) (s_log s))).
    { destruct Hk as [Hk1 Hk2]. unfold counted in *. simpl in *. rewrite Hk1. split; [lia|exact Hk2]. }
    destruct last; cbn [r_stats r_log s_stats s_log]; exact Hm.
  Qed.

  Theorem loop_counted fuel s r :
    counted (s_stats s) (s_log s) ->
    loop O P f xend h cb kern fuel s = Some r ->
    counted (r_stats r) (r_log r).
  Proof.
    revert s. induction fuel as [|k IH]; intros s Hc Hl; [discriminate|].
    simpl in Hl. pose proof (step_counted s Hc) as Hs.
    destruct (step O P f xend h cb kern s) as [s'|r'].
    - eapply IH; eauto.
    - now inversion Hl; subst.
  Qed.
End Counters.

Section Solve.
  Context {F : Type} (O : Ops F) {H : Type}.

  Lemma kernel_calls f x y k h : length (at_calls (kernel O f x y k h)) = 4.
  Proof.
    unfold kernel.
    pose proof (run_stages_calls O f x h y RK4T.stages [k] []) as Hl.
    destruct (run_stages O f x h y RK4T.stages [k] []) as [ks calls].
    cbn [at_calls]. rewrite app_length. simpl in *. lia.
  Qed.

  (* nfev counts every right-hand-side evaluation, and every step RK4 takes is an accepted one *)
  Theorem solve_counted (P : params) f x0 y0 xend h
          (cb : H -> F -> F -> list F -> option (list F * F * F) -> H * flag F * list F) cb0 fuel r :
    solve O P f x0 y0 xend h cb cb0 fuel = Some r ->
    nfev (r_stats r) = N.of_nat (length (r_log r)) /\ naccpt (r_stats r) = nstep (r_stats r).
  Proof.
    unfold solve.
    destruct (_ || _); [discriminate|]. destruct (N.eqb _ _); [discriminate|].
    destruct (cb cb0 x0 x0 y0 None) as [[cbs fl] y].
    destruct fl.
    - intros E. eapply (loop_counted O P f); [apply kernel_calls | | exact E]. split; reflexivity.
    - intros E. inversion E; subst. split; reflexivity.
    - intros E. eapply (loop_counted O P f); [apply kernel_calls | | exact E]. split; reflexivity.
    - intros E. eapply (loop_counted O P f); [apply kernel_calls | | exact E]. split; reflexivity.
  Qed.
End Solve.
