(* C07 link: the real-number instance of the model's dense output is  y + h * sum_j b_j(theta) k_j  with exactly
   the weight polynomials of model/DenseW.v (whose continuous order conditions proofs/CertDense.v certifies). *)
Require Import List Arith Lia Reals Lra QArith Qreals Qcanon.
Require Import IVP.model.Lit IVP.model.Ops IVP.model.Vec IVP.model.RK IVP.model.Tableau IVP.model.RealOps
               IVP.model.Order IVP.model.DenseW IVP.gen.Inline IVP.proofs.ListFacts IVP.proofs.DenseFacts.
Require IVP.model.Dopri5 IVP.model.Rk23 IVP.model.Rk4.
Import ListNotations.
Local Open Scope R_scope.

(* value of a rational polynomial at a real point *)
Fixpoint evalQ (l : list Q) (th : R) : R :=
  match l with [] => 0 | c :: r => Q2R c + th * evalQ r th end.
Definition evalR (p : qpoly) (th : R) : R := evalQ (map this p) th.

(* sum_{j < s} b_j(theta) * K j *)
Definition wsum (W : nat -> qpoly) (s : nat) (th : R) (K : nat -> R) : R :=
  fold_right (fun j acc => evalR (W j) th * K j + acc) 0 (seq 0 s).

Ltac eval_weights W s :=
  unfold wsum; cbn [seq fold_right]; unfold evalR;
  repeat match goal with |- context [map this (W ?q ?j)] =>
    let l := eval vm_compute in (map this (W q j)) in
    replace (map this (W q j)) with l by (vm_compute; reflexivity) end;
  cbn [evalQ].

Section D5L.
  Import IVP.model.Dopri5.
  Variables (n : nat) (y : rv) (h : R) (a : attempt (F:=R)).
  Hypothesis Hy : length y = n.
  Hypothesis Hks : forall j, (j < 7)%nat -> length (nth j (at_ks a) []) = n.
  (* what the kernel returns: y1 = y + h * (b . k), k2 = k7 *)
  Hypothesis Hynew : at_ynew a = stage_arg Rops h y (at_ks a) (RSum DOPRI5T.b).
  Hypothesis Hknew : at_knew a = nth 6 (at_ks a) [].

  Theorem d5_link i xold xi : (i < n)%nat -> h <> 0 ->
    nth i (interpolate Rops (dense Rops y h a) xold h xi n) 0 =
    nth i y 0 + h * wsum (D5W.Wj lit_q) 7 ((xi - xold) / h) (fun j => nth i (nth j (at_ks a) []) 0).
  Proof.
    intros Hi Hh.
    assert (Ub : uses_len DOPRI5T.b (at_ks a) n) by (repeat constructor; cbn [snd]; apply Hks; lia).
    destruct (lincomb_spec DOPRI5T.b (at_ks a) n i Ub Hi) as [Lb Nb].
    assert (Hyn : length (at_ynew a) = n).
    { rewrite Hynew. cbn [stage_arg]. rewrite map2_length, Hy, Lb. apply Nat.min_id. }
    assert (Hkn : length (at_knew a) = n) by (rewrite Hknew; apply Hks; lia).
    rewrite (d5_interp_nth n y h a Hy Hyn Hkn Hks) by exact Hi. cbv zeta.
    assert (E1 : nth i (at_ynew a) 0 = nth i y 0 + h * lsum DOPRI5T.b (at_ks a) i).
    { rewrite Hynew. cbn [stage_arg]. rewrite Hy. rewrite (nth_map2 _ 0 0) by lia. now rewrite Nb. }
    rewrite E1, Hknew.
    set (th := (xi - xold) / h).
    unfold lsum, DOPRI5T.b, DOPRI5T.d. cbn [fold_left fst snd].
    eval_weights D5W.Wj 7%nat.
    set (k1 := nth i (nth 0 (at_ks a) []) 0). set (k2 := nth i (nth 1 (at_ks a) []) 0).
    set (k3 := nth i (nth 2 (at_ks a) []) 0). set (k4 := nth i (nth 3 (at_ks a) []) 0).
    set (k5 := nth i (nth 4 (at_ks a) []) 0). set (k6 := nth i (nth 5 (at_ks a) []) 0).
    set (k7 := nth i (nth 6 (at_ks a) []) 0).
    cbn [lit Rops lit_q Consts_dopri5.A71 Consts_dopri5.A73 Consts_dopri5.A74 Consts_dopri5.A75 Consts_dopri5.A76
         Consts_dopri5.D1 Consts_dopri5.D3 Consts_dopri5.D4 Consts_dopri5.D5 Consts_dopri5.D6 Consts_dopri5.D7].
    unfold Q2R. cbn [Qnum Qden]. field.
  Qed.
End D5L.

Section R23L.
  Import IVP.model.Rk23.
  Variables (n : nat) (y : rv) (h : R) (a : attempt (F:=R)).
  Hypothesis Hy : length y = n.
  Hypothesis Hks : forall j, (j < 4)%nat -> length (nth j (at_ks a) []) = n.

  Theorem r23_link i xold xi : (i < n)%nat -> h <> 0 ->
    nth i (interpolate Rops (dense Rops y a) xold h xi n) 0 =
    nth i y 0 + h * wsum (R23W.Wj lit_q) 4 ((xi - xold) / h) (fun j => nth i (nth j (at_ks a) []) 0).
  Proof.
    intros Hi Hh. rewrite (r23_interp_nth n y h a Hy Hks) by exact Hi. cbv zeta.
    set (th := (xi - xold) / h).
    unfold lsum, RK23T.d2, RK23T.d3. cbn [fold_left fst snd].
    eval_weights R23W.Wj 4%nat.
    set (k1 := nth i (nth 0 (at_ks a) []) 0). set (k2 := nth i (nth 1 (at_ks a) []) 0).
    set (k3 := nth i (nth 2 (at_ks a) []) 0). set (k4 := nth i (nth 3 (at_ks a) []) 0).
    cbn [lit Rops lit_q Consts_rk23.D21 Consts_rk23.D22 Consts_rk23.D23 Consts_rk23.D24
         Consts_rk23.D31 Consts_rk23.D32 Consts_rk23.D33 Consts_rk23.D34].
    unfold Q2R. cbn [Qnum Qden]. field.
  Qed.
End R23L.

Section R4L.
  Import IVP.model.Rk4.
  Variables (n : nat) (y : rv) (h : R) (a : attempt (F:=R)).
  Hypothesis Hy : length y = n.
  Hypothesis Hkn : length (at_knew a) = n.
  Hypothesis Hks : forall j, (j < 4)%nat -> length (nth j (at_ks a) []) = n.
  Hypothesis Hynew : at_ynew a = stage_arg Rops h y (at_ks a) (RSum RK4T.b).

  (* the fifth stage of the continuous method is the slope at the new point, f(x+h, ynew) *)
  Theorem r4_link i xold xi : (i < n)%nat -> h <> 0 ->
    nth i (interpolate Rops (dense y a) xold h xi n) 0 =
    nth i y 0 + h * wsum (R4W.Wj lit_q) 5 ((xi - xold) / h)
                      (fun j => if Nat.eqb j 4 then nth i (at_knew a) 0 else nth i (nth j (at_ks a) []) 0).
  Proof.
    intros Hi Hh.
    assert (Ub : uses_len RK4T.b (at_ks a) n) by (repeat constructor; cbn [snd]; apply Hks; lia).
    destruct (lincomb_spec RK4T.b (at_ks a) n i Ub Hi) as [Lb Nb].
    assert (Hyn : length (at_ynew a) = n).
    { rewrite Hynew. cbn [stage_arg]. rewrite map2_length, Hy, Lb. apply Nat.min_id. }
    rewrite (r4_interp_nth n y a Hy Hyn Hkn (Hks 0%nat ltac:(lia))) by exact Hi. cbv zeta.
    assert (E1 : nth i (at_ynew a) 0 = nth i y 0 + h * lsum RK4T.b (at_ks a) i).
    { rewrite Hynew. cbn [stage_arg]. rewrite Hy. rewrite (nth_map2 _ 0 0) by lia. now rewrite Nb. }
    rewrite E1.
    set (th := (xi - xold) / h).
    unfold lsum, RK4T.b. cbn [fold_left fst snd].
    eval_weights R4W.Wj 5%nat. cbn [Nat.eqb].
    set (k1 := nth i (nth 0 (at_ks a) []) 0). set (k2 := nth i (nth 1 (at_ks a) []) 0).
    set (k3 := nth i (nth 2 (at_ks a) []) 0). set (k4 := nth i (nth 3 (at_ks a) []) 0).
    set (k5 := nth i (at_knew a) 0).
    cbn [lit Rops lit_q Consts_rk4.B1 Consts_rk4.B2 Consts_rk4.B3 Consts_rk4.B4].
    unfold Q2R. cbn [Qnum Qden]. field.
  Qed.
End R4L.

(* the attempts produced by the kernels have the shape the link theorems assume *)
Lemma d5_kernel_shape f atol rtol x y k1 h :
  let a := Dopri5.kernel Rops f atol rtol x y k1 h in
  Dopri5.at_ynew a = stage_arg Rops h y (Dopri5.at_ks a) (RSum DOPRI5T.b) /\
  Dopri5.at_knew a = nth 6 (Dopri5.at_ks a) [].
Proof. unfold Dopri5.kernel. destruct (run_stages _ _ _ _ _ _ _ _) as [ks calls]. split; reflexivity. Qed.
Lemma r23_kernel_shape f atol rtol x y k1 h :
  let a := Rk23.kernel Rops f atol rtol x y k1 h in
  Rk23.at_ynew a = stage_arg Rops h y (Rk23.at_ks a) (RSum RK23T.b).
Proof. unfold Rk23.kernel. destruct (run_stages _ _ _ _ _ _ _ _) as [ks calls]. reflexivity. Qed.
Lemma r4_kernel_shape f x y k1 h :
  let a := Rk4.kernel Rops f x y k1 h in
  Rk4.at_ynew a = stage_arg Rops h y (Rk4.at_ks a) (RSum RK4T.b) /\
  Rk4.at_knew a = f (x + h) (Rk4.at_ynew a).
Proof. unfold Rk4.kernel. destruct (run_stages _ _ _ _ _ _ _ _) as [ks calls]. split; reflexivity. Qed.
