(* C06: the continuous solution has no gaps.  Real-number instance of model/Solve.v sol_eval:
   on a contiguous chain of step segments (what the handler collects: C19 contiguity), every t between the first
   and the last covered time is evaluated, every t outside is OutOfRange, and without dense output NotEnabled. *)
Require Import List Arith Bool Lia Reals Lra QArith Qreals.
Require Import IVP.model.Lit IVP.model.Ops IVP.model.Common IVP.model.SolOut IVP.model.Solve IVP.model.RealOps IVP.gen.Inline.
Import ListNotations.
Local Open Scope R_scope.

Notation sg := (list R * R * R)%type.

(* the slack of the range check is positive (1e-12) *)
Lemma range_tol_pos : 0 < RANGE_TOL Rops.
Proof.
  unfold RANGE_TOL. cbn [lit Rops]. replace 0 with (Q2R 0) by (unfold Q2R; cbn; lra).
  apply Qlt_Rlt. reflexivity.
Qed.

(* consecutive segments share their end points and all steps point the same way *)
Fixpoint chain (fwd : bool) (x : R) (segs : list sg) : Prop :=
  match segs with
  | [] => True
  | (_, xo, h) :: r => xo = x /\ (if fwd then 0 <= h else h <= 0) /\ chain fwd (xo + h) r
  end.
Fixpoint chain_end (x : R) (segs : list sg) : R :=
  match segs with [] => x | (_, xo, h) :: r => chain_end (xo + h) r end.

Lemma chain_end_mono fwd : forall segs x, chain fwd x segs ->
  if fwd then x <= chain_end x segs else chain_end x segs <= x.
Proof.
  induction segs as [|[[c xo] h] r IH]; intros x H; cbn [chain_end].
  - destruct fwd; lra.
  - destruct H as [-> [Hh Hc]]. specialize (IH _ Hc). destruct fwd; lra.
Qed.

Lemma t_span_chain fwd : forall segs x, segs <> [] -> chain fwd x segs ->
  t_span Rops segs = Some (x, chain_end x segs).
Proof.
  intros segs x Hne Hc. destruct segs as [|[[c xo] h] r]; [contradiction|].
  cbn [t_span]. destruct Hc as [-> [_ Hc]].
  assert (G : forall r x0 c0 h0, chain fwd (x0 + h0) r ->
            (let '(_, xl, hl) := last ((c0, x0, h0) :: r) ([], zero Rops, zero Rops) in add Rops xl hl)
            = chain_end (x0 + h0) r).
  { induction r0 as [|[[c1 x1] h1] r1 IH]; intros x0 c0 h0 Hc0; [cbn; reflexivity|].
    destruct Hc0 as [E [_ Hc1]]. change (last ((c0, x0, h0) :: (c1, x1, h1) :: r1) ([], zero Rops, zero Rops))
      with (last ((c1, x1, h1) :: r1) ([], zero Rops, zero Rops)).
    rewrite IH by exact Hc1. reflexivity. }
  specialize (G r x c h Hc). cbn [chain_end]. unfold seg.
  match goal with |- context [last ?l ?d] => set (z := last l d) in * end.
  assert (G' : (let '(_, xl, hl) := z in add Rops xl hl) = chain_end (x + h) r) by (subst z; exact G).
  clearbody z. destruct z as [[cl xl] hl]. do 2 f_equal. exact G'.
Qed.

Lemma contains_spec t c xo h :
  seg_contains Rops t (c, xo, h) = true <-> Rmin xo (xo + h) <= t <= Rmax xo (xo + h).
Proof.
  unfold seg_contains. cbn [fmin fmax add leb Rops]. rewrite andb_true_iff, !Rleb_true. tauto.
Qed.

Lemma find_contains fwd t : forall segs x, chain fwd x segs -> segs <> [] ->
  (if fwd then x <= t <= chain_end x segs else chain_end x segs <= t <= x) ->
  find (seg_contains Rops t) segs <> None.
Proof.
  induction segs as [|[[c xo] h] r IH]; intros x Hc Hne Ht; [contradiction|].
  destruct Hc as [-> [Hh Hc]]. cbn [find chain_end] in *.
  destruct (seg_contains Rops t (c, x, h)) eqn:E; [discriminate|].
  assert (Hnot : ~ (Rmin x (x + h) <= t <= Rmax x (x + h))).
  { intros Hin. apply contains_spec with (c:=c) in Hin. congruence. }
  destruct r as [|s r'].
  - exfalso. apply Hnot. cbn [chain_end] in Ht. destruct fwd.
    + rewrite Rmin_left, Rmax_right by lra. lra.
    + rewrite Rmin_right, Rmax_left by lra. lra.
  - apply (IH (x + h) Hc); [discriminate|].
    pose proof (chain_end_mono fwd _ _ Hc) as Hm. destruct fwd.
    + rewrite Rmin_left, Rmax_right in Hnot by lra. split; [|lra].
      destruct (Rle_dec (x + h) t); [assumption|exfalso; apply Hnot; lra].
    + rewrite Rmin_right, Rmax_left in Hnot by lra. split; [lra|].
      destruct (Rle_dec t (x + h)); [assumption|exfalso; apply Hnot; lra].
Qed.

Theorem sol_eval_covers fwd m n (S : solution (F:=R)) segs x t :
  sol_segs S = Some segs -> segs <> [] -> chain fwd x segs ->
  (if fwd then x <= t <= chain_end x segs else chain_end x segs <= t <= x) ->
  exists cont xold h, In (cont, xold, h) segs /\
    sol_eval Rops m n S t = SolOk (interp_fn Rops m cont xold h t n) /\
    (seg_contains Rops t (cont, xold, h) = true).
Proof.
  intros HS Hne Hc Ht. unfold sol_eval. rewrite HS, (t_span_chain fwd segs x Hne Hc).
  pose proof (chain_end_mono fwd _ _ Hc) as Hm.
  pose proof range_tol_pos as Htol.
  assert (Hr : (ltb Rops t (sub Rops (fmin Rops x (chain_end x segs)) (RANGE_TOL Rops))
                || ltb Rops (add Rops (fmax Rops x (chain_end x segs)) (RANGE_TOL Rops)) t) = false).
  { cbn [ltb fmin fmax sub add Rops]. apply orb_false_iff. rewrite !Rltb_false. destruct fwd.
    - rewrite Rmin_left, Rmax_right by lra. lra.
    - rewrite Rmin_right, Rmax_left by lra. lra. }
  rewrite Hr.
  pose proof (find_contains fwd t segs x Hc Hne Ht) as Hf.
  destruct (find (seg_contains Rops t) segs) as [[[cont xold] h]|] eqn:E; [|contradiction].
  apply find_some in E. destruct E as [Hin Hcont].
  exists cont, xold, h. repeat split; assumption.
Qed.

Theorem sol_eval_outside m n (S : solution (F:=R)) segs st en t :
  sol_segs S = Some segs -> t_span Rops segs = Some (st, en) ->
  t < Rmin st en - RANGE_TOL Rops \/ Rmax st en + RANGE_TOL Rops < t -> sol_eval Rops m n S t = SolOutOfRange.
Proof.
  intros HS Hsp Ht. unfold sol_eval. rewrite HS, Hsp.
  assert (Hr : (ltb Rops t (sub Rops (fmin Rops st en) (RANGE_TOL Rops))
                || ltb Rops (add Rops (fmax Rops st en) (RANGE_TOL Rops)) t) = true).
  { cbn [ltb fmin fmax sub add Rops]. apply orb_true_iff. rewrite !Rltb_true. exact Ht. }
  now rewrite Hr.
Qed.

Theorem sol_eval_disabled m n (S : solution (F:=R)) t :
  sol_segs S = None -> sol_eval Rops m n S t = SolNotEnabled.
Proof. intros HS. unfold sol_eval. now rewrite HS. Qed.
