(* Where Aeff comes from: the fixed point of the simplified Newton iteration of model/Radau.v.
   `newton_pass` iterates on the transformed stage increments W = TI Z.  One pass solves, per component,
       (U1/h M - J) dW1                         =  TI_1 . G - (U1/h) M W1
       ((ALPH + i BETA)/h M - J) (dW2 + i dW3)  = (TI_2 . G - (ALPH/h) M W2 + (BETA/h) M W3)
                                                 + i (TI_3 . G - (ALPH/h) M W3 - (BETA/h) M W2)
   with G_j = f(x + c_j h, y + Z_j), then W += dW and Z = T W (T_32 = 1, T_33 = 0 as the code applies it).
   The iteration has converged exactly when the right-hand sides vanish.  Over the reals and for the identity mass
   matrix this file proves that then  Z = h * Aeff * G  with Aeff = T Lambda^-1 TI -- the stage equations whose order,
   Pade stability function and damping are the theorems of C02 / C14 -- and that the matrix computed in
   model/RadauEff.v from the regenerated constants is this Aeff.
   (That `newton_pass` has exactly these right-hand sides is read off the model, which the replay ties to the code;
   it is not itself a theorem.) *)
Require Import List ZArith QArith Qcanon Qreals Reals Lra.
Require Import IVP.model.Lit IVP.model.RK IVP.model.Trees IVP.model.Vec IVP.model.Order IVP.model.RadauEff.
Require Import IVP.proofs.OrderFacts IVP.proofs.CertSmall IVP.proofs.RadauEffFacts.
Require IVP.gen.Consts_radau.
Import ListNotations.

(* ---------- pure algebra: any T, TI, eigenvalue data ---------- *)
Section Algebra.
  Local Open Scope R_scope.
  Variables t00 t01 t02 t10 t11 t12 t20 : R.           (* T, with T_31 = t20, T_32 = 1, T_33 = 0 *)
  Variables i00 i01 i02 i10 i11 i12 i20 i21 i22 : R.   (* TI *)
  Variables u1 al be h : R.
  Hypothesis Hu : u1 <> 0.
  Hypothesis Hn : al * al + be * be <> 0.
  Hypothesis Hh : h <> 0.
  Let nr := al * al + be * be.
  (* Aeff = T * diag(1/u1, [[al, be], [-be, al]] / nr) * TI, row k *)
  Definition aeff (tk0 tk1 tk2 : R) (j0 j1 j2 : R) : R :=
    tk0 * (/ u1 * j0) + tk1 * (al / nr * j1 + be / nr * j2) + tk2 * (- be / nr * j1 + al / nr * j2).

  Theorem fixed_point_stage_equations (g1 g2 g3 w1 w2 w3 z1 z2 z3 : R) :
    i00 * g1 + i01 * g2 + i02 * g3 = u1 / h * w1 ->
    i10 * g1 + i11 * g2 + i12 * g3 = al / h * w2 - be / h * w3 ->
    i20 * g1 + i21 * g2 + i22 * g3 = al / h * w3 + be / h * w2 ->
    z1 = w1 * t00 + w2 * t01 + w3 * t02 -> z2 = w1 * t10 + w2 * t11 + w3 * t12 -> z3 = w1 * t20 + w2 ->
    z1 = h * (aeff t00 t01 t02 i00 i10 i20 * g1 + aeff t00 t01 t02 i01 i11 i21 * g2 + aeff t00 t01 t02 i02 i12 i22 * g3) /\
    z2 = h * (aeff t10 t11 t12 i00 i10 i20 * g1 + aeff t10 t11 t12 i01 i11 i21 * g2 + aeff t10 t11 t12 i02 i12 i22 * g3) /\
    z3 = h * (aeff t20 1 0 i00 i10 i20 * g1 + aeff t20 1 0 i01 i11 i21 * g2 + aeff t20 1 0 i02 i12 i22 * g3).
  Proof.
    intros E1 E2 E3 -> -> ->.
    assert (W1 : w1 = h / u1 * (i00 * g1 + i01 * g2 + i02 * g3)) by (rewrite E1; field; split; assumption).
    assert (W2 : w2 = h / nr * (al * (i10 * g1 + i11 * g2 + i12 * g3) + be * (i20 * g1 + i21 * g2 + i22 * g3))).
    { rewrite E2, E3. unfold nr. field. split; assumption. }
    assert (W3 : w3 = h / nr * (al * (i20 * g1 + i21 * g2 + i22 * g3) - be * (i10 * g1 + i11 * g2 + i12 * g3))).
    { rewrite E2, E3. unfold nr. field. split; assumption. }
    unfold aeff. fold nr. rewrite W1, W2, W3. unfold nr. repeat split; field; split; assumption.
  Qed.
End Algebra.

(* ---------- the matrix of model/RadauEff.v is this Aeff (exact rationals of the constants) ---------- *)
Import IVP.gen.Consts_radau RE.
Local Open Scope Qc_scope.
Definition qaeff (tk0 tk1 tk2 j0 j1 j2 : Qc) : Qc :=
  let nr := c lit_q ALPH * c lit_q ALPH + c lit_q BETA * c lit_q BETA in
  tk0 * (/ c lit_q U1 * j0) + tk1 * (c lit_q ALPH / nr * j1 + c lit_q BETA / nr * j2)
  + tk2 * (- c lit_q BETA / nr * j1 + c lit_q ALPH / nr * j2).
Definition qaeff_matrix : list qvec :=
  let C := c lit_q in
  [[qaeff (C T00) (C T01) (C T02) (C TI00) (C TI10) (C TI20); qaeff (C T00) (C T01) (C T02) (C TI01) (C TI11) (C TI21);
    qaeff (C T00) (C T01) (C T02) (C TI02) (C TI12) (C TI22)];
   [qaeff (C T10) (C T11) (C T12) (C TI00) (C TI10) (C TI20); qaeff (C T10) (C T11) (C T12) (C TI01) (C TI11) (C TI21);
    qaeff (C T10) (C T11) (C T12) (C TI02) (C TI12) (C TI22)];
   [qaeff (C T20) 1 0 (C TI00) (C TI10) (C TI20); qaeff (C T20) 1 0 (C TI01) (C TI11) (C TI21);
    qaeff (C T20) 1 0 (C TI02) (C TI12) (C TI22)]].
Lemma Aeff_is_T_LamInv_TI : Aeff lit_q = qaeff_matrix.
Proof.
  assert (H : Nat.eqb (length (Aeff lit_q)) (length qaeff_matrix)
              && forallb (fun ab => qvec_eqb (fst ab) (snd ab)) (combine (Aeff lit_q) qaeff_matrix) = true)
    by (vm_compute; reflexivity).
  apply andb_prop in H. destruct H as [Hl H]. apply Nat.eqb_eq in Hl.
  remember (Aeff lit_q) as A eqn:EA. remember qaeff_matrix as B eqn:EB. clear EA EB.
  revert B Hl H. induction A as [|a0 A IH]; intros [|b0 B] Hl H; try discriminate; [reflexivity|].
  cbn [combine forallb fst snd] in H. apply andb_prop in H. destruct H as [Hab H].
  apply qvec_eqb_correct in Hab. subst b0. f_equal. apply IH; [cbn in Hl; congruence|exact H].
Qed.
(* the eigenvalue data are usable: U1 <> 0 and ALPH^2 + BETA^2 <> 0 *)
Lemma eigen_data_nonzero : c lit_q U1 <> 0 /\ c lit_q ALPH * c lit_q ALPH + c lit_q BETA * c lit_q BETA <> 0.
Proof. split; intro H; apply (f_equal this) in H; vm_compute in H; discriminate H. Qed.
