(* C07: continuous order conditions of the dense-output weights, certified over Qc by vm_compute on the
   constants regenerated from the Rust sources, for every rooted tree up to the interpolant's order. *)
Require Import List ZArith QArith Qcanon Lia.
Require Import IVP.model.Lit IVP.model.RK IVP.model.Trees IVP.model.Vec IVP.model.Order IVP.model.Tableau IVP.model.DenseW.
Require Import IVP.proofs.TreesFacts IVP.proofs.OrderFacts IVP.proofs.CertSmall.
Import ListNotations.
Local Open Scope Qc_scope.

Section ContSound.
  Variables (A : list qvec) (s : nat) (W : list qpoly) (deg q : nat).
  Theorem check_cont_sound :
    check_cont A s W deg q = true ->
    forall t, (size t <= q)%nat -> forall m, (m <= deg)%nat ->
      Z2Qc (gamma t) * qdot (wcol W m) (Phi QcK A s t) = if Nat.eqb (size t) m then 1 else 0.
  Proof.
    unfold check_cont. intros H t Ht m Hm. rewrite forallb_forall in H.
    assert (Hin : In m (seq 0 (S deg))) by (apply in_seq; lia).
    specialize (H m Hin). apply (check_all_sound _ _ _ _ _ H) in Ht.
    unfold cond_cont, wof in Ht. cbn [w_size] in Ht.
    destruct (Nat.eqb (size t) m).
    - now apply qeqb_correct in Ht.
    - unfold cond_zero in Ht. cbn [w_phi] in Ht. apply qeqb_correct in Ht. rewrite Ht. ring.
  Qed.
End ContSound.

Lemma d5_cont4 : check_cont (D5W.A lit_q) 7 (D5W.W lit_q) 4 4 = true.
Proof. vm_compute. reflexivity. Qed.
Lemma r23_cont3 : check_cont (R23W.A lit_q) 4 (R23W.W lit_q) 3 3 = true.
Proof. vm_compute. reflexivity. Qed.
Lemma r4_cont3 : check_cont (R4W.A lit_q) 5 (R4W.W lit_q) 3 3 = true.
Proof. vm_compute. reflexivity. Qed.

(* sharpness: the continuous conditions fail for some tree one order higher *)
Definition d5_witness5 : tree := Node [Node []; Node []; Node []; Node []].
Definition r23_witness4 : tree := Node [Node []; Node []; Node []].
Definition r4_witness4 : tree := Node [Node []; Node []; Node []].
