(* C18 for the BDF model: nstep >= naccpt + nrejct at the end of every iteration and of every run (every attempt counted
   by nstep ends in exactly one acceptance or one rejection, or in an exit).  Any number type, right-hand side,
   Jacobian, callback. *)
Require Import List ZArith Bool Lia.
Require Import IVP.model.Lit IVP.model.Ops IVP.model.Vec IVP.model.Common IVP.model.LU IVP.model.Bdf.
Import ListNotations.

Section Acc.
  Context {F : Type} (O : Ops F) {H : Type}.
  Variable P : params (F:=F).
  Variable n : nat.
  Variable f : F -> list F -> list F.
  Variable jacf : F -> list F -> nat -> nat -> F.
  Variables (atolv rtolv : list F) (newton_tol : F) (maxiter : nat) (xend direction hmax hmin : F).
  Variable cb : H -> F -> F -> list F -> option (list F * F * F) -> H * flag F * list F.
  Notation step := (step O P n f jacf atolv rtolv newton_tol maxiter xend direction hmax hmin cb).

  Definition le_inv (st : stats) : Prop := (naccpt st + nrejct st <= nstep st)%N.
  Definition out_le (o : state (F:=F) H + result (F:=F) H) : Prop :=
    match o with
    | inl s' => le_inv (s_stats H s')
    | inr r => le_inv (r_stats r)
    end.

  Ltac nxt := cbv beta iota.
  Ltac hd :=
    match goal with
    | |- out_le (if ?c then _ else _) => destruct c
    | |- out_le (match (if ?c then _ else _) with _ => _ end) => destruct c
    | |- out_le (match (match ?c with _ => _ end) with _ => _ end) => destruct c
    | |- out_le (match ?c with _ => _ end) => destruct c
    end; nxt.

  Lemma step_le s : le_inv (s_stats H s) -> out_le (step s).
  Proof.
    intros Hi. unfold le_inv in Hi. unfold Bdf.step, retry, hres. cbv zeta. nxt.
    repeat hd.
    all: cbv beta iota delta [out_le le_inv]; cbn [s_stats r_stats];
         cbn [naccpt nrejct nstep add_step add_fev add_lu add_jev add_rej add_acc]; lia.
  Qed.

  Theorem loop_le fuel s r :
    le_inv (s_stats H s) ->
    loop O P n f jacf atolv rtolv newton_tol maxiter xend direction hmax hmin cb fuel s = Some r ->
    le_inv (r_stats r).
  Proof.
    revert s. induction fuel as [|k IH]; intros s Hi Hl; [discriminate|].
    cbn [loop] in Hl. pose proof (step_le s Hi) as Hs. destruct (step s) as [s'|r'].
    - eapply IH; eauto.
    - inversion Hl; subst. exact Hs.
  Qed.
End Acc.

Theorem solve_le {F : Type} (O : Ops F) {H : Type} (P : params (F:=F)) f jacf x0 y0 xend rtol atol
        (cb : H -> F -> F -> list F -> option (list F * F * F) -> H * flag F * list F) cb0 fuel r :
  solve O P f jacf x0 y0 xend rtol atol cb cb0 fuel = Some r ->
  (naccpt (r_stats r) + nrejct (r_stats r) <= nstep (r_stats r))%N.
Proof.
  unfold solve. cbv zeta.
  destruct (Nat.eqb _ 0); [intros E; inversion E; subst; cbn; lia|].
  repeat match goal with |- (if ?c then None else _) = Some _ -> _ => destruct c; [discriminate|] end.
  destruct (p_first_step P) as [h0|].
  - destruct (eqb O h0 (zero O)); [discriminate|].
    destruct (cb cb0 x0 x0 y0 None) as [[cbs fl] y].
    destruct fl; intros E; try (inversion E; subst; cbn; lia);
      (eapply (loop_le O); [|exact E]); unfold le_inv; cbn [s_stats]; cbn; lia.
  - destruct (hinit _ _ _ _ _ _ _ _ _ _) as [guess call].
    destruct (cb cb0 x0 x0 y0 None) as [[cbs fl] y].
    destruct fl; intros E; try (inversion E; subst; cbn; lia);
      (eapply (loop_le O); [|exact E]); unfold le_inv; cbn [s_stats]; cbn; lia.
Qed.
