(* C06: the per-step interpolants reproduce the step's end states -- real-number instance, every dimension n,
   every step size h <> 0 of either sign, every value of the stage derivatives. *)
Require Import List Arith Lia Reals Lra QArith Qreals.
Require Import IVP.model.Lit IVP.model.Ops IVP.model.Vec IVP.model.RK IVP.model.Tableau IVP.model.RealOps
               IVP.gen.Inline IVP.proofs.ListFacts.
Require IVP.model.Dopri5 IVP.model.Dop853 IVP.model.Rk23 IVP.model.Rk4 IVP.model.Radau.
Import ListNotations.
Local Open Scope R_scope.

Notation rv := (list R).

(* ---------------- linear combinations of stage vectors ---------------- *)
Definition lsum (l : list (Lit * nat)) (ks : list rv) (i : nat) : R :=
  match l with
  | [] => 0
  | (a, j) :: rest =>
      fold_left (fun acc aj => acc + lit Rops (fst aj) * nth i (nth (snd aj) ks []) 0) rest
                (lit Rops a * nth i (nth j ks []) 0)
  end.

Definition uses_len (l : list (Lit * nat)) (ks : list rv) (n : nat) : Prop :=
  Forall (fun aj => length (nth (snd aj) ks []) = n) l.

Lemma lincomb_fold (ks : list rv) n i : forall rest acc s,
  uses_len rest ks n -> length acc = n -> (i < n)%nat -> nth i acc 0 = s ->
  let r := fold_left (fun acc aj => map2 (fun s k => add Rops s (mul Rops (lit Rops (fst aj)) k)) acc (nth (snd aj) ks []))
                     rest acc in
  length r = n /\
  nth i r 0 = fold_left (fun acc aj => acc + lit Rops (fst aj) * nth i (nth (snd aj) ks []) 0) rest s.
Proof.
  induction rest as [|[a j] rest IH]; intros acc s Hu Hl Hi Hs; cbn [fold_left]; [split; assumption|].
  pose proof (Forall_inv Hu) as Hj. pose proof (Forall_inv_tail Hu) as Hu'. cbv beta in Hj. cbn [fst snd] in *.
  apply IH; [exact Hu'| |exact Hi|].
  - rewrite map2_length, Hl, Hj. apply Nat.min_id.
  - rewrite (nth_map2 _ 0 0) by lia. rewrite Hs. reflexivity.
Qed.

Lemma lincomb_spec l (ks : list rv) n i :
  uses_len l ks n -> (i < n)%nat ->
  length (lincomb Rops l ks n) = n /\ nth i (lincomb Rops l ks n) 0 = lsum l ks i.
Proof.
  intros Hu Hi. destruct l as [|[a j] rest]; cbn [lincomb lsum].
  - split; [apply repeat_length|]. apply nth_repeat.
  - pose proof (Forall_inv Hu) as Hj. pose proof (Forall_inv_tail Hu) as Hu'. cbv beta in Hj. cbn [snd] in Hj.
    apply lincomb_fold; [exact Hu'|now rewrite map_length|exact Hi|].
    unfold vec. rewrite (nth_map' _ _ 0 0 i) by lia. reflexivity.
Qed.

(* ---------------- DOPRI5 ---------------- *)
Section D5.
  Import IVP.model.Dopri5.
  Variables (n : nat) (y : rv) (h : R) (a : attempt (F:=R)).
  Hypothesis Hy : length y = n.
  Hypothesis Hyn : length (at_ynew a) = n.
  Hypothesis Hkn : length (at_knew a) = n.
  Hypothesis Hks : forall j, (j < 7)%nat -> length (nth j (at_ks a) []) = n.

  Lemma d5_uses : uses_len DOPRI5T.d (at_ks a) n.
  Proof. repeat constructor; cbn [snd]; apply Hks; lia. Qed.

  (* component i of the interpolant, as a polynomial in theta *)
  Lemma d5_interp_nth i xold xi : (i < n)%nat ->
    let th := (xi - xold) / h in let th1 := 1 - th in
    let yi := nth i y 0 in let y1 := nth i (at_ynew a) 0 in
    let k1 := nth i (nth 0 (at_ks a) []) 0 in let k2 := nth i (at_knew a) 0 in
    let c1 := y1 - yi in let c2 := h * k1 - c1 in let c3 := - h * k2 + c1 - c2 in
    let c4 := h * lsum DOPRI5T.d (at_ks a) i in
    nth i (interpolate Rops (dense Rops y h a) xold h xi n) 0 =
    yi + th * (c1 + th1 * (c2 + th * (c3 + th1 * c4))).
  Proof.
    intros Hi. cbv zeta.
    destruct (lincomb_spec DOPRI5T.d (at_ks a) n i d5_uses Hi) as [Ld Nd].
    unfold interpolate, dense. rewrite Hy.
    set (ydiff := map2 _ (at_ynew a) y).
    set (bspl := map2 _ (nth 0 (at_ks a) []) ydiff).
    set (c3v := map3 _ (at_knew a) ydiff bspl).
    set (c4v := map _ (lincomb Rops DOPRI5T.d (at_ks a) n)).
    assert (L1 : length ydiff = n) by (unfold ydiff; rewrite map2_length; lia).
    assert (L2 : length bspl = n) by (unfold bspl; rewrite map2_length, (Hks 0%nat) by lia; lia).
    assert (L3 : length c3v = n) by (unfold c3v; rewrite map3_length; lia).
    assert (L4 : length c4v = n) by (unfold c4v; now rewrite map_length).
    replace (y ++ ydiff ++ bspl ++ c3v ++ c4v) with (concat [y; ydiff; bspl; c3v; c4v]) by (cbn [concat]; now rewrite app_nil_r).
    assert (HF : Forall (fun l : rv => length l = n) [y; ydiff; bspl; c3v; c4v]) by (repeat constructor; assumption).
    rewrite (concat_length_const n) by exact HF. cbn [length]. rewrite (Nat.mul_comm _ n), Nat.div_mul by lia.
    unfold block. rewrite !(block_concat n) by (try exact HF; cbn [length]; lia). cbn [nth].
    rewrite (nth_map' _ _ (0, 0, 0, 0, 0)) by (rewrite !combine_length; lia).
    rewrite !nth_combine by (rewrite ?combine_length; lia).
    cbn [add sub mul div neg one zero Rops].
    assert (E1 : nth i ydiff 0 = nth i (at_ynew a) 0 - nth i y 0) by (unfold ydiff; now rewrite (nth_map2 _ 0 0) by lia).
    assert (E2 : nth i bspl 0 = h * nth i (nth 0 (at_ks a) []) 0 - nth i ydiff 0).
    { unfold bspl. rewrite (nth_map2 _ 0 0) by (rewrite ?(Hks 0%nat); lia). reflexivity. }
    assert (E3 : nth i c3v 0 = - h * nth i (at_knew a) 0 + nth i ydiff 0 - nth i bspl 0).
    { unfold c3v. rewrite (nth_map3 _ 0 0 0) by lia. reflexivity. }
    assert (E4 : nth i c4v 0 = h * lsum DOPRI5T.d (at_ks a) i).
    { unfold c4v. rewrite (nth_map' _ _ 0) by lia. now rewrite Nd. }
    rewrite E3, E4, E2, E1. reflexivity.
  Qed.

  Theorem d5_left i xold : (i < n)%nat -> h <> 0 ->
    nth i (interpolate Rops (dense Rops y h a) xold h xold n) 0 = nth i y 0.
  Proof. intros Hi Hh. rewrite d5_interp_nth by exact Hi. cbv zeta. field. exact Hh. Qed.

  Theorem d5_right i xold : (i < n)%nat -> h <> 0 ->
    nth i (interpolate Rops (dense Rops y h a) xold h (xold + h) n) 0 = nth i (at_ynew a) 0.
  Proof. intros Hi Hh. rewrite d5_interp_nth by exact Hi. cbv zeta. field. exact Hh. Qed.
End D5.

(* ---------------- stage lists ---------------- *)
Definition all_len (n : nat) (ks : list rv) : Prop := Forall (fun k : rv => length k = n) ks.

Lemma all_len_nth n ks j : all_len n ks -> (j < length ks)%nat -> length (nth j ks []) = n.
Proof.
  intros H. revert j. induction H as [|k ks Hk _ IH]; intros j Hj; simpl in Hj; [lia|].
  destruct j; [exact Hk|]. apply IH. lia.
Qed.

Lemma uses_len_of_bound l ks n :
  all_len n ks -> forallb (fun aj : Lit * nat => Nat.ltb (snd aj) (length ks)) l = true -> uses_len l ks n.
Proof.
  intros Ha Hb. unfold uses_len. apply Forall_forall. intros aj Hin.
  rewrite forallb_forall in Hb. specialize (Hb aj Hin). apply Nat.ltb_lt in Hb. now apply all_len_nth.
Qed.

Lemma run_stages_all_len (f : R -> rv -> rv) n x h y : (forall t v, length (f t v) = n) ->
  forall sts ks calls, all_len n ks ->
    all_len n (fst (run_stages Rops f x h y sts ks calls)) /\
    length (fst (run_stages Rops f x h y sts ks calls)) = (length ks + length sts)%nat.
Proof.
  intros Hf. induction sts as [|s sts IH]; intros ks calls Hk; cbn [run_stages fst length].
  - split; [exact Hk|unfold vec; simpl; lia].
  - destruct (IH (ks ++ [f (stage_time Rops x h (st_c s)) (stage_arg Rops h y ks (st_row s))])
                 (calls ++ [(stage_time Rops x h (st_c s), stage_arg Rops h y ks (st_row s))])) as [I1 I2].
    + apply Forall_app. split; [exact Hk|]. constructor; [apply Hf|constructor].
    + split; [exact I1|]. eapply eq_trans; [exact I2|]. unfold vec. rewrite app_length. simpl. lia.
Qed.

(* ---------------- DOP853 ---------------- *)
Section D8.
  Import IVP.model.Dop853.
  Variables (n : nat) (f : R -> rv -> rv) (x : R) (y : rv) (h : R) (a : attempt (F:=R)) (k13 : rv).
  Hypothesis Hf : forall t v, length (f t v) = n.
  Hypothesis Hy : length y = n.
  Hypothesis Hyn : length (at_ynew a) = n.
  Hypothesis Hk13 : length k13 = n.
  Hypothesis Hks : all_len n (at_ks a).
  Hypothesis Hks12 : length (at_ks a) = 12%nat.

  Lemma d8_tail_len ks16 la lb : all_len n ks16 -> length ks16 = 16%nat ->
    forallb (fun aj : Lit * nat => Nat.ltb (snd aj) 16) la = true ->
    forallb (fun aj : Lit * nat => Nat.ltb (snd aj) 16) lb = true -> (0 < n)%nat ->
    length (map (fun s => mul Rops h s)
              (fold_left (fun acc aj => map2 (fun s k => add Rops s (mul Rops (lit Rops (fst aj)) k)) acc (nth (snd aj) ks16 []))
                         lb (lincomb Rops la ks16 n))) = n.
  Proof.
    intros Ha Hl Hla Hlb Hn. rewrite map_length.
    assert (Ua : uses_len la ks16 n) by (apply uses_len_of_bound; [exact Ha|now rewrite Hl]).
    assert (Ub : uses_len lb ks16 n) by (apply uses_len_of_bound; [exact Ha|now rewrite Hl]).
    destruct (lincomb_spec la ks16 n 0 Ua Hn) as [L1 _].
    destruct (lincomb_fold ks16 n 0 lb (lincomb Rops la ks16 n) _ Ub L1 Hn eq_refl) as [L2 _]. exact L2.
  Qed.

  Lemma d8_interp_nth i : (i < n)%nat ->
    exists c2 c3 c4 c5 c6 c7, forall xold xi,
      let s := (xi - xold) / h in let s1 := 1 - s in
      let yi := nth i y 0 in let y1 := nth i (at_ynew a) 0 in
      nth i (interpolate Rops (fst (finish_dense Rops f x h y a k13)) xold h xi n) 0 =
      yi + s * ((y1 - yi) + s1 * (c2 + s * (c3 + s1 * (c4 + s * (c5 + s1 * (c6 + s * c7)))))).
  Proof.
    intros Hi. unfold finish_dense.
    assert (H13 : all_len n (at_ks a ++ [k13])) by (apply Forall_app; split; [exact Hks|constructor; [exact Hk13|constructor]]).
    destruct (run_stages_all_len f n x h y Hf DOP853T.stages_dense (at_ks a ++ [k13]) [] H13) as [A16 L16].
    destruct (run_stages Rops f x h y DOP853T.stages_dense (at_ks a ++ [k13]) []) as [ks16 calls].
    cbn [fst] in *. rewrite app_length, Hks12 in L16. cbn [length DOP853T.stages_dense Nat.add] in L16.
    rewrite Hy. unfold vec in *.
    set (ydiff := map2 _ (at_ynew a) y).
    set (bspl := map2 _ (nth 0 ks16 []) ydiff).
    set (c3v := map3 _ ydiff k13 bspl).
    match goal with |- context [c3v ++ ?t4 ++ ?t5 ++ ?t6 ++ ?t7] =>
      set (t4v := t4); set (t5v := t5); set (t6v := t6); set (t7v := t7) end.
    assert (Hn : (0 < n)%nat) by lia.
    assert (L1 : length ydiff = n) by (unfold ydiff; rewrite map2_length; lia).
    assert (L2 : length bspl = n) by (unfold bspl; rewrite map2_length, (all_len_nth n ks16 0 A16) by lia; lia).
    assert (L3 : length c3v = n) by (unfold c3v; rewrite map3_length; lia).
    assert (L4 : length t4v = n) by (apply d8_tail_len; auto).
    assert (L5 : length t5v = n) by (apply d8_tail_len; auto).
    assert (L6 : length t6v = n) by (apply d8_tail_len; auto).
    assert (L7 : length t7v = n) by (apply d8_tail_len; auto).
    exists (nth i bspl 0), (nth i c3v 0), (nth i t4v 0), (nth i t5v 0), (nth i t6v 0), (nth i t7v 0).
    intros xold xi. cbv zeta. unfold interpolate.
    replace (y ++ ydiff ++ bspl ++ c3v ++ t4v ++ t5v ++ t6v ++ t7v)
      with (concat [y; ydiff; bspl; c3v; t4v; t5v; t6v; t7v]) by (cbn [concat]; now rewrite app_nil_r).
    assert (HF : Forall (fun l : rv => length l = n) [y; ydiff; bspl; c3v; t4v; t5v; t6v; t7v]) by (repeat constructor; assumption).
    rewrite (concat_length_const n) by exact HF. cbn [length]. rewrite (Nat.mul_comm _ n), Nat.div_mul by lia.
    unfold block. rewrite !(block_concat n) by (try exact HF; cbn [length]; lia). cbn [nth].
    rewrite (nth_map' _ _ (0, 0, 0, 0, 0, 0, 0, 0)) by (rewrite !combine_length; lia).
    rewrite !nth_combine by (rewrite ?combine_length; lia).
    cbn [add sub mul div neg one zero Rops].
    assert (E1 : nth i ydiff 0 = nth i (at_ynew a) 0 - nth i y 0) by (unfold ydiff; now rewrite (nth_map2 _ 0 0) by lia).
    rewrite E1. reflexivity.
  Qed.

  Theorem d8_left i xold : (i < n)%nat -> h <> 0 ->
    nth i (interpolate Rops (fst (finish_dense Rops f x h y a k13)) xold h xold n) 0 = nth i y 0.
  Proof.
    intros Hi Hh. destruct (d8_interp_nth i Hi) as [c2 [c3 [c4 [c5 [c6 [c7 E]]]]]].
    rewrite E. cbv zeta. field. exact Hh.
  Qed.
  Theorem d8_right i xold : (i < n)%nat -> h <> 0 ->
    nth i (interpolate Rops (fst (finish_dense Rops f x h y a k13)) xold h (xold + h) n) 0 = nth i (at_ynew a) 0.
  Proof.
    intros Hi Hh. destruct (d8_interp_nth i Hi) as [c2 [c3 [c4 [c5 [c6 [c7 E]]]]]].
    rewrite E. cbv zeta. field. exact Hh.
  Qed.
End D8.

(* ---------------- RK4 (cubic Hermite on the end states and end slopes) ---------------- *)
Lemma lit_2 : lit Rops L2 = 2. Proof. cbn. unfold Q2R. simpl. lra. Qed.
Lemma lit_3 : lit Rops L3 = 3. Proof. cbn. unfold Q2R. simpl. lra. Qed.

Section R4.
  Import IVP.model.Rk4.
  Variables (n : nat) (y : rv) (a : attempt (F:=R)).
  Hypothesis Hy : length y = n.
  Hypothesis Hyn : length (at_ynew a) = n.
  Hypothesis Hkn : length (at_knew a) = n.
  Hypothesis Hk1 : length (nth 0 (at_ks a) []) = n.

  Lemma r4_interp_nth i xold h xi : (i < n)%nat ->
    let t := (xi - xold) / h in
    nth i (interpolate Rops (dense y a) xold h xi n) 0 =
      (2 * (t * t * t) - 3 * (t * t) + 1) * nth i y 0 + (t * t * t - 2 * (t * t) + t) * h * nth i (nth 0 (at_ks a) []) 0
      + (- 2 * (t * t * t) + 3 * (t * t)) * nth i (at_ynew a) 0 + (t * t * t - t * t) * h * nth i (at_knew a) 0.
  Proof.
    intros Hi. cbv zeta. unfold interpolate, dense. unfold vec in *.
    replace (y ++ nth 0 (at_ks a) [] ++ at_knew a ++ at_ynew a)
      with (concat [y; nth 0 (at_ks a) []; at_knew a; at_ynew a]) by (cbn [concat]; now rewrite app_nil_r).
    assert (HF : Forall (fun l : rv => length l = n) [y; nth 0 (at_ks a) []; at_knew a; at_ynew a]) by (repeat constructor; assumption).
    unfold block. rewrite !(block_concat n) by (try exact HF; cbn [length]; lia). cbn [nth].
    rewrite (nth_map' _ _ (0, 0, 0, 0)) by (rewrite !combine_length; lia).
    rewrite !nth_combine by (rewrite ?combine_length; lia).
    rewrite lit_2, lit_3. cbn [add sub mul div neg one zero Rops]. reflexivity.
  Qed.

  Theorem r4_left i xold h : (i < n)%nat -> h <> 0 ->
    nth i (interpolate Rops (dense y a) xold h xold n) 0 = nth i y 0.
  Proof. intros Hi Hh. rewrite r4_interp_nth by exact Hi. cbv zeta. field. exact Hh. Qed.
  Theorem r4_right i xold h : (i < n)%nat -> h <> 0 ->
    nth i (interpolate Rops (dense y a) xold h (xold + h) n) 0 = nth i (at_ynew a) 0.
  Proof. intros Hi Hh. rewrite r4_interp_nth by exact Hi. cbv zeta. field. exact Hh. Qed.
End R4.

(* ---------------- RK23 ---------------- *)
Section R23.
  Import IVP.model.Rk23.
  Variables (n : nat) (y : rv) (h : R) (a : attempt (F:=R)).
  Hypothesis Hy : length y = n.
  Hypothesis Hks : forall j, (j < 4)%nat -> length (nth j (at_ks a) []) = n.

  Lemma r23_uses l : forallb (fun aj : Lit * nat => Nat.ltb (snd aj) 4) l = true -> uses_len l (at_ks a) n.
  Proof.
    intros Hb. apply Forall_forall. intros aj Hin. rewrite forallb_forall in Hb.
    specialize (Hb aj Hin). apply Nat.ltb_lt in Hb. now apply Hks.
  Qed.

  Lemma r23_interp_nth i xold xi : (i < n)%nat ->
    let t := (xi - xold) / h in
    nth i (interpolate Rops (dense Rops y a) xold h xi n) 0 =
      nth i y 0 + h * (nth i (nth 0 (at_ks a) []) 0 * t + lsum RK23T.d2 (at_ks a) i * (t * t)
                       + lsum RK23T.d3 (at_ks a) i * (t * t * t)).
  Proof.
    intros Hi. cbv zeta. unfold interpolate, dense. unfold vec in *. rewrite Hy.
    destruct (lincomb_spec RK23T.d2 (at_ks a) n i (r23_uses RK23T.d2 eq_refl) Hi) as [L2 N2].
    destruct (lincomb_spec RK23T.d3 (at_ks a) n i (r23_uses RK23T.d3 eq_refl) Hi) as [L3 N3].
    set (v2 := lincomb Rops RK23T.d2 (at_ks a) n) in *. set (v3 := lincomb Rops RK23T.d3 (at_ks a) n) in *.
    replace (y ++ nth 0 (at_ks a) [] ++ v2 ++ v3) with (concat [y; nth 0 (at_ks a) []; v2; v3]) by (cbn [concat]; now rewrite app_nil_r).
    assert (HF : Forall (fun l : rv => length l = n) [y; nth 0 (at_ks a) []; v2; v3]).
    { repeat constructor; try assumption. apply Hks. lia. }
    unfold block. rewrite !(block_concat n) by (try exact HF; cbn [length]; lia). cbn [nth].
    pose proof (Hks 0%nat ltac:(lia)) as Hk1.
    rewrite (nth_map' _ _ (0, 0, 0, 0)) by (rewrite !combine_length; lia).
    rewrite !nth_combine by (rewrite ?combine_length; lia).
    cbn [add sub mul div neg one zero Rops]. rewrite N2, N3. reflexivity.
  Qed.

  Theorem r23_left i xold : (i < n)%nat -> h <> 0 ->
    nth i (interpolate Rops (dense Rops y a) xold h xold n) 0 = nth i y 0.
  Proof. intros Hi Hh. rewrite r23_interp_nth by exact Hi. cbv zeta. field. exact Hh. Qed.

  (* the right end needs the coefficients: e_1 + D2 + D3 = b (exact rationals of the source constants) *)
  Hypothesis Hynew : at_ynew a = stage_arg Rops h y (at_ks a) (RSum RK23T.b).

  Theorem r23_right i xold : (i < n)%nat -> h <> 0 ->
    nth i (interpolate Rops (dense Rops y a) xold h (xold + h) n) 0 = nth i (at_ynew a) 0.
  Proof.
    intros Hi Hh. rewrite r23_interp_nth by exact Hi. cbv zeta.
    rewrite Hynew. cbn [stage_arg]. rewrite Hy.
    destruct (lincomb_spec RK23T.b (at_ks a) n i (r23_uses RK23T.b eq_refl) Hi) as [Lb Nb].
    rewrite (nth_map2 _ 0 0) by lia. rewrite Nb. cbn [add mul Rops].
    replace ((xold + h - xold) / h) with 1 by (field; exact Hh).
    unfold lsum, RK23T.d2, RK23T.d3, RK23T.b. cbn [fold_left fst snd].
    set (k1 := nth i (nth 0 (at_ks a) []) 0). set (k2 := nth i (nth 1 (at_ks a) []) 0).
    set (k3 := nth i (nth 2 (at_ks a) []) 0). set (k4 := nth i (nth 3 (at_ks a) []) 0).
    cbn. unfold Q2R. simpl. field.
  Qed.
End R23.

(* ---------------- Radau IIA: the collocation polynomial ends at the new state ---------------- *)
Section Rad.
  Import IVP.model.Radau.
  Theorem radau_right n (ynew c1 c2 c3 : rv) i xold h :
    length ynew = n -> length c1 = n -> length c2 = n -> length c3 = n -> (i < n)%nat -> h <> 0 ->
    nth i (interpolate Rops (ynew ++ c1 ++ c2 ++ c3) xold h (xold + h) n) 0 = nth i ynew 0.
  Proof.
    intros H0 H1 H2 H3 Hi Hh. unfold interpolate.
    replace (ynew ++ c1 ++ c2 ++ c3) with (concat [ynew; c1; c2; c3]) by (cbn [concat]; now rewrite app_nil_r).
    assert (HF : Forall (fun l : rv => length l = n) [ynew; c1; c2; c3]) by (repeat constructor; assumption).
    rewrite (concat_length_const n) by exact HF. cbn [length]. rewrite (Nat.mul_comm _ n), Nat.div_mul by lia.
    unfold block. rewrite !(block_concat n) by (try exact HF; cbn [length]; lia). cbn [nth].
    rewrite (nth_map' _ _ (0, 0, 0, 0)) by (rewrite !combine_length; lia).
    rewrite !nth_combine by (rewrite ?combine_length; lia).
    cbn [add sub mul div neg one zero Rops].
    replace ((xold + h - (xold + h)) / h) with 0 by (field; exact Hh). ring.
  Qed.
End Rad.
