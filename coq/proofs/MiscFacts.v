(* Small facts used by several properties: tolerance representation (C13), default mass matrix and
   storage independence (C15), NaN handling on primitive floats (C04), sign-change test (C09). *)
Require Import List ZArith Bool Arith Lia Reals Lra Floats.
Require Import IVP.model.Lit IVP.model.Ops IVP.model.Vec IVP.model.Common IVP.model.Matrix IVP.model.SolOut
               IVP.model.Solve IVP.model.RealOps IVP.model.FloatOps.
Import ListNotations.

(* ---------------- C13: scalar tolerance = constant vector ---------------- *)
Lemma tolv_scalar_vector {F} (v : F) n : tolv (TScalar v) n = tolv (TVector (repeat v n)) n.
Proof. reflexivity. Qed.

(* ---------------- C15: mass matrix ---------------- *)
Section Mass.
  Context {F : Type} (O : Ops F).

  (* with no user mass matrix the problem is y' = f whatever mass storage is selected *)
  Theorem default_mass_identity (P : problem (F:=F)) st r c :
    pr_mass P = None -> mass_of O P st r c = if Nat.eqb r c then one O else zero O.
  Proof.
    intros H. unfold mass_of. rewrite H. unfold stored. destruct st as [| |ml mu]; try reflexivity.
    destruct (Nat.eqb r c) eqn:E.
    - apply Nat.eqb_eq in E. subst c. unfold in_band.
      replace (r <=? r + mu) with true by (symmetry; apply Nat.leb_le; lia).
      replace (r <=? r + ml) with true by (symmetry; apply Nat.leb_le; lia). reflexivity.
    - destruct (in_band ml mu r c); reflexivity.
  Qed.

  (* the solver reads a user matrix only entrywise: Full and Banded storage holding the same entries
     (zero outside the band) denote the same matrix *)
  Theorem stored_full_banded rows ml mu r c :
    (in_band ml mu r c = false -> nth c (nth r rows []) (zero O) = zero O) ->
    stored O SFull rows false r c = stored O (SBanded ml mu) rows false r c.
  Proof. intros H. unfold stored. destruct (in_band ml mu r c) eqn:E; [reflexivity|]. now apply H. Qed.

  (* a wider band changes nothing either *)
  Theorem stored_band_widen rows ml mu ml' mu' r c :
    ml <= ml' -> mu <= mu' ->
    (in_band ml mu r c = false -> nth c (nth r rows []) (zero O) = zero O) ->
    stored O (SBanded ml mu) rows false r c = stored O (SBanded ml' mu') rows false r c.
  Proof.
    intros H1 H2 Hz. unfold stored. destruct (in_band ml mu r c) eqn:E.
    - assert (in_band ml' mu' r c = true).
      { unfold in_band in *. apply andb_true_iff in E. destruct E as [A B].
        apply Nat.leb_le in A. apply Nat.leb_le in B. apply andb_true_iff. split; apply Nat.leb_le; lia. }
      now rewrite H.
    - rewrite (Hz eq_refl). destruct (in_band ml' mu' r c); reflexivity.
  Qed.
End Mass.

(* ---------------- C09: the sign-change test (real semantics) ---------------- *)
Local Open Scope R_scope.
Theorem crossed_strict_opposite (l r : R) :
  (l < 0 /\ 0 < r -> crossed Rops l r DirAll = true /\ crossed Rops l r DirPositive = true /\
                     crossed Rops l r DirNegative = false) /\
  (0 < l /\ r < 0 -> crossed Rops l r DirAll = true /\ crossed Rops l r DirNegative = true /\
                     crossed Rops l r DirPositive = false).
Proof.
  unfold crossed. cbn. unfold Rleb, Rltb.
  split; intros [H1 H2]; repeat split;
    repeat (match goal with |- context [Rle_dec ?a ?b] => destruct (Rle_dec a b) end
            || match goal with |- context [Rlt_dec ?a ?b] => destruct (Rlt_dec a b) end);
    simpl; try reflexivity; try lra.
Qed.

Theorem crossed_strict_same (l r : R) d :
  (l < 0 /\ r < 0) \/ (0 < l /\ 0 < r) -> crossed Rops l r d = false.
Proof.
  unfold crossed. cbn. unfold Rleb, Rltb. intros [[H1 H2]|[H1 H2]]; destruct d;
    repeat (match goal with |- context [Rle_dec ?a ?b] => destruct (Rle_dec a b) end
            || match goal with |- context [Rlt_dec ?a ?b] => destruct (Rlt_dec a b) end);
    simpl; try reflexivity; lra.
Qed.
Local Close Scope R_scope.

(* ---------------- C04: NaN on primitive floats ---------------- *)
Local Open Scope float_scope.
Lemma f_is_nan_spec (x : float) : f_is_nan x = true -> Prim2SF x = S754_nan.
Proof.
  unfold f_is_nan. rewrite eqb_spec. destruct (Prim2SF x) as [s| s| |s m e] eqn:E; intros H; [exfalso|exfalso|reflexivity|exfalso].
  - destruct s; discriminate H.
  - destruct s; discriminate H.
  - unfold SFeqb, SFcompare in H. destruct s; rewrite Z.compare_refl, Pos.compare_cont_refl in H; discriminate H.
Qed.

(* a NaN error norm can never pass the acceptance test `err <= 1.0`, nor any other `<=` / `<` test *)
Theorem nan_leb_false (x y : float) : f_is_nan x = true -> (x <=? y) = false /\ (x <? y) = false /\ (y <=? x) = false.
Proof.
  intros H. apply f_is_nan_spec in H. rewrite !leb_spec, ltb_spec, H. repeat split; try reflexivity.
  unfold SFleb, SFcompare. destruct (Prim2SF y) as [s| s| |s m e]; try reflexivity; destruct s; reflexivity.
Qed.

(* Rust's f64::min / max ignore a NaN argument: exactly what the step-size clamps rely on *)
Theorem f_min_max_nan (x y : float) : f_is_nan x = true -> f_min x y = y /\ f_max x y = y /\
                                                         (f_is_nan y = false -> f_min y x = y /\ f_max y x = y).
Proof.
  intros H. unfold f_min, f_max. rewrite H. split; [reflexivity|]. split; [reflexivity|].
  intros Hy. rewrite Hy. split; reflexivity.
Qed.
