(* soundness of the DOP853 dense-output certificate (proofs/CertDop853Dense.v) in the form used by props/C07.v *)
Require Import List ZArith QArith Qcanon Lia.
Require Import IVP.model.Lit IVP.model.RK IVP.model.Trees IVP.model.Vec IVP.model.Order IVP.model.Tableau IVP.model.DenseW.
Require Import IVP.proofs.TreesFacts IVP.proofs.OrderFacts IVP.proofs.CertSmall IVP.proofs.ScaleFacts IVP.proofs.CertDop853
               IVP.proofs.CertDop853Dense.
Import ListNotations.
Local Open Scope Qc_scope.
Import D8W D8Cert.

Global Opaque D Ai Wi M8 t8.
Notation iD := (/ Z2Qc (D lit_q)).

Lemma col_lit m : (m < 8)%nat ->
  wcol (W lit_q) m = bq (nth m (Wi lit_q) []) (D lit_q).
Proof.
  intros Hm. pose proof W_lit as E. unfold cols in E.
  apply (f_equal (fun l => nth m l [])) in E.
  rewrite (nth_indep _ [] (wcol (W lit_q) 0)) in E by (rewrite map_length, seq_length; exact Hm).
  rewrite map_nth, seq_nth in E by exact Hm. cbn [Nat.add] in E. rewrite E.
  rewrite (nth_indep _ [] (map (Qcmult iD) (zq []))) by (rewrite map_length, ncols; exact Hm).
  rewrite (map_nth (fun w => map (Qcmult iD) (zq w))). reflexivity.
Qed.

Theorem cont7_sound : forall t, (size t <= 7)%nat -> forall m, (m < 8)%nat -> exists M : Z,
    Z2Qc (gamma t) * qdot (wcol (W lit_q) m) (Phi QcK (A lit_q) 16 t) - (if Nat.eqb (size t) m then 1 else 0)
      = iD ^ size t * Z2Qc M /\
    (Z.abs M * 10^24 <= gamma t * 1 * (D lit_q) ^ Z.of_nat (size t))%Z.
Proof.
  intros t Ht m Hm.
  pose proof (check_all_sound ZK (Ai lit_q) 16 _ 7 cont7 t Ht) as Hc.
  unfold zcond_cont_all in Hc. rewrite forallb_forall in Hc.
  assert (Hin : In (m, nth m (Wi lit_q) []) (combine (seq 0 (length (Wi lit_q))) (Wi lit_q))).
  { rewrite ncols. pose proof ncols as Hn.
    assert (G : forall (l : list (list Z)) k, (m < length l)%nat ->
              In ((k + m)%nat, nth m l []) (combine (seq k (length l)) l)).
    { clear. intros l. revert m. induction l as [|x l IH]; intros m k Hl; [cbn in Hl; lia|].
      cbn [length seq combine]. destruct m as [|m]; [left; f_equal; lia|].
      right. replace (k + S m)%nat with (S k + m)%nat by lia. apply IH. cbn in Hl. lia. }
    specialize (G (Wi lit_q) 0%nat). rewrite Hn in G. apply G. exact Hm. }
  specialize (Hc _ Hin). cbn beta iota in Hc. cbn [w_size wof] in Hc.
  rewrite A_lit, (col_lit m Hm).
  destruct (Nat.eqb (size t) m).
  - unfold zcond_approx in Hc. cbn [w_gamma w_phi w_size wof] in Hc. apply Z.leb_le in Hc.
    eexists. split; [apply (cond_value _ _ _ _ D_pos)|exact Hc].
  - cbn [w_gamma w_phi wof] in Hc. apply Z.leb_le in Hc.
    exists (gamma t * kdot ZK (nth m (Wi lit_q) []) (Phi ZK (Ai lit_q) 16 t))%Z. split; [|exact Hc].
    unfold bq. rewrite (zero_value (Ai lit_q) 16 (D lit_q) (nth m (Wi lit_q) []) t), Z2Qc_mul. ring.
Qed.

Lemma size_t8 : size t8 = 8%nat.
Proof. Transparent t8. reflexivity. Qed.
Global Opaque t8.

(* sharpness: for the bushy tree of order 8 the theta^4 coefficient, which should vanish, is M8 / D^8 with |.| >= 1e-6 *)
Lemma resid8_eq :
  Z2Qc (gamma t8) * qdot (wcol (W lit_q) m8) (Phi QcK (A lit_q) 16 t8) = iD ^ size t8 * Z2Qc M8.
Proof.
  rewrite A_lit, (col_lit m8) by (unfold m8; lia). unfold bq.
  rewrite (zero_value (Ai lit_q) 16 (D lit_q) (nth m8 (Wi lit_q) []) t8).
  Transparent M8. unfold M8. Opaque M8. rewrite Z2Qc_mul. ring.
Qed.
