(* C07 for DOP853: continuous order conditions of the 16-stage dense output up to order 7, with the 30-digit
   coefficients handled as scaled integers (proofs/ScaleFacts.v).  W_j(theta) are the weight polynomials of
       u(theta) = y + h * sum_j W_j(theta) k_j
   assembled from the constants exactly as `finish_dense` / `interpolate` of model/Dop853.v combine them:
       c1 = h b.k,  c2 = h k1 - c1,  c3 = c1 - h k13 - c2,  c4..c7 = h d4..d7 . k   (k13 = f(x+h, ynew), k14..k16 extra)
       u = y + th (c1 + th1 (c2 + th (c3 + th1 (c4 + th (c5 + th1 (c6 + th c7))))))),   th1 = 1 - th. *)
Require Import List ZArith QArith Qcanon Lia.
Require Import IVP.model.Lit IVP.model.RK IVP.model.Trees IVP.model.Vec IVP.model.Order IVP.model.Tableau IVP.model.DenseW.
Require Import IVP.proofs.TreesFacts IVP.proofs.OrderFacts IVP.proofs.CertSmall IVP.proofs.ScaleFacts IVP.proofs.CertDop853.
Import ListNotations.
Local Open Scope Qc_scope.

Module D8W.
  Definition stages16 : list stage := DOP853T.stages12 ++ [DOP853T.stage13] ++ DOP853T.stages_dense.
  Definition A (q : sel) := dense_A q 16 stages16.
  Definition b (q : sel) := dense_row q 16 DOP853T.b.
  Definition d4 (q : sel) := dense_row q 16 (DOP853T.d4a ++ DOP853T.d4b).
  Definition d5 (q : sel) := dense_row q 16 (DOP853T.d5a ++ DOP853T.d5b).
  Definition d6 (q : sel) := dense_row q 16 (DOP853T.d6a ++ DOP853T.d6b).
  Definition d7 (q : sel) := dense_row q 16 (DOP853T.d7a ++ DOP853T.d7b).
  Definition Wj (q : sel) (j : nat) : qpoly :=
    let bj := qnth (b q) j in let e1 := qnth (unit_at 16 0) j in let e13 := qnth (unit_at 16 12) j in
    let c2 := e1 - bj in let c3 := bj - e13 - c2 in
    pX (padd [bj] (p1mX (padd [c2] (pX (padd [c3] (p1mX (padd [qnth (d4 q) j] (pX (padd [qnth (d5 q) j]
       (p1mX (padd [qnth (d6 q) j] (pX [qnth (d7 q) j])))))))))))).
  Definition W (q : sel) : list qpoly := map (Wj q) (seq 0 16).
  Definition cols (q : sel) : list qvec := map (wcol (W q)) (seq 0 8).     (* coefficient vectors of theta^0..theta^7 *)

  Section Scaled.
    Variable q : sel.
    Definition D : Z := Z.lcm (den_lcm (concat (A q))) (den_lcm (concat (cols q))).
    Definition Ai : list (list Z) := map (map (toZ D)) (A q).
    Definition Wi : list (list Z) := map (map (toZ D)) (cols q).
  End Scaled.

  (* all eight coefficient conditions of one tree: gamma * (w_m . N) = D^size if m = size, 0 otherwise, to tn/td *)
  Definition zcond_cont_all (D tn td : Z) (Ws : list (list Z)) (v : wval (K := Z)) : bool :=
    forallb (fun mw => let '(m, wi) := mw in
                       if Nat.eqb (w_size v) m then zcond_approx D tn td wi v
                       else (Z.abs (w_gamma v * kdot ZK wi (w_phi v)) * td <=? w_gamma v * tn * D ^ Z.of_nat (w_size v))%Z)
            (combine (seq 0 (length Ws)) Ws).
End D8W.

Module D8Cert.
  Import D8W.
  Lemma D_pos : (0 < D lit_q)%Z.  Proof. apply Z.ltb_lt. vm_compute. reflexivity. Qed.
  Lemma A_lit : A lit_q = Aq (Ai lit_q) (D lit_q).
  Proof. apply mat_eqb_correct. vm_compute. reflexivity. Qed.
  Lemma W_lit : cols lit_q = map (fun w => map (Qcmult (/ Z2Qc (D lit_q))) (zq w)) (Wi lit_q).
  Proof. apply mat_eqb_correct. vm_compute. reflexivity. Qed.
  Lemma cont7 : check_all ZK (Ai lit_q) 16 (zcond_cont_all (D lit_q) 1 (10^24) (Wi lit_q)) 7 = true.
  Proof. vm_compute. reflexivity. Qed.
  Lemma ncols : length (Wi lit_q) = 8%nat.  Proof. vm_compute. reflexivity. Qed.
  (* sharpness: an order-8 tree (bushy) violates the theta^8... (coefficient m = 4) condition by more than 1e-6 *)
  Definition t8 : tree := Node (repeat (Node []) 7).
  Definition m8 : nat := 4.
  Definition M8 : Z := (gamma t8 * kdot ZK (nth m8 (Wi lit_q) []) (Phi ZK (Ai lit_q) 16 t8))%Z.
  Lemma M8_val : (10^6 <=? Z.abs M8 * 10^12 / (D lit_q) ^ 8)%Z = true.
  Proof. vm_compute. reflexivity. Qed.
End D8Cert.
