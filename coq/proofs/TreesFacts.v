Require Import List Arith Lia.
Require Import IVP.model.Trees.
Import ListNotations.

(* induction principle that reaches the children *)
Lemma tree_ind' (P : tree -> Prop) :
  (forall cs, Forall P cs -> P (Node cs)) -> forall t, P t.
Proof.
  intros H. fix IH 1. intros [cs]. apply H.
  induction cs as [|c r IHr]; constructor; [apply IH | exact IHr].
Qed.

Lemma size_pos t : 1 <= size t.
Proof. destruct t; simpl; lia. Qed.

Lemma size_Node cs : size (Node cs) = S (sizeF cs).
Proof. reflexivity. Qed.

Lemma sizeF_cons c r : sizeF (c :: r) = size c + sizeF r.
Proof. reflexivity. Qed.

Lemma sizeF_0 cs : sizeF cs = 0 -> cs = [].
Proof.
  destruct cs as [|c r]; [reflexivity|]. rewrite sizeF_cons. pose proof (size_pos c). lia.
Qed.

Section Algebra.
  Variables (X Y : Type) (fnil : Y) (fcons : X -> Y -> Y) (fnode : nat -> Y -> X).
  Notation evalT := (evalT X Y fnil fcons fnode).
  Notation evalF := (evalF X Y fnil fcons fnode).
  Notation tabs := (tabs X Y fnil fcons fnode).
  Notation newF := (newF X Y fcons).
  Notation tabF := (tabF X Y).
  Notation tabV := (tabV X Y).
  Notation treesOf := (treesOf X Y fnil fcons fnode).
  Notation treesUpTo := (treesUpTo X Y fnil fcons fnode).

  Lemma evalT_Node cs : evalT (Node cs) = fnode (S (sizeF cs)) (evalF cs).
  Proof.
    reflexivity.
  Qed.

  Lemma tabs_length n : length (tabs n) = S n.
  Proof. induction n as [|n IH]; simpl; [reflexivity|]. rewrite app_length, IH. simpl. lia. Qed.

  Lemma tabs_prefix n m : m <= n -> nth m (tabs (S n)) ([], []) = nth m (tabs n) ([], []).
  Proof.
    intros Hm. simpl. rewrite app_nth1; [reflexivity|]. rewrite tabs_length. lia.
  Qed.

  Lemma tabs_mono n n' m : m <= n -> n <= n' -> nth m (tabs n') ([], []) = nth m (tabs n) ([], []).
  Proof.
    intros Hm Hn. induction Hn as [|n' Hn IH]; [reflexivity|].
    rewrite tabs_prefix by lia. exact IH.
  Qed.

  Lemma tabs_last n :
    nth (S n) (tabs (S n)) ([], []) =
    (newF (tabs n) (S n), map (fnode (S (S n))) (newF (tabs n) (S n))).
  Proof.
    simpl. rewrite app_nth2; rewrite tabs_length; [|lia].
    replace (S n - S n) with 0 by lia. reflexivity.
  Qed.

  (* the V component is always the image of the F component *)
  Lemma tabs_V n m : m <= n ->
    snd (nth m (tabs n) ([], [])) = map (fnode (S m)) (fst (nth m (tabs n) ([], []))).
  Proof.
    induction n as [|n IH]; intros Hm.
    - assert (Hm0 : m = 0) by lia. rewrite Hm0. reflexivity.
    - destruct (Nat.eq_dec m (S n)) as [->|Hne].
      + rewrite tabs_last. reflexivity.
      + rewrite tabs_prefix by lia. apply IH. lia.
  Qed.

  Lemma tabs_complete n :
    forall m, m <= n -> forall cs, sizeF cs = m -> In (evalF cs) (tabF (tabs n) m).
  Proof.
    unfold Trees.tabF.
    induction n as [|n IH]; intros m Hm cs Hs.
    - assert (Hm0 : m = 0) by lia. rewrite Hm0 in Hs |- *. apply sizeF_0 in Hs. rewrite Hs. simpl. now left.
    - destruct (Nat.eq_dec m (S n)) as [->|Hne].
      2:{ rewrite tabs_prefix by lia. apply IH; [lia|exact Hs]. }
      rewrite tabs_last. cbn [fst]. destruct cs as [|c r].
      { discriminate Hs. }
      rewrite sizeF_cons in Hs. pose proof (size_pos c) as Hc.
      unfold Trees.newF. apply in_flat_map. exists (size c). split.
      { apply in_seq. lia. }
      apply in_flat_map. exists (evalT c). split.
      + destruct c as [cs']. rewrite evalT_Node, size_Node. unfold Trees.tabV.
        rewrite tabs_V by (rewrite size_Node in Hs; unfold sizeF in *; lia).
        apply in_map. apply IH; [rewrite size_Node in Hs; unfold sizeF in *; lia | reflexivity].
      + change (evalF (c :: r)) with (fcons (evalT c) (evalF r)). apply in_map.
        unfold Trees.tabF. apply IH; unfold sizeF in *; lia.
  Qed.

  Theorem treesOf_complete t : In (evalT t) (treesOf (size t)).
  Proof.
    destruct t as [cs]. unfold Trees.treesOf. rewrite size_Node, evalT_Node.
    replace (S (sizeF cs) - 1) with (sizeF cs) by lia. unfold Trees.tabV.
    rewrite tabs_V by lia.
    apply in_map. apply tabs_complete; [lia|reflexivity].
  Qed.

  Theorem treesUpTo_complete p t : size t <= p -> In (evalT t) (treesUpTo p).
  Proof.
    intros Hp. pose proof (size_pos t) as Hs. unfold Trees.treesUpTo.
    apply in_concat. exists (snd (nth (size t - 1) (tabs (p - 1)) ([], []))). split.
    - apply in_map. apply nth_In. rewrite tabs_length. lia.
    - rewrite (tabs_mono (size t - 1)) by lia.
      pose proof (treesOf_complete t) as H. unfold Trees.treesOf, Trees.tabV in H.
      destruct (size t) as [|k] eqn:E; [lia|].
      replace (S k - 1) with k in * by lia. exact H.
  Qed.
End Algebra.

Lemma evalT_free t : evalT tree (list tree) [] cons (fun _ cs => Node cs) t = t.
Proof.
  induction t as [cs IH] using tree_ind'. rewrite evalT_Node. f_equal.
  induction IH as [|c r Hc _ IHr]; simpl; [reflexivity|]. now rewrite Hc, IHr.
Qed.

Theorem enum_complete t : In t (enum (size t)).
Proof.
  unfold enum. rewrite <- (evalT_free t) at 1. apply treesOf_complete.
Qed.
