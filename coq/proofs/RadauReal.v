(* C03 for the Radau model, honest status: Success is reported only when the abscissa has reached xend.
   Real-number semantics; ANY right-hand side, Jacobian, mass matrix, callback, tolerances, parameters.
   Invariant: while the flag `last` is set, the pending step is exactly the rest of the interval (x + h = xend); every
   path that changes h (failed factorisation or Newton iteration: halving; Newton step cut; error-test rejection) clears
   the flag -- the seeded change C03-c removed one of those resets. *)
Require Import List ZArith Bool Lia Reals Lra.
Require Import IVP.model.Lit IVP.model.Ops IVP.model.Vec IVP.model.Common IVP.model.LU IVP.model.LUc IVP.model.Radau
               IVP.model.RealOps.
Import ListNotations.
Local Open Scope R_scope.

Section Status.
  Context {H : Type}.
  Variable P : params (F:=R).
  Variable n : nat.
  Variable f : R -> list R -> list R.
  Variable jacf : R -> list R -> nat -> nat -> R.
  Variable mass : nat -> nat -> R.
  Variables (atolv rtolv : list R) (newton_tol xend posneg hmax hmin : R).
  Variable cb : H -> R -> R -> list R -> option (list R * R * R) -> H * flag R * list R.
  Notation step := (step Rops P n f jacf mass atolv rtolv newton_tol xend posneg hmax hmin cb).

  Definition Inv (s : state (F:=R) H) : Prop := s_last H s = true -> s_x H s + s_h H s = xend.
  Definition out_ok (o : state (F:=R) H + result (F:=R) H) : Prop :=
    match o with
    | inl s' => Inv s'
    | inr r => r_status r = Success -> r_x r = xend
    end.

  Ltac nxt := cbv beta iota.
  Ltac hd s :=
    match goal with
    | |- out_ok (if s_last H s then _ else _) => destruct (s_last H s) eqn:?
    | |- out_ok (if ?c then _ else _) => destruct c
    | |- out_ok (match (if ?c then _ else _) with _ => _ end) => destruct c
    | |- out_ok (match (match ?c with _ => _ end) with _ => _ end) => destruct c
    | |- out_ok (match ?c with _ => _ end) => destruct c
    end; nxt.

  Lemma step_status s : Inv s -> out_ok (step s).
  Proof.
    intros Hi. unfold Radau.step, halve, build_e2. cbv zeta. nxt.
    repeat (hd s).
    all: cbv beta iota delta [out_ok Inv s_last s_x s_h r_status r_x]; intros E; try discriminate E; try (cbn [add sub Rops]; lra); try (cbn [add Rops]; apply Hi; assumption).
  Qed.

  Theorem loop_status fuel s r :
    Inv s -> loop Rops P n f jacf mass atolv rtolv newton_tol xend posneg hmax hmin cb fuel s = Some r ->
    r_status r = Success -> r_x r = xend.
  Proof.
    revert s. induction fuel as [|k IH]; intros s Hi Hl; [discriminate|].
    cbn [loop] in Hl. pose proof (step_status s Hi) as Hs. destruct (step s) as [s'|r'].
    - eapply IH; eauto.
    - inversion Hl; subst. exact Hs.
  Qed.
End Status.

(* the whole low-level solver *)
Theorem solve_status {H : Type} (P : params (F:=R)) f jacf mass x0 y0 xend rtol atol
        (cb : H -> R -> R -> list R -> option (list R * R * R) -> H * flag R * list R) cb0 fuel r :
  solve Rops P f jacf mass x0 y0 xend rtol atol cb cb0 fuel = Some r ->
  r_status r = Success -> r_x r = xend.
Proof.
  unfold solve. cbv zeta.
  repeat match goal with |- (if ?c then None else _) = Some _ -> _ => destruct c; [discriminate|] end.
  destruct (cb cb0 x0 x0 y0 None) as [[cbs fl] y].
  destruct fl; intros E; try (inversion E; subst; cbn [r_status]; discriminate);
    (eapply loop_status; [|exact E]); unfold Inv; cbn [s_last s_x s_h];
    (match goal with |- ?c = true -> _ => destruct c eqn:Ec end; intros Et; [cbn [add sub Rops]; lra|discriminate]).
Qed.
