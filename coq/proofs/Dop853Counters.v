(* C18 for the DOP853 skeleton: nfev = number of logged right-hand-side calls. *)
Require Import List ZArith Bool Lia.
Require Import IVP.model.Lit IVP.model.Ops IVP.model.Vec IVP.model.Common IVP.model.RK IVP.model.Dop853
               IVP.model.Tableau IVP.proofs.RKFacts.
Import ListNotations.

Section Counters.
  Context {F : Type} (O : Ops F) {H : Type}.
  Variable P : params (F:=F).
  Variable f : F -> list F -> list F.
  Variables (xend posneg hmax : F).
  Variable cb : H -> F -> F -> list F -> option (list F * F * F) -> H * flag F * list F.
  Variable kern : F -> list F -> list F -> F -> attempt (F:=F).
  Hypothesis kern_calls : forall x y k h, length (at_calls (kern x y k h)) = 11.

  Definition counted (st : stats) (log : list (F * list F)) : Prop :=
    nfev st = N.of_nat (length log).

  Lemma counted_add st log calls :
    counted st log -> counted (add_fev st (N.of_nat (length calls))) (rev_append calls log).
  Proof.
    unfold counted. intros Hc. simpl. rewrite rev_append_rev, app_length, rev_length, Hc. lia.
  Qed.
  Lemma counted_cons st log c : counted st log -> counted (add_fev st 1) (c :: log).
  Proof. unfold counted. intros Hc. simpl in *. rewrite Hc. lia. Qed.
  Lemma counted_acc st log : counted st log -> counted (add_acc st) log.
  Proof. exact (fun h => h). Qed.

  Lemma step_counted s :
    counted (s_stats s) (s_log s) ->
    match step O P f xend posneg hmax cb kern s with
    | inl s' => counted (s_stats s') (s_log s')
    | inr r => counted (r_stats r) (r_log r)
    end.
  Proof.
    intros Hc. unfold step.
    destruct (N.ltb _ _); [exact Hc|].
    destruct (leb O _ _); [exact Hc|].
    destruct (landing _ _ _ _ _ _) as [h last].
    set (a := kern (s_x s) (s_y s) (s_k1 s) h).
    assert (Hk : counted (add_fev (add_step (s_stats s)) 11)
                         (rev_append (at_calls a) (s_log s))).
    { assert (Hl : length (at_calls a) = 11) by apply kern_calls.
      replace 11%N with (N.of_nat (length (at_calls a))) by (rewrite Hl; reflexivity).
      apply counted_add. exact Hc. }
    destruct (leb O (at_err a) (one O)).
    - set (xph := add O (s_x s) h).
      assert (Hk2 : counted (add_fev (add_acc (add_fev (add_step (s_stats s)) 11)) 1)
                            ((xph, at_ynew a) :: rev_append (at_calls a) (s_log s))).
      { apply counted_cons. exact Hk. }
      destruct (stiff_test _ _ _ _ _ _ _) as [[[hlamb nonstiff] iasti] sexit].
      destruct sexit; [exact Hk2|].
      assert (Hd : let '(c, st', lg') := dense_stage O P f (s_x s) h (s_y s) a (f xph (at_ynew a))
                        (add_fev (add_acc (add_fev (add_step (s_stats s)) 11)) 1)
                        ((xph, at_ynew a) :: rev_append (at_calls a) (s_log s)) in counted st' lg').
      { unfold dense_stage. destruct (p_dense P); [|exact Hk2].
        destruct (finish_dense _ _ _ _ _ _ _) as [cont dcalls]. apply counted_add. exact Hk2. }
      destruct (dense_stage _ _ _ _ _ _ _ _ _ _) as [[cont st2] lg2].
      destruct (cb _ _ _ _ _) as [[cbs fl] ycb].
      assert (Hf : forall k2, let '(k1, st', lg') := after_flag f fl xph ycb k2 st2 lg2 in counted st' lg').
      { intros k2. destruct fl; cbn [after_flag]; try exact Hd. apply counted_cons. exact Hd. }
      destruct fl; try exact Hd;
        (specialize (Hf (f xph (at_ynew a)));
         destruct (after_flag _ _ _ _ _ _ _) as [[k1 st'] lg'];
         destruct last; exact Hf).
    - cbn [s_stats s_log]. destruct (N.ltb 1 _); exact Hk.
  Qed.

  Theorem loop_counted fuel s r :
    counted (s_stats s) (s_log s) ->
    loop O P f xend posneg hmax cb kern fuel s = Some r ->
    counted (r_stats r) (r_log r).
  Proof.
    revert s. induction fuel as [|k IH]; intros s Hc Hl; [discriminate|].
    simpl in Hl. pose proof (step_counted s Hc) as Hs.
    destruct (step O P f xend posneg hmax cb kern s) as [s'|r'].
    - eapply IH; eauto.
    - now inversion Hl; subst.
  Qed.
End Counters.

Section Solve.
  Context {F : Type} (O : Ops F) {H : Type}.

  Lemma kernel_calls f atol rtol x y k h :
    length (at_calls (kernel O f atol rtol x y k h)) = 11.
  Proof.
    unfold kernel.
    pose proof (run_stages_calls O f x h y DOP853T.stages12 [k] []) as Hl.
    destruct (run_stages O f x h y DOP853T.stages12 [k] []) as [ks calls].
    destruct (fold_left _ _ _) as [e e2]. exact Hl.
  Qed.

  Theorem solve_counted (P : params) f x0 y0 xend rtol atol
          (cb : H -> F -> F -> list F -> option (list F * F * F) -> H * flag F * list F) cb0 fuel r :
    solve O P f x0 y0 xend rtol atol cb cb0 fuel = Some r ->
    nfev (r_stats r) = N.of_nat (length (r_log r)).
  Proof.
    unfold solve.
    destruct (_ || _); [discriminate|]. destruct (_ || _); [discriminate|].
    destruct (ltb O _ _); [discriminate|]. destruct (_ || _); [discriminate|].
    set (st1 := match p_first_step P with Some _ => _ | None => _ end).
    assert (H1 : let '(h, st, lg) := st1 in counted st lg).
    { subst st1. destruct (p_first_step P).
      - reflexivity.
      - destruct (hinit _ _ _ _ _ _ _ _ _ _) as [h c]. reflexivity. }
    destruct st1 as [[h st] lg].
    destruct (cb cb0 x0 x0 y0 None) as [[cbs fl] y].
    destruct fl.
    - intros E. eapply (loop_counted O P f); [apply kernel_calls | | exact E]. exact H1.
    - intros E. inversion E; subst. exact H1.
    - intros E. eapply (loop_counted O P f); [apply kernel_calls | | exact E]. exact H1.
    - intros E. eapply (loop_counted O P f); [apply kernel_calls | | exact E].
      unfold counted in *. cbn [s_stats s_log]. simpl in *. rewrite H1. lia.
  Qed.
End Solve.
