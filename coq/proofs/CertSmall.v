(* Order-condition certificates for the exactly rational tableaux (RK4, RK23, DOPRI5):
   computed by vm_compute over Qc on the constants regenerated from the Rust sources. *)
Require Import List ZArith QArith Qcanon Lia.
Require Import IVP.model.Lit IVP.model.RK IVP.model.Trees IVP.model.Vec IVP.model.Order IVP.model.Tableau.
Require Import IVP.proofs.TreesFacts IVP.proofs.OrderFacts.
Import ListNotations.
Local Open Scope Qc_scope.

Definition qvec_eqb (a b : qvec) : bool :=
  Nat.eqb (length a) (length b) && forallb (fun xy => qeqb (fst xy) (snd xy)) (combine a b).
Lemma qvec_eqb_correct a b : qvec_eqb a b = true -> a = b.
Proof.
  unfold qvec_eqb. intros H. apply andb_prop in H. destruct H as [Hl H].
  apply Nat.eqb_eq in Hl. revert b Hl H. induction a as [|x a IH]; intros [|y b] Hl H; try discriminate; [reflexivity|].
  simpl in H. apply andb_prop in H. destruct H as [Hx H]. apply qeqb_correct in Hx.
  simpl in Hx. subst y. f_equal. apply IH; [simpl in Hl; lia|exact H].
Qed.

Ltac qc_neq := let H := fresh in intro H; apply (f_equal this) in H; vm_compute in H; discriminate H.

(* ------------------------------------ RK4 ------------------------------------ *)
Module RK4C.
  Definition A (q : sel) := dense_A q 4 RK4T.stages.
  Definition b (q : sel) := dense_row q 4 RK4T.b.
  Definition c (q : sel) := dense_c q RK4T.stages 1.
  Lemma order4 : check_all QcK (A lit_q) 4 (cond_exact (b lit_q)) 4 = true.
  Proof. vm_compute. reflexivity. Qed.
  Lemma order4_f64 : check_all QcK (A f64_q) 4 (cond_approx (Q2Qc (1 # 10^15)) (b f64_q)) 4 = true.
  Proof. vm_compute. reflexivity. Qed.
  Lemma rowsums : qvec_eqb (row_sums (A lit_q)) (c lit_q) = true.
  Proof. vm_compute. reflexivity. Qed.
  Definition witness5 : tree := Node [Node []; Node []; Node []; Node []].
End RK4C.

(* ------------------------------------ RK23 ------------------------------------ *)
Module RK23C.
  Definition A (q : sel) := dense_A q 4 RK23T.stages.
  Definition b (q : sel) := dense_row q 4 RK23T.b.
  Definition e (q : sel) := dense_row q 4 RK23T.e.
  Definition c (q : sel) := dense_c q RK23T.stages 1.
  Lemma order3 : check_all QcK (A lit_q) 4 (cond_exact (b lit_q)) 3 = true.
  Proof. vm_compute. reflexivity. Qed.
  Lemma order3_f64 : check_all QcK (A f64_q) 4 (cond_approx (Q2Qc (1 # 10^15)) (b f64_q)) 3 = true.
  Proof. vm_compute. reflexivity. Qed.
  Lemma est2 : check_all QcK (A lit_q) 4 (cond_zero (e lit_q)) 2 = true.
  Proof. vm_compute. reflexivity. Qed.
  Lemma rowsums : qvec_eqb (row_sums (A lit_q)) (c lit_q) = true.
  Proof. vm_compute. reflexivity. Qed.
  Definition witness4 : tree := Node [Node []; Node []; Node []].
  Definition witness3 : tree := Node [Node []; Node []].
End RK23C.

(* ------------------------------------ DOPRI5 ------------------------------------ *)
Module DOPRI5C.
  Definition A (q : sel) := dense_A q 7 DOPRI5T.stages.
  Definition b (q : sel) := dense_row q 7 DOPRI5T.b.
  Definition e (q : sel) := dense_row q 7 DOPRI5T.e.
  Definition c (q : sel) := dense_c q DOPRI5T.stages 1.
  Lemma order5 : check_all QcK (A lit_q) 7 (cond_exact (b lit_q)) 5 = true.
  Proof. vm_compute. reflexivity. Qed.
  Lemma order5_f64 : check_all QcK (A f64_q) 7 (cond_approx (Q2Qc (1 # 10^15)) (b f64_q)) 5 = true.
  Proof. vm_compute. reflexivity. Qed.
  Lemma est4 : check_all QcK (A lit_q) 7 (cond_zero (e lit_q)) 4 = true.
  Proof. vm_compute. reflexivity. Qed.
  Lemma rowsums : qvec_eqb (row_sums (A lit_q)) (c lit_q) = true.
  Proof. vm_compute. reflexivity. Qed.
  Definition witness6 : tree := Node [Node []; Node []; Node []; Node []; Node []].
  Definition witness5 : tree := Node [Node []; Node []; Node []; Node []].
End DOPRI5C.
