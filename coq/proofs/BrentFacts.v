(* C08: every iterate of the event root refinement, and the time it finally reports, lies in the step
   [min(xold,x), max(xold,x)] -- for ANY event function values (g is an arbitrary function), any number of iterations,
   converged or not.  Real-number semantics of model/SolOut.v's brent_iter / brent_loop / locate_event (the sign
   normalisation is the textbook one since fix 356738d; with the pinned tree's variant this statement was false: F12). *)
Require Import List Bool Reals Lra Lia Psatz QArith Qreals.
Require Import IVP.model.Lit IVP.model.Ops IVP.model.Vec IVP.model.Common IVP.model.SolOut IVP.model.RealOps IVP.gen.Inline.
Import ListNotations.
Local Open Scope R_scope.

Section Brent.
  Variables (lo hi : R).
  Definition inI (v : R) : Prop := lo <= v <= hi.
  Definition st_in (s : brent_st (F:=R)) : Prop := inI (ba s) /\ inI (bb s) /\ inI (bc s).

  Lemma between b c v : inI b -> inI c -> Rmin b c <= v <= Rmax b c -> inI v.
  Proof.
    unfold inI. intros [? ?] [? ?] [Hl Hu].
    pose proof (Rmin_l b c). pose proof (Rmin_r b c). pose proof (Rmax_l b c). pose proof (Rmax_r b c).
    destruct (Rle_dec b c) as [Hbc|Hbc].
    - rewrite Rmin_left in Hl by lra. rewrite Rmax_right in Hu by lra. lra.
    - rewrite Rmin_right in Hl by lra. rewrite Rmax_left in Hu by lra. lra.
  Qed.

  (* an accepted interpolation step has the direction of xm and less than 3/2 of its length *)
  Lemma accepted_step p q xm t1 :
    0 <= p -> 2 * p < 3 * xm * q - Rabs (t1 * q) ->
    (0 < xm -> 0 <= p / q < 3 / 2 * xm) /\ (xm < 0 -> 3 / 2 * xm < p / q <= 0) /\ xm <> 0.
  Proof.
    intros Hp Hacc. pose proof (Rabs_pos (t1 * q)) as Ha.
    assert (Hxq : 0 < xm * q) by nra.
    assert (Hq : q <> 0) by (intro E; rewrite E in Hxq; lra).
    assert (Hx : xm <> 0) by (intro E; rewrite E in Hxq; lra).
    split; [|split; [|exact Hx]].
    - intros Hxm. assert (0 < q) by nra.
      split; [apply Rmult_le_pos; [exact Hp|left; now apply Rinv_0_lt_compat]|].
      apply (Rmult_lt_reg_r q); [assumption|]. unfold Rdiv. rewrite Rmult_assoc, Rinv_l, Rmult_1_r by exact Hq. nra.
    - intros Hxm. assert (q < 0) by nra.
      assert (Hiq : / q < 0) by now apply Rinv_lt_0_compat.
      split; [|unfold Rdiv; nra].
      apply (Rmult_lt_reg_r (- q)); [lra|].
      replace (p / q * - q) with (- p) by (field; exact Hq). nra.
  Qed.

  Lemma iter_in g s :
    st_in s ->
    match brent_iter Rops g s with
    | inl (s', p) => st_in s' /\ inI p
    | inr s' => st_in s'
    end.
  Proof.
    intros [Ha [Hb Hc]]. unfold brent_iter.
    (* s1, s2 only permute a, b, c *)
    set (s1 := if ltb Rops (zero Rops) (mul Rops (bfb s) (bfc s)) then _ else s).
    assert (H1 : st_in s1) by (subst s1; destruct (ltb Rops _ _); (split; [|split]); cbn [ba bb bc]; assumption).
    clearbody s1.
    set (s2 := if ltb Rops (abs Rops (bfc s1)) (abs Rops (bfb s1)) then _ else s1).
    assert (H2 : st_in s2).
    { subst s2. destruct H1 as [A1 [B1 C1]]. destruct (ltb Rops _ _); (split; [|split]); cbn [ba bb bc]; assumption. }
    clearbody s2. clear H1 Ha Hb Hc. destruct H2 as [Ha [Hb Hc]].
    cbv zeta.
    set (tol1 := add Rops (mul Rops (mul Rops (lit Rops L2) (RTOL Rops)) (abs Rops (bb s2))) (mul Rops (lit Rops L0_5) (XTOL Rops))).
    set (xm := mul Rops (lit Rops L0_5) (sub Rops (bc s2) (bb s2))).
    assert (Hxm : xm = (bc s2 - bb s2) / 2).
    { subst xm. cbn [mul sub lit Rops lit_q L0_5]. unfold Q2R. cbn. field. }
    assert (Ht1 : 0 <= tol1).
    { assert (Q0 : forall l, (0 <= lit_q l)%Q -> 0 <= Q2R (lit_q l)).
      { intros l Hl. replace 0 with (Q2R 0) by (unfold Q2R; cbn; lra). now apply Qle_Rle. }
      subst tol1. unfold RTOL, XTOL. cbn [add mul abs lit Rops].
      apply Rplus_le_le_0_compat; [apply Rmult_le_pos; [apply Rmult_le_pos|apply Rabs_pos]|apply Rmult_le_pos];
        apply Q0; vm_compute; discriminate. }
    destruct (leb Rops (abs Rops xm) tol1 || eqb Rops (bfb s2) (zero Rops)) eqn:Ex.
    { split; [|split]; assumption. }
    apply orb_false_iff in Ex. destruct Ex as [Ex _]. cbn [leb abs Rops] in Ex. apply Rleb_false in Ex.
    (* the chosen displacement d' keeps b + d' between b and c *)
    match goal with |- context [let '(d', e') := ?sel in _] => set (choice := sel) end.
    assert (Hd : let d' := fst choice in
                 (Rabs d' <= tol1 \/ Rmin (bb s2) (bc s2) <= bb s2 + d' <= Rmax (bb s2) (bc s2))).
    { subst choice. cbv zeta.
      assert (Hmid : Rmin (bb s2) (bc s2) <= bb s2 + xm <= Rmax (bb s2) (bc s2)).
      { rewrite Hxm. destruct (Rle_dec (bb s2) (bc s2)).
        - rewrite Rmin_left, Rmax_right by lra. lra.
        - rewrite Rmin_right, Rmax_left by lra. lra. }
      destruct (_ && _); [|right; exact Hmid].
      match goal with |- context [let '(p, q) := ?pq in _] => destruct pq as [p0 q0] end. cbv beta iota.
      set (p := abs Rops p0). set (q := if ltb Rops (zero Rops) p0 then neg Rops q0 else q0).
      destruct (ltb Rops (mul Rops (lit Rops L2) p) _) eqn:Eacc; [|right; exact Hmid].
      cbn [fst]. right.
      cbn [ltb mul sub abs fmin lit Rops lit_q L2 L3] in Eacc. apply Rltb_true in Eacc.
      assert (E2 : Q2R (2 # 1) = 2) by (unfold Q2R; cbn; lra).
      assert (E3 : Q2R (3 # 1) = 3) by (unfold Q2R; cbn; lra).
      rewrite E2, E3 in Eacc.
      assert (Hacc : 2 * p < 3 * xm * q - Rabs (tol1 * q)).
      { eapply Rlt_le_trans; [exact Eacc|apply Rmin_l]. }
      assert (Hp : 0 <= p) by (subst p; cbn [abs Rops]; apply Rabs_pos).
      destruct (accepted_step p q xm tol1 Hp Hacc) as [Hpos [Hneg Hx0]].
      cbn [div Rops].
      destruct (Rlt_dec 0 xm) as [Hx|Hx];
        [ destruct (Hpos Hx) as [A B]; rewrite Rmin_left, Rmax_right by lra;
          set (r := p / q) in *; clearbody r; clearbody xm; clear -Hxm Hx A B; lra
        | assert (Hx' : xm < 0) by lra; destruct (Hneg Hx') as [A B]; rewrite Rmin_right, Rmax_left by lra;
          set (r := p / q) in *; clearbody r; clearbody xm; clear -Hxm Hx' A B; lra ]. }
    destruct choice as [d' e']. cbn [fst] in Hd. cbv beta iota.
    assert (Hb' : inI (if ltb Rops tol1 (abs Rops d') then add Rops (bb s2) d'
                       else add Rops (bb s2) (if ltb Rops (zero Rops) xm then tol1 else neg Rops tol1))).
    { cbn [ltb abs add neg zero Rops]. destruct (Rltb tol1 (Rabs d')) eqn:Et.
      - apply Rltb_true in Et. destruct Hd as [Hd|Hd]; [lra|]. eapply between; [exact Hb|exact Hc|exact Hd].
      - (* minimal step of length tol1 toward c; |xm| > tol1 *)
        eapply between; [exact Hb|exact Hc|].
        destruct (Rltb 0 xm) eqn:Es; [apply Rltb_true in Es|apply Rltb_false in Es].
        + rewrite Rabs_right in Ex by lra. rewrite Rmin_left, Rmax_right by lra.
          lra.
        + rewrite Rabs_left1 in Ex by lra.
          destruct (Rle_dec (bb s2) (bc s2)) as [Hle|Hgt].
          * assert (xm = 0) by lra. rewrite H in Ex. rewrite Ropp_0 in Ex.
            rewrite Rmin_left, Rmax_right by lra. lra.
          * rewrite Rmin_right, Rmax_left by lra.
            lra. }
    split; [split; [|split]; cbn [ba bb bc]; assumption|exact Hb'].
  Qed.

  Theorem loop_in g : forall fuel s pts,
    st_in s -> Forall inI pts ->
    let '(b, pts', _) := brent_loop Rops fuel g s pts in inI b /\ Forall inI pts'.
  Proof.
    induction fuel as [|k IH]; intros s pts Hs Hp; cbn [brent_loop].
    - split; [apply Hs|exact Hp].
    - pose proof (iter_in g s Hs) as Hi. destruct (brent_iter Rops g s) as [[s' p]|s'].
      + destruct Hi as [Hs' Hpp]. apply IH; [exact Hs'|]. apply Forall_app. split; [exact Hp|constructor; [exact Hpp|constructor]].
      + split; [apply Hi|exact Hp].
  Qed.
End Brent.

(* the refined event time, and every point at which the event function was evaluated on the way, lies in the step *)
Theorem locate_event_in_step (C : hconfig (F:=R)) i xold x yold y gprev gcurr sg :
  let '(te, _, pts, _) := locate_event Rops C i xold x yold y gprev gcurr sg in
  Rmin xold x <= te <= Rmax xold x /\ Forall (fun p => Rmin xold x <= p <= Rmax xold x) pts.
Proof.
  unfold locate_event.
  assert (Hx0 : Rmin xold x <= xold <= Rmax xold x) by (split; [apply Rmin_l|apply Rmax_l]).
  assert (Hx1 : Rmin xold x <= x <= Rmax xold x) by (split; [apply Rmin_r|apply Rmax_r]).
  destruct (leb Rops _ _); [split; [exact Hx0|constructor]|].
  destruct (leb Rops _ _); [split; [exact Hx1|constructor]|].
  match goal with |- context [brent_loop Rops ?fuel ?g ?s0 []] =>
    pose proof (loop_in (Rmin xold x) (Rmax xold x) g fuel s0 []) as Hl end.
  destruct (brent_loop _ _ _ _ _) as [[b pts] conv].
  apply Hl; [split; [|split]; cbn [ba bb bc]; assumption|constructor].
Qed.
