(* C19 for the RK23 skeleton: any number type, kernel, right-hand side and callback. *)
Require Import List ZArith Bool Lia.
Require Import IVP.model.Lit IVP.model.Ops IVP.model.Vec IVP.model.Common IVP.model.RK IVP.model.Rk23.
Require Import IVP.proofs.ProtocolGen.
Import ListNotations.

Section Protocol.
  Context {F : Type} (O : Ops F) {H : Type}.
  Variable P : params (F:=F).
  Variable f : F -> list F -> list F.
  Variables (xend posneg hmax : F).
  Variable cb : H -> F -> F -> list F -> option (list F * F * F) -> H * flag F * list F.
  Variable kern : F -> list F -> list F -> F -> attempt (F:=F).
  Variable c0 : call (F:=F).
  Notation stepR := (step O P f xend posneg hmax (rec_cb cb) kern).

  Definition out_ok (o : state (F:=F) (H * list call) + result (F:=F) (H * list call)) : Prop :=
    match o with
    | inl s' => st_ok c0 (s_x s') (snd (s_cb s'))
    | inr r => res_ok c0 (r_status r) (r_x r) (snd (r_cb r))
    end.

  Ltac nxt := cbv beta iota; cbn [out_ok s_x s_cb r_status r_x r_cb snd fst].
  Ltac hd :=
    match goal with
    | |- out_ok (if ?c then _ else _) => destruct c
    | |- out_ok (match (if ?c then _ else _) with _ => _ end) => destruct c
    | |- out_ok (match (match ?c with _ => _ end) with _ => _ end) => destruct c
    | |- out_ok (match ?c with _ => _ end) => destruct c
    end; nxt.

  Lemma step_trace s : st_ok c0 (s_x s) (snd (s_cb s)) -> out_ok (stepR s).
  Proof.
    intros Hs. unfold Rk23.step, rec_cb. cbv zeta. nxt.
    repeat hd. all: protocol_leaf.
  Qed.

  Theorem loop_trace fuel s r :
    st_ok c0 (s_x s) (snd (s_cb s)) ->
    loop O P f xend posneg hmax (rec_cb cb) kern fuel s = Some r ->
    res_ok c0 (r_status r) (r_x r) (snd (r_cb r)).
  Proof.
    revert s. induction fuel as [|k IH]; intros s Hs Hl; [discriminate|].
    cbn [loop] in Hl. pose proof (step_trace s Hs) as Ht.
    destruct (stepR s) as [s'|r'].
    - eapply IH; eauto.
    - inversion Hl; subst. exact Ht.
  Qed.
End Protocol.

(* the whole low-level solver, started with an empty record: the first call is (x0, x0, y0, no interpolant) -- it is
   the oldest entry c0 of the final trace -- then the invariant of the loop *)
Theorem solve_trace {F : Type} (O : Ops F) {H : Type} (P : params) f x0 y0 xend rtol atol
        (cb : H -> F -> F -> list F -> option (list F * F * F) -> H * flag F * list F) (h0 : H) fuel r :
  solve O P f x0 y0 xend rtol atol (rec_cb cb) (h0, []) fuel = Some r ->
  exists fl0, res_ok (mkCall x0 x0 y0 None fl0) (r_status r) (r_x r) (snd (r_cb r)).
Proof.
  unfold solve.
  repeat match goal with |- (if ?c then None else _) = Some _ -> _ => destruct c; [discriminate|] end.
  cbv zeta.
  destruct (match p_first_step P with Some _ => _ | None => _ end) as [[h st] lg].
  unfold rec_cb at 1. cbn [fst snd].
  destruct (cb h0 x0 x0 y0 None) as [[h' fl] y']. intros E. exists fl. revert E.
  destruct fl; intros E.
  2:{ inversion E; subst; cbn [r_status r_x r_cb snd]. apply first_res. split; reflexivity. }
  all: eapply (loop_trace O P f xend _ _ cb _ _ fuel); [|exact E]; cbn [s_x s_cb snd]; apply first_st; discriminate.
Qed.
