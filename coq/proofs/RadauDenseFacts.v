(* Radau's dense output is the collocation polynomial: the cubic through (theta=0, y), (C1, y+Z1), (C2, y+Z2), (1, y+Z3).
   `radau_cont` repeats, operation for operation, the lines of the accepted branch of model/Radau.v (`ynew`, `ak`,
   `acont3`, `k1`, `k2`, `k3`); `interpolate` is the model's.  Real-number semantics; the node constants enter through the
   exact rationals of the source literals, for which C1M1 = C1 - 1, C2M1 = C2 - 1 and C1MC2 = C1 - C2 hold digit for
   digit (checked below by computation). *)
Require Import List Arith Lia Reals Lra QArith Qreals.
Require Import IVP.model.Lit IVP.model.Ops IVP.model.Vec IVP.model.RealOps IVP.model.Radau.
Require IVP.gen.Consts_radau.
Require Import IVP.proofs.ListFacts.
Import ListNotations.
Local Open Scope R_scope.

Notation rv := (list R).
Import IVP.gen.Consts_radau.
Definition rC1 := Q2R (lit_q C1).   Definition rC2 := Q2R (lit_q C2).
Definition rC1M1 := Q2R (lit_q C1M1). Definition rC2M1 := Q2R (lit_q C2M1). Definition rC1MC2 := Q2R (lit_q C1MC2).

Lemma node_consts : rC1M1 = rC1 - 1 /\ rC2M1 = rC2 - 1 /\ rC1MC2 = rC1 - rC2 /\
                    0 < rC1 < rC2 /\ rC2 < 1.
Proof.
  unfold rC1M1, rC2M1, rC1MC2, rC1, rC2.
  assert (E1 : (lit_q C1M1 == lit_q C1 - 1)%Q) by (vm_compute; reflexivity).
  assert (E2 : (lit_q C2M1 == lit_q C2 - 1)%Q) by (vm_compute; reflexivity).
  assert (E3 : (lit_q C1MC2 == lit_q C1 - lit_q C2)%Q) by (vm_compute; reflexivity).
  assert (L1 : (0 < lit_q C1)%Q) by (vm_compute; reflexivity).
  assert (L2 : (lit_q C1 < lit_q C2)%Q) by (vm_compute; reflexivity).
  assert (L3 : (lit_q C2 < 1)%Q) by (vm_compute; reflexivity).
  apply Qeq_eqR in E1, E2, E3. rewrite Q2R_minus in E1, E2, E3.
  apply Qlt_Rlt in L1, L2, L3.
  replace (Q2R 1) with 1 in * by (unfold Q2R; cbn; lra). replace (Q2R 0) with 0 in * by (unfold Q2R; cbn; lra).
  repeat split; lra.
Qed.

(* one component of the divided-difference coefficients and of the Newton form evaluated by `interpolate` *)
Section Scalar.
  Variables (y z1 z2 z3 : R).
  Let ynew := y + z3.
  Let ak := (z1 - z2) / rC1MC2.
  Let acont3 := (ak - z1 / rC1) / rC2.
  Let k1 := (z2 - z3) / rC2M1.
  Let k2 := (ak - k1) / rC1M1.
  Let k3 := k2 - acont3.
  Definition colloc (s : R) : R := ynew + s * (k1 + (s - rC2M1) * (k2 + (s - rC1M1) * k3)).

  Theorem colloc_nodes :
    colloc (0 - 1) = y /\ colloc (rC1 - 1) = y + z1 /\ colloc (rC2 - 1) = y + z2 /\ colloc (1 - 1) = y + z3.
  Proof.
    destruct node_consts as [E1 [E2 [E3 [[P1 P12] P2]]]].
    unfold colloc, k3, k2, k1, acont3, ak, ynew. rewrite E1, E2, E3.
    repeat split; field; repeat split; lra.
  Qed.
End Scalar.

Section Rad.
  Definition radau_cont (y z1 z2 z3 : rv) : rv :=
    let O := Rops in
    let ynew := map2 (fun yi z => add O yi z) y z3 in
    let ak := map2 (fun a b => div O (sub O a b) (lit O C1MC2)) z1 z2 in
    let acont3 := map2 (fun a z1i => div O (sub O a (div O z1i (lit O C1))) (lit O C2)) ak z1 in
    let k1 := map2 (fun b c => div O (sub O b c) (lit O C2M1)) z2 z3 in
    let k2 := map2 (fun a b => div O (sub O a b) (lit O C1M1)) ak k1 in
    let k3 := map2 (fun a b => sub O a b) k2 acont3 in
    ynew ++ k1 ++ k2 ++ k3.

  Lemma interp_value n (c0 c1 c2 c3 : rv) i xold h xi :
    length c0 = n -> length c1 = n -> length c2 = n -> length c3 = n -> (i < n)%nat ->
    nth i (interpolate Rops (c0 ++ c1 ++ c2 ++ c3) xold h xi n) 0 =
    let s := (xi - (xold + h)) / h in
    nth i c0 0 + s * (nth i c1 0 + (s - rC2M1) * (nth i c2 0 + (s - rC1M1) * nth i c3 0)).
  Proof.
    intros H0 H1 H2 H3 Hi. unfold interpolate.
    replace (c0 ++ c1 ++ c2 ++ c3) with (concat [c0; c1; c2; c3]) by (cbn [concat]; now rewrite app_nil_r).
    assert (HF : Forall (fun l : rv => length l = n) [c0; c1; c2; c3]) by (repeat constructor; assumption).
    rewrite (concat_length_const n) by exact HF. cbn [length]. rewrite (Nat.mul_comm _ n), Nat.div_mul by lia.
    unfold block. rewrite !(block_concat n) by (try exact HF; cbn [length]; lia). cbn [nth].
    rewrite (nth_map' _ _ (0, 0, 0, 0)) by (rewrite !combine_length; lia).
    rewrite !nth_combine by (rewrite ?combine_length; lia).
    cbn [add sub mul div neg one zero Rops lit]. reflexivity.
  Qed.

  (* the dense output of an accepted Radau step passes through the old state and the three stage values *)
  Theorem radau_collocation n (y z1 z2 z3 : rv) i xold h theta :
    length y = n -> length z1 = n -> length z2 = n -> length z3 = n -> (i < n)%nat -> h <> 0 ->
    nth i (interpolate Rops (radau_cont y z1 z2 z3) xold h (xold + theta * h) n) 0 =
    colloc (nth i y 0) (nth i z1 0) (nth i z2 0) (nth i z3 0) (theta - 1).
  Proof.
    intros Hy H1 H2 H3 Hi Hh. unfold radau_cont. cbv zeta.
    rewrite (interp_value n) by (rewrite ?map2_length, ?Hy, ?H1, ?H2, ?H3, ?Nat.min_id; try lia; exact Hi).
    cbv zeta. replace ((xold + theta * h - (xold + h)) / h) with (theta - 1) by (field; exact Hh).
    unfold colloc.
    repeat (rewrite (nth_map2 _ 0 0 0) by (rewrite ?map2_length, ?Hy, ?H1, ?H2, ?H3, ?Nat.min_id; lia)).
    cbn [add sub mul div lit Rops]. reflexivity.
  Qed.

  Corollary radau_dense_interpolates n (y z1 z2 z3 : rv) i xold h :
    length y = n -> length z1 = n -> length z2 = n -> length z3 = n -> (i < n)%nat -> h <> 0 ->
    let u theta := nth i (interpolate Rops (radau_cont y z1 z2 z3) xold h (xold + theta * h) n) 0 in
    u 0 = nth i y 0 /\ u rC1 = nth i y 0 + nth i z1 0 /\ u rC2 = nth i y 0 + nth i z2 0 /\ u 1 = nth i y 0 + nth i z3 0.
  Proof.
    intros Hy H1 H2 H3 Hi Hh u. unfold u. rewrite !(radau_collocation n) by assumption.
    apply colloc_nodes.
  Qed.
End Rad.
