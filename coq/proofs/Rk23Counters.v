(* C18 for the RK23 skeleton. *)
Require Import List ZArith Bool Lia.
Require Import IVP.model.Lit IVP.model.Ops IVP.model.Vec IVP.model.Common IVP.model.RK IVP.model.Rk23
               IVP.model.Tableau IVP.proofs.RKFacts.
Import ListNotations.

Section Counters.
  Context {F : Type} (O : Ops F) {H : Type}.
  Variable P : params (F:=F).
  Variable f : F -> list F -> list F.
  Variables (xend posneg hmax : F).
  Variable cb : H -> F -> F -> list F -> option (list F * F * F) -> H * flag F * list F.
  Variable kern : F -> list F -> list F -> F -> attempt (F:=F).
  Hypothesis kern_calls : forall x y k h, length (at_calls (kern x y k h)) = 3.

  Definition counted (st : stats) (log : list (F * list F)) : Prop :=
    nfev st = N.of_nat (length log).

  Lemma step_counted s :
    counted (s_stats s) (s_log s) ->
    match step O P f xend posneg hmax cb kern s with
    | inl s' => counted (s_stats s') (s_log s')
    | inr r => counted (r_stats r) (r_log r)
    end.
  Proof.
    intros Hc. unfold step.
    destruct (N.leb _ _); [exact Hc|].
    destruct (leb O _ _); [exact Hc|].
    set (h := if ltb O (zero O) _ then _ else _).
    set (a := kern (s_x s) (s_y s) (s_k1 s) h).
    assert (Hk : counted (add_fev (s_stats s) 3) (rev_append (at_calls a) (s_log s))).
    { assert (Hl : length (at_calls a) = 3) by apply kern_calls.
      unfold counted in *. simpl. rewrite rev_append_rev, app_length, rev_length, Hl, Hc. lia. }
    destruct (leb O (at_err a) (one O)).
    - destruct (cb _ _ _ _ _) as [[cbs fl] ycb].
      destruct fl; cbn [r_stats r_log s_stats s_log]; try exact Hk;
        try (destruct (eqb O _ _); cbn [r_stats r_log s_stats s_log]; exact Hk).
      assert (Hm : counted (add_fev (add_acc (add_step (add_fev (s_stats s) 3))) 1)
                           ((add O (s_x s) h, ycb) :: rev_append (at_calls a) (s_log s))).
      { unfold counted in *. simpl in *. rewrite Hk. lia. }
      destruct (eqb O _ _); cbn [r_stats r_log s_stats s_log]; exact Hm.
    - cbn [s_stats s_log]. exact Hk.
  Qed.

  Theorem loop_counted fuel s r :
    counted (s_stats s) (s_log s) ->
    loop O P f xend posneg hmax cb kern fuel s = Some r ->
    counted (r_stats r) (r_log r).
  Proof.
    revert s. induction fuel as [|k IH]; intros s Hc Hl; [discriminate|].
    simpl in Hl. pose proof (step_counted s Hc) as Hs.
    destruct (step O P f xend posneg hmax cb kern s) as [s'|r'].
    - eapply IH; eauto.
    - now inversion Hl; subst.
  Qed.
End Counters.

Section Solve.
  Context {F : Type} (O : Ops F) {H : Type}.

  Lemma kernel_calls f atol rtol x y k h :
    length (at_calls (kernel O f atol rtol x y k h)) = 3.
  Proof.
    unfold kernel.
    pose proof (run_stages_calls O f x h y RK23T.stages [k] []) as Hl.
    destruct (run_stages O f x h y RK23T.stages [k] []) as [ks calls]. exact Hl.
  Qed.

  Theorem solve_counted (P : params) f x0 y0 xend rtol atol
          (cb : H -> F -> F -> list F -> option (list F * F * F) -> H * flag F * list F) cb0 fuel r :
    solve O P f x0 y0 xend rtol atol cb cb0 fuel = Some r ->
    nfev (r_stats r) = N.of_nat (length (r_log r)).
  Proof.
    unfold solve.
    destruct (N.eqb _ _); [discriminate|]. destruct (_ || _); [discriminate|].
    destruct (_ || _); [discriminate|].
    set (st1 := match p_first_step P with Some _ => _ | None => _ end).
    assert (H1 : let '(h, st, lg) := st1 in counted st lg).
    { subst st1. destruct (p_first_step P).
      - reflexivity.
      - destruct (hinit _ _ _ _ _ _ _ _ _ _) as [h c]. reflexivity. }
    destruct st1 as [[h st] lg].
    destruct (cb cb0 x0 x0 y0 None) as [[cbs fl] y].
    destruct fl.
    - intros E. eapply (loop_counted O P f); [apply kernel_calls | | exact E]. exact H1.
    - intros E. inversion E; subst. exact H1.
    - intros E. eapply (loop_counted O P f); [apply kernel_calls | | exact E]. exact H1.
    - intros E. eapply (loop_counted O P f); [apply kernel_calls | | exact E].
      unfold counted in *. cbn [s_stats s_log]. simpl in *. rewrite H1. lia.
  Qed.
End Solve.
