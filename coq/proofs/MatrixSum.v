(* C17, operators: entrywise reading of +, - and scalar multiplication (real-number instance:
   the banded branches start their accumulation from 0, so they need 0 + x = x). *)
Require Import List Arith Bool Lia Reals Lra.
Require Import IVP.model.Lit IVP.model.Ops IVP.model.Matrix IVP.model.RealOps IVP.proofs.MatrixFacts.
Import ListNotations.
Local Open Scope R_scope.

Notation rmatrix := (matrix (F:=R)).

(* the entry a matrix denotes (0 where a read would panic) *)
Definition dn (A : rmatrix) (i j : nat) : R := match get Rops A i j with Some v => v | None => 0 end.
Definition rop (sub_ : bool) (a b : R) : R := if sub_ then a - b else a + b.

Definition wf (A : rmatrix) : Prop :=
  m_m A = m_n A /\
  match m_st A with
  | SIdentity => m_data A = [1; 0]
  | SFull => length (m_data A) = (m_n A * m_n A)%nat
  | SBanded ml mu => length (m_data A) = ((ml + mu + 1) * m_n A)%nat
  end.

Lemma nth_error_zipw (f : R -> R -> R) a b k :
  length a = length b -> nth_error (zipw f a b) k =
  match nth_error a k, nth_error b k with Some x, Some y => Some (f x y) | _, _ => None end.
Proof.
  revert b k; induction a as [|x a IH]; intros [|y b] k H; simpl in H; try discriminate.
  - destruct k; reflexivity.
  - destruct k; simpl; [reflexivity|]. apply IH. lia.
Qed.

Lemma zipw_length (f : R -> R -> R) a b : length a = length b -> length (zipw f a b) = length a.
Proof.
  revert b; induction a as [|x a IH]; intros [|y b] H; simpl in *; try discriminate; [reflexivity|].
  f_equal. apply IH. lia.
Qed.

Lemma get_full_entry (A : rmatrix) i j :
  wf A -> m_st A = SFull -> (i < m_n A)%nat -> (j < m_n A)%nat ->
  get Rops A i j = Some (nth (i * m_n A + j) (m_data A) 0).
Proof.
  intros [Hm Hw] Hs Hi Hj. rewrite Hs in Hw. unfold get. rewrite Hm, Hs.
  pose proof (full_idx_lt (m_n A) (m_n A) i j Hi Hj) as Hlt.
  apply Nat.ltb_lt in Hi. apply Nat.ltb_lt in Hj. rewrite Hi, Hj. cbn [andb].
  apply nth_error_nth'. lia.
Qed.

(* Full (+|-) Full *)
Theorem addsub_full_full sub_ (A B C : rmatrix) i j :
  wf A -> wf B -> m_st A = SFull -> m_st B = SFull -> addsub Rops sub_ A B = Some C ->
  (i < m_n A)%nat -> (j < m_n A)%nat ->
  get Rops C i j = Some (rop sub_ (dn A i j) (dn B i j)).
Proof.
  intros WA WB SA SB H Hi Hj. unfold addsub in H. destruct (negb (m_n A =? m_n B)%nat) eqn:En; [discriminate|].
  apply negb_false_iff, Nat.eqb_eq in En. rewrite SA, SB in H. inversion H; subst C; clear H.
  unfold dn. rewrite (get_full_entry A i j WA SA Hi Hj).
  assert (Hi' : (i < m_n B)%nat) by lia. assert (Hj' : (j < m_n B)%nat) by lia.
  rewrite (get_full_entry B i j WB SB Hi' Hj').
  destruct WA as [_ WA]. destruct WB as [_ WB]. rewrite SA in WA. rewrite SB in WB.
  pose proof (full_idx_lt (m_n A) (m_n A) i j Hi Hj) as Hlt.
  unfold get. cbn [m_n m_m m_st m_data].
  assert (A1 := Hi). assert (A2 := Hj). apply Nat.ltb_lt in A1. apply Nat.ltb_lt in A2. rewrite A1, A2. cbn [andb].
  assert (Hlen : length (m_data A) = length (m_data B)) by (rewrite WA, WB, En; reflexivity).
  rewrite nth_error_app1.
  2:{ rewrite zipw_length by exact Hlen. rewrite WA. exact Hlt. }
  rewrite nth_error_zipw by exact Hlen.
  rewrite (nth_error_nth' (m_data A) 0) by lia. rewrite (nth_error_nth' (m_data B) 0) by lia.
  rewrite En. destruct sub_; reflexivity.
Qed.

(* reading a well-formed banded matrix *)
Lemma get_banded_entry (A : rmatrix) ml mu i j :
  wf A -> m_st A = SBanded ml mu -> (i < m_n A)%nat -> (j < m_n A)%nat ->
  get Rops A i j = Some (if in_band ml mu i j then nth (band_idx (m_n A) mu i j) (m_data A) 0 else 0).
Proof.
  intros [Hm Hw] Hs Hi Hj. rewrite Hs in Hw. unfold get. rewrite Hm, Hs.
  assert (A1 := Hi). assert (A2 := Hj). apply Nat.ltb_lt in A1. apply Nat.ltb_lt in A2. rewrite A1, A2. cbn [andb].
  destruct (in_band ml mu i j) eqn:E; [|reflexivity].
  apply nth_error_nth'. rewrite Hw. now apply band_idx_lt.
Qed.

Lemma in_band_max ml mu ml2 mu2 i j :
  in_band ml mu i j = true -> in_band (Nat.max ml ml2) (Nat.max mu mu2) i j = true.
Proof.
  unfold in_band. intros H. apply andb_true_iff in H. destruct H as [A B].
  apply Nat.leb_le in A. apply Nat.leb_le in B. apply andb_true_iff. split; apply Nat.leb_le; lia.
Qed.

Lemma band_cell n muo i j : (j < n)%nat -> (j <= i + muo)%nat ->
  (band_idx n muo i j / n = i + muo - j)%nat /\ (band_idx n muo i j mod n = j)%nat.
Proof.
  intros Hj Hb. unfold band_idx. assert (Hn : n <> 0%nat) by lia. split.
  - rewrite Nat.div_add_l by exact Hn. rewrite Nat.div_small by exact Hj. lia.
  - rewrite Nat.add_comm, Nat.mod_add by exact Hn. now apply Nat.mod_small.
Qed.

(* Banded (+|-) Banded keeps a band of the maximal widths and is the entrywise sum / difference *)
Theorem addsub_banded_banded sub_ (A B C : rmatrix) ml mu ml2 mu2 i j :
  wf A -> wf B -> m_st A = SBanded ml mu -> m_st B = SBanded ml2 mu2 -> addsub Rops sub_ A B = Some C ->
  (i < m_n A)%nat -> (j < m_n A)%nat ->
  m_st C = SBanded (Nat.max ml ml2) (Nat.max mu mu2) /\
  get Rops C i j = Some (rop sub_ (dn A i j) (dn B i j)).
Proof.
  intros WA WB SA SB H Hi Hj. unfold addsub in H. destruct (negb (m_n A =? m_n B)%nat) eqn:En; [discriminate|].
  apply negb_false_iff, Nat.eqb_eq in En. rewrite SA, SB in H. inversion H; subst C; clear H.
  split; [reflexivity|].
  assert (Hi' : (i < m_n B)%nat) by lia. assert (Hj' : (j < m_n B)%nat) by lia.
  unfold dn. rewrite (get_banded_entry A ml mu i j WA SA Hi Hj), (get_banded_entry B ml2 mu2 i j WB SB Hi' Hj').
  set (mlo := Nat.max ml ml2). set (muo := Nat.max mu mu2). set (n := m_n A) in *.
  unfold get. cbn [m_n m_m m_st m_data].
  assert (A1 := Hi). assert (A2 := Hj). apply Nat.ltb_lt in A1. apply Nat.ltb_lt in A2. rewrite A1, A2. cbn [andb].
  destruct (in_band mlo muo i j) eqn:Eo.
  - (* inside the output band *)
    assert (Hb : (j <= i + muo)%nat).
    { unfold in_band in Eo. apply andb_true_iff in Eo. destruct Eo as [X _]. now apply Nat.leb_le in X. }
    assert (Hlt : (band_idx n muo i j < (mlo + muo + 1) * n)%nat) by now apply band_idx_lt.
    rewrite nth_error_tabulate by exact Hlt.
    destruct (band_cell n muo i j Hj Hb) as [Hd Hm]. rewrite Hd, Hm.
    replace (j + (i + muo - j) - muo)%nat with i by lia.
    replace ((muo <=? j + (i + muo - j))%nat) with true by (symmetry; apply Nat.leb_le; lia).
    replace ((i <? n)%nat) with true by (symmetry; exact A1). cbn [andb].
    rewrite <- En. unfold nthd. cbn [zero add sub Rops].
    destruct (in_band ml mu i j), (in_band ml2 mu2 i j), sub_; cbn [rop]; f_equal; lra.
  - (* outside the output band: both operands are off-band there *)
    assert (E1 : in_band ml mu i j = false).
    { destruct (in_band ml mu i j) eqn:E; [|reflexivity]. apply (in_band_max ml mu ml2 mu2) in E. fold mlo muo in E. congruence. }
    assert (E2 : in_band ml2 mu2 i j = false).
    { destruct (in_band ml2 mu2 i j) eqn:E; [|reflexivity]. apply (in_band_max ml2 mu2 ml mu) in E.
      rewrite (Nat.max_comm ml2 ml), (Nat.max_comm mu2 mu) in E. fold mlo muo in E. congruence. }
    rewrite E1, E2. cbn [zero Rops]. destruct sub_; cbn [rop]; f_equal; lra.
Qed.

(* scalar multiplication, every storage *)
Theorem cmul_dense (A : rmatrix) c i j :
  wf A -> (i < m_n A)%nat -> (j < m_n A)%nat ->
  dn (cmul Rops A c) i j = dn A i j * c.
Proof.
  intros WA Hi Hj. destruct (m_st A) as [| |ml mu] eqn:Es; unfold cmul; rewrite Es.
  - (* Identity -> diagonal(c) *)
    destruct WA as [Hm Hd]. rewrite Es in Hd. unfold dn.
    assert (E1 : get Rops A i j = Some (if (i =? j)%nat then 1 else 0)).
    { unfold get. rewrite Hm, Es, Hd. assert (A1 := Hi). assert (A2 := Hj). apply Nat.ltb_lt in A1. apply Nat.ltb_lt in A2.
      rewrite A1, A2. cbn. destruct (i =? j)%nat; reflexivity. }
    rewrite E1.
    pose proof (get_diagonal Rops (repeat c (m_n A)) i j) as Hg. rewrite repeat_length in Hg.
    unfold diagonal in Hg. rewrite repeat_length in Hg. rewrite (Hg Hi Hj).
    destruct (i =? j)%nat eqn:E.
    + assert (Hr : nth i (repeat c (m_n A)) (zero Rops) = c).
      { clear -Hi. revert i Hi. induction (m_n A) as [|k IH]; intros [|i] Hi; simpl; try lia; auto. apply IH. lia. }
      rewrite Hr. cbn. lra.
    + cbn. lra.
  - unfold dn. rewrite (get_full_entry A i j WA Es Hi Hj).
    assert (WA' : wf (mkM (m_n A) (m_m A) (map (fun v => mul Rops v c) (m_data A)) SFull)).
    { destruct WA as [Hm Hd]. rewrite Es in Hd. split; cbn; [exact Hm|]. now rewrite map_length. }
    rewrite (get_full_entry _ i j WA' eq_refl Hi Hj). cbn [m_n m_data].
    destruct WA as [Hm Hd]. rewrite Es in Hd.
    pose proof (full_idx_lt (m_n A) (m_n A) i j Hi Hj) as Hlt.
    rewrite (nth_indep _ 0 (mul Rops 0 c)) by (rewrite map_length; lia).
    rewrite (map_nth (fun v => mul Rops v c)). reflexivity.
  - unfold dn. rewrite (get_banded_entry A ml mu i j WA Es Hi Hj).
    assert (WA' : wf (mkM (m_n A) (m_n A) (map (fun v => mul Rops v c) (m_data A)) (SBanded ml mu))).
    { destruct WA as [Hm Hd]. rewrite Es in Hd. split; cbn; [reflexivity|]. now rewrite map_length. }
    rewrite (get_banded_entry _ ml mu i j WA' eq_refl Hi Hj). cbn [m_n m_data].
    destruct (in_band ml mu i j) eqn:E; [|cbn; lra].
    destruct WA as [Hm Hd]. rewrite Es in Hd.
    pose proof (band_idx_lt (m_n A) ml mu i j Hj E) as Hlt.
    rewrite (nth_indep _ 0 (mul Rops 0 c)) by (rewrite map_length; lia).
    rewrite (map_nth (fun v => mul Rops v c)). reflexivity.
Qed.
