(* Facts about the default output handler (model/SolOut.v), for any number type:
   it is passive -- it returns only Continue or Interrupt, Interrupt exactly when the event pass
   reports a terminal event, and never when no event is configured as terminal (C12, C10). *)
Require Import List ZArith Bool Lia.
Require Import IVP.model.Lit IVP.model.Ops IVP.model.Vec IVP.model.Common IVP.model.SolOut.
Import ListNotations.

Section Handler.
  Context {F : Type} (O : Ops F).

  Definition no_terminal (C : hconfig (F:=F)) : Prop :=
    Forall (fun c => ec_terminal c = None) (hc_evcfg C).

  Lemma nth_no_terminal C i : no_terminal C -> ec_terminal (nth i (hc_evcfg C) (mkEC DirAll None)) = None.
  Proof.
    unfold no_terminal. intros Hn. revert i. induction Hn as [|c l Hc _ IH]; intros [|i]; simpl; auto.
  Qed.

  Lemma process_events_no_terminal C fwd xold interp evs s :
    no_terminal C -> snd (process_events O C fwd xold interp evs s) = false.
  Proof.
    intros Hn. revert s. induction evs as [|[[te i] ye] rest IH]; intros s; [reflexivity|].
    cbn [process_events]. rewrite (nth_no_terminal C i Hn). apply IH.
  Qed.

  Theorem solout_flag C s xold x y sg :
    snd (solout O C s xold x y sg) = Continue \/ snd (solout O C s xold x y sg) = Interrupt.
  Proof. unfold solout. destruct (snd (detect_events _ _ _ _ _ _ _)); [now right|now left]. Qed.

  Lemma detect_events_no_terminal C s xold x y sg :
    no_terminal C -> snd (detect_events O C s xold x y sg) = false.
  Proof.
    intros Hn. unfold detect_events. destruct (Nat.ltb 0 _); [|reflexivity].
    cbn [hs_yold]. destruct (hs_yold s); [|reflexivity].
    destruct (fold_left _ _ _) as [[det log] unconv].
    pose proof (process_events_no_terminal C) as Hp.
    match goal with |- context [process_events O C ?a ?b ?c ?d ?e] =>
      specialize (Hp a b c d e Hn); destruct (process_events O C a b c d e) as [s' term] end.
    simpl in Hp. subst term. reflexivity.
  Qed.

  (* C12: with no terminal event configured the handler is a passive observer *)
  Theorem solout_passive C s xold x y sg :
    no_terminal C -> snd (solout O C s xold x y sg) = Continue.
  Proof.
    intros Hn. unfold solout. rewrite (detect_events_no_terminal C _ xold x y sg Hn). reflexivity.
  Qed.

  (* the handler never touches the solver's state vector: handler_cb returns y itself (by definition) *)

  (* C06/C12: dense collection only adds the segment of the step just taken *)
  Lemma collect_dense_segs C s xold x sg :
    hs_segs (collect_dense O C s xold x sg) = hs_segs s \/
    exists g, sg = Some g /\ hs_segs (collect_dense O C s xold x sg) = g :: hs_segs s.
  Proof.
    unfold collect_dense. destruct sg as [[[cont xo] h]|]; [|now left]. cbn [hs_segs].
    destruct (_ && _); [right; eexists; split; reflexivity|now left].
  Qed.
End Handler.
