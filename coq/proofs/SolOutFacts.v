(* Facts about the default output handler (model/SolOut.v), for any number type:
   it is passive -- it returns only Continue or Interrupt, Interrupt exactly when the event pass
   reports a terminal event, and never when no event is configured as terminal (C12, C10). *)
Require Import List ZArith Bool Lia.
Require Import IVP.model.Lit IVP.model.Ops IVP.model.Vec IVP.model.Common IVP.model.SolOut.
Import ListNotations.

Section Handler.
  Context {F : Type} (O : Ops F).

  Definition no_terminal (C : hconfig (F:=F)) : Prop :=
    Forall (fun c => ec_terminal c = None) (hc_evcfg C).

  Lemma nth_no_terminal C i : no_terminal C -> ec_terminal (nth i (hc_evcfg C) (mkEC DirAll None)) = None.
  Proof.
    unfold no_terminal. intros Hn. revert i. induction Hn as [|c l Hc _ IH]; intros [|i]; simpl; auto.
  Qed.

  Lemma process_events_no_terminal C fwd xold interp evs s :
    no_terminal C -> snd (process_events O C fwd xold interp evs s) = false.
  Proof.
    intros Hn. revert s. induction evs as [|[[te i] ye] rest IH]; intros s; [reflexivity|].
    cbn [process_events]. rewrite (nth_no_terminal C i Hn). apply IH.
  Qed.

  Theorem solout_flag C s xold x y sg :
    snd (solout O C s xold x y sg) = Continue \/ snd (solout O C s xold x y sg) = Interrupt.
  Proof. unfold solout. destruct (snd (detect_events _ _ _ _ _ _ _)); [now right|now left]. Qed.

  Lemma detect_events_no_terminal C s xold x y sg :
    no_terminal C -> snd (detect_events O C s xold x y sg) = false.
  Proof.
    intros Hn. unfold detect_events. destruct (Nat.ltb 0 _); [|reflexivity].
    cbn [hs_yold]. destruct (hs_yold s); [|reflexivity].
    destruct (fold_left _ _ _) as [[det log] unconv].
    pose proof (process_events_no_terminal C) as Hp.
    match goal with |- context [process_events O C ?a ?b ?c ?d ?e] =>
      specialize (Hp a b c d e Hn); destruct (process_events O C a b c d e) as [s' term] end.
    simpl in Hp. subst term. reflexivity.
  Qed.

  (* C12: with no terminal event configured the handler is a passive observer *)
  Theorem solout_passive C s xold x y sg :
    no_terminal C -> snd (solout O C s xold x y sg) = Continue.
  Proof.
    intros Hn. unfold solout. rewrite (detect_events_no_terminal C _ xold x y sg Hn). reflexivity.
  Qed.

  (* the handler never touches the solver's state vector: handler_cb returns y itself (by definition) *)

  (* C06/C12: dense collection only adds the segment of the step just taken *)
  Lemma collect_dense_segs C s xold x sg :
    hs_segs (collect_dense O C s xold x sg) = hs_segs s \/
    exists g, sg = Some g /\ hs_segs (collect_dense O C s xold x sg) = g :: hs_segs s.
  Proof.
    unfold collect_dense. destruct sg as [[[cont xo] h]|]; [|now left]. cbn [hs_segs].
    destruct (_ && _); [right; eexists; split; reflexivity|now left].
  Qed.
End Handler.

Require Import Sorted Permutation.

Section Events.
  Context {F : Type} (O : Ops F).

  (* ---------------- C10: what a terminal event leaves behind ---------------- *)
  (* if the event pass reports a terminal event, the newest sample is that event's (time, state),
     and it is one of the events detected in this step *)
  Lemma process_events_terminal C fwd xold interp evs : forall s s',
    process_events O C fwd xold interp evs s = (s', true) ->
    exists te i ye, In (te, i, ye) evs /\
                    (exists tt, hs_t s' = te :: tt) /\ (exists yy, hs_y s' = ye :: yy).
  Proof.
    induction evs as [|[[te i] ye] rest IH]; intros s s' H; [discriminate|].
    cbn [process_events] in H.
    destruct (match ec_terminal (nth i (hc_evcfg C) (mkEC DirAll None)) with
              | Some limit => _ | None => false end) eqn:E.
    - exists te, i, ye. split; [now left|].
      destruct (hc_t_eval C) as [tev|].
      + destruct (scan_terminal _ _ _ _ _ _ _ _ _ _) as [[nx t1] y1]. inversion H; subst. cbn. split; eexists; reflexivity.
      + inversion H; subst. cbn. split; eexists; reflexivity.
    - apply IH in H. destruct H as [te' [i' [ye' [Hin Hrest]]]]. exists te', i', ye'. split; [now right|exact Hrest].
  Qed.

  (* ---------------- C08: consistency of a reported event ---------------- *)
  Theorem locate_event_consistent C i xold x yold y gp gc sg :
    let '(te, ye, pts, conv) := locate_event O C i xold x yold y gp gc sg in
    (te = xold /\ ye = yold) \/ (te = x /\ ye = y) \/ ye = interp_of O C (length y) sg te.
  Proof.
    unfold locate_event.
    destruct (leb O (abs O gp) _); [now left|].
    destruct (leb O (abs O gc) _); [right; now left|].
    destruct (brent_loop _ _ _ _ _) as [[b pts] conv]. right. right.
    unfold interp_of. destruct sg as [[[cont xo] h]|]; reflexivity.
  Qed.

  (* ---------------- C08: events of one step are processed in the order of integration ---------------- *)
  Variable before : F -> F -> bool.
  Definition ev_le (a b : F * nat * list F) : Prop :=
    before (fst (fst a)) (fst (fst b)) = true \/ before (fst (fst b)) (fst (fst a)) = false.

  Lemma insert_ev_hd a e l :
    HdRel ev_le a l -> ev_le a e -> HdRel ev_le a (insert_ev before e l).
  Proof.
    intros Hl He. destruct l as [|e' r]; simpl; [constructor; exact He|].
    destruct (_ || _); constructor; [inversion Hl; assumption|exact He].
  Qed.

  Lemma insert_ev_sorted e l : Sorted ev_le l -> Sorted ev_le (insert_ev before e l).
  Proof.
    induction l as [|e' r IH]; intros Hs; simpl; [repeat constructor|].
    inversion Hs as [|? ? Hr Hh]; subst.
    destruct (before (fst (fst e')) (fst (fst e)) || negb (before (fst (fst e)) (fst (fst e')))) eqn:E.
    - constructor; [apply IH; exact Hr|]. apply insert_ev_hd; [exact Hh|].
      unfold ev_le. apply orb_true_iff in E. destruct E as [E|E]; [now left|right].
      now apply negb_true_iff in E.
    - constructor; [exact Hs|]. constructor. unfold ev_le.
      apply orb_false_iff in E. destruct E as [E1 E2]. apply negb_false_iff in E2. now left.
  Qed.

  Lemma insert_ev_perm e l : Permutation (e :: l) (insert_ev before e l).
  Proof.
    induction l as [|e' r IH]; simpl; [reflexivity|].
    destruct (_ || _); [|reflexivity].
    eapply perm_trans; [apply perm_swap|]. now constructor.
  Qed.

  Theorem sort_ev_sorted l : Sorted ev_le (sort_ev before l) /\ Permutation l (sort_ev before l).
  Proof.
    unfold sort_ev.
    assert (H : forall acc, Sorted ev_le acc ->
                Sorted ev_le (fold_left (fun a e => insert_ev before e a) l acc) /\
                Permutation (l ++ acc) (fold_left (fun a e => insert_ev before e a) l acc)).
    { induction l as [|e r IH]; intros acc Ha; simpl; [split; [exact Ha|reflexivity]|].
      destruct (IH (insert_ev before e acc) (insert_ev_sorted e acc Ha)) as [H1 H2]. split; [exact H1|].
      eapply perm_trans; [|exact H2]. eapply perm_trans; [apply Permutation_middle|].
      apply Permutation_app_head. apply insert_ev_perm. }
    destruct (H (@nil (F * nat * list F)) (Sorted_nil _)) as [H1 H2]. split; [exact H1|]. now rewrite app_nil_r in H2.
  Qed.
End Events.

(* ---------------- C05: the t_eval scan of one accepted step ---------------- *)
Section Scan.
  Context {F : Type} (O : Ops F).

  (* the scan consumes a prefix of the remaining requested times: exactly those not beyond the step end
     (within tol); of these it reports, in order and with the interpolant's value, the ones not before the
     step start (within tol); it never reorders, invents or drops a requested time inside the step *)
  Theorem scan_step_spec (fwd : bool) (tol xold x : F) (interp : F -> list F) : forall (te : list F) (i : nat) (t : list F) (ys : list (list F)),
    let inside (v : F) := if fwd then leb O v (add O x tol) else leb O (sub O x tol) v in
    let take (v : F) := if fwd then leb O (sub O xold tol) v else leb O v (add O xold tol) in
    exists k, k <= length te /\
      Forall (fun v => inside v = true) (firstn k te) /\
      (match nth_error te k with Some v => inside v = false | None => True end) /\
      scan_step O fwd tol xold x interp te i t ys =
        (i + k, rev (filter take (firstn k te)) ++ t, rev (map interp (filter take (firstn k te))) ++ ys).
  Proof.
    induction te as [|v r IH]; intros i t ys inside take.
    - exists 0. simpl. repeat split; auto. now rewrite Nat.add_0_r.
    - cbn [scan_step]. fold (inside v). fold (take v).
      destruct (inside v) eqn:Ei.
      + destruct (take v) eqn:Et.
        * destruct (IH (S i) (v :: t) (interp v :: ys)) as [k [Hk [Hf [Hn He]]]].
          exists (S k). cbn [firstn nth_error filter length]. fold (take v). rewrite Et.
          repeat split; [lia|constructor; assumption|exact Hn|].
          fold inside in He. fold take in He. rewrite He. cbn [map rev]. rewrite <- !app_assoc. cbn [app].
          replace (i + S k) with (S i + k) by lia. reflexivity.
        * destruct (IH (S i) t ys) as [k [Hk [Hf [Hn He]]]].
          exists (S k). cbn [firstn nth_error filter length]. fold (take v). rewrite Et.
          repeat split; [lia|constructor; assumption|exact Hn|].
          fold inside in He. fold take in He. rewrite He.
          replace (i + S k) with (S i + k) by lia. reflexivity.
      + exists 0. cbn [firstn nth_error filter map rev app]. repeat split; auto; [lia|]. now rewrite Nat.add_0_r.
  Qed.
End Scan.
