(* C01, the acceptance mechanism, for the RK23 and DOP853 skeletons (DOPRI5: props/C01.v): an iteration moves the
   abscissa only through an attempt whose error norm passed the test `err <= 1`.  Any number type / kernel / callback. *)
Require Import List ZArith Bool Lia.
Require Import IVP.model.Lit IVP.model.Ops IVP.model.Vec IVP.model.Common IVP.model.RK.
Require IVP.model.Rk23 IVP.model.Dop853.
Import ListNotations.

Section Rk23Accept.
  Import IVP.model.Rk23.
  Context {F : Type} (O : Ops F) {H : Type}.
  Variable P : params (F:=F).
  Variable f : F -> list F -> list F.
  Variables (xend posneg hmax : F).
  Variable cb : H -> F -> F -> list F -> option (list F * F * F) -> H * flag F * list F.
  Variable kern : F -> list F -> list F -> F -> attempt (F:=F).

  Definition rk23_ok (s : state (F:=F) H) (o : state (F:=F) H + result (F:=F) H) : Prop :=
    match o with
    | inl s' => (s_x s' = s_x s /\ s_y s' = s_y s) \/
                exists h, leb O (at_err (kern (s_x s) (s_y s) (s_k1 s) h)) (one O) = true
    | inr _ => True
    end.

  Ltac nxt := cbv beta iota; cbn [rk23_ok s_x s_y].
  Ltac hd s :=
    match goal with
    | |- rk23_ok s (if leb O ?e (one O) then _ else _) => destruct (leb O e (one O)) eqn:?
    | |- rk23_ok s (if ?c then _ else _) => destruct c
    | |- rk23_ok s (match (if ?c then _ else _) with _ => _ end) => destruct c
    | |- rk23_ok s (match (match ?c with _ => _ end) with _ => _ end) => destruct c
    | |- rk23_ok s (match ?c with _ => _ end) => destruct c
    end; nxt.

  Theorem rk23_advance_implies_accepted s :
    rk23_ok s (step O P f xend posneg hmax cb kern s).
  Proof.
    unfold step. cbv zeta. nxt. repeat (hd s).
    all: first [ exact I | left; split; reflexivity | right; eexists; eassumption ].
  Qed.
End Rk23Accept.

Section Dop853Accept.
  Import IVP.model.Dop853.
  Context {F : Type} (O : Ops F) {H : Type}.
  Variable P : params (F:=F).
  Variable f : F -> list F -> list F.
  Variables (xend posneg hmax : F).
  Variable cb : H -> F -> F -> list F -> option (list F * F * F) -> H * flag F * list F.
  Variable kern : F -> list F -> list F -> F -> attempt (F:=F).

  Definition dop853_ok (s : state (F:=F) H) (o : state (F:=F) H + result (F:=F) H) : Prop :=
    match o with
    | inl s' => (s_x s' = s_x s /\ s_y s' = s_y s) \/
                exists h, leb O (at_err (kern (s_x s) (s_y s) (s_k1 s) h)) (one O) = true
    | inr _ => True
    end.

  Ltac nxt := cbv beta iota; cbn [dop853_ok s_x s_y].
  Ltac hd s :=
    match goal with
    | |- dop853_ok s (if leb O ?e (one O) then _ else _) => destruct (leb O e (one O)) eqn:?
    | |- dop853_ok s (if ?c then _ else _) => destruct c
    | |- dop853_ok s (match (if ?c then _ else _) with _ => _ end) => destruct c
    | |- dop853_ok s (match (match ?c with _ => _ end) with _ => _ end) => destruct c
    | |- dop853_ok s (match ?c with _ => _ end) => destruct c
    end; nxt.

  Theorem dop853_advance_implies_accepted s :
    dop853_ok s (step O P f xend posneg hmax cb kern s).
  Proof.
    unfold step. cbv zeta. nxt. repeat (hd s).
    all: first [ exact I | left; split; reflexivity | right; eexists; eassumption ].
  Qed.
End Dop853Accept.
