(* C18 for the BDF model: nfev = number of logged right-hand-side evaluations (those made while differencing a
   Jacobian are made inside `jacf` and are not logged), njev = number of logged Jacobian evaluations;
   for ANY right-hand side, Jacobian function, mass matrix, callback and number type. *)
Require Import List ZArith Bool Lia.
Require Import IVP.model.Lit IVP.model.Ops IVP.model.Vec IVP.model.Common IVP.model.LU IVP.model.Bdf.
Import ListNotations.

Section Counters.
  Context {F : Type} (O : Ops F) {H : Type}.
  Variable P : params (F:=F).
  Variable n : nat.
  Variable f : F -> list F -> list F.
  Variable jacf : F -> list F -> nat -> nat -> F.
  Variables (atolv rtolv : list F) (newton_tol : F) (maxiter : nat) (xend direction hmax hmin : F).
  Variable cb : H -> F -> F -> list F -> option (list F * F * F) -> H * flag F * list F.

  Definition counted (st : stats) (log jl : list (F * list F)) : Prop :=
    nfev st = N.of_nat (length log) /\ njev st = N.of_nat (length jl).

  Lemma counted_fev st log jl c : counted st log jl -> counted (add_fev st 1) (c :: log) jl.
  Proof. unfold counted. intros [A B]. cbn [nfev njev add_fev length]. split; [lia|exact B]. Qed.
  Lemma counted_fevs st log jl cs :
    counted st log jl -> counted (add_fev st (N.of_nat (length cs))) (cs ++ log) jl.
  Proof. unfold counted. intros [A B]. cbn [nfev njev add_fev]. rewrite app_length. split; [lia|exact B]. Qed.
  Lemma counted_jev st log jl c : counted st log jl -> counted (add_jev st 1) log (c :: jl).
  Proof. unfold counted. intros [A B]. cbn [nfev njev add_jev length]. split; [exact A|lia]. Qed.
  Lemma counted_lu st log jl k : counted st log jl -> counted (add_lu st k) log jl.
  Proof. exact (fun x => x). Qed.
  Lemma counted_step st log jl : counted st log jl -> counted (add_step st) log jl.
  Proof. exact (fun x => x). Qed.
  Lemma counted_acc st log jl : counted st log jl -> counted (add_acc st) log jl.
  Proof. exact (fun x => x). Qed.
  Lemma counted_rej st log jl : counted st log jl -> counted (add_rej st) log jl.
  Proof. exact (fun x => x). Qed.

  Notation step := (step O P n f jacf atolv rtolv newton_tol maxiter xend direction hmax hmin cb).

  Definition out_counted (o : state (F:=F) H + result (F:=F) H) : Prop :=
    match o with
    | inl s' => counted (s_stats H s') (s_log H s') (s_jaclog H s')
    | inr r => counted (r_stats r) (r_log r) (r_jaclog r)
    end.

  Hint Resolve counted_fev counted_fevs counted_jev counted_lu counted_step counted_acc counted_rej : cnt.

  Ltac fin := cbn [s_stats s_log s_jaclog r_stats r_log r_jaclog out_counted]; auto 30 with cnt.

  Ltac nxt := cbv beta iota; cbn [out_counted s_stats s_log s_jaclog r_stats r_log r_jaclog].

  Lemma step_counted s :
    counted (s_stats H s) (s_log H s) (s_jaclog H s) -> out_counted (step s).
  Proof.
    intros Hc. unfold Bdf.step, retry, hres. cbv zeta.
    destruct (N.leb _ _); [fin|].
    destruct (ltb O (s_h H s) _); [fin|].
    match goal with |- out_counted (if ?c then _ else _) => destruct c; [fin|] end.   (* min_step bound already failed *)
    (* the three clamps only produce numbers *)
    destruct (if ltb O hmax (s_h H s) then _ else _) as [[[d1 h1] neq1] lucur1]. nxt.
    destruct (if ltb O h1 hmin && _ then _ else _) as [[[d2 h2] neq2] lucur2]. nxt.
    (* `over` (beyond xend, or beside it): both later uses are decided by one case split *)
    match goal with |- out_counted (if ?c && _ then _ else _) => destruct c; cbn [andb] end.
    1: destruct (eqb O _ (zero O)); [fin|].
    all: nxt.
    all: destruct (eqb O _ (s_x H s)); [fin|].
    (* factorisation *)
    all: match goal with |- out_counted (match (if ?c then _ else _) with _ => _ end) => destruct c end; nxt.
    all: try (destruct (lu_decomp _ _ _ _ _ _); nxt; try fin).
    all: match goal with |- context [nr_calls ?t] => set (nrr := t) in *; clearbody nrr end.
    all: destruct (negb (nr_conv nrr)); [fin|].
    all: destruct (ltb O (one O) _); [fin|].
    all: destruct (cb _ _ _ _ _) as [[cbs fl] ycb]; destruct fl; nxt; try fin.
    all: destruct (leb O (zero O) _); [fin|].
    all: repeat (match goal with
                 | |- out_counted (if ?c then _ else _) => destruct c
                 | |- out_counted (match (if ?c then _ else _) with _ => _ end) => destruct c
                 end; nxt).
    all: fin.
  Qed.

  Theorem loop_counted fuel s r :
    counted (s_stats H s) (s_log H s) (s_jaclog H s) ->
    loop O P n f jacf atolv rtolv newton_tol maxiter xend direction hmax hmin cb fuel s = Some r ->
    counted (r_stats r) (r_log r) (r_jaclog r).
  Proof.
    revert s. induction fuel as [|k IH]; intros s Hc Hl; [discriminate|].
    cbn [loop] in Hl. pose proof (step_counted s Hc) as Hs.
    destruct (step s) as [s'|r'].
    - eapply IH; eauto.
    - now inversion Hl; subst.
  Qed.
End Counters.

(* the whole solver: nfev and njev of the result count the logged evaluations (the call made by the initial step
   size heuristic included: finding F3) *)
Theorem solve_counted {F : Type} (O : Ops F) {H : Type} (P : params) f jacf x0 y0 xend rtol atol
        (cb : H -> F -> F -> list F -> option (list F * F * F) -> H * flag F * list F) cb0 fuel r :
  solve O P f jacf x0 y0 xend rtol atol cb cb0 fuel = Some r ->
  nfev (r_stats r) = N.of_nat (length (r_log r)) /\ njev (r_stats r) = N.of_nat (length (r_jaclog r)).
Proof.
  unfold solve. cbv zeta.
  destruct (Nat.eqb _ 0); [intros E; inversion E; subst; split; reflexivity|].
  repeat match goal with |- (if ?c then None else _) = Some _ -> _ => destruct c; [discriminate|] end.
  destruct (p_first_step P) as [h0|].
  - destruct (eqb O h0 (zero O)); [discriminate|].
    destruct (cb cb0 x0 x0 y0 None) as [[cbs fl] y].
    destruct fl; intros E; try (inversion E; subst; split; reflexivity);
      (eapply loop_counted; [|exact E]); cbn [s_stats s_log s_jaclog]; split; reflexivity.
  - destruct (hinit _ _ _ _ _ _ _ _ _ _) as [guess call].
    destruct (cb cb0 x0 x0 y0 None) as [[cbs fl] y].
    destruct fl; intros E; try (inversion E; subst; split; reflexivity);
      (eapply loop_counted; [|exact E]); cbn [s_stats s_log s_jaclog]; split; reflexivity.
Qed.
