(* C19 for the Radau model: any number type, right-hand side, Jacobian function, mass matrix and callback. *)
Require Import List ZArith Bool Lia.
Require Import IVP.model.Lit IVP.model.Ops IVP.model.Vec IVP.model.Common IVP.model.LU IVP.model.LUc IVP.model.Radau.
Require Import IVP.proofs.ProtocolGen.
Import ListNotations.

Section Protocol.
  Context {F : Type} (O : Ops F) {H : Type}.
  Variable P : params (F:=F).
  Variable n : nat.
  Variable f : F -> list F -> list F.
  Variable jacf : F -> list F -> nat -> nat -> F.
  Variable mass : nat -> nat -> F.
  Variables (atolv rtolv : list F) (newton_tol xend posneg hmax hmin : F).
  Variable cb : H -> F -> F -> list F -> option (list F * F * F) -> H * flag F * list F.
  Variable c0 : call (F:=F).
  Notation stepR := (step O P n f jacf mass atolv rtolv newton_tol xend posneg hmax hmin (rec_cb cb)).

  Definition out_ok (o : state (F:=F) (H * list call) + result (F:=F) (H * list call)) : Prop :=
    match o with
    | inl s' => st_ok c0 (s_x _ s') (snd (s_cb _ s'))
    | inr r => res_ok c0 (r_status r) (r_x r) (snd (r_cb r))
    end.

  Ltac nxt := cbv beta iota; cbn [out_ok s_x s_cb r_status r_x r_cb snd fst].
  Ltac hd :=
    match goal with
    | |- out_ok (if ?c then _ else _) => destruct c
    | |- out_ok (match (if ?c then _ else _) with _ => _ end) => destruct c
    | |- out_ok (match (match ?c with _ => _ end) with _ => _ end) => destruct c
    | |- out_ok (match ?c with _ => _ end) => destruct c
    end; nxt.

  Lemma step_trace s : st_ok c0 (s_x _ s) (snd (s_cb _ s)) -> out_ok (stepR s).
  Proof.
    intros Hs. unfold Radau.step, halve, build_e2, rec_cb. cbv zeta. nxt.
    repeat hd. all: protocol_leaf.
  Qed.

  Theorem loop_trace fuel s r :
    st_ok c0 (s_x _ s) (snd (s_cb _ s)) ->
    loop O P n f jacf mass atolv rtolv newton_tol xend posneg hmax hmin (rec_cb cb) fuel s = Some r ->
    res_ok c0 (r_status r) (r_x r) (snd (r_cb r)).
  Proof.
    revert s. induction fuel as [|k IH]; intros s Hs Hl; [discriminate|].
    cbn [loop] in Hl. pose proof (step_trace s Hs) as Ht.
    destruct (stepR s) as [s'|r'].
    - eapply IH; eauto.
    - inversion Hl; subst. exact Ht.
  Qed.
End Protocol.

(* the whole low-level solver, started with an empty record *)
Theorem solve_trace {F : Type} (O : Ops F) {H : Type} (P : params) f jacf mass x0 y0 xend rtol atol
        (cb : H -> F -> F -> list F -> option (list F * F * F) -> H * flag F * list F) (h0 : H) fuel r :
  solve O P f jacf mass x0 y0 xend rtol atol (rec_cb cb) (h0, []) fuel = Some r ->
  exists fl0, res_ok (mkCall x0 x0 y0 None fl0) (r_status r) (r_x r) (snd (r_cb r)).
Proof.
  unfold solve. cbv zeta.
  repeat match goal with |- (if ?c then None else _) = Some _ -> _ => destruct c; [discriminate|] end.
  unfold rec_cb at 1. cbn [fst snd].
  destruct (cb h0 x0 x0 y0 None) as [[h' fl] y']. intros E. exists fl. revert E.
  destruct fl; intros E.
  2:{ inversion E; subst; cbn [r_status r_x r_cb snd]. apply first_res. split; reflexivity. }
  all: eapply (loop_trace O P _ f jacf mass _ _ _ xend _ _ _ cb _ fuel); [|exact E]; cbn [s_x s_cb snd]; apply first_st; discriminate.
Qed.
