(* C03 / C11 for the DOP853 skeleton in real arithmetic, for ANY kernel, right-hand side and callback:
   the accepted abscissae move strictly toward xend and never pass it; Success is reported exactly
   when x = xend; every attempted step respects max_step up to the 1% landing stretch. *)
Require Import Reals Lra List ZArith Bool QArith Qreals.
Require Import IVP.model.Lit IVP.model.Ops IVP.model.Vec IVP.model.Common IVP.model.RK IVP.model.Dop853
               IVP.model.RealOps IVP.gen.Inline.
Import ListNotations.
Local Open Scope R_scope.

Lemma lit_1_01 : lit Rops L1_01 = 101 / 100.
Proof. cbn. unfold Q2R. simpl. lra. Qed.
Lemma lit_0_1 : lit Rops L0_1 = 1 / 10.
Proof. cbn. unfold Q2R. simpl. lra. Qed.

Section Real.
  Context {H : Type}.
  Variable P : params (F:=R).
  Variable f : R -> list R -> list R.
  Variables (xend posneg hmax : R).
  Variable cb : H -> R -> R -> list R -> option (list R * R * R) -> H * flag R * list R.
  Variable kern : R -> list R -> list R -> R -> attempt (F:=R).

  Hypothesis Hposneg : posneg = 1 \/ posneg = -1.
  Hypothesis Hsmin : 0 < p_scale_min P.
  Hypothesis Hsmax : 0 < p_scale_max P.
  Hypothesis Hsafe : 0 < p_safety P.
  Hypothesis Hhmax : hmax <> 0.

  Notation step := (step Rops P f xend posneg hmax cb kern).

  (* x strictly before xend, h points toward xend, no stale `last` flag *)
  Definition Inv (s : state H) : Prop :=
    0 < (xend - s_x s) * posneg /\ 0 < s_h s * posneg /\ s_last s = false.

  Lemma posneg_sq : posneg * posneg = 1.
  Proof. destruct Hposneg as [-> | ->]; lra. Qed.

  Lemma sign_div a c : 0 < a * posneg -> 0 < c -> 0 < (a / c) * posneg.
  Proof.
    intros Ha Hc. unfold Rdiv. replace (a * / c * posneg) with ((a * posneg) * / c) by ring.
    apply Rmult_lt_0_compat; [exact Ha|]. apply Rinv_0_lt_compat. exact Hc.
  Qed.

  Lemma facc1_pos : 0 < facc1 Rops P.
  Proof. unfold facc1. cbn. apply Rdiv_lt_0_compat; lra. Qed.
  Lemma facc2_pos : 0 < facc2 Rops P.
  Proof. unfold facc2. cbn. apply Rdiv_lt_0_compat; lra. Qed.

  Lemma hnew_of_sign h err facold : 0 < h * posneg -> 0 < hnew_of Rops P h err facold * posneg.
  Proof.
    intros Hh. unfold hnew_of. cbn. apply sign_div; [exact Hh|].
    pose proof facc2_pos. eapply Rlt_le_trans; [eassumption|]. apply Rmax_l.
  Qed.

  Lemma hnew_reject_sign h err : 0 < h * posneg -> 0 < hnew_reject Rops P h err * posneg.
  Proof.
    intros Hh. unfold hnew_reject. cbn. apply sign_div; [exact Hh|].
    apply Rmin_glb_lt; [apply facc1_pos|].
    apply Rdiv_lt_0_compat; [|exact Hsafe]. unfold Rpower. apply exp_pos.
  Qed.

  Lemma posneg_abs_sign a : a <> 0 -> 0 < (posneg * Rabs a) * posneg.
  Proof.
    intros Ha. replace (posneg * Rabs a * posneg) with (Rabs a * (posneg * posneg)) by ring.
    rewrite posneg_sq. pose proof (Rabs_pos_lt a Ha). lra.
  Qed.

  Lemma hnew_clamp_sign hn h rej :
    0 < hn * posneg -> 0 < h * posneg -> 0 < hnew_clamp Rops posneg hmax hn h rej * posneg.
  Proof.
    intros Hn Hh. unfold hnew_clamp. cbn.
    set (hn' := if Rltb (Rabs hmax) (Rabs hn) then posneg * Rabs hmax else hn).
    assert (Hn' : 0 < hn' * posneg).
    { subst hn'. destruct (Rltb _ _); [apply posneg_abs_sign; exact Hhmax|exact Hn]. }
    destruct rej; [|exact Hn'].
    replace (posneg * Rmin (Rabs hn') (Rabs h) * posneg) with (Rmin (Rabs hn') (Rabs h) * (posneg * posneg)) by ring.
    rewrite posneg_sq, Rmult_1_r. clearbody hn'.
    apply Rmin_glb_lt; apply Rabs_pos_lt; intro E; [rewrite E in Hn' | rewrite E in Hh]; lra.
  Qed.

  (* the landing rule: the step taken never passes xend, and lands on it exactly when `last` *)
  Lemma landing_spec x h :
    0 < (xend - x) * posneg -> 0 < h * posneg ->
    let '(h', last) := landing Rops xend posneg x h false in
    0 < h' * posneg /\
    (if last then x + h' = xend else 0 < (xend - (x + h')) * posneg).
  Proof.
    intros Hx Hh. unfold landing. rewrite lit_1_01. cbn [ltb mul sub add zero Rops].
    destruct (Rltb 0 _) eqn:E.
    - split; [exact Hx|lra].
    - apply Rltb_false in E. split; [exact Hh|].
      destruct Hposneg as [Ep|Ep]; rewrite Ep in *; lra.
  Qed.

  Theorem step_discipline s :
    Inv s ->
    match step s with
    | inl s' => Inv s' /\ 0 <= (s_x s' - s_x s) * posneg /\
                (s_x s' <> s_x s -> 0 < (s_x s' - s_x s) * posneg)
    | inr r => 0 <= (xend - r_x r) * posneg /\ 0 <= (r_x r - s_x s) * posneg /\
               (r_status r = Success -> r_x r = xend) /\
               (r_x r = xend -> r_status r = Success \/ r_status r = UserInterrupt)
    end.
  Proof.
    intros [Hx [Hh Hl]]. unfold Dop853.step.
    assert (Hne : s_x s <> xend) by (intro E; rewrite E in Hx; lra).
    assert (Hexit0 : forall st, st <> Success ->
               0 <= (xend - s_x s) * posneg /\ 0 <= (s_x s - s_x s) * posneg /\
               (st = Success -> s_x s = xend) /\ (s_x s = xend -> st = Success \/ st = UserInterrupt)).
    { intros st Hst. repeat split; try lra; intros; contradiction. }
    destruct (N.ltb _ _); [cbn [r_x r_status]; apply Hexit0; discriminate|].
    destruct (leb Rops _ _); [cbn [r_x r_status]; apply Hexit0; discriminate|].
    rewrite Hl. pose proof (landing_spec (s_x s) (s_h s) Hx Hh) as Hland.
    destruct (landing _ _ _ _ _ _) as [h last]. destruct Hland as [Hh' Hlast].
    set (a := kern (s_x s) (s_y s) (s_k1 s) h).
    set (xph := add Rops (s_x s) h).
    assert (Hxph : xph = s_x s + h) by reflexivity.
    assert (Hstep : 0 < (xph - s_x s) * posneg) by (rewrite Hxph; replace (s_x s + h - s_x s) with h by ring; exact Hh').
    assert (Hend : 0 <= (xend - xph) * posneg).
    { rewrite Hxph. destruct last; [rewrite Hlast; lra|lra]. }
    assert (Hcont : forall hn k1 fo ns hl ia st lg cbs y,
               last = false ->
               0 < hn * posneg ->
               Inv (mkS xph y k1 hn fo last false ns hl ia st lg cbs) /\
               0 <= (xph - s_x s) * posneg /\ (xph <> s_x s -> 0 < (xph - s_x s) * posneg)).
    { intros. subst last. split; [|split; [lra|intros _; exact Hstep]].
      split; [cbn [s_x]; rewrite Hxph in *; lra|]. split; [exact H1|reflexivity]. }
    destruct (leb Rops (at_err a) (one Rops)).
    - destruct (stiff_test _ _ _ _ _ _ _) as [[[hlamb nonstiff] iasti] sexit].
      destruct sexit; [cbn [r_x r_status]; apply Hexit0; discriminate|].
      destruct (dense_stage _ _ _ _ _ _ _ _ _ _) as [[cont st2] lg2].
      destruct (cb _ _ _ _ _) as [[cbs fl] ycb].
      assert (Hsucc : last = true ->
                 0 <= (xend - xph) * posneg /\ 0 <= (xph - s_x s) * posneg /\
                 (Success = Success -> xph = xend) /\ (xph = xend -> Success = Success \/ Success = UserInterrupt)).
      { intros E. rewrite E in Hlast. repeat split; try lra. now left. }
      assert (Hhn : 0 < hnew_clamp Rops posneg hmax (hnew_of Rops P h (at_err a) (s_facold s)) h (s_reject s) * posneg).
      { apply hnew_clamp_sign; [apply hnew_of_sign; exact Hh'|exact Hh']. }
      destruct fl.
      + destruct (after_flag _ _ _ _ _ _ _) as [[k1 st'] lg'].
        destruct last; [cbn [r_x r_status]; apply Hsucc; reflexivity|].
        apply Hcont; [reflexivity|exact Hhn].
      + cbn [r_x r_status]. repeat split; try lra; try (intros E; discriminate E). intros _. now right.
      + destruct (after_flag _ _ _ _ _ _ _) as [[k1 st'] lg'].
        destruct last; [cbn [r_x r_status]; apply Hsucc; reflexivity|].
        apply Hcont; [reflexivity|exact Hhn].
      + destruct (after_flag _ _ _ _ _ _ _) as [[k1 st'] lg'].
        destruct last; [cbn [r_x r_status]; apply Hsucc; reflexivity|].
        apply Hcont; [reflexivity|exact Hhn].
    - cbn [s_x s_h s_last]. split; [|split; [lra|intros E; contradiction]].
      split; [exact Hx|]. split; [|reflexivity]. apply hnew_reject_sign. exact Hh'.
  Qed.

  (* ---- the whole run ---- *)
  Theorem loop_discipline fuel s r :
    Inv s -> loop Rops P f xend posneg hmax cb kern fuel s = Some r ->
    0 <= (xend - r_x r) * posneg /\ 0 <= (r_x r - s_x s) * posneg /\
    (r_status r = Success -> r_x r = xend) /\
    (r_x r = xend -> r_status r = Success \/ r_status r = UserInterrupt).
  Proof.
    revert s. induction fuel as [|k IH]; intros s Hi Hl; [discriminate|].
    simpl in Hl. pose proof (step_discipline s Hi) as Hs.
    destruct (step s) as [s'|r'].
    - destruct Hs as [Hi' [Hm _]]. specialize (IH s' Hi' Hl).
      destruct IH as [A [B [C D]]]. repeat split; try assumption. lra.
    - inversion Hl; subst r'. exact Hs.
  Qed.

  (* ---------------- C11: max_step ---------------- *)
  Hypothesis Hsmin1 : p_scale_min P <= 1.
  Hypothesis Hsafe1 : p_safety P <= 1.
  Hypothesis Hexpo : 0 <= expo1 Rops P.

  Definition InvH (s : state H) : Prop :=
    Rabs (s_h s) <= Rabs hmax \/ Rabs (xend - s_x s) < 101 / 100 * Rabs hmax.

  Lemma abs_posneg a : 0 < a * posneg -> Rabs a = a * posneg.
  Proof.
    intros Ha. destruct Hposneg as [E|E]; rewrite E in *.
    - rewrite Rabs_right; lra.
    - rewrite Rabs_left; lra.
  Qed.

  Lemma hnew_clamp_le hn h rej : Rabs (hnew_clamp Rops posneg hmax hn h rej) <= Rabs hmax.
  Proof.
    unfold hnew_clamp. cbn.
    assert (Hp : forall a, Rabs (posneg * a) = Rabs a).
    { intros a. rewrite Rabs_mult. destruct Hposneg as [E|E]; rewrite E.
      - rewrite Rabs_R1. lra.
      - replace (Rabs (-1)) with 1; [lra|]. rewrite Rabs_left; lra. }
    set (hn' := if Rltb (Rabs hmax) (Rabs hn) then posneg * Rabs hmax else hn).
    assert (Hn' : Rabs hn' <= Rabs hmax).
    { subst hn'. destruct (Rltb _ _) eqn:E.
      - rewrite Hp, Rabs_Rabsolu. lra.
      - apply Rltb_false in E. exact E. }
    destruct rej; [|exact Hn'].
    rewrite Hp. rewrite Rabs_right.
    - eapply Rle_trans; [apply Rmin_l|exact Hn'].
    - apply Rle_ge. apply Rmin_glb; apply Rabs_pos.
  Qed.

  Lemma hnew_reject_le h err : 1 < err -> Rabs (hnew_reject Rops P h err) <= Rabs h.
  Proof.
    intros He. unfold hnew_reject. cbn [div fmin pow Rops].
    set (c := Rmin (facc1 Rops P) (Rpower err (expo1 Rops P) / p_safety P)).
    assert (Hc : 1 <= c).
    { subst c. apply Rmin_glb.
      - unfold facc1. cbn. apply (Rmult_le_reg_r (p_scale_min P)); [exact Hsmin|].
        unfold Rdiv. rewrite Rmult_assoc, Rinv_l; lra.
      - assert (Hp : 1 <= Rpower err (expo1 Rops P)).
        { unfold Rpower. rewrite <- exp_0. 
          assert (0 <= expo1 Rops P * ln err).
          { apply Rmult_le_pos; [exact Hexpo|]. rewrite <- ln_1. left. apply ln_increasing; lra. }
          destruct H0 as [Hlt|Heq]; [left; apply exp_increasing; exact Hlt|rewrite <- Heq; right; reflexivity]. }
        apply (Rmult_le_reg_r (p_safety P)); [exact Hsafe|].
        unfold Rdiv. rewrite Rmult_assoc, Rinv_l; lra. }
    unfold Rdiv. rewrite Rabs_mult. rewrite (Rabs_right (/ c)).
    - rewrite <- (Rmult_1_r (Rabs h)) at 2. apply Rmult_le_compat_l; [apply Rabs_pos|].
      rewrite <- Rinv_1. apply Rinv_le_contravar; lra.
    - apply Rle_ge. left. apply Rinv_0_lt_compat. lra.
  Qed.

  (* every attempted step obeys max_step; only the step that lands on xend may be up to 1% longer *)
  Theorem step_max_step s :
    Inv s -> InvH s ->
    let '(h, last) := landing Rops xend posneg (s_x s) (s_h s) (s_last s) in
    (if last then Rabs h < 101 / 100 * Rabs hmax else Rabs h <= Rabs hmax) /\
    match step s with
    | inl s' => InvH s'
    | inr _ => True
    end.
  Proof.
    intros [Hx [Hh Hl]] Hih. rewrite Hl.
    assert (Habs_h : Rabs (s_h s) = s_h s * posneg) by (apply abs_posneg; exact Hh).
    assert (Habs_x : Rabs (xend - s_x s) = (xend - s_x s) * posneg) by (apply abs_posneg; exact Hx).
    unfold Dop853.step. rewrite Hl.
    unfold landing at 1 2. rewrite lit_1_01. cbn [ltb mul sub add zero Rops].
    destruct (Rltb 0 _) eqn:E.
    - (* landing *)
      apply Rltb_true in E.
      assert (Hlt : Rabs (xend - s_x s) < 101 / 100 * Rabs (s_h s)).
      { rewrite Habs_x, Habs_h. destruct Hposneg as [Ep|Ep]; rewrite Ep in *; lra. }
      assert (Hb : Rabs (xend - s_x s) < 101 / 100 * Rabs hmax).
      { destruct Hih as [Hi|Hi]; [|exact Hi]. lra. }
      split; [exact Hb|].
      destruct (N.ltb _ _); [exact I|]. destruct (leb Rops _ _); [exact I|].
      set (a := kern _ _ _ _).
      destruct (leb Rops (at_err a) (one Rops)) eqn:Eerr.
      + destruct (stiff_test _ _ _ _ _ _ _) as [[[hlamb nonstiff] iasti] sexit].
        destruct sexit; [exact I|]. destruct (dense_stage _ _ _ _ _ _ _ _ _ _) as [[cont st2] lg2].
      destruct (cb _ _ _ _ _) as [[cbs fl] ycb].
        destruct fl; try exact I; destruct (after_flag _ _ _ _ _ _ _) as [[k1 st'] lg']; exact I.
      + right. cbn [s_x]. exact Hb.
    - (* ordinary step *)
      apply Rltb_false in E.
      assert (Hle : 101 / 100 * Rabs (s_h s) <= Rabs (xend - s_x s)).
      { rewrite Habs_x, Habs_h. destruct Hposneg as [Ep|Ep]; rewrite Ep in *; lra. }
      assert (Hb : Rabs (s_h s) <= Rabs hmax).
      { destruct Hih as [Hi|Hi]; [exact Hi|]. lra. }
      split; [exact Hb|].
      destruct (N.ltb _ _); [exact I|]. destruct (leb Rops _ _); [exact I|].
      set (a := kern _ _ _ _).
      destruct (leb Rops (at_err a) (one Rops)) eqn:Eerr.
      + destruct (stiff_test _ _ _ _ _ _ _) as [[[hlamb nonstiff] iasti] sexit].
        destruct sexit; [exact I|]. destruct (dense_stage _ _ _ _ _ _ _ _ _ _) as [[cont st2] lg2].
      destruct (cb _ _ _ _ _) as [[cbs fl] ycb].
        destruct fl; try exact I; destruct (after_flag _ _ _ _ _ _ _) as [[k1 st'] lg'];
          left; cbn [s_h]; apply hnew_clamp_le.
      + left. cbn [s_h]. cbn in Eerr. apply Rleb_false in Eerr.
        eapply Rle_trans; [apply hnew_reject_le; exact Eerr|exact Hb].
  Qed.
End Real.
