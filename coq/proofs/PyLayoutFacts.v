Require Import List Arith Bool ZArith Lia.
Require Import IVP.model.Lit IVP.model.Ops IVP.model.Common IVP.model.PyLayout.
Import ListNotations.

(* ---------------- layout ---------------- *)
Theorem py_transpose_length {A} (d : A) ys :
  length (py_transpose d ys) = (match ys with [] => 0 | y :: _ => length y end) * length ys.
Proof. unfold py_transpose. now rewrite map_length, seq_length. Qed.

(* entry (state j, time i) of the flat (n, m) array is component j of sample i *)
Theorem py_transpose_spec {A} (d : A) ys i j :
  i < length ys -> j < (match ys with [] => 0 | y :: _ => length y end) ->
  nth (j * length ys + i) (py_transpose d ys) d = nth j (nth i ys []) d.
Proof.
  intros Hi Hj. unfold py_transpose.
  set (m := length ys) in *. set (n := match ys with [] => 0 | y :: _ => length y end) in *.
  assert (Hlt : j * m + i < n * m) by nia.
  rewrite (nth_indep _ d (nth (0 / m) (nth (0 mod m) ys []) d)) by (rewrite map_length, seq_length; exact Hlt).
  rewrite (map_nth (fun idx => nth (idx / m) (nth (idx mod m) ys []) d) (seq 0 (n * m)) 0 (j * m + i)).
  rewrite seq_nth by exact Hlt. simpl.
  assert (Hm : m <> 0) by lia.
  assert (Hd : (j * m + i) / m = j) by (rewrite Nat.div_add_l by exact Hm; rewrite Nat.div_small by exact Hi; lia).
  assert (Hmo : (j * m + i) mod m = i).
  { rewrite (Nat.add_comm (j * m) i), Nat.mod_add by exact Hm. now apply Nat.mod_small. }
  now rewrite Hd, Hmo.
Qed.

Theorem py_status_spec s :
  (s = Success -> py_status s = 0%Z) /\ (s = UserInterrupt -> py_status s = 1%Z) /\
  (s <> Success -> s <> UserInterrupt -> py_status s = (-1)%Z) /\
  (py_success s = true <-> (0 <= py_status s)%Z).
Proof.
  repeat split; try (intros; subst; reflexivity).
  - intros H1 H2. destruct s; try reflexivity; congruence.
  - unfold py_success. intros H. now apply Z.leb_le.
  - unfold py_success. intros H. now apply Z.leb_le.
Qed.

(* ---------------- column grouping ---------------- *)
Lemma fits_spec rows used : fits rows used = true -> forall r, In r rows -> ~ In r used.
Proof.
  unfold fits. intros H r Hr Hu. rewrite forallb_forall in H. specialize (H r Hr).
  apply negb_true_iff in H. assert (existsb (Nat.eqb r) used = true).
  { apply existsb_exists. exists r. split; [exact Hu|apply Nat.eqb_refl]. }
  congruence.
Qed.

Lemma first_fit_spec rows groups : forall k g,
  first_fit rows groups k = Some g ->
  k <= g /\ g - k < length groups /\ fits rows (nth (g - k) groups []) = true.
Proof.
  induction groups as [|u rest IH]; intros k g H; [discriminate|].
  simpl in H. destruct (fits rows u) eqn:E.
  - inversion H; subst. replace (g - g) with 0 by lia. simpl. repeat split; [lia|lia|exact E].
  - apply IH in H. destruct H as [H1 [H2 H3]]. repeat split; [lia|simpl; lia|].
    replace (g - k) with (S (g - S k)) by lia. exact H3.
Qed.

Lemma upd_nth_length {A} (l : list A) k f : length (upd_nth l k f) = length l.
Proof. revert k; induction l as [|a r IH]; intros [|k]; simpl; auto. Qed.
Lemma upd_nth_same {A} (l : list A) k f d : k < length l -> nth k (upd_nth l k f) d = f (nth k l d).
Proof. revert k; induction l as [|a r IH]; intros [|k] H; simpl in *; try lia; auto. apply IH. lia. Qed.
Lemma upd_nth_other {A} (l : list A) k j f d : j <> k -> nth j (upd_nth l k f) d = nth j l d.
Proof. revert k j; induction l as [|a r IH]; intros [|k] [|j] H; simpl; auto; try lia. Qed.

(* invariant after processing the columns in `done` *)
Definition ginv (done : list (list nat)) (assign : list nat) (groups : list (list nat)) : Prop :=
  length assign = length done /\
  (forall c, c < length done -> nth c assign 0 < length groups) /\
  (forall c r, c < length done -> In r (nth c done []) -> In r (nth (nth c assign 0) groups [])) /\
  (forall c1 c2 r, c1 < length done -> c2 < length done -> c1 <> c2 ->
     nth c1 assign 0 = nth c2 assign 0 -> In r (nth c1 done []) -> ~ In r (nth c2 done [])).

Lemma ginv_step done assign groups rows :
  ginv done assign groups ->
  let '(a', g') := group_step (assign, groups) rows in ginv (done ++ [rows]) a' g'.
Proof.
  intros [Hl [Hb [Hin Hdis]]]. unfold group_step.
  assert (Hn : forall c, c < length done -> nth c (done ++ [rows]) [] = nth c done []) by (intros; now rewrite app_nth1).
  assert (Hlast : nth (length done) (done ++ [rows]) [] = rows).
  { rewrite app_nth2 by lia. now rewrite Nat.sub_diag. }
  destruct (first_fit rows groups 0) as [g|] eqn:E.
  - apply first_fit_spec in E. destruct E as [_ [Hg Hf]]. rewrite Nat.sub_0_r in Hg, Hf.
    pose proof (fits_spec _ _ Hf) as Hfree.
    assert (Ha : forall c, c < length done -> nth c (assign ++ [g]) 0 = nth c assign 0) by (intros; rewrite app_nth1; lia).
    assert (Hal : nth (length done) (assign ++ [g]) 0 = g).
    { rewrite app_nth2 by lia. now rewrite Hl, Nat.sub_diag. }
    repeat split.
    + rewrite !app_length. simpl. lia.
    + intros c Hc. rewrite app_length in Hc. simpl in Hc. rewrite upd_nth_length.
      destruct (Nat.eq_dec c (length done)) as [->|Hne]; [rewrite Hal; exact Hg|].
      rewrite Ha by lia. apply Hb. lia.
    + intros c r Hc Hr. rewrite app_length in Hc. simpl in Hc.
      destruct (Nat.eq_dec c (length done)) as [->|Hne].
      * rewrite Hal, Hlast in *. rewrite upd_nth_same by exact Hg. apply in_or_app. now right.
      * rewrite Ha, Hn in * by lia. assert (Hc' : c < length done) by lia.
        specialize (Hin c r Hc' Hr).
        destruct (Nat.eq_dec (nth c assign 0) g) as [Eg|Eg].
        -- rewrite Eg in *. rewrite upd_nth_same by exact Hg. apply in_or_app. now left.
        -- rewrite upd_nth_other by exact Eg. exact Hin.
    + intros c1 c2 r H1 H2 Hne Hsame Hr1 Hr2. rewrite app_length in H1, H2. simpl in H1, H2.
      destruct (Nat.eq_dec c1 (length done)) as [E1|E1]; destruct (Nat.eq_dec c2 (length done)) as [E2|E2]; try lia.
      * subst c1. rewrite Hal in Hsame. rewrite Hlast in Hr1. rewrite Ha in Hsame by lia. rewrite Hn in Hr2 by lia.
        apply (Hfree r Hr1). rewrite Hsame. apply Hin; [lia|exact Hr2].
      * subst c2. rewrite Hal in Hsame. rewrite Hlast in Hr2. rewrite Ha in Hsame by lia. rewrite Hn in Hr1 by lia.
        apply (Hfree r Hr2). rewrite <- Hsame. apply Hin; [lia|exact Hr1].
      * rewrite (Ha c1), (Ha c2) in Hsame by lia. rewrite Hn in Hr1 by lia. rewrite Hn in Hr2 by lia.
        apply (Hdis c1 c2 r); try lia; assumption.
  - assert (Ha : forall c, c < length done -> nth c (assign ++ [length groups]) 0 = nth c assign 0) by (intros; rewrite app_nth1; lia).
    assert (Hal : nth (length done) (assign ++ [length groups]) 0 = length groups).
    { rewrite app_nth2 by lia. now rewrite Hl, Nat.sub_diag. }
    repeat split.
    + rewrite !app_length. simpl. lia.
    + intros c Hc. rewrite !app_length in *. simpl in *.
      destruct (Nat.eq_dec c (length done)) as [->|Hne]; [rewrite Hal; lia|].
      rewrite Ha by lia. specialize (Hb c). lia.
    + intros c r Hc Hr. rewrite app_length in Hc. simpl in Hc.
      destruct (Nat.eq_dec c (length done)) as [->|Hne].
      * rewrite Hal, Hlast in *. rewrite app_nth2 by lia. now rewrite Nat.sub_diag.
      * rewrite Ha, Hn in * by lia. assert (Hc' : c < length done) by lia.
        rewrite app_nth1 by (apply Hb; exact Hc'). apply Hin; assumption.
    + intros c1 c2 r H1 H2 Hne Hsame Hr1 Hr2. rewrite app_length in H1, H2. simpl in H1, H2.
      destruct (Nat.eq_dec c1 (length done)) as [E1|E1]; destruct (Nat.eq_dec c2 (length done)) as [E2|E2]; try lia.
      * subst c1. rewrite Hal in Hsame. rewrite Ha in Hsame by lia. specialize (Hb c2). lia.
      * subst c2. rewrite Hal in Hsame. rewrite Ha in Hsame by lia. specialize (Hb c1). lia.
      * rewrite (Ha c1), (Ha c2) in Hsame by lia. rewrite Hn in Hr1 by lia. rewrite Hn in Hr2 by lia.
        apply (Hdis c1 c2 r); try lia; assumption.
Qed.

Lemma ginv_fold cols : forall done assign groups,
  ginv done assign groups ->
  let '(a', g') := fold_left group_step cols (assign, groups) in ginv (done ++ cols) a' g'.
Proof.
  induction cols as [|rows rest IH]; intros done assign groups H; cbn [fold_left].
  - now rewrite app_nil_r.
  - pose proof (ginv_step done assign groups rows H) as Hs.
    destruct (group_step (assign, groups) rows) as [a1 g1].
    specialize (IH (done ++ [rows]) a1 g1 Hs). rewrite <- app_assoc in IH. exact IH.
Qed.

(* C20: for EVERY sparsity pattern, two distinct columns placed in the same group never share a row,
   every column gets a group, and group numbers are below the reported group count *)
Theorem group_columns_valid col_to_rows :
  let '(assign, ngroups) := group_columns col_to_rows in
  length assign = length col_to_rows /\
  (forall c, c < length col_to_rows -> nth c assign 0 < ngroups) /\
  (forall c1 c2 r, c1 < length col_to_rows -> c2 < length col_to_rows -> c1 <> c2 ->
     nth c1 assign 0 = nth c2 assign 0 ->
     In r (nth c1 col_to_rows []) -> ~ In r (nth c2 col_to_rows [])).
Proof.
  unfold group_columns.
  assert (H0 : ginv [] [] []).
  { repeat split; simpl; intros; lia. }
  pose proof (ginv_fold col_to_rows [] [] [] H0) as H. simpl in H.
  destruct (fold_left group_step col_to_rows ([], [])) as [assign groups].
  destruct H as [Hl [Hb [_ Hd]]]. repeat split; assumption.
Qed.
