(* Certificates (vm_compute) about the effective Radau matrix of model/RadauEff.v; kept apart from the real-number
   theorems of RadauEffFacts.v because they take minutes to evaluate in exact rational arithmetic. *)
Require Import List ZArith QArith Qcanon Lia.
Require Import IVP.model.Lit IVP.model.RK IVP.model.Trees IVP.model.Vec IVP.model.Order IVP.model.RadauEff.
Require Import IVP.proofs.TreesFacts IVP.proofs.OrderFacts IVP.proofs.CertSmall IVP.proofs.ScaleFacts
               IVP.proofs.CertDop853.
Import ListNotations.

Module RadauCert.
  Import RE.
  Local Open Scope Qc_scope.

  (* ---- order: scaled-integer certificate over the common denominator of Aeff ---- *)
  Section Scaled.
    Variable q : Lit -> Q.
    Definition D : Z := Z.lcm (den_lcm (concat (Aeff q))) (den_lcm (beff q)).
    Definition Ai : list (list Z) := map (map (toZ D)) (Aeff q).
    Definition bi : list Z := map (toZ D) (beff q).
  End Scaled.
  Lemma Dlit_pos : (0 < D lit_q)%Z.  Proof. apply Z.ltb_lt. vm_compute. reflexivity. Qed.
  Lemma Df64_pos : (0 < D f64_q)%Z.  Proof. apply Z.ltb_lt. vm_compute. reflexivity. Qed.
  Lemma A_lit : Aeff lit_q = Aq (Ai lit_q) (D lit_q).
  Proof. apply mat_eqb_correct. vm_compute. reflexivity. Qed.
  Lemma b_lit : beff lit_q = bq (bi lit_q) (D lit_q).
  Proof. apply qvec_eqb_correct. vm_compute. reflexivity. Qed.
  Lemma A_f64 : Aeff f64_q = Aq (Ai f64_q) (D f64_q).
  Proof. apply mat_eqb_correct. vm_compute. reflexivity. Qed.
  Lemma b_f64 : beff f64_q = bq (bi f64_q) (D f64_q).
  Proof. apply qvec_eqb_correct. vm_compute. reflexivity. Qed.
  Lemma order5 : check_all ZK (Ai lit_q) 3 (zcond_approx (D lit_q) 1 (10^14) (bi lit_q)) 5 = true.
  Proof. vm_compute. reflexivity. Qed.
  Lemma order5_f64 : check_all ZK (Ai f64_q) 3 (zcond_approx (D f64_q) 1 (10^14) (bi f64_q)) 5 = true.
  Proof. vm_compute. reflexivity. Qed.
  Definition t6 : tree := Node (repeat (Node []) 5).
  Definition M6 : Z := (gamma t6 * kdot ZK (bi lit_q) (Phi ZK (Ai lit_q) 3 t6) - (D lit_q) ^ Z.of_nat (size t6))%Z.
  Lemma M6_val : (10^8 <=? Z.abs M6 * 10^12 / (D lit_q) ^ 6)%Z = true.
  Proof. vm_compute. reflexivity. Qed.
  Lemma size_t6 : size t6 = 6%nat.  Proof. reflexivity. Qed.

  (* ---- row sums = collocation nodes (C1, C2, 1) to 1e-15 ---- *)
  Lemma nodes : DOP853Cert.rows_close (Q2Qc (1 # 10^15)) (map (r lit_q) [0; 1; 2]%nat) (ceff lit_q) = true.
  Proof. vm_compute. reflexivity. Qed.

  (* ---- stability function: coefficients within 1e-15 of the (2,3) Pade approximant of exp ---- *)
  Definition pade_P : qvec := [1; Q2Qc (2 # 5); Q2Qc (1 # 20); 0].
  Definition pade_Q : qvec := [1; - Q2Qc (3 # 5); Q2Qc (3 # 20); - Q2Qc (1 # 60)].
  Lemma pade_P_close : DOP853Cert.rows_close (Q2Qc (1 # 10^15)) (Ppoly lit_q) pade_P = true.
  Proof. vm_compute. reflexivity. Qed.
  Lemma pade_Q_close : DOP853Cert.rows_close (Q2Qc (1 # 10^15)) (Qpoly lit_q) pade_Q = true.
  Proof. vm_compute. reflexivity. Qed.

  (* sign conditions that give |P| <= Q on the negative real axis, and the sizes used by the decay bound *)
  Definition p (k : nat) : Qc := nth k (Ppoly lit_q) 0.
  Definition qq (k : nat) : Qc := nth k (Qpoly lit_q) 0.
  Definition signs : list (Qc * Qc) :=
    [ (qq 1, p 1); (p 2, qq 2); (qq 3, p 3);                (* 0 <= p1 - q1, q2 - p2, p3 - q3 *)
      (p 1, - qq 1); (- qq 2, p 2); (p 3, - qq 3);          (* 0 <= -q1 - p1, q2 + p2, -q3 - p3 *)
      (qq 1, 0); (0, qq 2); (qq 3, 0);                       (* 0 <= -q1, q2, -q3 *)
      (p 1, Q2Qc (1 # 2)); (- Q2Qc (1 # 2), p 1); (p 2, Q2Qc (1 # 10)); (- Q2Qc (1 # 10), p 2);
      (p 3, Q2Qc (1 # 10^15)); (- Q2Qc (1 # 10^15), p 3); (qq 3, - Q2Qc (1 # 61)) ].
  Lemma signs_ok : forallb (fun xy => qleb (fst xy) (snd xy)) signs = true.
  Proof. vm_compute. reflexivity. Qed.

  Global Opaque D Ai bi M6 t6.
End RadauCert.

