(* C18 for the Dop853 skeleton: nstep >= naccpt at the end of every iteration and of every run of the loop (any number type,
   kernel, right-hand side, callback). *)
Require Import List ZArith Bool Lia.
Require Import IVP.model.Lit IVP.model.Ops IVP.model.Vec IVP.model.Common IVP.model.RK IVP.model.Dop853.
Import ListNotations.

Section Acc.
  Context {F : Type} (O : Ops F) {H : Type}.
  Variable P : params (F:=F).
  Variable f : F -> list F -> list F.
  Variables (xend posneg hmax : F).
  Variable cb : H -> F -> F -> list F -> option (list F * F * F) -> H * flag F * list F.
  Variable kern : F -> list F -> list F -> F -> attempt (F:=F).
  Notation step := (step O P f xend posneg hmax cb kern).

  Definition le_inv (st : stats) : Prop := (naccpt st <= nstep st)%N.
  Definition out_le (o : state (F:=F) H + result (F:=F) H) : Prop :=
    match o with
    | inl s' => le_inv (s_stats s')
    | inr r => le_inv (r_stats r)
    end.

  Ltac nxt := cbv beta iota.
  Ltac hd :=
    match goal with
    | |- out_le (if ?c then _ else _) => destruct c
    | |- out_le (match (if ?c then _ else _) with _ => _ end) => destruct c
    | |- out_le (match (match ?c with _ => _ end) with _ => _ end) => destruct c
    | |- out_le (match ?c with _ => _ end) => destruct c
    end; nxt.

  Lemma step_le s : le_inv (s_stats s) -> out_le (step s).
  Proof.
    intros Hi. unfold le_inv in Hi. unfold Dop853.step, dense_stage, after_flag. cbv zeta. nxt.
    repeat hd.
    all: cbv beta iota delta [out_le le_inv]; cbn [s_stats r_stats];
         cbn [naccpt nrejct nstep add_step add_fev add_lu add_jev add_rej add_acc]; try lia.
    destruct (N.ltb 1 _); cbn [naccpt nrejct nstep add_step add_fev add_rej]; lia.
  Qed.

  Theorem loop_le fuel s r :
    le_inv (s_stats s) -> loop O P f xend posneg hmax cb kern fuel s = Some r -> le_inv (r_stats r).
  Proof.
    revert s. induction fuel as [|k IH]; intros s Hi Hl; [discriminate|].
    cbn [loop] in Hl. pose proof (step_le s Hi) as Hs. destruct (step s) as [s'|r'].
    - eapply IH; eauto.
    - inversion Hl; subst. exact Hs.
  Qed.
End Acc.
