Require Import Reals Lra Lia.
Local Open Scope R_scope.

Section Stab3.
  Variables a00 a01 a02 a10 a11 a12 a20 a21 a22 : R.
  Variable z : R.
  Definition tr := a00 + a11 + a22.
  Definition m2 := (a00 * a11 - a01 * a10) + (a00 * a22 - a02 * a20) + (a11 * a22 - a12 * a21).
  Definition det := a00 * (a11 * a22 - a12 * a21) - a01 * (a10 * a22 - a12 * a20) + a02 * (a10 * a21 - a11 * a20).
  Definition Qz := 1 - tr * z + m2 * z * z - det * z * z * z.
  Definition r0 := a00 + a01 + a02.
  Definition r1 := a10 + a11 + a12.
  Definition r2 := a20 + a21 + a22.
  (* M = I - z A *)
  Definition m00 := 1 - z * a00. Definition m01 := - z * a01. Definition m02 := - z * a02.
  Definition m10 := - z * a10. Definition m11 := 1 - z * a11. Definition m12 := - z * a12.
  Definition m20 := - z * a20. Definition m21 := - z * a21. Definition m22 := 1 - z * a22.
  (* N = adj(M) r *)
  Definition N0 := (m11 * m22 - m12 * m21) * r0 - (m01 * m22 - m02 * m21) * r1 + (m01 * m12 - m02 * m11) * r2.
  Definition N1 := - (m10 * m22 - m12 * m20) * r0 + (m00 * m22 - m02 * m20) * r1 - (m00 * m12 - m02 * m10) * r2.
  Definition N2 := (m10 * m21 - m11 * m20) * r0 - (m00 * m21 - m01 * m20) * r1 + (m00 * m11 - m01 * m10) * r2.
  Definition n0 := r2.
  Definition n1 := a20 * r0 + a21 * r1 - (a00 + a11) * r2.
  Definition n2 := (a10 * a21 - a11 * a20) * r0 + (a01 * a20 - a00 * a21) * r1 + (a00 * a11 - a01 * a10) * r2.
  Definition Pz := 1 + (- tr + n0) * z + (m2 + n1) * z * z + (- det + n2) * z * z * z.

  Lemma N2_poly : N2 = n0 + n1 * z + n2 * z * z.
  Proof. unfold N2, n0, n1, n2, m00, m01, m10, m11, m20, m21, r0, r1, r2. ring. Qed.
  Lemma P_is : Pz = Qz + z * N2.
  Proof. rewrite N2_poly. unfold Pz, Qz. ring. Qed.

  (* the stage equations of the test equation y' = lambda y (z = h lambda), divided by y:
       Z_i = z * sum_j a_ij (1 + Z_j) *)
  Definition stage_eqs (Z0 Z1 Z2 : R) : Prop :=
    Z0 = z * (a00 * (1 + Z0) + a01 * (1 + Z1) + a02 * (1 + Z2)) /\
    Z1 = z * (a10 * (1 + Z0) + a11 * (1 + Z1) + a12 * (1 + Z2)) /\
    Z2 = z * (a20 * (1 + Z0) + a21 * (1 + Z1) + a22 * (1 + Z2)).

  Ltac unf := unfold Qz, tr, m2, det, N0, N1, N2, m00, m01, m02, m10, m11, m12, m20, m21, m22, r0, r1, r2.

  (* M N = det(M) r  and  adj(M) M = det(M) I, with det(M) = Qz *)
  Lemma MN0 : m00 * N0 + m01 * N1 + m02 * N2 = Qz * r0.  Proof. unf. ring. Qed.
  Lemma MN1 : m10 * N0 + m11 * N1 + m12 * N2 = Qz * r1.  Proof. unf. ring. Qed.
  Lemma MN2 : m20 * N0 + m21 * N1 + m22 * N2 = Qz * r2.  Proof. unf. ring. Qed.

  Lemma cramer0 Z0 Z1 Z2 :
    Qz * Z0 = (m11 * m22 - m12 * m21) * (m00 * Z0 + m01 * Z1 + m02 * Z2)
              - (m01 * m22 - m02 * m21) * (m10 * Z0 + m11 * Z1 + m12 * Z2)
              + (m01 * m12 - m02 * m11) * (m20 * Z0 + m21 * Z1 + m22 * Z2).
  Proof. unf. ring. Qed.
  Lemma cramer1 Z0 Z1 Z2 :
    Qz * Z1 = - (m10 * m22 - m12 * m20) * (m00 * Z0 + m01 * Z1 + m02 * Z2)
              + (m00 * m22 - m02 * m20) * (m10 * Z0 + m11 * Z1 + m12 * Z2)
              - (m00 * m12 - m02 * m10) * (m20 * Z0 + m21 * Z1 + m22 * Z2).
  Proof. unf. ring. Qed.
  Lemma cramer2 Z0 Z1 Z2 :
    Qz * Z2 = (m10 * m21 - m11 * m20) * (m00 * Z0 + m01 * Z1 + m02 * Z2)
              - (m00 * m21 - m01 * m20) * (m10 * Z0 + m11 * Z1 + m12 * Z2)
              + (m00 * m11 - m01 * m10) * (m20 * Z0 + m21 * Z1 + m22 * Z2).
  Proof. unf. ring. Qed.

  (* the stage equations are the linear system  M Z = z r *)
  Lemma stage_eqs_lin Z0 Z1 Z2 :
    stage_eqs Z0 Z1 Z2 <->
    (m00 * Z0 + m01 * Z1 + m02 * Z2 = z * r0 /\ m10 * Z0 + m11 * Z1 + m12 * Z2 = z * r1 /\
     m20 * Z0 + m21 * Z1 + m22 * Z2 = z * r2).
  Proof.
    unfold stage_eqs, m00, m01, m02, m10, m11, m12, m20, m21, m22, r0, r1, r2.
    split; intros [E0 [E1 E2]]; repeat split; lra.
  Qed.

  Theorem stage_solution : Qz <> 0 ->
    forall Z0 Z1 Z2, stage_eqs Z0 Z1 Z2 <-> (Z0 = z * N0 / Qz /\ Z1 = z * N1 / Qz /\ Z2 = z * N2 / Qz).
  Proof.
    intros HQ Z0 Z1 Z2. rewrite stage_eqs_lin. split.
    - intros [F0 [F1 F2]].
      pose proof (cramer0 Z0 Z1 Z2) as C0. pose proof (cramer1 Z0 Z1 Z2) as C1. pose proof (cramer2 Z0 Z1 Z2) as C2.
      rewrite F0, F1, F2 in C0, C1, C2.
      repeat split; apply (Rmult_eq_reg_l Qz); try exact HQ;
        [rewrite C0|rewrite C1|rewrite C2]; unfold N0, N1, N2; field; exact HQ.
    - intros [-> [-> ->]]. pose proof MN0 as K0. pose proof MN1 as K1. pose proof MN2 as K2.
      repeat split.
      + transitivity (z / Qz * (m00 * N0 + m01 * N1 + m02 * N2)); [field; exact HQ|rewrite K0; field; exact HQ].
      + transitivity (z / Qz * (m10 * N0 + m11 * N1 + m12 * N2)); [field; exact HQ|rewrite K1; field; exact HQ].
      + transitivity (z / Qz * (m20 * N0 + m21 * N1 + m22 * N2)); [field; exact HQ|rewrite K2; field; exact HQ].
  Qed.

  (* the new state of a stiffly accurate method is y (1 + Z3): the stability function is P/Q *)
  Corollary stability_function : Qz <> 0 ->
    forall Z0 Z1 Z2, stage_eqs Z0 Z1 Z2 -> 1 + Z2 = Pz / Qz.
  Proof.
    intros HQ Z0 Z1 Z2 H. apply (stage_solution HQ) in H. destruct H as [_ [_ ->]].
    rewrite P_is. field. exact HQ.
  Qed.
End Stab3.

(* |P(z)| <= Q(z) and Q(z) >= 1 on the negative real axis, from sign conditions on the coefficients *)
Lemma real_axis_bound (p1 p2 p3 q1 q2 q3 s : R) :
  0 <= s ->
  0 <= p1 - q1 -> 0 <= q2 - p2 -> 0 <= p3 - q3 ->
  0 <= - q1 - p1 -> 0 <= q2 + p2 -> 0 <= - q3 - p3 ->
  0 <= - q1 -> 0 <= q2 -> 0 <= - q3 ->
  let z := - s in
  let P := 1 + p1 * z + p2 * z * z + p3 * z * z * z in
  let Q := 1 + q1 * z + q2 * z * z + q3 * z * z * z in
  1 <= Q /\ - Q <= P <= Q.
Proof.
  intros Hs A1 A2 A3 B1 B2 B3 C1 C2 C3 z P Q. subst z P Q.
  assert (S2 : 0 <= s * s) by (apply Rmult_le_pos; assumption).
  assert (S3 : 0 <= s * s * s) by (apply Rmult_le_pos; assumption).
  assert (E1 : forall c, 0 <= c -> 0 <= c * s) by (intros; apply Rmult_le_pos; assumption).
  assert (E2 : forall c, 0 <= c -> 0 <= c * (s * s)) by (intros; apply Rmult_le_pos; assumption).
  assert (E3 : forall c, 0 <= c -> 0 <= c * (s * s * s)) by (intros; apply Rmult_le_pos; assumption).
  pose proof (E1 _ A1). pose proof (E2 _ A2). pose proof (E3 _ A3).
  pose proof (E1 _ B1). pose proof (E2 _ B2). pose proof (E3 _ B3).
  pose proof (E1 _ C1). pose proof (E2 _ C2). pose proof (E3 _ C3).
  repeat split; lra.
Qed.

(* decay: for s >= 1 the amplification is at most K/s + eps, from  |p1|,|p2| bounds and q3 *)
Lemma real_axis_decay (p1 p2 p3 q1 q2 q3 s : R) :
  1 <= s ->
  Rabs p1 <= 1/2 -> Rabs p2 <= 1/10 -> Rabs p3 <= 1 / 10^15 ->
  0 <= - q1 -> 0 <= q2 -> 1/61 <= - q3 ->
  let z := - s in
  let P := 1 + p1 * z + p2 * z * z + p3 * z * z * z in
  let Q := 1 + q1 * z + q2 * z * z + q3 * z * z * z in
  Rabs P <= (100 / s + 1 / 10^13) * Q.
Proof.
  intros Hs A1 A2 A3 C1 C2 C3 z P Q. subst z P Q.
  assert (S1 : 0 < s) by lra.
  assert (S2 : s <= s * s) by nra.
  assert (S3 : s * s <= s * s * s) by nra.
  assert (HQ : s * s * s / 61 <= 1 + q1 * - s + q2 * - s * - s + q3 * - s * - s * - s).
  { assert (0 <= - q1 * s) by (apply Rmult_le_pos; lra).
    assert (0 <= q2 * (s * s)) by (apply Rmult_le_pos; nra).
    assert (s * s * s / 61 <= - q3 * (s * s * s)) by nra. lra. }
  assert (HP : Rabs (1 + p1 * - s + p2 * - s * - s + p3 * - s * - s * - s) <= 1 + s / 2 + s * s / 10 + s * s * s / 10^15).
  { replace (1 + p1 * - s + p2 * - s * - s + p3 * - s * - s * - s) with (1 + (- p1 * s + (p2 * (s * s) + - p3 * (s * s * s)))) by ring.
    eapply Rle_trans; [apply Rabs_triang|]. rewrite Rabs_R1.
    eapply Rle_trans; [apply Rplus_le_compat_l, Rabs_triang|].
    eapply Rle_trans; [apply Rplus_le_compat_l, Rplus_le_compat_l, Rabs_triang|].
    rewrite !Rabs_mult, !Rabs_Ropp, !(Rabs_right s) by lra.
    assert (Rabs p1 * s <= s / 2) by nra.
    assert (Rabs p2 * (s * s) <= s * s / 10) by nra.
    assert (Rabs p3 * (s * s * s) <= s * s * s / 10^15) by nra. lra. }
  eapply Rle_trans; [exact HP|].
  eapply Rle_trans; [|apply Rmult_le_compat_l; [|exact HQ]].
  2:{ assert (0 < 100 / s) by (apply Rdiv_lt_0_compat; lra). lra. }
  assert (E : (100 / s + 1 / 10 ^ 13) * (s * s * s / 61) = 100 * (s * s) / 61 + s * s * s / (61 * 10^13)) by (field; lra).
  rewrite E. nra.
Qed.
