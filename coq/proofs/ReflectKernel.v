(* C13, time reflection, at the level every explicit method shares: the stage recurrence `run_stages` (model/RK.v).
   Real-number semantics.  For the reflected problem  z'(s) = -f(-s, z)  started at -x with step -h and the negated
   first slope, every stage is evaluated at the mirrored time with the SAME state argument and returns the negated
   slope; hence the new state, the error vector and the error norm of the attempt are the same numbers.
   (In binary64 the same holds bit for bit because negation is exact and rounding is sign-symmetric; that part is
   checked by the paired replays, not proved.) *)
Require Import List Arith Lia Reals Lra.
Require Import IVP.model.Lit IVP.model.Ops IVP.model.Vec IVP.model.RK IVP.model.RealOps IVP.model.Common.
Require IVP.model.Dopri5.
Import ListNotations.
Local Open Scope R_scope.

Notation rv := (list R).
Definition negv (v : rv) : rv := map Ropp v.
Definition refl (f : R -> rv -> rv) : R -> rv -> rv := fun s z => negv (f (- s) z).

Lemma nth_negv j (ks : list rv) : nth j (map negv ks) [] = negv (nth j ks []).
Proof. revert j. induction ks as [|k ks IH]; intros [|j]; cbn; auto. Qed.

Lemma map2_negv_r (g : R -> R -> R) (g' : R -> R -> R) a k :
  (forall s x, g s (- x) = g' s x) -> map2 g a (negv k) = map2 g' a k.
Proof.
  intros H. revert k. induction a as [|s a IH]; intros [|x k]; cbn [map2 negv map]; auto. now rewrite H, IH.
Qed.

Lemma lincomb_negv l (ks : list rv) n :
  lincomb Rops l (map negv ks) n = match l with [] => lincomb Rops l ks n | _ => negv (lincomb Rops l ks n) end.
Proof.
  destruct l as [|[a j] rest]; [reflexivity|]. cbn [lincomb].
  rewrite nth_negv.
  assert (G : forall rest acc, fold_left (fun acc aj => map2 (fun s k => add Rops s (mul Rops (lit Rops (fst aj)) k)) acc (nth (snd aj) (map negv ks) []))
                                         rest (negv acc)
                               = negv (fold_left (fun acc aj => map2 (fun s k => add Rops s (mul Rops (lit Rops (fst aj)) k)) acc (nth (snd aj) ks []))
                                                 rest acc)).
  { induction rest0 as [|[a' j'] r IH]; intros acc; cbn [fold_left]; [reflexivity|].
    rewrite nth_negv. rewrite <- IH. f_equal. cbn [fst snd].
    generalize (nth j' ks []). clear. revert acc. induction acc as [|s acc IHa]; intros [|x k]; cbn [map2 negv map]; auto.
    rewrite IHa. f_equal. cbn [add mul Rops]. lra. }
  rewrite <- G. f_equal. unfold negv. rewrite !map_map. apply map_ext. intros x. cbn [mul Rops]. lra.
Qed.

Lemma lincomb_negv_ne l (ks : list rv) n : l <> [] -> lincomb Rops l (map negv ks) n = negv (lincomb Rops l ks n).
Proof. intros H. rewrite lincomb_negv. destruct l; [contradiction|reflexivity]. Qed.

Lemma stage_arg_reflect h y (ks : list rv) r :
  stage_arg Rops (- h) y (map negv ks) r = stage_arg Rops h y ks r.
Proof.
  destruct r as [a j|l]; cbn [stage_arg].
  - rewrite nth_negv. apply map2_negv_r. intros s x. cbn [add mul Rops]. lra.
  - rewrite lincomb_negv. destruct l as [|p l'].
    + cbn [lincomb]. generalize (length y) at 1 2. revert y. induction y as [|yi y IH]; intros [|n]; cbn [map2 repeat]; auto.
      rewrite IH. f_equal. cbn [add mul zero Rops]. lra.
    + apply map2_negv_r. intros s x. cbn [add mul Rops]. lra.
Qed.

Lemma stage_time_reflect x h c : stage_time Rops (- x) (- h) c = - stage_time Rops x h c.
Proof. destruct c as [cl|]; cbn [stage_time add mul Rops]; lra. Qed.

Lemma refl_neg f t a : refl f (- t) a = negv (f t a).
Proof. unfold refl. now rewrite Ropp_involutive. Qed.

(* the stage recurrence of the reflected problem: mirrored times, identical state arguments, negated slopes *)
Theorem run_stages_reflect f x h y : forall sts ks calls,
  run_stages Rops (refl f) (- x) (- h) y sts (map negv ks) (map (fun c => (- fst c, snd c)) calls) =
  let '(ks', calls') := run_stages Rops f x h y sts ks calls in
  (map negv ks', map (fun c => (- fst c, snd c)) calls').
Proof.
  induction sts as [|st sts IH]; intros ks calls; cbn [run_stages]; [reflexivity|].
  rewrite stage_arg_reflect, stage_time_reflect, refl_neg.
  specialize (IH (ks ++ [f (stage_time Rops x h (st_c st)) (stage_arg Rops h y ks (st_row st))])
                 (calls ++ [(stage_time Rops x h (st_c st), stage_arg Rops h y ks (st_row st))])).
  rewrite !map_app in IH. cbn [map fst snd] in IH. exact IH.
Qed.

(* one DOPRI5 attempt of the reflected problem: same new state, same error vector, same error norm, negated slopes *)
Theorem dopri5_attempt_reflect f atol rtol x y k1 h :
  let a := Dopri5.kernel Rops f atol rtol x y k1 h in
  let a' := Dopri5.kernel Rops (refl f) atol rtol (- x) y (negv k1) (- h) in
  Dopri5.at_ynew a' = Dopri5.at_ynew a /\ Dopri5.at_errv a' = Dopri5.at_errv a /\ Dopri5.at_err a' = Dopri5.at_err a /\
  Dopri5.at_knew a' = negv (Dopri5.at_knew a) /\ Dopri5.at_ks a' = map negv (Dopri5.at_ks a) /\
  Dopri5.at_calls a' = map (fun c => (- fst c, snd c)) (Dopri5.at_calls a).
Proof.
  cbv zeta. unfold Dopri5.kernel.
  pose proof (run_stages_reflect f x h y Tableau.DOPRI5T.stages [k1] []) as E. cbn [map] in E. rewrite E. clear E.
  destruct (run_stages Rops f x h y Tableau.DOPRI5T.stages [k1] []) as [ks calls].
  cbn [Dopri5.at_ynew Dopri5.at_errv Dopri5.at_err Dopri5.at_knew Dopri5.at_ks Dopri5.at_calls].
  rewrite stage_arg_reflect, nth_negv, lincomb_negv_ne by (unfold Tableau.DOPRI5T.e; discriminate).
  assert (Ev : map (fun s => mul Rops s (- h)) (negv (lincomb Rops Tableau.DOPRI5T.e ks (length y))) =
               map (fun s => mul Rops s h) (lincomb Rops Tableau.DOPRI5T.e ks (length y))).
  { unfold negv. rewrite map_map. apply map_ext. intros s. cbn [mul Rops]. lra. }
  rewrite Ev. repeat split; reflexivity.
Qed.
