(* list plumbing shared by the dense-output proofs: blocks of a flat `cont` array, nth of maps/zips *)
Require Import List Arith Lia.
Require Import IVP.model.Vec.
Import ListNotations.

Lemma block_concat {A} n (ls : list (list A)) : forall j,
  Forall (fun l => length l = n) ls -> j < length ls ->
  firstn n (skipn (j * n) (concat ls)) = nth j ls [].
Proof.
  induction ls as [|a ls IH]; intros j HF Hj; [simpl in Hj; lia|].
  inversion HF as [|? ? Ha HF']; subst. destruct j as [|j]; cbn [concat nth].
  - cbn [Nat.mul skipn]. rewrite firstn_app, Nat.sub_diag, firstn_all2 by lia. cbn [firstn]. now rewrite app_nil_r.
  - replace (S j * length a) with (length a + j * length a) by lia.
    rewrite skipn_app, skipn_all2 by lia. cbn [app].
    replace (length a + j * length a - length a) with (j * length a) by lia.
    apply IH; [exact HF'|simpl in Hj; lia].
Qed.

Lemma concat_length_const {A} n (ls : list (list A)) :
  Forall (fun l => length l = n) ls -> length (concat ls) = length ls * n.
Proof. induction 1 as [|a ls Ha _ IH]; simpl; [reflexivity|]. rewrite app_length, IH, Ha. lia. Qed.

Lemma nth_map' {A B} (f : A -> B) l d d' i : i < length l -> nth i (map f l) d' = f (nth i l d).
Proof. intros H. rewrite (nth_indep _ d' (f d)) by now rewrite map_length. apply map_nth. Qed.

Lemma map2_length {A B C} (f : A -> B -> C) a : forall b, length (map2 f a b) = Nat.min (length a) (length b).
Proof. induction a as [|x a IH]; intros [|y b]; simpl; auto. Qed.
Lemma map3_length {A B C D} (f : A -> B -> C -> D) a : forall b c,
  length (map3 f a b c) = Nat.min (length a) (Nat.min (length b) (length c)).
Proof. induction a as [|x a IH]; intros [|y b] [|z c]; simpl; auto. Qed.

Lemma nth_map2 {A B C} (f : A -> B -> C) da db dc : forall a b i,
  i < length a -> i < length b -> nth i (map2 f a b) dc = f (nth i a da) (nth i b db).
Proof.
  induction a as [|x a IH]; intros [|y b] i Ha Hb; simpl in *; try lia.
  destruct i; [reflexivity|]. apply IH; lia.
Qed.
Lemma nth_map3 {A B C D} (f : A -> B -> C -> D) da db dc dd : forall a b c i,
  i < length a -> i < length b -> i < length c ->
  nth i (map3 f a b c) dd = f (nth i a da) (nth i b db) (nth i c dc).
Proof.
  induction a as [|x a IH]; intros [|y b] [|z c] i Ha Hb Hc; simpl in *; try lia.
  destruct i; [reflexivity|]. apply IH; lia.
Qed.

Lemma nth_combine {A B} (l : list A) (m : list B) x y i :
  length l = length m -> nth i (combine l m) (x, y) = (nth i l x, nth i m y).
Proof. apply combine_nth. Qed.
