(* C17, the remaining operators: mixed-storage A (+|-) B (the densifying fallback), Identity (+|-) Identity, and the
   scalar operations component_add / component_sub for every storage -- entrywise equal to the same operation on the
   dense equivalents.  Real-number instance (0 + x = x is used by the banded densification). *)
Require Import List Arith Bool Lia Reals Lra.
Require Import IVP.model.Lit IVP.model.Ops IVP.model.Matrix IVP.model.RealOps IVP.proofs.MatrixFacts IVP.proofs.MatrixSum.
Import ListNotations.
Local Open Scope R_scope.

Lemma cell_div_mod n i j : (j < n)%nat -> ((i * n + j) / n = i)%nat /\ ((i * n + j) mod n = j)%nat.
Proof.
  intros Hj. assert (Hn : n <> 0%nat) by lia. split.
  - rewrite Nat.div_add_l by exact Hn. rewrite Nat.div_small by exact Hj. lia.
  - rewrite Nat.add_comm, Nat.mod_add by exact Hn. now apply Nat.mod_small.
Qed.

Lemma nth_error_tabulate {A} (f : nat -> A) k idx : (idx < k)%nat -> nth_error (tabulate k f) idx = Some (f idx).
Proof.
  intros H. unfold tabulate. rewrite nth_error_map, nth_error_nth' with (d := 0%nat) by (rewrite seq_length; exact H).
  rewrite seq_nth by exact H. reflexivity.
Qed.
Lemma tabulate_length {A} (f : nat -> A) k : length (tabulate k f) = k.
Proof. unfold tabulate. now rewrite map_length, seq_length. Qed.

Lemma dn_identity (A : rmatrix) i j :
  wf A -> m_st A = SIdentity -> (i < m_n A)%nat -> (j < m_n A)%nat -> dn A i j = if (i =? j)%nat then 1 else 0.
Proof.
  intros [Hm Hw] Hs Hi Hj. rewrite Hs in Hw. unfold dn, get. rewrite Hm, Hs, Hw.
  apply Nat.ltb_lt in Hi. apply Nat.ltb_lt in Hj. rewrite Hi, Hj. cbn [andb]. destruct (i =? j)%nat; reflexivity.
Qed.

(* the densified copy holds the denoted entries *)
Lemma to_full_entry (A : rmatrix) i j :
  wf A -> (i < m_n A)%nat -> (j < m_n A)%nat ->
  nth_error (to_full Rops (m_n A) (m_data A) (m_st A)) (i * m_n A + j) = Some (dn A i j) /\
  length (to_full Rops (m_n A) (m_data A) (m_st A)) = (m_n A * m_n A)%nat.
Proof.
  intros WA Hi Hj. pose proof (full_idx_lt (m_n A) (m_n A) i j Hi Hj) as Hlt.
  destruct (cell_div_mod (m_n A) i j Hj) as [Ed Em].
  destruct (m_st A) as [| |ml mu] eqn:Hs; cbn [to_full].
  - rewrite nth_error_tabulate by exact Hlt. rewrite tabulate_length. split; [|reflexivity].
    rewrite Ed, Em, (dn_identity A i j WA Hs Hi Hj). reflexivity.
  - unfold dn. rewrite (get_full_entry A i j WA Hs Hi Hj). destruct WA as [_ WA]. rewrite Hs in WA.
    split; [apply nth_error_nth'; lia|exact WA].
  - rewrite nth_error_tabulate by exact Hlt. rewrite tabulate_length. split; [|reflexivity].
    rewrite Ed, Em. unfold dn. rewrite (get_banded_entry A ml mu i j WA Hs Hi Hj). cbn [add zero Rops nthd].
    destruct (in_band ml mu i j); [f_equal; unfold nthd; cbn [zero Rops]; lra|reflexivity].
Qed.

Definition mixed (sa sb : storage) : Prop :=
  match sa, sb with
  | SIdentity, SIdentity | SFull, SFull | SBanded _ _, SBanded _ _ => False
  | _, _ => True
  end.

(* any two different storage kinds: the result is a Full matrix holding the entrywise sum / difference *)
Theorem addsub_mixed sub_ (A B C : rmatrix) i j :
  wf A -> wf B -> mixed (m_st A) (m_st B) -> addsub Rops sub_ A B = Some C ->
  (i < m_n A)%nat -> (j < m_n A)%nat ->
  m_st C = SFull /\ get Rops C i j = Some (rop sub_ (dn A i j) (dn B i j)).
Proof.
  intros WA WB Hmix H Hi Hj. unfold addsub in H. destruct (negb (m_n A =? m_n B)%nat) eqn:En; [discriminate|].
  apply negb_false_iff, Nat.eqb_eq in En.
  assert (Hi' : (i < m_n B)%nat) by lia. assert (Hj' : (j < m_n B)%nat) by lia.
  destruct (to_full_entry A i j WA Hi Hj) as [EA LA]. destruct (to_full_entry B i j WB Hi' Hj') as [EB LB].
  rewrite <- En in EB, LB.
  assert (HC : C = mkM (m_n A) (m_n A)
                       (zipw (if sub_ then sub Rops else add Rops)
                             (to_full Rops (m_n A) (m_data A) (m_st A)) (to_full Rops (m_n A) (m_data B) (m_st B))) SFull).
  { destruct (m_st A) as [| |ml mu], (m_st B) as [| |ml2 mu2]; cbn in Hmix; try contradiction;
      inversion H; reflexivity. }
  subst C. split; [reflexivity|].
  pose proof (full_idx_lt (m_n A) (m_n A) i j Hi Hj) as Hlt.
  unfold get. cbn [m_n m_m m_st m_data].
  assert (A1 := Hi). assert (A2 := Hj). apply Nat.ltb_lt in A1. apply Nat.ltb_lt in A2. rewrite A1, A2. cbn [andb].
  rewrite nth_error_zipw by (rewrite LA, LB; reflexivity). rewrite EA, EB. destruct sub_; reflexivity.
Qed.

(* Identity (+|-) Identity *)
Theorem addsub_identity_identity sub_ (A B C : rmatrix) i j :
  wf A -> wf B -> m_st A = SIdentity -> m_st B = SIdentity -> addsub Rops sub_ A B = Some C ->
  (i < m_n A)%nat -> (j < m_n A)%nat ->
  get Rops C i j = Some (rop sub_ (dn A i j) (dn B i j)).
Proof.
  intros WA WB SA SB H Hi Hj. unfold addsub in H. destruct (negb (m_n A =? m_n B)%nat) eqn:En; [discriminate|].
  apply negb_false_iff, Nat.eqb_eq in En. rewrite SA, SB in H. inversion H; subst C; clear H.
  assert (Hi' : (i < m_n B)%nat) by lia. assert (Hj' : (j < m_n B)%nat) by lia.
  rewrite (dn_identity A i j WA SA Hi Hj), (dn_identity B i j WB SB Hi' Hj').
  pose proof (full_idx_lt (m_n A) (m_n A) i j Hi Hj) as Hlt.
  destruct (cell_div_mod (m_n A) i j Hj) as [Ed Em].
  unfold get. cbn [m_n m_m m_st m_data].
  assert (A1 := Hi). assert (A2 := Hj). apply Nat.ltb_lt in A1. apply Nat.ltb_lt in A2. rewrite A1, A2. cbn [andb].
  rewrite nth_error_tabulate by exact Hlt. rewrite Ed, Em. f_equal.
  destruct sub_, (i =? j)%nat; cbn [rop add zero one Rops]; lra.
Qed.

(* component_add / component_sub: every entry, also the implicit zeros of a band and the implicit entries of an
   Identity, receives the scalar (c = 0 on a Banded matrix: unchanged, which is the same thing) *)
Theorem caddsub_dense sub_ (A : rmatrix) c i j :
  wf A -> (i < m_n A)%nat -> (j < m_n A)%nat ->
  get Rops (caddsub Rops sub_ A c) i j = Some (rop sub_ (dn A i j) c).
Proof.
  intros WA Hi Hj. pose proof (full_idx_lt (m_n A) (m_n A) i j Hi Hj) as Hlt.
  destruct (cell_div_mod (m_n A) i j Hj) as [Ed Em].
  assert (A1 := Hi). assert (A2 := Hj). apply Nat.ltb_lt in A1. apply Nat.ltb_lt in A2.
  unfold caddsub. destruct (m_st A) as [| |ml mu] eqn:Hs.
  - rewrite (dn_identity A i j WA Hs Hi Hj). unfold get. cbn [m_n m_m m_st m_data]. rewrite A1, A2. cbn [andb].
    rewrite nth_error_tabulate by exact Hlt. rewrite Ed, Em. f_equal.
    destruct sub_, (i =? j)%nat; cbn [rop add sub zero one Rops]; lra.
  - unfold dn. rewrite (get_full_entry A i j WA Hs Hi Hj). destruct WA as [Hm WA]. rewrite Hs in WA.
    unfold get. cbn [m_n m_m m_st m_data]. rewrite Hm, A1, A2. cbn [andb].
    rewrite nth_error_map, (nth_error_nth' (m_data A) 0) by lia. cbn [option_map]. destruct sub_; reflexivity.
  - unfold dn at 1. rewrite (get_banded_entry A ml mu i j WA Hs Hi Hj).
    cbn [eqb Rops]. destruct (Reqb c (zero Rops)) eqn:Ec.
    + apply Reqb_true in Ec. cbn [zero Rops] in Ec. subst c.
      rewrite (get_banded_entry A ml mu i j WA Hs Hi Hj). f_equal. destruct sub_; cbn [rop]; lra.
    + unfold get. cbn [m_n m_m m_st m_data]. rewrite A1, A2. cbn [andb].
      rewrite nth_error_tabulate by exact Hlt. rewrite Ed, Em. f_equal. unfold nthd. cbn [zero Rops].
      destruct sub_, (in_band ml mu i j); cbn [rop add sub zero Rops]; lra.
Qed.

(* is_identity agrees with the dense definition *)
Lemma get_total (A : rmatrix) i j : wf A -> (i < m_n A)%nat -> (j < m_n A)%nat -> get Rops A i j = Some (dn A i j).
Proof.
  intros WA Hi Hj. unfold dn. destruct (m_st A) as [| |ml mu] eqn:Hs.
  - pose proof WA as [Hm Hw]. rewrite Hs in Hw. unfold get. rewrite Hm, Hs, Hw.
    apply Nat.ltb_lt in Hi. apply Nat.ltb_lt in Hj. rewrite Hi, Hj. cbn [andb]. destruct (i =? j)%nat; reflexivity.
  - now rewrite (get_full_entry A i j WA Hs Hi Hj).
  - now rewrite (get_banded_entry A ml mu i j WA Hs Hi Hj).
Qed.

Definition cell_ok (A : rmatrix) (idx : nat) : bool :=
  let i := (idx / m_n A)%nat in let j := (idx mod m_n A)%nat in
  if (i =? j)%nat then Reqb (dn A i j) 1 else Reqb (dn A i j) 0.

Theorem is_identity_dense (A : rmatrix) :
  wf A -> m_st A <> SIdentity ->
  is_identity Rops A = Some (forallb (cell_ok A) (seq 0 (m_n A * m_n A))).
Proof.
  intros WA Hs. unfold is_identity. destruct (m_st A) as [| |ml mu] eqn:Es; [contradiction| |];
    pose proof WA as [Hm _]; rewrite Hm.
  all: assert (G : forall l acc, (forall idx, In idx l -> (idx < m_n A * m_n A)%nat) ->
         fold_left (fun acc idx =>
                      match acc with
                      | Some true =>
                          match get Rops A (idx / m_n A) (idx mod m_n A) with
                          | Some v => Some (if (idx / m_n A =? idx mod m_n A)%nat then eqb Rops v (one Rops) else eqb Rops v (zero Rops))
                          | None => None
                          end
                      | other => other
                      end) l (Some acc) = Some (acc && forallb (cell_ok A) l));
    [ induction l as [|idx l IH]; intros acc Hl; cbn [fold_left forallb];
      [now rewrite andb_true_r|];
      assert (Hidx : (idx < m_n A * m_n A)%nat) by (apply Hl; left; reflexivity);
      assert (Hn : m_n A <> 0%nat) by (intro E; rewrite E in Hidx; lia);
      assert (Hi : (idx / m_n A < m_n A)%nat) by (apply Nat.div_lt_upper_bound; [exact Hn|lia]);
      assert (Hj : (idx mod m_n A < m_n A)%nat) by (apply Nat.mod_upper_bound; exact Hn);
      destruct acc;
      [ rewrite (get_total A _ _ WA Hi Hj); cbn [eqb one zero Rops];
        change (if (idx / m_n A =? idx mod m_n A)%nat then Reqb (dn A (idx / m_n A) (idx mod m_n A)) 1
                else Reqb (dn A (idx / m_n A) (idx mod m_n A)) 0) with (cell_ok A idx);
        rewrite IH by (intros k Hk; apply Hl; right; exact Hk); cbn [andb]; reflexivity
      | rewrite IH by (intros k Hk; apply Hl; right; exact Hk); reflexivity ]
    | rewrite (G (seq 0 (m_n A * m_n A)) true) by (intros idx Hin; apply in_seq in Hin; lia); reflexivity ].
Qed.

Corollary is_identity_iff (A : rmatrix) :
  wf A ->
  (is_identity Rops A = Some true <-> forall i j, (i < m_n A)%nat -> (j < m_n A)%nat -> dn A i j = if (i =? j)%nat then 1 else 0).
Proof.
  intros WA. destruct (m_st A) as [| |ml mu] eqn:Es.
  - split; [intros _ i j Hi Hj; apply (dn_identity A i j WA Es Hi Hj)|intros _; unfold is_identity; now rewrite Es].
  - rewrite is_identity_dense by (try exact WA; rewrite Es; discriminate).
    split.
    + intros H i j Hi Hj. inversion H as [Hf]. rewrite forallb_forall in Hf.
      pose proof (full_idx_lt (m_n A) (m_n A) i j Hi Hj) as Hlt. destruct (cell_div_mod (m_n A) i j Hj) as [Ed Em].
      specialize (Hf (i * m_n A + j)%nat). unfold cell_ok in Hf. rewrite Ed, Em in Hf.
      assert (Hin : In (i * m_n A + j)%nat (seq 0 (m_n A * m_n A))) by (apply in_seq; lia).
      specialize (Hf Hin). destruct (i =? j)%nat; now apply Reqb_true in Hf.
    + intros H. f_equal. apply forallb_forall. intros idx Hin. apply in_seq in Hin.
      assert (Hn : m_n A <> 0%nat) by (intro E; rewrite E in Hin; lia).
      unfold cell_ok. rewrite H by (try (apply Nat.div_lt_upper_bound; [exact Hn|lia]); apply Nat.mod_upper_bound; exact Hn).
      destruct (_ =? _)%nat; apply Reqb_true; reflexivity.
  - rewrite is_identity_dense by (try exact WA; rewrite Es; discriminate).
    split.
    + intros H i j Hi Hj. inversion H as [Hf]. rewrite forallb_forall in Hf.
      pose proof (full_idx_lt (m_n A) (m_n A) i j Hi Hj) as Hlt. destruct (cell_div_mod (m_n A) i j Hj) as [Ed Em].
      specialize (Hf (i * m_n A + j)%nat). unfold cell_ok in Hf. rewrite Ed, Em in Hf.
      assert (Hin : In (i * m_n A + j)%nat (seq 0 (m_n A * m_n A))) by (apply in_seq; lia).
      specialize (Hf Hin). destruct (i =? j)%nat; now apply Reqb_true in Hf.
    + intros H. f_equal. apply forallb_forall. intros idx Hin. apply in_seq in Hin.
      assert (Hn : m_n A <> 0%nat) by (intro E; rewrite E in Hin; lia).
      unfold cell_ok. rewrite H by (try (apply Nat.div_lt_upper_bound; [exact Hn|lia]); apply Nat.mod_upper_bound; exact Hn).
      destruct (_ =? _)%nat; apply Reqb_true; reflexivity.
Qed.
