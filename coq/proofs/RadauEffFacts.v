(* Radau IIA as the code applies it (model/RadauEff.v): order, Pade (2,3) stability function, stability on the
   negative real axis.  Certificates are vm_compute'd on the constants regenerated from src/methods/radau.rs. *)
Require Import List ZArith QArith Qcanon Qreals Reals Lra Lia.
Require Import IVP.model.Lit IVP.model.RK IVP.model.Trees IVP.model.Vec IVP.model.Order IVP.model.RadauEff.
Require Import IVP.proofs.TreesFacts IVP.proofs.OrderFacts IVP.proofs.CertSmall IVP.proofs.ScaleFacts
               IVP.proofs.CertDop853 IVP.proofs.Stab3 IVP.proofs.RadauEffCert.
Import ListNotations.

(* ---------- canonical rationals as reals ---------- *)
Definition QcR (x : Qc) : R := Q2R (this x).
Lemma QcR_plus x y : QcR (x + y)%Qc = (QcR x + QcR y)%R.
Proof. unfold QcR, Qcplus. cbn [this Q2Qc]. rewrite (Qeq_eqR _ _ (Qred_correct _)). apply Q2R_plus. Qed.
Lemma QcR_mult x y : QcR (x * y)%Qc = (QcR x * QcR y)%R.
Proof. unfold QcR, Qcmult. cbn [this Q2Qc]. rewrite (Qeq_eqR _ _ (Qred_correct _)). apply Q2R_mult. Qed.
Lemma QcR_opp x : QcR (- x)%Qc = (- QcR x)%R.
Proof. unfold QcR, Qcopp. cbn [this Q2Qc]. rewrite (Qeq_eqR _ _ (Qred_correct _)). apply Q2R_opp. Qed.
Lemma QcR_minus x y : QcR (x - y)%Qc = (QcR x - QcR y)%R.
Proof. unfold Qcminus. rewrite QcR_plus, QcR_opp. ring. Qed.
Lemma QcR_0 : QcR 0%Qc = 0%R.
Proof. unfold QcR. cbn. unfold Q2R. cbn. lra. Qed.
Lemma QcR_1 : QcR 1%Qc = 1%R.
Proof. unfold QcR. cbn. unfold Q2R. cbn. lra. Qed.
Lemma QcR_le x y : (x <= y)%Qc -> (QcR x <= QcR y)%R.
Proof. unfold Qcle, QcR. apply Qle_Rle. Qed.
Lemma QcR_Q2Qc q : QcR (Q2Qc q) = Q2R q.
Proof. unfold QcR. cbn [this Q2Qc]. apply Qeq_eqR, Qred_correct. Qed.

(* ---------- the real-number reading ---------- *)
Module RadauReal.
  Import RE RadauCert.
  Local Open Scope R_scope.
  Definition aR (i j : nat) : R := QcR (a lit_q i j).
  Notation A9 := (aR 0 0) (only parsing).
  (* the generic 3-stage quantities of proofs/Stab3.v at the code's effective matrix *)
  Definition QzR (z : R) := Qz (aR 0 0) (aR 0 1) (aR 0 2) (aR 1 0) (aR 1 1) (aR 1 2) (aR 2 0) (aR 2 1) (aR 2 2) z.
  Definition PzR (z : R) := Pz (aR 0 0) (aR 0 1) (aR 0 2) (aR 1 0) (aR 1 1) (aR 1 2) (aR 2 0) (aR 2 1) (aR 2 2) z.
  Definition stages (z Z0 Z1 Z2 : R) : Prop :=
    stage_eqs (aR 0 0) (aR 0 1) (aR 0 2) (aR 1 0) (aR 1 1) (aR 1 2) (aR 2 0) (aR 2 1) (aR 2 2) z Z0 Z1 Z2.

  (* the nine entries are abstracted before anything is rewritten: unification must never unfold them *)
  Ltac absA := unfold aR;
    generalize (a lit_q 0 0) (a lit_q 0 1) (a lit_q 0 2) (a lit_q 1 0) (a lit_q 1 1) (a lit_q 1 2)
               (a lit_q 2 0) (a lit_q 2 1) (a lit_q 2 2); intros b00 b01 b02 b10 b11 b12 b20 b21 b22.
  Ltac pushR := repeat (rewrite QcR_plus || rewrite QcR_minus || rewrite QcR_mult || rewrite QcR_opp || rewrite QcR_1).

  (* the polynomial coefficients computed in Qc are the coefficients of PzR / QzR *)
  Lemma PzR_coefs z : PzR z = 1 + QcR (p 1) * z + QcR (p 2) * z * z + QcR (p 3) * z * z * z.
  Proof.
    unfold PzR, Pz, Stab3.tr, Stab3.m2, Stab3.det, Stab3.n0, Stab3.n1, Stab3.n2, Stab3.r0, Stab3.r1, Stab3.r2.
    unfold RadauCert.p, Ppoly. cbn [nth]. unfold RE.tr, RE.m2, RE.det, RE.n0, RE.n1, RE.n2, RE.r.
    absA. pushR. ring.
  Qed.
  Lemma QzR_coefs z : QzR z = 1 + QcR (qq 1) * z + QcR (qq 2) * z * z + QcR (qq 3) * z * z * z.
  Proof.
    unfold QzR, Qz, Stab3.tr, Stab3.m2, Stab3.det.
    unfold RadauCert.qq, Qpoly. cbn [nth]. unfold RE.tr, RE.m2, RE.det.
    absA. pushR. ring.
  Qed.

  Lemma sign k : (k < length signs)%nat -> QcR (fst (nth k signs (0, 0)%Qc)) <= QcR (snd (nth k signs (0, 0)%Qc)).
  Proof.
    intros Hk. apply QcR_le. apply qleb_le.
    pose proof signs_ok as H. rewrite forallb_forall in H. apply (H (nth k signs (0, 0)%Qc)). now apply nth_In.
  Qed.

  Ltac sgn k := let H := fresh "S" in
                assert (H := sign k ltac:(cbn; lia)); cbn [nth signs fst snd] in H;
                rewrite ?QcR_opp, ?QcR_0, ?QcR_Q2Qc in H.

  Lemma q2r_half : Q2R (1 # 2) = 1 / 2.  Proof. unfold Q2R. cbn. lra. Qed.
  Lemma q2r_tenth : Q2R (1 # 10) = 1 / 10.  Proof. unfold Q2R. cbn. lra. Qed.
  Lemma q2r_61 : Q2R (1 # 61) = 1 / 61.  Proof. unfold Q2R. cbn. lra. Qed.
  Lemma q2r_e15 : Q2R (1 # 10 ^ 15) = 1 / 10 ^ 15.
  Proof.
    unfold Q2R. cbn [Qnum Qden]. replace (IZR (Z.pos (10 ^ 15))) with (10 ^ 15)%R; [lra|].
    rewrite pow_IZR. f_equal.
  Qed.

  Theorem real_axis_stable s : 0 <= s -> 1 <= QzR (- s) /\ - QzR (- s) <= PzR (- s) <= QzR (- s).
  Proof.
    intros Hs. rewrite PzR_coefs, QzR_coefs.
    sgn 0%nat. sgn 1%nat. sgn 2%nat. sgn 3%nat. sgn 4%nat. sgn 5%nat. sgn 6%nat. sgn 7%nat. sgn 8%nat.
    apply real_axis_bound; lra.
  Qed.

  Theorem real_axis_decays s : 1 <= s -> Rabs (PzR (- s)) <= (100 / s + 1 / 10 ^ 13) * QzR (- s).
  Proof.
    intros Hs. rewrite PzR_coefs, QzR_coefs.
    sgn 6%nat. sgn 7%nat. sgn 9%nat. sgn 10%nat. sgn 11%nat. sgn 12%nat. sgn 13%nat. sgn 14%nat. sgn 15%nat.
    rewrite ?q2r_half, ?q2r_tenth, ?q2r_61, ?q2r_e15 in *.
    apply real_axis_decay; try lra; apply Rabs_le; lra.
  Qed.

  (* what one Radau step does to the test equation y' = lambda y, z = h lambda <= 0: any solution of the stage
     equations (the fixed point of the simplified Newton iteration, whatever the number of passes) gives
     ynew = R(z) y with R = P/Q, |R(z)| <= 1, and R(z) -> 0 (up to 1e-13) as z -> -infinity *)
  Theorem radau_amplification s Z0 Z1 Z2 :
    0 <= s -> stages (- s) Z0 Z1 Z2 ->
    1 + Z2 = PzR (- s) / QzR (- s) /\ Rabs (1 + Z2) <= 1 /\ (1 <= s -> Rabs (1 + Z2) <= 100 / s + 1 / 10 ^ 13).
  Proof.
    intros Hs Hst. destruct (real_axis_stable s Hs) as [HQ [Hlo Hhi]].
    assert (HQ0 : QzR (- s) <> 0) by lra.
    pose proof (stability_function _ _ _ _ _ _ _ _ _ _ HQ0 _ _ _ Hst) as E. fold (PzR (- s)) (QzR (- s)) in E.
    split; [exact E|]. rewrite E. unfold Rdiv. rewrite Rabs_mult, (Rabs_right (/ QzR (- s))).
    2:{ apply Rle_ge, Rlt_le, Rinv_0_lt_compat. lra. }
    split.
    - apply (Rmult_le_reg_r (QzR (- s))); [lra|]. rewrite Rmult_assoc, Rinv_l, Rmult_1_r, Rmult_1_l by exact HQ0.
      apply Rabs_le. lra.
    - intros H1. apply (Rmult_le_reg_r (QzR (- s))); [lra|]. rewrite Rmult_assoc, Rinv_l, Rmult_1_r by exact HQ0.
      exact (real_axis_decays s H1).
  Qed.
End RadauReal.

(* ---------- order conditions in final form ---------- *)
Module RadauOrder.
  Import RE RadauCert.
  Local Open Scope Qc_scope.
  Notation iD := (/ Z2Qc (D lit_q)).
  Lemma order5_sound : forall t, (size t <= 5)%nat -> exists M : Z,
      Z2Qc (gamma t) * qdot (beff lit_q) (Phi QcK (Aeff lit_q) 3 t) - 1 = iD ^ size t * Z2Qc M /\
      (Z.abs M * 10^14 <= gamma t * 1 * (D lit_q) ^ Z.of_nat (size t))%Z.
  Proof.
    rewrite A_lit, b_lit.
    exact (zcheck_approx_sound (Ai lit_q) (bi lit_q) 3 (D lit_q) Dlit_pos 1 (10^14) 5 order5).
  Qed.
  Lemma order5_f64_sound : forall t, (size t <= 5)%nat -> exists M : Z,
      Z2Qc (gamma t) * qdot (beff f64_q) (Phi QcK (Aeff f64_q) 3 t) - 1 = (/ Z2Qc (D f64_q)) ^ size t * Z2Qc M /\
      (Z.abs M * 10^14 <= gamma t * 1 * (D f64_q) ^ Z.of_nat (size t))%Z.
  Proof.
    rewrite A_f64, b_f64.
    exact (zcheck_approx_sound (Ai f64_q) (bi f64_q) 3 (D f64_q) Df64_pos 1 (10^14) 5 order5_f64).
  Qed.
  Lemma resid6_eq :
    Z2Qc (gamma t6) * qdot (beff lit_q) (Phi QcK (Aeff lit_q) 3 t6) - 1 = iD ^ size t6 * Z2Qc M6.
  Proof.
    rewrite A_lit, b_lit.
    pose proof (cond_value (Ai lit_q) (bi lit_q) 3 (D lit_q) Dlit_pos t6) as H.
    Transparent M6. unfold M6. Opaque M6. exact H.
  Qed.
End RadauOrder.
