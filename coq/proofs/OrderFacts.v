Require Import List ZArith QArith Qcanon Lia.
Require Import IVP.model.Lit IVP.model.RK IVP.model.Trees IVP.model.Vec IVP.model.Order.
Require Import IVP.proofs.TreesFacts.
Import ListNotations.

Section Generic.
  Context {K : Type} (R : KOps K) (A : list (list K)) (s : nat).

  Lemma Phi_Node cs : Phi R A s (Node cs) = PhiF R A s cs.
  Proof. reflexivity. Qed.
  Lemma gamma_Node cs : gamma (Node cs) = (Z.of_nat (S (sizeF cs)) * gammaF cs)%Z.
  Proof. reflexivity. Qed.

  (* the table entry of a tree *)
  Definition wof (t : tree) : wval :=
    mkW (Phi R A s t) (kmv R A (Phi R A s t)) (gamma t) (size t).

  Lemma evalT_weights t :
    evalT _ _ (wnil R s) (wcons R) (wnode R A) t = wof t.
  Proof.
    induction t as [cs IH] using tree_ind'.
    rewrite evalT_Node. unfold wof. rewrite Phi_Node, gamma_Node, size_Node.
    assert (HF : evalF _ _ (wnil R s) (wcons R) (wnode R A) cs = (PhiF R A s cs, gammaF cs)).
    { induction IH as [|c r Hc _ IHr]; [reflexivity|].
      cbn [evalF PhiF gammaF]. rewrite Hc, IHr. reflexivity. }
    rewrite HF. reflexivity.
  Qed.

  Theorem check_all_sound (c : wval -> bool) (p : nat) :
    check_all R A s c p = true -> forall t, (size t <= p)%nat -> c (wof t) = true.
  Proof.
    unfold check_all, wtrees. intros H t Ht. rewrite forallb_forall in H. apply H.
    rewrite <- evalT_weights. apply treesUpTo_complete. exact Ht.
  Qed.
End Generic.

(* ring homomorphisms commute with elementary weights *)
Section Hom.
  Context {K K' : Type} (R : KOps K) (R' : KOps K') (phi : K -> K').
  Hypothesis phi0 : phi (kzero R) = kzero R'.
  Hypothesis phi1 : phi (kone R) = kone R'.
  Hypothesis phiadd : forall a b, phi (kadd R a b) = kadd R' (phi a) (phi b).
  Hypothesis phimul : forall a b, phi (kmul R a b) = kmul R' (phi a) (phi b).

  Lemma hom_map2_mul a b : map phi (map2 (kmul R) a b) = map2 (kmul R') (map phi a) (map phi b).
  Proof.
    revert b; induction a as [|x a IH]; intros [|y b]; simpl; try reflexivity.
    now rewrite phimul, IH.
  Qed.
  Lemma hom_dot a b : phi (kdot R a b) = kdot R' (map phi a) (map phi b).
  Proof.
    unfold kdot. rewrite <- hom_map2_mul.
    induction (map2 (kmul R) a b) as [|x l IH]; simpl; [exact phi0|].
    now rewrite phiadd, IH.
  Qed.
  Lemma hom_mv A v : map phi (kmv R A v) = kmv R' (map (map phi) A) (map phi v).
  Proof.
    unfold kmv. rewrite !map_map. apply map_ext. intros r. apply hom_dot.
  Qed.
  Lemma hom_ones s : map phi (kones R s) = kones R' s.
  Proof. unfold kones. induction s; simpl; [reflexivity|]. now rewrite phi1, IHs. Qed.

  Theorem hom_Phi A s t :
    map phi (Phi R A s t) = Phi R' (map (map phi) A) s t.
  Proof.
    induction t as [cs IH] using tree_ind'. rewrite !Phi_Node.
    induction IH as [|c r Hc _ IHr]; cbn [PhiF]; [apply hom_ones|].
    unfold kvmul. rewrite hom_map2_mul, hom_mv, Hc, IHr. reflexivity.
  Qed.
End Hom.

(* ------------------------------- rational instance ------------------------------- *)
Local Open Scope Qc_scope.

Lemma qeqb_correct x y : qeqb x y = true -> x = y.
Proof. unfold qeqb. intros H. apply Qc_is_canon. now apply Qeq_bool_iff. Qed.

Lemma qleb_le x y : qleb x y = true <-> (x <= y).
Proof. unfold qleb, Qcle. apply Qle_bool_iff. Qed.

Lemma qabs_nonneg x : 0 <= qabs x.
Proof.
  unfold qabs. destruct (Qle_bool 0 (this x)) eqn:E.
  - apply Qle_bool_iff in E. exact E.
  - assert (H : ~ (0 <= this x)%Q) by (intro H; apply Qle_bool_iff in H; congruence).
    apply Qnot_le_lt in H. apply Qlt_le_weak in H.
    change (- Q2Qc 0 <= - x). apply Qcopp_le_compat. exact H.
Qed.

Section QcSound.
  Variables (A : list qvec) (s : nat) (w : qvec) (p : nat).
  Notation QPhi := (Phi QcK A s).

  Theorem check_exact_sound :
    check_all QcK A s (cond_exact w) p = true ->
    forall t, (size t <= p)%nat -> Z2Qc (gamma t) * qdot w (QPhi t) = 1.
  Proof.
    intros H t Ht. apply (check_all_sound _ _ _ _ _ H) in Ht. now apply qeqb_correct in Ht.
  Qed.

  Theorem check_zero_sound :
    check_all QcK A s (cond_zero w) p = true ->
    forall t, (size t <= p)%nat -> qdot w (QPhi t) = 0.
  Proof.
    intros H t Ht. apply (check_all_sound _ _ _ _ _ H) in Ht. now apply qeqb_correct in Ht.
  Qed.

  Theorem check_approx_sound tol :
    check_all QcK A s (cond_approx tol w) p = true ->
    forall t, (size t <= p)%nat ->
      qabs (Z2Qc (gamma t) * qdot w (QPhi t) - 1) <= Z2Qc (gamma t) * tol.
  Proof.
    intros H t Ht. apply (check_all_sound _ _ _ _ _ H) in Ht. now apply qleb_le in Ht.
  Qed.

  Theorem check_zero_approx_sound tol :
    check_all QcK A s (cond_zero_approx tol w) p = true ->
    forall t, (size t <= p)%nat -> qabs (qdot w (QPhi t)) <= tol.
  Proof.
    intros H t Ht. apply (check_all_sound _ _ _ _ _ H) in Ht. now apply qleb_le in Ht.
  Qed.
End QcSound.
