(* C18 for the DOPRI5 skeleton: nfev = number of logged right-hand-side calls; for ANY kernel
   that reports its six stage evaluations, ANY right-hand side and ANY callback. *)
Require Import List ZArith Bool Lia.
Require Import IVP.model.Lit IVP.model.Ops IVP.model.Vec IVP.model.Common IVP.model.RK IVP.model.Dopri5.
Import ListNotations.

Section Counters.
  Context {F : Type} (O : Ops F) {H : Type}.
  Variable P : params (F:=F).
  Variable f : F -> list F -> list F.
  Variables (xend posneg hmax : F).
  Variable cb : H -> F -> F -> list F -> option (list F * F * F) -> H * flag F * list F.
  Variable kern : F -> list F -> list F -> F -> attempt (F:=F).
  Hypothesis kern_calls : forall x y k h, length (at_calls (kern x y k h)) = 6.

  (* nfev = number of logged evaluations, and naccpt never exceeds nstep *)
  Definition counted (st : stats) (log : list (F * list F)) : Prop :=
    nfev st = N.of_nat (length log) /\ (naccpt st <= nstep st)%N.
  (* inside an attempt: the step has been counted, its acceptance not yet *)
  Definition counted' (st : stats) (log : list (F * list F)) : Prop :=
    nfev st = N.of_nat (length log) /\ (naccpt st < nstep st)%N.

  Lemma counted_add st log calls k :
    counted st log -> length calls = k ->
    counted' (add_fev (add_step st) (N.of_nat k)) (rev_append calls log).
  Proof.
    unfold counted, counted'. intros [Hc Hn] Hl. simpl.
    rewrite rev_append_rev, app_length, rev_length, Hl, Hc. split; lia.
  Qed.
  Lemma counted_weaken st log : counted' st log -> counted st log.
  Proof. unfold counted, counted'. intros [? ?]; split; [assumption|lia]. Qed.
  Lemma counted_acc st log : counted' st log -> counted (add_acc st) log.
  Proof. unfold counted, counted'. intros [? ?]; split; simpl; [assumption|lia]. Qed.

  Ltac stats_simpl :=
    repeat match goal with
           | |- context [nfev (add_step ?s)] => change (nfev (add_step s)) with (nfev s)
           | |- context [nfev (add_acc ?s)] => change (nfev (add_acc s)) with (nfev s)
           | |- context [nfev (add_rej ?s)] => change (nfev (add_rej s)) with (nfev s)
           end.

  Lemma step_counted s :
    counted (s_stats s) (s_log s) ->
    match step O P f xend posneg hmax cb kern s with
    | inl s' => counted (s_stats s') (s_log s')
    | inr r => counted (r_stats r) (r_log r)
    end.
  Proof.
    intros Hc. unfold step, finish.
    destruct (N.ltb _ _); [exact Hc|].
    destruct (leb O _ _); [exact Hc|].
    destruct (landing _ _ _ _ _ _) as [h last].
    set (a := kern (s_x s) (s_y s) (s_k1 s) h).
    assert (Hk' : counted' (add_fev (add_step (s_stats s)) 6)
                           (rev_append (at_calls a) (s_log s))).
    { change 6%N with (N.of_nat 6). apply counted_add; [exact Hc|apply kern_calls]. }
    pose proof (counted_acc _ _ Hk') as Hk.
    destruct (leb O (at_err a) (one O)).
    - (* accepted *)
      destruct (stiff_test _ _ _ _ _ _ _) as [[[hlamb nonstiff] iasti] sexit].
      destruct sexit; [exact Hk|].
      destruct (cb _ _ _ _ _) as [[cbs fl] ycb].
      assert (Hf : forall k2, let '(k1, st', lg') := after_flag f fl (add O (s_x s) h) ycb k2
                                 (add_acc (add_fev (add_step (s_stats s)) 6))
                                 (rev_append (at_calls a) (s_log s)) in counted st' lg').
      { intros k2. destruct fl; cbn [after_flag]; try exact Hk.
        destruct Hk as [Hk1 Hk2]. unfold counted in *. simpl in *. rewrite Hk1. split; [lia|exact Hk2]. }
      destruct fl; try exact Hk;
        (specialize (Hf (at_knew a));
         destruct (after_flag _ _ _ _ _ _ _) as [[k1 st'] lg'];
         destruct last; exact Hf).
    - (* rejected *)
      cbn [s_stats s_log]. apply counted_weaken in Hk'.
      destruct (N.ltb 1 _); [|exact Hk'].
      destruct Hk' as [Hk1 Hk2]. split; [exact Hk1|exact Hk2].
  Qed.

  Theorem loop_counted fuel s r :
    counted (s_stats s) (s_log s) ->
    loop O P f xend posneg hmax cb kern fuel s = Some r ->
    counted (r_stats r) (r_log r).
  Proof.
    revert s. induction fuel as [|k IH]; intros s Hc Hl; [discriminate|].
    simpl in Hl. pose proof (step_counted s Hc) as Hs.
    destruct (step O P f xend posneg hmax cb kern s) as [s'|r'].
    - eapply IH; eauto.
    - now inversion Hl; subst.
  Qed.
End Counters.

Require Import IVP.proofs.RKFacts IVP.model.Tableau.

Section Solve.
  Context {F : Type} (O : Ops F) {H : Type}.

  Lemma kernel_calls f atol rtol x y k h :
    length (at_calls (kernel O f atol rtol x y k h)) = 6.
  Proof.
    unfold kernel.
    pose proof (run_stages_calls O f x h y DOPRI5T.stages [k] []) as Hl.
    destruct (run_stages O f x h y DOPRI5T.stages [k] []) as [ks calls]. exact Hl.
  Qed.

  (* nfev reported by the DOPRI5 solver = number of right-hand-side evaluations it made,
     for every problem, tolerance, configuration and callback *)
  Theorem solve_counted (P : params) f x0 y0 xend rtol atol
          (cb : H -> F -> F -> list F -> option (list F * F * F) -> H * flag F * list F) cb0 fuel r :
    solve O P f x0 y0 xend rtol atol cb cb0 fuel = Some r ->
    nfev (r_stats r) = N.of_nat (length (r_log r)) /\ (naccpt (r_stats r) <= nstep (r_stats r))%N.
  Proof.
    unfold solve.
    destruct (_ || _); [discriminate|]. destruct (_ || _); [discriminate|].
    destruct (ltb O _ _); [discriminate|]. destruct (_ || _); [discriminate|].
    set (st1 := match p_first_step P with Some _ => _ | None => _ end).
    assert (H1 : let '(h, st, lg) := st1 in counted st lg).
    { subst st1. destruct (p_first_step P).
      - split; [reflexivity|simpl; lia].
      - destruct (hinit _ _ _ _ _ _ _ _ _ _) as [h c]. split; [reflexivity|simpl; lia]. }
    destruct st1 as [[h st] lg].
    destruct (cb cb0 x0 x0 y0 None) as [[cbs fl] y].
    destruct fl.
    - intros E. eapply (loop_counted O P f); [apply kernel_calls | | exact E]. exact H1.
    - intros E. inversion E; subst. exact H1.
    - intros E. eapply (loop_counted O P f); [apply kernel_calls | | exact E]. exact H1.
    - intros E. eapply (loop_counted O P f); [apply kernel_calls | | exact E].
      destruct H1 as [H1 H1']. unfold counted in *. cbn [s_stats s_log]. simpl in *. rewrite H1. split; [lia|exact H1'].
  Qed.
End Solve.
