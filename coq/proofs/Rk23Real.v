(* C03 / C11 / C04 for the RK23 skeleton in real arithmetic, for ANY kernel, right-hand side and callback:
   accepted abscissae move strictly toward xend and never pass it; Success is reported exactly when
   x = xend; every attempted step is at most max_step long (RK23 has no 1% landing stretch);
   a rejection never enlarges the step. *)
Require Import Reals Lra List ZArith Bool QArith Qreals.
Require Import IVP.model.Lit IVP.model.Ops IVP.model.Vec IVP.model.Common IVP.model.RK IVP.model.Rk23
               IVP.model.RealOps IVP.gen.Inline.
Import ListNotations.
Local Open Scope R_scope.

Section Real.
  Context {H : Type}.
  Variable P : params (F:=R).
  Variable f : R -> list R -> list R.
  Variables (xend posneg hmax : R).
  Variable cb : H -> R -> R -> list R -> option (list R * R * R) -> H * flag R * list R.
  Variable kern : R -> list R -> list R -> R -> attempt (F:=R).

  Hypothesis Hposneg : posneg = 1 \/ posneg = -1.
  Hypothesis Hsmin : 0 < p_scale_min P.
  Hypothesis Hhmax : 0 < hmax.

  Notation step := (step Rops P f xend posneg hmax cb kern).

  Definition Inv (s : state H) : Prop :=
    0 < (xend - s_x s) * posneg /\ 0 < s_h s * posneg.

  Lemma posneg_sq : posneg * posneg = 1.
  Proof. destruct Hposneg as [-> | ->]; lra. Qed.

  (* the step actually attempted from (x, h) *)
  Definition htry (x h : R) : R :=
    if Rltb 0 ((x + h - xend) * posneg) then xend - x else h.

  Lemma htry_spec x h :
    0 < (xend - x) * posneg -> 0 < h * posneg ->
    0 < htry x h * posneg /\ 0 <= (xend - (x + htry x h)) * posneg /\
    htry x h * posneg <= h * posneg.
  Proof.
    intros Hx Hh. unfold htry. destruct (Rltb 0 _) eqn:E;
      [apply Rltb_true in E|apply Rltb_false in E];
      destruct Hposneg as [Ep|Ep]; rewrite Ep in *; repeat split; lra.
  Qed.

  (* the abscissa after an accepted step: the landing step assigns xend itself (in exact arithmetic the same number) *)
  Lemma xnew_eq x h :
    (if ltb Rops (zero Rops) (mul Rops (sub Rops (add Rops x h) xend) posneg)
     then xend else add Rops x (htry x h)) = add Rops x (htry x h).
  Proof.
    unfold htry. cbn. destruct (Rltb 0 ((x + h - xend) * posneg)); [ring|reflexivity].
  Qed.

  Lemma factor_pos a : 0 < Rmax a (p_scale_min P).
  Proof. eapply Rlt_le_trans; [exact Hsmin|apply Rmax_r]. Qed.

  Lemma accept_h_sign h err :
    0 < h * posneg ->
    let h1 := h * Rmax (Rmin (p_safety P * Rpower err (Q2R (lit_q LM1_3))) (p_scale_max P)) (p_scale_min P) in
    0 < (if Rltb hmax (Rabs h1) then hmax * posneg else h1) * posneg.
  Proof.
    intros Hh h1. destruct (Rltb _ _).
    - replace (hmax * posneg * posneg) with (hmax * (posneg * posneg)) by ring. rewrite posneg_sq. lra.
    - subst h1. rewrite Rmult_assoc, (Rmult_comm (Rmax _ _)), <- Rmult_assoc.
      apply Rmult_lt_0_compat; [exact Hh|apply factor_pos].
  Qed.

  Theorem step_discipline s :
    Inv s ->
    match step s with
    | inl s' => Inv s' /\ 0 <= (s_x s' - s_x s) * posneg /\
                (s_x s' <> s_x s -> 0 < (s_x s' - s_x s) * posneg)
    | inr r => 0 <= (xend - r_x r) * posneg /\ 0 <= (r_x r - s_x s) * posneg /\
               (r_status r = Success <-> r_x r = xend /\ r_status r <> UserInterrupt)
    end.
  Proof.
    intros [Hx Hh]. unfold Rk23.step.
    assert (Hne : s_x s <> xend) by (intro E; rewrite E in Hx; lra).
    destruct (N.leb _ _).
    { cbn [r_x r_status]. repeat split; try lra; try discriminate; try (intros [E0 _]; contradiction). }
    destruct (leb Rops _ _).
    { cbn [r_x r_status]. repeat split; try lra; try discriminate; try (intros [E0 _]; contradiction). }
    change (if ltb Rops (zero Rops) (mul Rops (sub Rops (add Rops (s_x s) (s_h s)) xend) posneg)
            then sub Rops xend (s_x s) else s_h s) with (htry (s_x s) (s_h s)).
    rewrite (xnew_eq (s_x s) (s_h s)).
    destruct (htry_spec (s_x s) (s_h s) Hx Hh) as [Hh' [Hend Hle]].
    set (h := htry (s_x s) (s_h s)) in *.
    set (a := kern (s_x s) (s_y s) (s_k1 s) h).
    destruct (leb Rops (at_err a) (one Rops)).
    - destruct (cb _ _ _ _ _) as [[cbs fl] ycb].
      assert (Hmove : 0 < (add Rops (s_x s) h - s_x s) * posneg).
      { cbn. replace (s_x s + h - s_x s) with h by ring. exact Hh'. }
      assert (Hend' : 0 <= (xend - add Rops (s_x s) h) * posneg) by exact Hend.
      assert (Hgen : forall k1 st lg,
        match (if eqb Rops (add Rops (s_x s) h) xend
               then inr (mkR Success
                         (if ltb Rops hmax (abs Rops (mul Rops h (fmax Rops (fmin Rops (mul Rops (p_safety P) (pow Rops (at_err a) (lit Rops LM1_3))) (p_scale_max P)) (p_scale_min P))))
                          then mul Rops hmax posneg
                          else mul Rops h (fmax Rops (fmin Rops (mul Rops (p_safety P) (pow Rops (at_err a) (lit Rops LM1_3))) (p_scale_max P)) (p_scale_min P)))
                         st (add Rops (s_x s) h) ycb lg cbs)
               else inl (mkS (add Rops (s_x s) h) ycb k1
                         (if ltb Rops hmax (abs Rops (mul Rops h (fmax Rops (fmin Rops (mul Rops (p_safety P) (pow Rops (at_err a) (lit Rops LM1_3))) (p_scale_max P)) (p_scale_min P))))
                          then mul Rops hmax posneg
                          else mul Rops h (fmax Rops (fmin Rops (mul Rops (p_safety P) (pow Rops (at_err a) (lit Rops LM1_3))) (p_scale_max P)) (p_scale_min P)))
                         st lg cbs)) : state H + result H with
        | inl s' => Inv s' /\ 0 <= (s_x s' - s_x s) * posneg /\
                    (s_x s' <> s_x s -> 0 < (s_x s' - s_x s) * posneg)
        | inr r => 0 <= (xend - r_x r) * posneg /\ 0 <= (r_x r - s_x s) * posneg /\
                   (r_status r = Success <-> r_x r = xend /\ r_status r <> UserInterrupt)
        end).
      { intros k1 st lg. destruct (eqb Rops _ _) eqn:Eq.
        - cbn [r_x r_status]. apply Reqb_true in Eq. repeat split; try lra; try discriminate; try exact Eq.
        - unfold Inv. cbn [s_x s_h]. assert (Hneq : add Rops (s_x s) h <> xend).
          { intro E. apply Reqb_true in E. cbn in Eq, E. rewrite E in Eq. discriminate. }
          split; [|split; [lra|intros _; exact Hmove]].
          split.
          + destruct Hend' as [Hlt|Heq]; [exact Hlt|]. exfalso. apply Hneq.
            destruct Hposneg as [Ep|Ep]; rewrite Ep in *; lra.
          + apply (accept_h_sign h (at_err a) Hh'). }
      destruct fl; try apply Hgen.
      cbn [r_x r_status]. repeat split; try lra; try discriminate.
      intros [_ E]. exfalso. apply E. reflexivity.
    - unfold Inv. cbn [s_x s_h is_nan Rops mul fmax fmin one]. split; [|split; [lra|intros E; contradiction]].
      split; [exact Hx|].
      match goal with |- 0 < ?h' * ?fac * posneg => replace (h' * fac * posneg) with ((h' * posneg) * fac) by ring end.
      apply Rmult_lt_0_compat; [exact Hh'|apply factor_pos].
  Qed.

  Theorem loop_discipline fuel s r :
    Inv s -> loop Rops P f xend posneg hmax cb kern fuel s = Some r ->
    0 <= (xend - r_x r) * posneg /\ 0 <= (r_x r - s_x s) * posneg /\
    (r_status r = Success <-> r_x r = xend /\ r_status r <> UserInterrupt).
  Proof.
    revert s. induction fuel as [|k IH]; intros s Hi Hl; [discriminate|].
    simpl in Hl. pose proof (step_discipline s Hi) as Hs.
    destruct (step s) as [s'|r'].
    - destruct Hs as [Hi' [Hm _]]. specialize (IH s' Hi' Hl).
      destruct IH as [A [B C]]. repeat split; try apply C; try assumption. lra.
    - inversion Hl; subst r'. exact Hs.
  Qed.

  (* ---------------- C11: max_step; C04: rejections shrink ---------------- *)
  Hypothesis Hsmin1 : p_scale_min P <= 1.

  Lemma abs_posneg a : 0 < a * posneg -> Rabs a = a * posneg.
  Proof.
    intros Ha. destruct Hposneg as [E|E]; rewrite E in *.
    - rewrite Rabs_right; lra.
    - rewrite Rabs_left; lra.
  Qed.

  (* the step proposed after a rejection is the attempted step times a factor in (0, 1] *)
  Lemma reject_factor_le1 (factor : R) :
    0 < Rmax (Rmin factor 1) (p_scale_min P) <= 1.
  Proof.
    split; [apply factor_pos|]. apply Rmax_lub; [apply Rmin_r|exact Hsmin1].
  Qed.

  Theorem step_max_step s :
    Inv s -> Rabs (s_h s) <= hmax ->
    Rabs (htry (s_x s) (s_h s)) <= hmax /\
    match step s with
    | inl s' => Rabs (s_h s') <= hmax /\ (s_x s' = s_x s -> Rabs (s_h s') <= Rabs (htry (s_x s) (s_h s)))
    | inr _ => True
    end.
  Proof.
    intros [Hx Hh] Hb.
    destruct (htry_spec (s_x s) (s_h s) Hx Hh) as [Hh' [Hend Hle]].
    assert (Hb' : Rabs (htry (s_x s) (s_h s)) <= hmax).
    { rewrite (abs_posneg _ Hh'). rewrite (abs_posneg _ Hh) in Hb. lra. }
    split; [exact Hb'|]. unfold Rk23.step.
    destruct (N.leb _ _); [exact I|]. destruct (leb Rops _ _); [exact I|].
    change (if ltb Rops (zero Rops) (mul Rops (sub Rops (add Rops (s_x s) (s_h s)) xend) posneg)
            then sub Rops xend (s_x s) else s_h s) with (htry (s_x s) (s_h s)).
    rewrite (xnew_eq (s_x s) (s_h s)).
    set (h := htry (s_x s) (s_h s)) in *.
    set (a := kern (s_x s) (s_y s) (s_k1 s) h).
    destruct (leb Rops (at_err a) (one Rops)).
    - destruct (cb _ _ _ _ _) as [[cbs fl] ycb].
      assert (Hcl : forall h1, Rabs (if ltb Rops hmax (abs Rops h1) then mul Rops hmax posneg else h1) <= hmax).
      { intros h1. cbn. destruct (Rltb hmax (Rabs h1)) eqn:E.
        - rewrite Rabs_mult, (Rabs_right hmax) by lra.
          destruct Hposneg as [Ep|Ep]; rewrite Ep; [rewrite Rabs_R1; lra|].
          rewrite Rabs_left; lra.
        - apply Rltb_false in E. exact E. }
      assert (Hmv : add Rops (s_x s) h <> s_x s).
      { cbn. intro E. assert (h = 0) by lra. rewrite H0 in Hh'. lra. }
      destruct fl; try exact I;
        (destruct (eqb Rops _ _); [exact I|]; cbn [s_h s_x]; split; [apply Hcl|intros E; contradiction]).
    - cbn [s_h s_x is_nan Rops mul fmax fmin one].
      destruct (reject_factor_le1 (p_safety P * pow Rops (at_err a) (lit Rops LM1_3))) as [F0 F1].
      set (fac := Rmax _ _) in *.
      assert (Hr : Rabs (h * fac) <= Rabs h).
      { rewrite Rabs_mult, (Rabs_right fac) by lra.
        rewrite <- (Rmult_1_r (Rabs h)) at 2. apply Rmult_le_compat_l; [apply Rabs_pos|exact F1]. }
      split; [lra|intros _; exact Hr].
  Qed.
End Real.
