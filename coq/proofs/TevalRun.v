(* C05, the whole run: over the reals, for ANY chain of accepted steps x0 < x1 < ... < xN (forward) or x0 > ... > xN
   (backward), ANY per-step interpolants, ANY slack tol >= 0 and ANY requested times sorted in the direction of
   integration inside [x0, xN], the sampling half of the default handler (`sample` of model/SolOut.v, iterated over
   the initial callback and the steps) reports exactly the requested times, in order, duplicates kept.
   (Stated on the scan functions `sample` is made of; the last lemma says `sample` is those scans.) *)
Require Import List Arith Bool Lia Reals Lra.
Require Import IVP.model.Lit IVP.model.Ops IVP.model.Vec IVP.model.Common IVP.model.SolOut IVP.model.RealOps.
Require Import IVP.proofs.SolOutFacts.
Import ListNotations.
Local Open Scope R_scope.

Notation rv := (list R).

Lemma skipn_cons (l : list R) : forall i v r, skipn i l = v :: r ->
  skipn (S i) l = r /\ nth i l 0 = v /\ firstn (S i) l = firstn i l ++ [v] /\ (i < length l)%nat.
Proof.
  induction l as [|a l IH]; intros i v r E.
  - destruct i; discriminate.
  - destruct i as [|i].
    + cbn in E. inversion E; subst. cbn. repeat split; lia.
    + cbn [skipn] in E. destruct (IH i v r E) as [A [B [C D]]].
      change (firstn (S (S i)) (a :: l)) with (a :: firstn (S i) l). rewrite C.
      cbn [skipn nth firstn app length]. repeat split; [exact A|exact B|lia].
Qed.

Lemma in_firstn (l : list R) : forall k v, In v (firstn k l) -> In v l.
Proof.
  induction l as [|a l IH]; intros [|k] v H; cbn in *; try contradiction.
  destruct H as [H|H]; [left; exact H|right; eapply IH; exact H].
Qed.

Section Forward.
  Variable tol : R.
  Hypothesis Htol : 0 <= tol.
  Variable te : list R.
  Hypothesis Hsorted : forall i j, (i <= j < length te)%nat -> nth i te 0 <= nth j te 0.

  (* state of the scan: next index and the reported times (newest first) *)
  Definition Inv (x : R) (i : nat) (t : list R) : Prop :=
    (i <= length te)%nat /\ rev t = firstn i te /\ forall j, (i <= j < length te)%nat -> x + tol < nth j te 0.

  Lemma skipn_nth (l : list R) i j : nth j (skipn i l) 0 = nth (i + j) l 0.
  Proof.
    revert l. induction i as [|i IH]; intros l; [reflexivity|].
    destruct l as [|a l]; [destruct j; reflexivity|]. cbn [skipn Nat.add nth]. apply IH.
  Qed.

  (* the initial callback *)
  Lemma initial_inv x0 y0 :
    (forall v, In v te -> x0 - tol <= v) ->
    let '(i, t, ys) := scan_initial Rops tol x0 y0 te 0 [] [] in Inv x0 i t /\ length ys = length t.
  Proof.
    intros Hlo.
    assert (G : forall r i t ys, (i + length r = length te)%nat -> r = skipn i te -> rev t = firstn i te ->
                length ys = length t ->
                let '(i', t', ys') := scan_initial Rops tol x0 y0 r i t ys in Inv x0 i' t' /\ length ys' = length t').
    { induction r as [|v r IH]; intros i t ys Hl Hr Ht Hy; cbn [scan_initial].
      - split; [|exact Hy]. split; [cbn in Hl; lia|]. split; [exact Ht|]. intros j Hj. cbn in Hl. lia.
      - destruct (skipn_cons te i v r (eq_sym Hr)) as [Hs [Hv [Hf Hi]]].
        cbn [leb abs sub Rops]. destruct (Rleb (Rabs (v - x0)) tol) eqn:E.
        + apply IH.
          * cbn [length] in Hl. lia.
          * symmetry. exact Hs.
          * cbn [rev]. rewrite Ht, Hf. reflexivity.
          * cbn [length]. lia.
        + apply Rleb_false in E. split; [|exact Hy]. split; [lia|]. split; [exact Ht|].
          intros j Hj.
          assert (Hvj : v <= nth j te 0) by (rewrite <- Hv; apply Hsorted; lia).
          assert (Hin : In v te) by (rewrite <- Hv; apply nth_In; exact Hi).
          specialize (Hlo v Hin).
          assert (x0 + tol < v).
          { destruct (Rle_dec v (x0 + tol)) as [Hle|Hgt]; [|lra]. exfalso.
            assert (Rabs (v - x0) <= tol) by (apply Rabs_le; lra). lra. }
          lra. }
    specialize (G te 0%nat [] [] eq_refl eq_refl eq_refl eq_refl). exact G.
  Qed.

  (* one accepted forward step xold < x *)
  Lemma step_inv xold x (interp : R -> rv) i t ys :
    xold < x -> Inv xold i t -> length ys = length t ->
    let '(i', t', ys') := scan_step Rops true tol xold x interp (skipn i te) i t ys in
    Inv x i' t' /\ length ys' = length t'.
  Proof.
    intros Hx [Hi [Ht Hgt]] Hy.
    destruct (scan_step_spec Rops true tol xold x interp (skipn i te) i t ys) as [k [Hk [Hin [Hnext E]]]].
    cbv zeta in Hin, Hnext, E. rewrite E. clear E.
    assert (Hlen : length (skipn i te) = (length te - i)%nat) by apply skipn_length.
    (* every consumed entry is reported: it lies after the previous step end *)
    assert (Hall : filter (fun v => leb Rops (sub Rops xold tol) v) (firstn k (skipn i te)) = firstn k (skipn i te)).
    { assert (Hf : forall v, In v (firstn k (skipn i te)) -> leb Rops (sub Rops xold tol) v = true).
      { intros v Hv. apply in_firstn in Hv. apply In_nth with (d := 0) in Hv. destruct Hv as [j [Hj Ej]].
        rewrite Hlen in Hj. rewrite skipn_nth in Ej. cbn [leb sub Rops]. apply Rleb_true.
        specialize (Hgt (i + j)%nat). rewrite Ej in Hgt. assert (xold + tol < v) by (apply Hgt; lia). lra. }
      clear -Hf. induction (firstn k (skipn i te)) as [|a l IH]; [reflexivity|].
      cbn [filter]. rewrite (Hf a) by (left; reflexivity). f_equal. apply IH. intros v Hv. apply Hf. right. exact Hv. }
    rewrite Hall. split.
    - split; [lia|]. split.
      + rewrite rev_app_distr, rev_involutive, Ht.
        clear -Hi Hk Hlen. revert i Hi k Hk Hlen. induction te as [|a l IH]; intros i Hi k Hk Hlen.
        * cbn in *. assert (i = 0)%nat by lia. subst. destruct k; reflexivity.
        * destruct i as [|i]; cbn [skipn firstn Nat.add app].
          { reflexivity. }
          { f_equal. apply IH; cbn [length skipn] in *; lia. }
      + intros j Hj.
        destruct (nth_error (skipn i te) k) as [v|] eqn:En.
        * cbn [leb add Rops] in Hnext. apply Rleb_false in Hnext.
          assert (Hv : nth (i + k) te 0 = v).
          { rewrite <- skipn_nth. apply nth_error_nth with (d := 0) in En. exact En. }
          assert (v <= nth j te 0) by (rewrite <- Hv; apply Hsorted; lia). lra.
        * apply nth_error_None in En. lia.
    - rewrite !app_length, !rev_length, map_length. lia.
  Qed.

  (* the run: initial callback at x0, then the accepted steps of a chain x0 < x1 < ... *)
  Fixpoint run_steps (chain : list (R * R * (R -> rv))) (i : nat) (t : list R) (ys : list rv) : nat * list R * list rv :=
    match chain with
    | [] => (i, t, ys)
    | (xold, x, interp) :: r =>
        let '(i', t', ys') := scan_step Rops true tol xold x interp (skipn i te) i t ys in run_steps r i' t' ys'
    end.
  Fixpoint chain_ok (x : R) (chain : list (R * R * (R -> rv))) : Prop :=
    match chain with
    | [] => True
    | (xold, x', _) :: r => xold = x /\ x < x' /\ chain_ok x' r
    end.
  Fixpoint chain_end (x : R) (chain : list (R * R * (R -> rv))) : R :=
    match chain with [] => x | (_, x', _) :: r => chain_end x' r end.

  Lemma run_inv : forall chain x i t ys,
    chain_ok x chain -> Inv x i t -> length ys = length t ->
    let '(i', t', ys') := run_steps chain i t ys in Inv (chain_end x chain) i' t' /\ length ys' = length t'.
  Proof.
    induction chain as [|[[xold x'] interp] r IH]; intros x i t ys Hc Hi Hy; cbn [run_steps chain_end].
    - split; assumption.
    - destruct Hc as [-> [Hlt Hc]].
      pose proof (step_inv x x' interp i t ys Hlt Hi Hy) as Hs.
      destruct (scan_step Rops true tol x x' interp (skipn i te) i t ys) as [[i' t'] ys'].
      destruct Hs as [Hi' Hy']. apply IH; assumption.
  Qed.

  Theorem teval_exact_forward x0 y0 chain :
    chain_ok x0 chain ->
    (forall v, In v te -> x0 - tol <= v <= chain_end x0 chain) ->
    let '(i0, t0, ys0) := scan_initial Rops tol x0 y0 te 0 [] [] in
    let '(i, t, ys) := run_steps chain i0 t0 ys0 in
    rev t = te /\ i = length te /\ length ys = length te.
  Proof.
    intros Hc Hin.
    pose proof (initial_inv x0 y0 (fun v Hv => proj1 (Hin v Hv))) as H0.
    destruct (scan_initial Rops tol x0 y0 te 0 [] []) as [[i0 t0] ys0]. destruct H0 as [Hi0 Hy0].
    pose proof (run_inv chain x0 i0 t0 ys0 Hc Hi0 Hy0) as Hr.
    destruct (run_steps chain i0 t0 ys0) as [[i t] ys]. destruct Hr as [[Hi [Ht Hgt]] Hy].
    assert (E : i = length te).
    { destruct (Nat.eq_dec i (length te)) as [e|ne]; [exact e|]. exfalso.
      assert (Hj : (i <= i < length te)%nat) by lia. specialize (Hgt i Hj).
      assert (In (nth i te 0) te) by (apply nth_In; lia).
      destruct (Hin _ H) as [_ Hle]. lra. }
    subst i. rewrite firstn_all in Ht. repeat split; [exact Ht|].
    rewrite Hy, <- (rev_length t), Ht. reflexivity.
  Qed.
End Forward.

Section Backward.
  Variable tol : R.
  Hypothesis Htol : 0 <= tol.
  Variable te : list R.
  Hypothesis Hsorted : forall i j, (i <= j < length te)%nat -> nth j te 0 <= nth i te 0.

  (* state of the scan: next index and the reported times (newest first) *)
  Definition Inv_b (x : R) (i : nat) (t : list R) : Prop :=
    (i <= length te)%nat /\ rev t = firstn i te /\ forall j, (i <= j < length te)%nat -> nth j te 0 < x - tol.

  Lemma skipn_nth_b (l : list R) i j : nth j (skipn i l) 0 = nth (i + j) l 0.
  Proof.
    revert l. induction i as [|i IH]; intros l; [reflexivity|].
    destruct l as [|a l]; [destruct j; reflexivity|]. cbn [skipn Nat.add nth]. apply IH.
  Qed.

  (* the initial callback *)
  Lemma initial_inv_b x0 y0 :
    (forall v, In v te -> v <= x0 + tol) ->
    let '(i, t, ys) := scan_initial Rops tol x0 y0 te 0 [] [] in Inv_b x0 i t /\ length ys = length t.
  Proof.
    intros Hlo.
    assert (G : forall r i t ys, (i + length r = length te)%nat -> r = skipn i te -> rev t = firstn i te ->
                length ys = length t ->
                let '(i', t', ys') := scan_initial Rops tol x0 y0 r i t ys in Inv_b x0 i' t' /\ length ys' = length t').
    { induction r as [|v r IH]; intros i t ys Hl Hr Ht Hy; cbn [scan_initial].
      - split; [|exact Hy]. split; [cbn in Hl; lia|]. split; [exact Ht|]. intros j Hj. cbn in Hl. lia.
      - destruct (skipn_cons te i v r (eq_sym Hr)) as [Hs [Hv [Hf Hi]]].
        cbn [leb abs sub Rops]. destruct (Rleb (Rabs (v - x0)) tol) eqn:E.
        + apply IH.
          * cbn [length] in Hl. lia.
          * symmetry. exact Hs.
          * cbn [rev]. rewrite Ht, Hf. reflexivity.
          * cbn [length]. lia.
        + apply Rleb_false in E. split; [|exact Hy]. split; [lia|]. split; [exact Ht|].
          intros j Hj.
          assert (Hvj : nth j te 0 <= v) by (rewrite <- Hv; apply Hsorted; lia).
          assert (Hin : In v te) by (rewrite <- Hv; apply nth_In; exact Hi).
          specialize (Hlo v Hin).
          assert (v < x0 - tol).
          { destruct (Rle_dec (x0 - tol) v) as [Hle|Hgt]; [|lra]. exfalso.
            assert (Rabs (v - x0) <= tol) by (apply Rabs_le; lra). lra. }
          lra. }
    specialize (G te 0%nat [] [] eq_refl eq_refl eq_refl eq_refl). exact G.
  Qed.

  (* one accepted forward step xold < x *)
  Lemma step_inv_b xold x (interp : R -> rv) i t ys :
    x < xold -> Inv_b xold i t -> length ys = length t ->
    let '(i', t', ys') := scan_step Rops false tol xold x interp (skipn i te) i t ys in
    Inv_b x i' t' /\ length ys' = length t'.
  Proof.
    intros Hx [Hi [Ht Hgt]] Hy.
    destruct (scan_step_spec Rops false tol xold x interp (skipn i te) i t ys) as [k [Hk [Hin [Hnext E]]]].
    cbv zeta in Hin, Hnext, E. rewrite E. clear E.
    assert (Hlen : length (skipn i te) = (length te - i)%nat) by apply skipn_length.
    (* every consumed entry is reported: it lies after the previous step end *)
    assert (Hall : filter (fun v => leb Rops v (add Rops xold tol)) (firstn k (skipn i te)) = firstn k (skipn i te)).
    { assert (Hf : forall v, In v (firstn k (skipn i te)) -> leb Rops v (add Rops xold tol) = true).
      { intros v Hv. apply in_firstn in Hv. apply In_nth with (d := 0) in Hv. destruct Hv as [j [Hj Ej]].
        rewrite Hlen in Hj. rewrite skipn_nth_b in Ej. cbn [leb add Rops]. apply Rleb_true.
        specialize (Hgt (i + j)%nat). rewrite Ej in Hgt. assert (v < xold - tol) by (apply Hgt; lia). lra. }
      clear -Hf. induction (firstn k (skipn i te)) as [|a l IH]; [reflexivity|].
      cbn [filter]. rewrite (Hf a) by (left; reflexivity). f_equal. apply IH. intros v Hv. apply Hf. right. exact Hv. }
    rewrite Hall. split.
    - split; [lia|]. split.
      + rewrite rev_app_distr, rev_involutive, Ht.
        clear -Hi Hk Hlen. revert i Hi k Hk Hlen. induction te as [|a l IH]; intros i Hi k Hk Hlen.
        * cbn in *. assert (i = 0)%nat by lia. subst. destruct k; reflexivity.
        * destruct i as [|i]; cbn [skipn firstn Nat.add app].
          { reflexivity. }
          { f_equal. apply IH; cbn [length skipn] in *; lia. }
      + intros j Hj.
        destruct (nth_error (skipn i te) k) as [v|] eqn:En.
        * cbn [leb sub Rops] in Hnext. apply Rleb_false in Hnext.
          assert (Hv : nth (i + k) te 0 = v).
          { rewrite <- skipn_nth_b. apply nth_error_nth with (d := 0) in En. exact En. }
          assert (nth j te 0 <= v) by (rewrite <- Hv; apply Hsorted; lia). lra.
        * apply nth_error_None in En. lia.
    - rewrite !app_length, !rev_length, map_length. lia.
  Qed.

  (* the run: initial callback at x0, then the accepted steps of a chain x0 < x1 < ... *)
  Fixpoint run_steps_b (chain : list (R * R * (R -> rv))) (i : nat) (t : list R) (ys : list rv) : nat * list R * list rv :=
    match chain with
    | [] => (i, t, ys)
    | (xold, x, interp) :: r =>
        let '(i', t', ys') := scan_step Rops false tol xold x interp (skipn i te) i t ys in run_steps_b r i' t' ys'
    end.
  Fixpoint chain_ok_b (x : R) (chain : list (R * R * (R -> rv))) : Prop :=
    match chain with
    | [] => True
    | (xold, x', _) :: r => xold = x /\ x' < x /\ chain_ok_b x' r
    end.
  Fixpoint chain_end_b (x : R) (chain : list (R * R * (R -> rv))) : R :=
    match chain with [] => x | (_, x', _) :: r => chain_end_b x' r end.

  Lemma run_inv_b : forall chain x i t ys,
    chain_ok_b x chain -> Inv_b x i t -> length ys = length t ->
    let '(i', t', ys') := run_steps_b chain i t ys in Inv_b (chain_end_b x chain) i' t' /\ length ys' = length t'.
  Proof.
    induction chain as [|[[xold x'] interp] r IH]; intros x i t ys Hc Hi Hy; cbn [run_steps_b chain_end_b].
    - split; assumption.
    - destruct Hc as [-> [Hlt Hc]].
      pose proof (step_inv_b x x' interp i t ys Hlt Hi Hy) as Hs.
      destruct (scan_step Rops false tol x x' interp (skipn i te) i t ys) as [[i' t'] ys'].
      destruct Hs as [Hi' Hy']. apply IH; assumption.
  Qed.

  Theorem teval_exact_backward x0 y0 chain :
    chain_ok_b x0 chain ->
    (forall v, In v te -> chain_end_b x0 chain <= v <= x0 + tol) ->
    let '(i0, t0, ys0) := scan_initial Rops tol x0 y0 te 0 [] [] in
    let '(i, t, ys) := run_steps_b chain i0 t0 ys0 in
    rev t = te /\ i = length te /\ length ys = length te.
  Proof.
    intros Hc Hin.
    pose proof (initial_inv_b x0 y0 (fun v Hv => proj2 (Hin v Hv))) as H0.
    destruct (scan_initial Rops tol x0 y0 te 0 [] []) as [[i0 t0] ys0]. destruct H0 as [Hi0 Hy0].
    pose proof (run_inv_b chain x0 i0 t0 ys0 Hc Hi0 Hy0) as Hr.
    destruct (run_steps_b chain i0 t0 ys0) as [[i t] ys]. destruct Hr as [[Hi [Ht Hgt]] Hy].
    assert (E : i = length te).
    { destruct (Nat.eq_dec i (length te)) as [e|ne]; [exact e|]. exfalso.
      assert (Hj : (i <= i < length te)%nat) by lia. specialize (Hgt i Hj).
      assert (In (nth i te 0) te) by (apply nth_In; lia).
      destruct (Hin _ H) as [Hle _]. lra. }
    subst i. rewrite firstn_all in Ht. repeat split; [exact Ht|].
    rewrite Hy, <- (rev_length t), Ht. reflexivity.
  Qed.
End Backward.


(* `sample` with requested output times is exactly these scans *)
Lemma sample_scans (C : hconfig (F:=R)) s xold x y sg te :
  hc_t_eval C = Some te ->
  let s' := sample Rops C s xold x y sg in
  (hs_next s', hs_t s', hs_y s') =
  (if Reqb xold x then scan_initial Rops (hc_tol C) x y (skipn (hs_next s) te) (hs_next s) (hs_t s) (hs_y s)
   else scan_step Rops (Rltb xold x) (hc_tol C) xold x (interp_of Rops C (length y) sg) (skipn (hs_next s) te)
                  (hs_next s) (hs_t s) (hs_y s)).
Proof.
  intros E. unfold sample. rewrite E. cbn [eqb ltb Rops].
  destruct (Reqb xold x).
  - destruct (scan_initial _ _ _ _ _ _ _ _) as [[i t] ys]. reflexivity.
  - destruct (scan_step _ _ _ _ _ _ _ _ _ _) as [[i t] ys]. reflexivity.
Qed.
