#!/bin/sh
# regenerates _CoqProject's file list and the Makefile (idempotent)
cd "$(dirname "$0")"
{ sed -n '1,2p' _CoqProject; find gen model proofs props extract -name '*.v' 2>/dev/null | sort; } > _CoqProject.new
if ! cmp -s _CoqProject.new _CoqProject; then mv _CoqProject.new _CoqProject; else rm _CoqProject.new; fi
if [ ! -f Makefile ] || [ _CoqProject -nt Makefile ]; then coq_makefile -f _CoqProject -o Makefile >/dev/null; fi
