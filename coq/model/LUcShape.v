(* The argument checks at the head of lu_decomp_complex (src/matrix/lu.rs): both parts square of the same
   order, pivot slice of that length; then the factorisation of LUc.v.  (Kept apart from LUc.v, which the
   Radau model depends on and which never passes ill-shaped arguments.) *)
Require Import List Arith Bool.
Require Import IVP.model.Lit IVP.model.Ops IVP.model.LU IVP.model.LUc.
Local Open Scope bool_scope.

Section LUcShape.
  Context {F : Type} (O : Ops F).
  Local Notation mat := (nat -> nat -> F).

  Inductive luc_result :=
    LucOk (Lr Li : mat) (ip : nat -> nat) | LucSingular | LucNonSquare | LucPivotSize.

  (* r_rows r_cols: shape of the real part; i_rows i_cols: of the imaginary part *)
  Definition lu_decomp_complex_checked (r_rows r_cols i_rows i_cols iplen : nat)
             (Ar Ai : mat) (ip0 : nat -> nat) : luc_result :=
    let n := r_rows in
    if negb (n =? r_cols) || negb (n =? i_rows) || negb (n =? i_cols) then LucNonSquare
    else if negb (iplen =? n) then LucPivotSize
    else match lu_decomp_complex O n Ar Ai ip0 with
         | None => LucSingular
         | Some (Lr, Li, ip) => LucOk Lr Li ip
         end.
End LUcShape.
Arguments LucOk {F}. Arguments LucSingular {F}. Arguments LucNonSquare {F}. Arguments LucPivotSize {F}.
