(* The Butcher arrays as the Rust loops apply them, assembled from the generated constants.
   Stage indices are 0-based and LOGICAL (DOP853 recycles its k-buffers: stage 11 lives in k2,
   12 in k3, 13 (=f(x+h,ynew)) in k4, 14 in k10, 15 in k2, 16 in k3). *)
Require Import List.
Require Import IVP.model.Lit IVP.model.RK.
Require IVP.gen.Consts_rk4 IVP.gen.Consts_rk23 IVP.gen.Consts_dopri5 IVP.gen.Consts_dop853.
Require Import IVP.gen.Inline.
Import ListNotations.

Module RK4T.
  Import IVP.gen.Consts_rk4.
  (* stages 2..4 *)
  Definition stages : list stage :=
    [ mkStage (Some C2) (RSingle A21 0);
      mkStage (Some C3) (RSingle A32 1);
      mkStage (Some C4) (RSingle A43 2) ].
  Definition b : list (Lit * nat) := [(B1,0); (B2,1); (B3,2); (B4,3)].
  Definition nst := 4.
End RK4T.

Module RK23T.
  Import IVP.gen.Consts_rk23.
  Definition b : list (Lit * nat) := [(B1,0); (B2,1); (B3,2)].
  (* stages 2..4; the argument of stage 4 is the new state *)
  Definition stages : list stage :=
    [ mkStage (Some C2) (RSingle A21 0);
      mkStage (Some C3) (RSingle A32 1);
      mkStage None (RSum b) ].
  Definition e : list (Lit * nat) := [(E1,0); (E2,1); (E3,2); (E4,3)].
  Definition d2 : list (Lit * nat) := [(D21,0); (D22,1); (D23,2); (D24,3)].
  Definition d3 : list (Lit * nat) := [(D31,0); (D32,1); (D33,2); (D34,3)].
  Definition nst := 4.
End RK23T.

Module DOPRI5T.
  Import IVP.gen.Consts_dopri5.
  Definition b : list (Lit * nat) := [(A71,0); (A73,2); (A74,3); (A75,4); (A76,5)].
  (* stages 2..7; the argument of stage 7 is the new state (FSAL) *)
  Definition stages : list stage :=
    [ mkStage (Some C2) (RSingle A21 0);
      mkStage (Some C3) (RSum [(A31,0); (A32,1)]);
      mkStage (Some C4) (RSum [(A41,0); (A42,1); (A43,2)]);
      mkStage (Some C5) (RSum [(A51,0); (A52,1); (A53,2); (A54,3)]);
      mkStage None (RSum [(A61,0); (A62,1); (A63,2); (A64,3); (A65,4)]);
      mkStage None (RSum b) ].
  Definition e : list (Lit * nat) := [(E1,0); (E3,2); (E4,3); (E5,4); (E6,5); (E7,6)].
  Definition d : list (Lit * nat) := [(D1,0); (D3,2); (D4,3); (D5,4); (D6,5); (D7,6)].
  Definition nst := 7.
End DOPRI5T.

Module DOP853T.
  Import IVP.gen.Consts_dop853.
  Definition b : list (Lit * nat) :=
    [(B1,0); (B6,5); (B7,6); (B8,7); (B9,8); (B10,9); (B11,10); (B12,11)].
  (* stages 2..12 *)
  Definition stages12 : list stage :=
    [ mkStage (Some C2) (RSingle A21 0);
      mkStage (Some C3) (RSum [(A31,0); (A32,1)]);
      mkStage (Some C4) (RSum [(A41,0); (A43,2)]);
      mkStage (Some C5) (RSum [(A51,0); (A53,2); (A54,3)]);
      mkStage (Some C6) (RSum [(A61,0); (A64,3); (A65,4)]);
      mkStage (Some C7) (RSum [(A71,0); (A74,3); (A75,4); (A76,5)]);
      mkStage (Some C8) (RSum [(A81,0); (A84,3); (A85,4); (A86,5); (A87,6)]);
      mkStage (Some C9) (RSum [(A91,0); (A94,3); (A95,4); (A96,5); (A97,6); (A98,7)]);
      mkStage (Some C10) (RSum [(A101,0); (A104,3); (A105,4); (A106,5); (A107,6); (A108,7); (A109,8)]);
      mkStage (Some C11) (RSum [(A111,0); (A114,3); (A115,4); (A116,5); (A117,6); (A118,7); (A119,8); (A1110,9)]);
      mkStage None (RSum [(A121,0); (A124,3); (A125,4); (A126,5); (A127,6); (A128,7); (A129,8); (A1210,9); (A1211,10)]) ].
  (* stage 13: f(x+h, ynew), computed only on acceptance *)
  Definition stage13 : stage := mkStage None (RSum b).
  (* stages 14..16: the extra dense-output stages *)
  Definition stages_dense : list stage :=
    [ mkStage (Some C14) (RSum [(A141,0); (A147,6); (A148,7); (A149,8); (A1410,9); (A1411,10); (A1412,11); (A1413,12)]);
      mkStage (Some C15) (RSum [(A151,0); (A156,5); (A157,6); (A158,7); (A1511,10); (A1512,11); (A1513,12); (A1514,13)]);
      mkStage (Some C16) (RSum [(A161,0); (A166,5); (A167,6); (A168,7); (A169,8); (A1613,12); (A1614,13); (A1615,14)]) ].
  Definition er : list (Lit * nat) :=
    [(ER1,0); (ER6,5); (ER7,6); (ER8,7); (ER9,8); (ER10,9); (ER11,10); (ER12,11)].
  (* err2 uses  (b.k) - BH1*k1 - BH2*k9 - BH3*k12 *)
  Definition bh : list (Lit * nat) := [(BH1,0); (BH2,8); (BH3,11)].
  Definition d4a := [(D41,0); (D46,5); (D47,6); (D48,7); (D49,8); (D410,9); (D411,10); (D412,11)].
  Definition d4b := [(D413,12); (D414,13); (D415,14); (D416,15)].
  Definition d5a := [(D51,0); (D56,5); (D57,6); (D58,7); (D59,8); (D510,9); (D511,10); (D512,11)].
  Definition d5b := [(D513,12); (D514,13); (D515,14); (D516,15)].
  Definition d6a := [(D61,0); (D66,5); (D67,6); (D68,7); (D69,8); (D610,9); (D611,10); (D612,11)].
  Definition d6b := [(D613,12); (D614,13); (D615,14); (D616,15)].
  Definition d7a := [(D71,0); (D76,5); (D77,6); (D78,7); (D79,8); (D710,9); (D711,10); (D712,11)].
  Definition d7b := [(D713,12); (D714,13); (D715,14); (D716,15)].
  Definition nst := 12.
  Definition nst_dense := 16.
End DOP853T.
