(* RADAU (src/methods/radau.rs): 3-stage Radau IIA with simplified Newton iterations, real and
   complex LU, Gustafsson predictive control, dense output.  Pure ODE / index-1 partition only
   (nind2 = nind3 = 0, the solve_ivp default); mass and Jacobian are read entrywise (dense view). *)
Require Import List ZArith Bool Arith.
Require Import IVP.model.Lit IVP.model.Ops IVP.model.Vec IVP.model.Common IVP.model.LU IVP.model.LUc
               IVP.gen.Inline.
Require IVP.gen.Consts_radau.
Import ListNotations.
Local Open Scope bool_scope.

Section Radau.
  Context {F : Type} (O : Ops F).
  Local Notation "a + b" := (add O a b). Local Notation "a - b" := (sub O a b).
  Local Notation "a * b" := (mul O a b). Local Notation "a / b" := (div O a b).
  Local Notation "a <=? b" := (leb O a b). Local Notation "a <? b" := (ltb O a b).
  Local Notation "a >=? b" := (leb O b a) (at level 70). Local Notation "a >? b" := (ltb O b a) (at level 70).
  Local Notation "'L' l" := (lit O l) (at level 1, l at level 0).
  Local Notation vec := (list F).
  Local Notation mat := (nat -> nat -> F).
  Import Consts_radau.

  Record params := mkP {
    p_max_steps : N; p_uround : F; p_safety : F; p_scale_min : F; p_scale_max : F;
    p_max_step : option F; p_min_step : option F; p_newton_maxiter : nat; p_newton_tol : option F;
    p_predictive : bool; p_first_step : option F; p_dense : bool
  }.

  Definition lv (l : vec) : nat -> F := fun i => nth i l (zero O).
  Definition vl (n : nat) (b : nat -> F) : vec := map b (seq 0 n).

  (* sum_j m_ij * v_j with `sum += ...` from 0.0 *)
  Definition mat_vec (n : nat) (M : mat) (v : vec) : vec :=
    map (fun i => fold_left (fun acc j => acc + M i j * lv v j) (seq 0 n) (zero O)) (seq 0 n).
  (* sum_j with `sum -= m_ij * v_j` from 0.0 *)
  Definition mat_vec_neg (n : nat) (M : mat) (v : vec) : vec :=
    map (fun i => fold_left (fun acc j => acc - M i j * lv v j) (seq 0 n) (zero O)) (seq 0 n).

  Definition rms (n : nat) (v scal : vec) : F :=
    let s := fold_left (fun acc p => let r := fst p / snd p in acc + r * r) (combine v scal) (zero O) in
    sqrt O (s / ofnat O n).
  Definition errnorm (n : nat) (v scal : vec) : F :=
    let e := rms n v scal in if e <? L L1em10 then L L1em10 else e.

  (* Rust f64::clamp(lo, hi) for lo <= hi *)
  Definition clamp (v lo hi : F) : F := if v <? lo then lo else if v >? hi then hi else v.

  Record lu1 := mkLU1 { l1_lu : mat; l1_ip : nat -> nat }.
  Record lu2 := mkLU2 { l2_r : mat; l2_i : mat; l2_ip : nat -> nat }.

  Record state (H : Type) := mkS {
    s_x : F; s_y : vec; s_h : F; s_hold : F; s_hhfac : F; s_last : bool; s_reject : bool;
    s_hacc : F; s_erracc : F; s_faccon : F; s_theta : F; s_dynold : F; s_thqold : F;
    s_first : bool; s_calljac : bool; s_calldecomp : bool; s_sing : N;
    s_f0 : vec; s_scal : vec; s_cont : vec; s_jac : mat; s_e1 : lu1; s_e2 : lu2;
    s_stats : stats; s_log : list (F * vec); s_jaclog : list (F * vec); s_cb : H
  }.
  Record result (H : Type) := mkR { r_status : status; r_h : F; r_stats : stats;
                                    r_x : F; r_y : vec; r_log : list (F * vec);
                                    r_jaclog : list (F * vec); r_cb : H }.
  Arguments mkS {H}. Arguments mkR {H}.
  Arguments s_x {H}. Arguments s_y {H}. Arguments s_h {H}. Arguments s_hold {H}. Arguments s_hhfac {H}.
  Arguments s_last {H}. Arguments s_reject {H}. Arguments s_hacc {H}. Arguments s_erracc {H}.
  Arguments s_faccon {H}. Arguments s_theta {H}. Arguments s_dynold {H}. Arguments s_thqold {H}.
  Arguments s_first {H}. Arguments s_calljac {H}. Arguments s_calldecomp {H}. Arguments s_sing {H}.
  Arguments s_f0 {H}. Arguments s_scal {H}. Arguments s_cont {H}. Arguments s_jac {H}.
  Arguments s_e1 {H}. Arguments s_e2 {H}. Arguments s_stats {H}. Arguments s_log {H}.
  Arguments s_jaclog {H}. Arguments s_cb {H}.

  Definition block (cont : vec) (n j : nat) : vec := firstn n (skipn (j * n) cont).

  Definition interpolate (cont : vec) (xold h xi : F) (_n : nat) : vec :=
    let n := Nat.div (length cont) 4 in
    let s := (xi - (xold + h)) / h in
    map (fun q => let '(c0, c1, c2, c3) := q in
                  c0 + s * (c1 + (s - L C2M1) * (c2 + (s - L C1M1) * c3)))
        (combine (combine (combine (block cont n 0) (block cont n 1)) (block cont n 2)) (block cont n 3)).

  Section Loop.
    Context {H : Type}.
    Variable P : params.
    Variable n : nat.
    Variable f : F -> vec -> vec.
    (* Jacobian as a dense function, and the right-hand-side calls it makes (finite differences) *)
    Variable jacf : F -> vec -> mat.
    Variable mass : mat.
    Variables (atolv rtolv : vec).      (* the transformed tolerances *)
    Variable newton_tol : F.
    Variable xend : F.
    Variable posneg : F.
    Variables (hmax hmin : F).
    Variable cb : H -> F -> F -> vec -> option (vec * F * F) -> H * flag F * vec.

    Definition facl := one O / p_scale_min P.
    Definition facr := one O / p_scale_max P.
    Definition max_newton := p_newton_maxiter P.
    Definition cfac := p_safety P * (one O + L L2 * ofnat O max_newton).
    Definition thet := L L0_001.

    (* a failed factorisation / Newton failure: halve the step and retry, at most 5 times in a row *)
    Definition halve (s : state H) (st : stats) (log : list (F * vec)) (jl : list (F * vec)) (jac : mat)
               (e1 : lu1) (e2 : lu2) (decomp : bool) : state H + result H :=
      let sing := (s_sing s + 1)%N in
      if N.ltb 5 sing then inr (mkR SingularMatrix (s_h s) st (s_x s) (s_y s) log jl (s_cb s))
      else inl (mkS (s_x s) (s_y s) (s_h s * L L0_5) (s_hold s) (L L0_5) false true
                    (s_hacc s) (s_erracc s) (s_faccon s) (s_theta s) (s_dynold s) (s_thqold s)
                    (s_first s) (s_calljac s) decomp sing
                    (s_f0 s) (s_scal s) (s_cont s) jac e1 e2 st log jl (s_cb s)).

    (* starting values of the Newton iteration *)
    Definition newton_start (s : state H) (h : F) : vec * vec * vec * vec * vec * vec :=
      if s_first s then
        let z := repeat (zero O) n in (z, z, z, z, z, z)
      else
        let c3q := h / s_hold s in
        let c1q := L C1 * c3q in
        let c2q := L C2 * c3q in
        let cont := s_cont s in
        let ak1 := block cont n 1 in let ak2 := block cont n 2 in let ak3 := block cont n 3 in
        let ex cq := map3 (fun a1 a2 a3 => cq * (a1 + (cq - L C2M1) * (a2 + (cq - L C1M1) * a3))) ak1 ak2 ak3 in
        let z1 := ex c1q in let z2 := ex c2q in let z3 := ex c3q in
        let f1 := map3 (fun a b c => a * L TI00 + b * L TI01 + c * L TI02) z1 z2 z3 in
        let f2 := map3 (fun a b c => a * L TI10 + b * L TI11 + c * L TI12) z1 z2 z3 in
        let f3 := map3 (fun a b c => a * L TI20 + b * L TI21 + c * L TI22) z1 z2 z3 in
        (z1, z2, z3, f1, f2, f3).

    Inductive newton_exit := NConverged | NStepCut (hhfac : F) | NFail.

    Record nstate := mkN {
      n_z1 : vec; n_z2 : vec; n_z3 : vec; n_f1 : vec; n_f2 : vec; n_f3 : vec;
      n_iter : nat; n_faccon : F; n_theta : F; n_dynold : F; n_thqold : F;
      n_calls : list (F * vec)   (* newest first *)
    }.

    (* one pass of the simplified Newton iteration; inr = loop left *)
    Definition newton_pass (x : F) (y : vec) (h : F) (scal : vec) (e1 : lu1) (e2 : lu2) (ns : nstate)
      : nstate + (nstate * newton_exit) :=
      if Nat.leb max_newton (n_iter ns) then inr (ns, NFail)
      else
        let xph := x + h in
        let a1 := map2 (fun yi z => yi + z) y (n_z1 ns) in
        let t1 := x + L C1 * h in
        let g1 := f t1 a1 in
        let a2 := map2 (fun yi z => yi + z) y (n_z2 ns) in
        let t2 := x + L C2 * h in
        let g2 := f t2 a2 in
        let a3 := map2 (fun yi z => yi + z) y (n_z3 ns) in
        let g3 := f xph a3 in
        let calls := (xph, a3) :: (t2, a2) :: (t1, a1) :: n_calls ns in
        let z1 := map3 (fun b1 b2 b3 => L TI00 * b1 + L TI01 * b2 + L TI02 * b3) g1 g2 g3 in
        let z2 := map3 (fun b1 b2 b3 => L TI10 * b1 + L TI11 * b2 + L TI12 * b3) g1 g2 g3 in
        let z3 := map3 (fun b1 b2 b3 => L TI20 * b1 + L TI21 * b2 + L TI22 * b3) g1 g2 g3 in
        let fac1 := L U1 / h in let alphn := L ALPH / h in let betan := L BETA / h in
        let s1 := mat_vec_neg n mass (n_f1 ns) in
        let s2 := mat_vec_neg n mass (n_f2 ns) in
        let s3 := mat_vec_neg n mass (n_f3 ns) in
        let z1 := map2 (fun z s => z + s * fac1) z1 s1 in
        let z2' := map3 (fun z sa sb => z + sa * alphn - sb * betan) z2 s2 s3 in
        let z3' := map3 (fun z sa sb => z + sa * alphn + sb * betan) z3 s3 s2 in
        let z1 := vl n (lin_solve O n (l1_lu e1) (l1_ip e1) (lv z1)) in
        let '(cr, ci) := lin_solve_complex O n (l2_r e2) (l2_i e2) (l2_ip e2) (lv z2') (lv z3') in
        let z2 := vl n cr in let z3 := vl n ci in
        let iter := S (n_iter ns) in
        let dyno0 := fold_left (fun acc q => let '(a, b, c, d) := q in
                                             let v1 := a / d in let v2 := b / d in let v3 := c / d in
                                             acc + (v1 * v1 + v2 * v2 + v3 * v3))
                               (combine (combine (combine z1 z2) z3) scal) (zero O) in
        let dyno := sqrt O (dyno0 / (L L3 * ofnat O n)) in
        let finish_pass (faccon theta thqold : F) :=
          let dynold := fmax O dyno (p_uround P) in
          let f1 := map2 (fun a b => a + b) (n_f1 ns) z1 in
          let f2 := map2 (fun a b => a + b) (n_f2 ns) z2 in
          let f3 := map2 (fun a b => a + b) (n_f3 ns) z3 in
          let w1 := map3 (fun a b c => a * L T00 + b * L T01 + c * L T02) f1 f2 f3 in
          let w2 := map3 (fun a b c => a * L T10 + b * L T11 + c * L T12) f1 f2 f3 in
          let w3 := map2 (fun a b => a * L T20 + b) f1 f2 in
          let ns' := mkN w1 w2 w3 f1 f2 f3 iter faccon theta dynold thqold calls in
          if (faccon * dyno) >? newton_tol then inl ns' else inr (ns', NConverged) in
        if Nat.ltb 1 iter && Nat.ltb iter max_newton then
          let thq := dyno / n_dynold ns in
          let theta := if Nat.eqb iter 2 then thq else sqrt O (thq * n_thqold ns) in
          if theta <? L L0_99 then
            let faccon := theta / (one O - theta) in
            let remaining := ofnat O (max_newton - 1 - iter) in
            let dyth := faccon * dyno * pow O theta remaining / newton_tol in
            if dyth >=? one O then
              let qnewt := fmax O (L L1em4) (fmin O (L L20) dyth) in
              let exponent := neg O (one O) / (L L4 + remaining) in
              let hhfac := L L0_8 * pow O qnewt exponent in
              inr (mkN z1 z2 z3 (n_f1 ns) (n_f2 ns) (n_f3 ns) iter faccon theta (n_dynold ns) thq calls,
                   NStepCut hhfac)
            else finish_pass faccon theta thq
          else inr (mkN z1 z2 z3 (n_f1 ns) (n_f2 ns) (n_f3 ns) iter (n_faccon ns) theta (n_dynold ns) thq calls,
                    NFail)
        else finish_pass (n_faccon ns) (n_theta ns) (n_thqold ns).

    Fixpoint newton_loop (fuel : nat) (x : F) (y : vec) (h : F) (scal : vec) (e1 : lu1) (e2 : lu2)
             (ns : nstate) : nstate * newton_exit :=
      match fuel with
      | 0 => (ns, NFail)
      | S k => match newton_pass x y h scal e1 e2 ns with
               | inl ns' => newton_loop k x y h scal e1 e2 ns'
               | inr r => r
               end
      end.

    Definition build_e1 (jac : mat) (h : F) : mat :=
      let fac1 := L U1 / h in fun r c => mass r c * fac1 - jac r c.
    Definition build_e2 (jac : mat) (h : F) : mat * mat :=
      let alphn := L ALPH / h in let betan := L BETA / h in
      (fun r c => mass r c * alphn - jac r c, fun r c => mass r c * betan).

    Definition step (s : state H) : state H + result H :=
      let x := s_x s in let y := s_y s in
      (* Jacobian *)
      let '(jac, st, jl) :=
        if s_calljac s then (compact O n (jacf x y), add_jev (s_stats s) 1, (x, y) :: s_jaclog s)
        else (s_jac s, s_stats s, s_jaclog s) in
      let log := s_log s in
      (* factorisations *)
      let dec :=
        if s_calldecomp s then
          let st1 := add_lu st 1 in
          match lu_decomp O n n n (compact O n (build_e1 jac (s_h s))) (fun _ => 0) with
          | LuOk lu ip =>
              let st2 := add_lu st1 1 in
              let '(e2r, e2i) := build_e2 jac (s_h s) in
              match lu_decomp_complex O n (compact O n e2r) (compact O n e2i) (fun _ => 0) with
              | Some (lr, li, ip2) => inl (mkLU1 lu ip, mkLU2 lr li ip2, st2)
              | None => inr st2
              end
          | _ => inr st1
          end
        else inl (s_e1 s, s_e2 s, st) in
      match dec with
      | inr st' => halve s st' log jl jac (s_e1 s) (s_e2 s) (s_calldecomp s)
      | inl (e1, e2, st) =>
          let st := add_step st in
          if N.ltb (p_max_steps P) (nstep st) then inr (mkR NeedLargerNMax (s_h s) st x y log jl (s_cb s))
          else if (L L0_1 * abs O (s_h s)) <=? (abs O x * p_uround P) then
            inr (mkR StepSizeTooSmall (s_h s) st x y log jl (s_cb s))
          else
            let h := s_h s in
            let xph := x + h in
            let '(z1, z2, z3, f1, f2, f3) := newton_start s h in
            let faccon0 := pow O (fmax O (s_faccon s) (p_uround P)) (L L0_8) in
            let ns0 := mkN z1 z2 z3 f1 f2 f3 0 faccon0 (abs O thet) (s_dynold s) (s_thqold s) [] in
            let '(ns, ex) := newton_loop (S (S max_newton)) x y h (s_scal s) e1 e2 ns0 in
            let st := add_fev st (N.of_nat (length (n_calls ns))) in
            let log := n_calls ns ++ log in
            let s_n := mkS x y h (s_hold s) (s_hhfac s) (s_last s) (s_reject s) (s_hacc s) (s_erracc s)
                           (n_faccon ns) (n_theta ns) (n_dynold ns) (n_thqold ns) (s_first s)
                           (s_calljac s) (s_calldecomp s) (s_sing s) (s_f0 s) (s_scal s) (s_cont s)
                           jac e1 e2 st log jl (s_cb s) in
            match ex with
            | NFail => halve s_n st log jl jac e1 e2 true
            | NStepCut hf =>
                (* predicted slow convergence: the step is restarted with h * hf and a new decomposition (fix 8bc1cdd;
                   the pinned tree fell through to the error estimate with the raw increments and the new h: F29) *)
                inl (mkS x y (h * hf) (s_hold s) hf false true (s_hacc s) (s_erracc s)
                         (n_faccon ns) (n_theta ns) (n_dynold ns) (n_thqold ns) (s_first s)
                         (s_calljac s) true (s_sing s) (s_f0 s) (s_scal s) (s_cont s)
                         jac e1 e2 (add_rej st) log jl (s_cb s))
            | NConverged =>
                let '(h, hhfac, last, st) := (h, s_hhfac s, s_last s, st) in
                let hee1 := L DD1 / h in let hee2 := L DD2 / h in let hee3 := L DD3 / h in
                let e1v := map3 (fun a b c => hee1 * a + hee2 * b + hee3 * c) (n_z1 ns) (n_z2 ns) (n_z3 ns) in
                let mf := mat_vec n mass e1v in
                let c0 := map2 (fun m f0i => m + f0i) mf (s_f0 s) in
                let c1 := vl n (lin_solve O n (l1_lu e1) (l1_ip e1) (lv c0)) in
                let st := add_lu st 1 in
                let err0 := errnorm n c1 (s_scal s) in
                let '(err, st, log) :=
                  if (err0 >=? one O) && (s_first s || s_reject s) then
                    let ya := map2 (fun c yi => c + yi) c1 y in
                    let fr := f x ya in
                    let c2 := map2 (fun a b => a + b) fr mf in
                    let c3 := vl n (lin_solve O n (l1_lu e1) (l1_ip e1) (lv c2)) in
                    (errnorm n c3 (s_scal s), add_fev st 1, (x, ya) :: log)
                  else (err0, st, log) in
                let fac := fmin O (p_safety P) (cfac / (ofnat O (n_iter ns) + L L2 * ofnat O max_newton)) in
                let quot := fmax O facr (fmin O facl (pow O err (L L0_25) / fac)) in
                let hnew := h / quot in
                if err <=? one O then
                  let st := add_acc st in
                  let '(quot, hnew) :=
                    if p_predictive P && N.ltb 1 (naccpt st) then
                      let facgus := (s_hacc s / h) * pow O (err * err / s_erracc s) (L L0_25) / p_safety P in
                      let facgus := fmax O facr (fmin O facl facgus) in
                      let quot := fmax O quot facgus in
                      (quot, h / quot)
                    else (quot, hnew) in
                  let '(hacc, erracc) := if p_predictive P then (h, fmax O err (L L0_01)) else (s_hacc s, s_erracc s) in
                  let ynew := map2 (fun yi z => yi + z) y (n_z3 ns) in
                  let ak := map2 (fun a b => (a - b) / L C1MC2) (n_z1 ns) (n_z2 ns) in
                  let acont3 := map2 (fun a z1i => (a - z1i / L C1) / L C2) ak (n_z1 ns) in
                  let k1 := map2 (fun b c => (b - c) / L C2M1) (n_z2 ns) (n_z3 ns) in
                  let k2 := map2 (fun a b => (a - b) / L C1M1) ak k1 in
                  let k3 := map2 (fun a b => a - b) k2 acont3 in
                  let cont := ynew ++ k1 ++ k2 ++ k3 in
                  let f0 := f xph ynew in
                  let st := add_fev st 1 in
                  let log := (xph, ynew) :: log in
                  let scal := map3 (fun a r yi => a + r * abs O yi) atolv rtolv ynew in
                  let '(cbs, fl, ycb) := cb (s_cb s) x xph ynew (if p_dense P then Some (cont, x, h) else None) in
                  match fl with
                  | Interrupt => inr (mkR UserInterrupt h st xph ycb log jl cbs)
                  | _ =>
                      let '(f0, st, log) :=
                        match fl with
                        | ModifiedSolution => (f xph ycb, add_fev st 1, (xph, ycb) :: log)
                        | _ => (f0, st, log)
                        end in
                      let scal := match fl with
                                  | ModifiedSolution => map3 (fun a r yi => a + r * abs O yi) atolv rtolv ycb
                                  | _ => scal
                                  end in
                      if last then inr (mkR Success hnew st xph ycb log jl cbs)
                      else
                        let hnew := clamp (abs O hnew) hmin hmax * posneg in
                        let hnew := if s_reject s then posneg * fmin O (abs O hnew) (abs O h) else hnew in
                        let theta := n_theta ns in
                        let mk hh hhf lst cd cj :=
                          inl (mkS xph ycb hh h hhf lst false hacc erracc (n_faccon ns) theta (n_dynold ns)
                                   (n_thqold ns) false cj cd 0%N f0 scal cont jac e1 e2 st log jl cbs) in
                        if ((xph + hnew / one O - xend) * posneg) >=? zero O then
                          let hh := xend - xph in mk hh hh true true (theta >=? thet)
                        else
                          let qt := hnew / h in
                          if (theta <? thet) && (qt >? one O) && (qt <? L L1_2) then
                            mk h h false false false
                          else mk hnew hnew false true (theta >=? thet)
                  end
                else
                  (* rejected *)
                  let mkrej hh hhf st :=
                    inl (mkS x y hh (s_hold s) hhf false true (s_hacc s) (s_erracc s) (n_faccon ns) (n_theta ns)
                             (n_dynold ns) (n_thqold ns) (s_first s) (s_calljac s) true (s_sing s)
                             (s_f0 s) (s_scal s) (s_cont s) jac e1 e2 st log jl (s_cb s)) in
                  if s_first s then mkrej (h * L L0_1) (L L0_1) st
                  else mkrej hnew (hnew / h) (add_rej st)
            end
      end.

    Fixpoint loop (fuel : nat) (s : state H) : option (result H) :=
      match fuel with
      | 0 => None
      | S k => match step s with inl s' => loop k s' | inr r => Some r end
      end.
  End Loop.

  (* forward-difference Jacobian of the IVP trait default; returns the matrix and the number of
     right-hand-side evaluations it made (not counted in nfev) *)
  Definition fd_jac (f : F -> vec -> vec) (n : nat) (x : F) (y : vec) : nat -> nat -> F :=
    let f0 := f x y in
    let eps := L LSQRTEPS in
    let cols := map (fun col =>
                       let yc := nth col y (zero O) in
                       let pert := eps * fmax O (abs O yc) (one O) in
                       let yp := map (fun j => if Nat.eqb j col then yc + pert else nth j y (zero O)) (seq 0 n) in
                       let fp := f x yp in
                       map2 (fun a b => (a - b) / pert) fp f0) (seq 0 n) in
    fun r c => nth r (nth c cols []) (zero O).

  Definition solve {H : Type} (P : params) (f : F -> vec -> vec) (jacf : F -> vec -> nat -> nat -> F)
             (mass : nat -> nat -> F) (x0 : F) (y0 : vec) (xend : F) (rtol atol : tol F)
             (cb : H -> F -> F -> vec -> option (vec * F * F) -> H * flag F * vec) (cb0 : H)
             (fuel : nat) : option (result H) :=
    let n := length y0 in
    if N.eqb (p_max_steps P) 0 then None
    else if (p_uround P <=? L L1em35) || (one O <=? p_uround P) then None
    else if (p_safety P <=? L L1em4) || (one O <=? p_safety P) then None
    else if (p_scale_min P <=? zero O) || negb (p_scale_min P <? p_scale_max P) then None
    else if Nat.eqb (p_newton_maxiter P) 0 then None
    else
      let hmax := match p_max_step P with Some m => m | None => abs O (xend - x0) end in
      let hmin := match p_min_step P with Some m => m | None => zero O end in
      let expm := L L2 / L L3 in
      let rt0 := tolv rtol n in let at0 := tolv atol n in
      let rtolv := map (fun r => L L0_1 * pow O r expm) rt0 in
      let atolv := map3 (fun a r r' => r' * (a / r)) at0 rt0 rtolv in
      let newton_tol := match p_newton_tol P with
                        | Some v => v
                        | None => let tolst := nth 0 rtolv (zero O) in
                                  fmax O (L L10 * p_uround P / tolst) (fmin O (L L0_03) (sqrt O tolst))
                        end in
      let posneg := signum O (xend - x0) in
      let h := match p_first_step P with Some h0 => abs O h0 * posneg | None => L L1em6 * posneg end in
      if eqb O h (zero O) then None
      else
        let h := clamp h (neg O hmax) hmax in
        let first_is_last := ((x0 + h - xend) * posneg) >=? zero O in
        let h := if first_is_last then xend - x0 else h in
        let f0 := f x0 y0 in
        let st := add_fev stats0 1 in
        let log := [(x0, y0)] in
        let '(cbs, fl, y) := cb cb0 x0 x0 y0 None in
        match fl with
        | Interrupt => Some (mkR UserInterrupt h st x0 y log [] cbs)
        | _ =>
            let '(f0, st, log) :=
              match fl with
              | ModifiedSolution => (f x0 y, add_fev st 1, (x0, y) :: log)
              | _ => (f0, st, log)
              end in
            let scal := map3 (fun a r yi => a + r * abs O yi) atolv rtolv y in
            let zm : nat -> nat -> F := fun _ _ => zero O in
            loop P n f jacf mass atolv rtolv newton_tol xend posneg hmax hmin cb fuel
                 (mkS x0 y h h h first_is_last false (zero O) (zero O) (one O) (zero O) (zero O) (zero O)
                      true true true 0%N f0 scal (repeat (zero O) (4 * n)) zm
                      (mkLU1 zm (fun _ => 0)) (mkLU2 zm zm (fun _ => 0)) st log [] cbs)
        end.
End Radau.

Arguments r_status {F H}. Arguments r_h {F H}. Arguments r_stats {F H}.
Arguments r_x {F H}. Arguments r_y {F H}. Arguments r_log {F H}. Arguments r_jaclog {F H}. Arguments r_cb {F H}.
