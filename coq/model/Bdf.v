(* BDF (src/methods/bdf.rs): variable-order (1..5) backward differentiation formulas in the
   SciPy formulation: scaled differences D, simplified Newton, order/step adaptation. *)
Require Import List ZArith Bool Arith.
Require Import IVP.model.Lit IVP.model.Ops IVP.model.Vec IVP.model.Common IVP.model.LU IVP.gen.Inline.
Require IVP.gen.Consts_bdf.
Import ListNotations.
Local Open Scope bool_scope.

Section Bdf.
  Context {F : Type} (O : Ops F).
  Local Notation "a + b" := (add O a b). Local Notation "a - b" := (sub O a b).
  Local Notation "a * b" := (mul O a b). Local Notation "a / b" := (div O a b).
  Local Notation "a <=? b" := (leb O a b). Local Notation "a <? b" := (ltb O a b).
  Local Notation "a >=? b" := (leb O b a) (at level 70). Local Notation "a >? b" := (ltb O b a) (at level 70).
  Local Notation "'L' l" := (lit O l) (at level 1, l at level 0).
  Local Notation vec := (list F).
  Local Notation mat := (nat -> nat -> F).
  Import Consts_bdf.

  Definition MAXO := MAX_ORDER.      (* 5, from the source *)

  Record params := mkP {
    p_max_steps : N; p_max_step : option F; p_min_step : option F; p_newton_maxiter : nat;
    p_newton_tol : option F; p_first_step : option F
  }.

  Definition lv (l : vec) : nat -> F := fun i => nth i l (zero O).
  Definition vl (n : nat) (b : nat -> F) : vec := map b (seq 0 n).
  Definition nthv (l : list vec) (k : nat) : vec := nth k l [].
  Definition nthf (l : vec) (k : nat) : F := nth k l (zero O).

  (* gamma[k] = gamma[k-1] + 1/k ; alpha[k] = (1 - kappa[k]) gamma[k] ; error_const[k] = kappa[k] gamma[k] + 1/(k+1) *)
  Definition gammas : vec :=
    fold_left (fun acc k => acc ++ [nthf acc (Nat.pred k) + one O / ofnat O k]) (seq 1 MAXO) [zero O].
  Definition alphas : vec := map2 (fun kap g => (one O - L kap) * g) KAPPA gammas.
  Definition error_consts : vec :=
    map3 (fun kap g k => L kap * g + one O / (ofnat O k + one O)) KAPPA gammas (seq 0 (S MAXO)).

  Definition wrms (v scale : vec) : F :=
    let s := fold_left (fun acc p => let den := if eqb O (snd p) (zero O) then L LEPS else snd p in
                                     let r := fst p / den in acc + r * r) (combine v scale) (zero O) in
    sqrt O (s / ofnat O (length v)).

  (* ---- change_d ---- *)
  Definition compute_r (order : nat) (factor : F) : list vec :=
    let size := S order in
    let m i j : F := if Nat.eqb i 0 then one O
                     else if Nat.eqb j 0 then zero O
                     else (ofnat O i - one O - factor * ofnat O j) / ofnat O i in
    fold_left (fun rows i => rows ++ [map2 (fun prev j => prev * m i j) (nthv rows (Nat.pred i)) (seq 0 size)])
              (seq 1 order) [map (fun j => m 0 j) (seq 0 size)].

  Definition matmul (a b : list vec) : list vec :=
    let cols := length (nthv b 0) in
    map (fun arow =>
           map (fun j => fold_left (fun acc p => let coeff := fst p in
                                                 if eqb O coeff (zero O) then acc else acc + coeff * nthf (snd p) j)
                                   (combine arow b) (zero O))
               (seq 0 cols)) a.

  Definition change_d (d : list vec) (order : nat) (factor : F) : list vec :=
    if eqb O factor (one O) then d
    else
      let order := Nat.min order MAXO in
      let ru := matmul (compute_r order factor) (compute_r order (one O)) in
      let n := length (nthv d 0) in
      let newrow row :=
        fold_left (fun acc k => let coeff := nthf (nthv ru k) row in
                                if eqb O coeff (zero O) then acc
                                else map2 (fun s dv => s + coeff * dv) acc (nthv d k))
                  (seq 0 (S order)) (repeat (zero O) n) in
      map (fun i => if Nat.leb i order then newrow i else nthv d i) (seq 0 (length d)).

  (* ---- dense output ---- *)
  Definition order_of_marker (c : F) : nat :=
    if c <? L L1_5 then 1 else if c <? L L2_5 then 2 else if c <? L L3_5 then 3
    else if c <? L L4_5 then 4 else 5.

  Definition interpolate (cont : vec) (xold h xi : F) (n : nat) : vec :=
    if eqb O h (zero O) then repeat (zero O) n
    else
      let blockn := 7 in
      let order := order_of_marker (nthf cont 6) in
      let x_new := xold + h in
      let xf k := (xi - (x_new - h * ofnat O k)) / (h * (ofnat O k + one O)) in
      let p := fold_left (fun acc k => acc ++ [match k with 0 => xf 0 | S k' => nthf acc k' * xf k end])
                         (seq 0 order) [] in
      map (fun i => let base := Nat.mul i blockn in
                    fold_left (fun s k => s + nthf cont (Nat.add (Nat.add base 1) k) * nthf p k) (seq 0 order) (nthf cont base))
          (seq 0 n).

  Record state (H : Type) := mkS {
    s_x : F; s_y : vec; s_h : F (* current_h > 0 *); s_d : list vec; s_order : nat; s_neq : nat;
    s_jac : mat; s_lu : mat; s_ip : nat -> nat; s_lucur : bool; s_curc : F;
    s_stats : stats; s_log : list (F * vec); s_jaclog : list (F * vec);
    s_failed : option F;  (* size of the last attempt rejected since the last accepted step (fix for F31) *)
    s_cb : H
  }.
  Record result (H : Type) := mkR { r_status : status; r_h : F; r_stats : stats;
                                    r_x : F; r_y : vec; r_log : list (F * vec);
                                    r_jaclog : list (F * vec); r_cb : H }.
  Arguments mkS {H}. Arguments mkR {H}.
  Arguments s_x {H}. Arguments s_y {H}. Arguments s_h {H}. Arguments s_d {H}. Arguments s_order {H}.
  Arguments s_neq {H}. Arguments s_jac {H}. Arguments s_lu {H}. Arguments s_ip {H}. Arguments s_lucur {H}.
  Arguments s_curc {H}. Arguments s_stats {H}. Arguments s_log {H}. Arguments s_jaclog {H}. Arguments s_cb {H}.
  Arguments s_failed {H}.

  Section Loop.
    Context {H : Type}.
    Variable P : params.
    Variable n : nat.
    Variable f : F -> vec -> vec.
    Variable jacf : F -> vec -> mat.
    Variables (atolv rtolv : vec).
    Variable newton_tol : F.
    Variable maxiter : nat.
    Variable xend : F.
    Variable direction : F.
    Variables (hmax hmin : F).
    Variable cb : H -> F -> F -> vec -> option (vec * F * F) -> H * flag F * vec.

    Definition scale_of (y : vec) : vec :=
      map3 (fun a r yi => let s := a + r * abs O yi in if eqb O s (zero O) then L LEPS else s) atolv rtolv y.

    Record newton_res := mkNR { nr_y : vec; nr_delta : vec; nr_conv : bool; nr_iters : nat;
                                nr_calls : list (F * vec) }.

    (* the simplified Newton loop; `iters` counts completed passes that did not leave the loop *)
    Fixpoint newton (fuel : nat) (x_new c : F) (psi scale : vec) (lu : mat) (ip : nat -> nat)
             (y_new delta : vec) (prev : option F) (iters : nat) (calls : list (F * vec)) : newton_res :=
      match fuel with
      | 0 => mkNR y_new delta false iters calls
      | S k =>
          if Nat.leb maxiter iters then mkNR y_new delta false iters calls
          else
            let fr := f x_new y_new in
            let calls := (x_new, y_new) :: calls in
            let rhs0 := map3 (fun fi p dl => c * fi - p - dl) fr psi delta in
            let rhs := vl n (lin_solve O n lu ip (lv rhs0)) in
            let dy_norm := wrms rhs scale in
            let rate_condition :=
              match prev with
              | Some pv =>
                  if pv >? zero O then
                    let rate := dy_norm / pv in
                    if rate >=? one O then true
                    else
                      let remaining := ofnat O (Nat.sub maxiter iters) in
                      let estimate := pow O rate remaining / (one O - rate) * dy_norm in
                      estimate >? newton_tol
                  else false
              | None => false
              end in
            let y_new := map2 (fun a b => a + b) y_new rhs in
            let delta := map2 (fun a b => a + b) delta rhs in
            if eqb O dy_norm (zero O) then mkNR y_new delta true iters calls
            else
              let conv2 :=
                match prev with
                | Some pv =>
                    if pv >? zero O then
                      let rate := dy_norm / pv in
                      if rate <? one O then (rate / (one O - rate) * dy_norm) <? newton_tol else false
                    else false
                | None => false
                end in
              if conv2 then mkNR y_new delta true iters calls
              else if rate_condition then mkNR y_new delta false iters calls
              else newton k x_new c psi scale lu ip y_new delta (Some dy_norm) (S iters) calls
      end.

    Definition hres (s : state H) : F := direction * s_h s.

    (* a rejected attempt: rescale the differences, shrink the step, try again *)
    Definition retry (s : state H) (d : list vec) (h : F) (factor : F) (jac : mat) (jl : list (F * vec))
               (lu : mat) (ip : nat -> nat) (lucur : bool) (curc : F) (st : stats) (log : list (F * vec))
      : state H + result H :=
      inl (mkS (s_x s) (s_y s) (h * factor) (change_d d (s_order s) factor) (s_order s) 0 jac lu ip lucur curc
               (add_rej st) log jl (Some h) (s_cb s)).

    Definition step (s : state H) : state H + result H :=
      let x := s_x s in let y := s_y s in
      let fin st := inr (mkR st (hres s) (s_stats s) x y (s_log s) (s_jaclog s) (s_cb s)) in
      if N.leb (p_max_steps P) (nstep (s_stats s)) then fin NeedLargerNMax
      else if s_h s <? L LMINPOS then fin StepSizeTooSmall
      (* min_step is a lower bound: once an attempt no longer than it has been rejected nothing smaller is tried *)
      else if (hmin >? zero O) && (s_h s <? hmin) && (match s_failed s with Some fh => fh <=? hmin | None => false end)
      then fin StepSizeTooSmall
      else
        let order := s_order s in
        (* clamp to hmax / hmin *)
        let '(d, h, neq, lucur) :=
          if s_h s >? hmax then (change_d (s_d s) order (hmax / s_h s), hmax, 0, false)
          else (s_d s, s_h s, s_neq s, s_lucur s) in
        let '(d, h, neq, lucur) :=
          if (h <? hmin) && (hmin >? zero O) then
            (change_d d order (fmax O (hmin / h) (one O)), hmin, 0, false)
          else (d, h, neq, lucur) in
        let h_signed := direction * h in
        let x_new := x + h_signed in
        (* ... or ends beside xend: the rest is below the resolution of x_new (fix for F30) *)
        let rest := xend - x_new in
        let beside := negb (eqb O rest (zero O)) && eqb O (x_new + L L0_1 * rest) x_new in
        let over := ((direction * (x_new - xend)) >? zero O) || beside in
        let step_to_end := abs O (xend - x) in
        if over && eqb O step_to_end (zero O) then
          inr (mkR Success (direction * h) (s_stats s) x y (s_log s) (s_jaclog s) (s_cb s))
        else
          let '(d, h, neq, lucur) :=
            if over then
              let factor := step_to_end / h in
              (change_d d order factor, h * factor, 0, false)
            else (d, h, neq, lucur) in
          let h_signed := direction * h in
          let x_new := if over then xend else x + h_signed in
          if eqb O (x + L L0_1 * abs O h_signed) x then
            inr (mkR StepSizeTooSmall (direction * h) (s_stats s) x y (s_log s) (s_jaclog s) (s_cb s))
          else
            let st := add_step (s_stats s) in
            let y_predict := map (fun i => fold_left (fun acc k => acc + nthf (nthv d k) i) (seq 0 (S order)) (zero O))
                                 (seq 0 n) in
            let scale := scale_of y_predict in
            let psi := map (fun i => fold_left (fun acc j => acc + nthf gammas j * nthf (nthv d j) i)
                                               (seq 1 order) (zero O) / nthf alphas order) (seq 0 n) in
            let c := h_signed / nthf alphas order in
            let rebuild := negb lucur || ((abs O (c - s_curc s) / fmax O (abs O c) (one O)) >? L L0_1) in
            let lures :=
              if rebuild then
                let A : mat := fun r cc => let v := neg O c * s_jac s r cc in if Nat.eqb r cc then v + one O else v in
                match lu_decomp O n n n (compact O n A) (fun _ => 0) with
                | LuOk lu ip => inl (lu, ip, true, c, add_lu st 1)
                | _ => inr (add_lu st 1)
                end
              else inl (s_lu s, s_ip s, lucur, s_curc s, st) in
            match lures with
            | inr st' =>
                inl (mkS x y (h * L L0_5) (change_d d order (L L0_5)) order 0 (s_jac s) (s_lu s) (s_ip s) false
                         (s_curc s) (add_rej st') (s_log s) (s_jaclog s) (Some h) (s_cb s))
            | inl (lu, ip, lucur, curc, st) =>
                let nr := newton (S maxiter) x_new c psi scale lu ip y_predict (repeat (zero O) n) None 0 [] in
                let st := add_fev st (N.of_nat (length (nr_calls nr))) in
                let log := nr_calls nr ++ s_log s in
                if negb (nr_conv nr) then
                  let jac := compact O n (jacf x_new y_predict) in
                  inl (mkS x y (h * L L0_5) (change_d d order (L L0_5)) order 0 jac lu ip false curc
                           (add_rej (add_jev st 1)) log ((x_new, y_predict) :: s_jaclog s) (Some h) (s_cb s))
                else
                  let y_new := nr_y nr in let delta := nr_delta nr in
                  let m2 := L L2 * ofnat O maxiter in
                  let safety := L SAFETY_DEFAULT * (m2 + one O) / (m2 + ofnat O (S (nr_iters nr))) in
                  let scale := scale_of y_new in
                  let error_norm := wrms (map (fun dl => nthf error_consts order * dl) delta) scale in
                  if error_norm >? one O then
                    let factor := fmax O (safety * pow O error_norm (neg O (one O) / (ofnat O order + one O))) (L MIN_FACTOR) in
                    inl (mkS x y (h * factor) (change_d d order factor) order 0 (s_jac s) lu ip lucur curc
                             (add_rej st) log (s_jaclog s) (Some h) (s_cb s))
                  else
                    let st := add_acc st in
                    let neq := S neq in
                    (* update the differences *)
                    let d_o2 := map2 (fun dl dv => dl - dv) delta (nthv d (Nat.add order 1)) in
                    let d1 := map (fun k => if Nat.eqb k (Nat.add order 2) then d_o2
                                            else if Nat.eqb k (Nat.add order 1) then delta else nthv d k)
                                  (seq 0 (length d)) in
                    let d2 := fold_left (fun dd k => map (fun j => if Nat.eqb j k
                                                                   then map2 (fun a b => a + b) (nthv dd k) (nthv dd (S k))
                                                                   else nthv dd j) (seq 0 (length dd)))
                                        (rev (seq 0 (S order))) d1 in
                    let cont := flat_map (fun i => nthf (nthv d2 0) i ::
                                                   map (fun k => if Nat.leb (S k) order then nthf (nthv d2 (S k)) i else zero O)
                                                       (seq 0 MAXO) ++ [ofnat O order]) (seq 0 n) in
                    let '(cbs, fl, ycb) := cb (s_cb s) x x_new y_new (Some (cont, x, h_signed)) in
                    match fl with
                    | Interrupt => inr (mkR UserInterrupt (direction * h) st x_new ycb log (s_jaclog s) cbs)
                    | _ =>
                        let '(d3, order, neq, jac, jl, lucur, st, log) :=
                          match fl with
                          | ModifiedSolution =>
                              let f0 := f x_new ycb in
                              let dd := map (fun k => if Nat.eqb k 0 then ycb
                                                      else if Nat.eqb k 1 then map (fun fi => fi * h * direction) f0
                                                      else repeat (zero O) n) (seq 0 (length d2)) in
                              (dd, 1, 0, compact O n (jacf x_new ycb), (x_new, ycb) :: s_jaclog s, false,
                               add_jev (add_fev st 1) 1, (x_new, ycb) :: log)
                          | _ => (d2, order, neq, s_jac s, s_jaclog s, lucur, st, log)
                          end in
                        if (direction * (x_new - xend)) >=? zero O then
                          inr (mkR Success (direction * h) st x_new ycb log jl cbs)
                        else if Nat.leb (S order) neq then
                          let err_m := if Nat.ltb 1 order
                                       then wrms (map (fun v => nthf error_consts (Nat.pred order) * v) (nthv d3 order)) scale
                                       else (one O / zero O) in
                          let err_p := if Nat.ltb order MAXO
                                       then wrms (map (fun v => nthf error_consts (S order) * v) (nthv d3 (Nat.add order 2))) scale
                                       else (one O / zero O) in
                          let fm := pow O err_m (neg O (one O) / (ofnat O order + zero O)) in
                          let f0 := pow O error_norm (neg O (one O) / (ofnat O order + one O)) in
                          let fp := pow O err_p (neg O (one O) / (ofnat O order + L L2)) in
                          (* Iterator::max_by folds with `if cmp(x,y) == Greater then x else y`: the LAST of equal
                             maxima wins, incomparable (NaN) pairs count as equal *)
                          let '(b1, v1) := if fm >? f0 then (0, fm) else (1, f0) in
                          let best := if v1 >? fp then b1 else 2 in
                          let new_order := if Nat.eqb best 0 && Nat.ltb 1 order then Nat.pred order
                                           else if Nat.eqb best 2 && Nat.ltb order MAXO then S order else order in
                          let max_factor := fmax O (fmax O (fmax O (zero O) fm) f0) fp in
                          let step_factor := fmin O (safety * max_factor) (L MAX_FACTOR) in
                          let '(jac, jl, st) := if Nat.eqb new_order order then (jac, jl, st)
                                                else (compact O n (jacf x_new ycb), (x_new, ycb) :: jl, add_jev st 1) in
                          inl (mkS x_new ycb (h * step_factor) (change_d d3 new_order step_factor) new_order 0
                                   jac lu ip false curc st log jl None cbs)
                        else
                          inl (mkS x_new ycb h d3 order neq jac lu ip lucur curc st log jl None cbs)
                    end
            end.

    Fixpoint loop (fuel : nat) (s : state H) : option (result H) :=
      match fuel with
      | 0 => None
      | S k => match step s with inl s' => loop k s' | inr r => Some r end
      end.
  End Loop.

  Definition solve {H : Type} (P : params) (f : F -> vec -> vec) (jacf : F -> vec -> nat -> nat -> F)
             (x0 : F) (y0 : vec) (xend : F) (rtol atol : tol F)
             (cb : H -> F -> F -> vec -> option (vec * F * F) -> H * flag F * vec) (cb0 : H)
             (fuel : nat) : option (result H) :=
    let n := length y0 in
    if Nat.eqb n 0 then Some (mkR Success (zero O) stats0 x0 y0 [] [] cb0)
    else
      let rtolv := tolv rtol n in let atolv := tolv atol n in
      if existsb (fun r => r <? zero O) rtolv || existsb (fun a => a <? zero O) atolv then None
      else if N.eqb (p_max_steps P) 0 then None
      else
        let direction := signum O (xend - x0) in
        let hmax := abs O (match p_max_step P with Some m => m | None => abs O (xend - x0) end) in
        let hmin := abs O (match p_min_step P with Some m => m | None => zero O end) in
        let f0 := f x0 y0 in
        let st := add_fev stats0 1 in
        let log := [(x0, y0)] in
        let jac := compact O n (jacf x0 y0) in
        let st := add_jev st 1 in
        let jl := [(x0, y0)] in
        let rtol_min := fmax O (fold_left (fmin O) rtolv ((one O / zero O))) (L LEPS) in
        let ntol := match p_newton_tol P with
                    | Some v => v
                    | None => fmax O (L L10 * L LEPS / rtol_min) (fmin O (sqrt O rtol_min) (L L0_03))
                    end in
        let ntol := if ntol <=? zero O then L L1em9 else ntol in
        let maxiter := Nat.max (p_newton_maxiter P) 1 in
        let first :=
          match p_first_step P with
          | Some h => if eqb O h (zero O) then None else Some (abs O h, st, log)
          | None =>
              let '(guess, call) := hinit O f x0 y0 direction f0 1 (fmin O hmax (abs O (xend - x0))) atol rtol in
              let max_h := abs O (xend - x0) in
              let guess := if abs O guess >? max_h then max_h * direction else guess in
              Some (abs O guess, add_fev st 1, call :: log)
          end in
        match first with
        | None => None
        | Some (h_abs, st, log) =>
            let h := fmin O h_abs (fmax O hmax (L LMINPOS)) in
            let zero_row := repeat (zero O) n in
            let d := y0 :: map (fun fi => fi * h * direction) f0 :: repeat zero_row (Nat.add MAXO 1) in
            let zm : nat -> nat -> F := fun _ _ => zero O in
            let '(cbs, fl, y) := cb cb0 x0 x0 y0 None in
            match fl with
            | Interrupt => Some (mkR UserInterrupt (direction * h) st x0 y log jl cbs)
            | _ =>
                let '(d, jac, jl, st, log) :=
                  match fl with
                  | ModifiedSolution =>
                      let f1 := f x0 y in
                      (y :: map (fun fi => fi * h * direction) f1 :: repeat zero_row (Nat.add MAXO 1),
                       compact O n (jacf x0 y), (x0, y) :: jl, add_jev (add_fev st 1) 1, (x0, y) :: log)
                  | _ => (d, jac, jl, st, log)
                  end in
                loop P n f jacf atolv rtolv ntol maxiter xend direction hmax hmin cb fuel
                     (mkS x0 y h d 1 0 jac zm (fun _ => 0) false (zero O) st log jl None cbs)
            end
        end.
End Bdf.

Arguments r_status {F H}. Arguments r_h {F H}. Arguments r_stats {F H}.
Arguments r_x {F H}. Arguments r_y {F H}. Arguments r_log {F H}. Arguments r_jaclog {F H}. Arguments r_cb {F H}.
