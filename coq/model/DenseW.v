(* Dense-output weights b_j(theta) of the explicit methods as polynomials with exact rational coefficients,
   assembled from the generated constants in the same nested (Horner-in-theta/theta1) shape as the
   `interpolate` functions of model/{Dopri5,Rk23,Rk4}.v.  proofs/DenseLink.v proves that the real-number
   instance of those functions is  y + h * sum_j b_j(theta) k_j  with exactly these polynomials. *)
Require Import List ZArith QArith Qcanon.
Require Import IVP.model.Lit IVP.model.RK IVP.model.Trees IVP.model.Vec IVP.model.Order IVP.model.Tableau IVP.gen.Inline.
Import ListNotations.
Local Open Scope Qc_scope.

Definition qpoly := list Qc.                       (* constant term first *)
Fixpoint padd (p q : qpoly) : qpoly :=
  match p, q with
  | [], _ => q
  | _, [] => p
  | a :: p', b :: q' => (a + b) :: padd p' q'
  end.
Definition pscale (c : Qc) (p : qpoly) : qpoly := map (Qcmult c) p.
Definition pX (p : qpoly) : qpoly := 0 :: p.                       (* theta * p *)
Definition p1mX (p : qpoly) : qpoly := padd p (pscale (- (1)) (pX p)).   (* (1 - theta) * p *)
Definition coef (p : qpoly) (m : nat) : Qc := nth m p 0.
Definition unit_at (s j : nat) : qvec := map (fun i => if Nat.eqb i j then 1 else 0) (seq 0 s).
Definition qnth (v : qvec) (j : nat) : Qc := nth j v 0.

(* column m of a family of weight polynomials: the vector (coefficient of theta^m in b_j)_j *)
Definition wcol (W : list qpoly) (m : nat) : qvec := map (fun p => coef p m) W.

(* continuous order condition for the coefficient of theta^m:
   gamma(t) * sum_j [theta^m] b_j * Phi_j(t)  =  1 if m = |t|, 0 otherwise *)
Definition cond_cont (m : nat) (w : qvec) (v : wval (K:=Qc)) : bool :=
  if Nat.eqb (w_size v) m then cond_exact w v else cond_zero w v.
Definition check_cont (A : list qvec) (s : nat) (W : list qpoly) (deg q : nat) : bool :=
  forallb (fun m => check_all QcK A s (cond_cont m (wcol W m)) q) (seq 0 (S deg)).

(* ---- DOPRI5: c0 + th*(c1 + th1*(c2 + th*(c3 + th1*c4))), c1 = y1-y, c2 = h k1 - c1, c3 = -h k7 + c1 - c2, c4 = h d.k ---- *)
Module D5W.
  Definition s := 7%nat.
  Definition A (q : sel) := dense_A q 7 DOPRI5T.stages.
  Definition b (q : sel) := dense_row q 7 DOPRI5T.b.
  Definition d (q : sel) := dense_row q 7 DOPRI5T.d.
  Definition Wj (q : sel) (j : nat) : qpoly :=
    let bj := qnth (b q) j in let e1 := qnth (unit_at 7 0) j in let e7 := qnth (unit_at 7 6) j in
    let c2 := e1 - bj in let c3 := - e7 + bj - c2 in let c4 := qnth (d q) j in
    pX (padd [bj] (p1mX (padd [c2] (pX (padd [c3] (p1mX [c4])))))).
  Definition W (q : sel) : list qpoly := map (Wj q) (seq 0 7).
End D5W.

(* ---- RK23: c0 + h*(k1*t + (d2.k) t^2 + (d3.k) t^3); stage 4 = f(x+h, ynew) ---- *)
Module R23W.
  Definition A (q : sel) := dense_A q 4 RK23T.stages.
  Definition d2 (q : sel) := dense_row q 4 RK23T.d2.
  Definition d3 (q : sel) := dense_row q 4 RK23T.d3.
  Definition Wj (q : sel) (j : nat) : qpoly :=
    [0; qnth (unit_at 4 0) j; qnth (d2 q) j; qnth (d3 q) j].
  Definition W (q : sel) : list qpoly := map (Wj q) (seq 0 4).
End R23W.

(* ---- RK4: cubic Hermite on (y, k1) and (ynew, f(x+h, ynew)): a fifth stage with row b ---- *)
Module R4W.
  Definition stages5 := RK4T.stages ++ [mkStage None (RSum RK4T.b)].
  Definition A (q : sel) := dense_A q 5 stages5.
  Definition b (q : sel) := dense_row q 5 RK4T.b.
  Definition two (q : sel) := Q2Qc (q L2).
  Definition three (q : sel) := Q2Qc (q L3).
  (* u - y = h01 * (ynew - y) + h * (h10 * k1 + h11 * k5) *)
  Definition h01 (q : sel) : qpoly := [0; 0; three q; - two q].
  Definition h10 (q : sel) : qpoly := [0; 1; - two q; 1].
  Definition h11 : qpoly := [0; 0; - (1); 1].
  Definition Wj (q : sel) (j : nat) : qpoly :=
    padd (pscale (qnth (b q) j) (h01 q))
         (padd (pscale (qnth (unit_at 5 0) j) (h10 q)) (pscale (qnth (unit_at 5 4) j) h11)).
  Definition W (q : sel) : list qpoly := map (Wj q) (seq 0 5).
End R4W.
