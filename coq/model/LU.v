(* lu_decomp / lin_solve (src/matrix/lu.rs, linear.rs), Hairer's DEC/SOL with lazy row swaps:
   the stored multipliers are NOT swapped; lin_solve swaps b[m], b[k] on the fly.
   Matrices are functions nat -> nat -> F with an explicit dimension. *)
Require Import List Arith Bool.
Require Import IVP.model.Lit IVP.model.Ops.
Import ListNotations.
Local Open Scope bool_scope.

Section LU.
  Context {F : Type} (O : Ops F).
  Definition mat := nat -> nat -> F.
  Definition vecf := nat -> F.

  (* re-tabulate so that closures stay shallow when executed *)
  Definition compact (n : nat) (A : mat) : mat :=
    let rows := map (fun i => map (fun j => A i j) (seq 0 n)) (seq 0 n) in
    fun i j => nth j (nth i rows []) (zero O).
  Definition compactv (n : nat) (b : vecf) : vecf :=
    let l := map b (seq 0 n) in fun i => nth i l (zero O).

  (* first index in k..n-1 maximising |A i k| (strict > keeps the first maximum) *)
  Definition find_pivot (n : nat) (A : mat) (k : nat) : nat :=
    fst (fold_left (fun (acc : nat * F) i =>
                      let v := abs O (A i k) in
                      if ltb O (snd acc) v then (i, v) else acc)
                   (seq (S k) (n - S k)) (k, abs O (A k k))).

  (* one elimination step with pivot row m (closed form of the loops of lu_decomp) *)
  Definition elim_step (A : mat) (k m : nat) : mat :=
    let p := A m k in
    let t := div O (one O) p in
    (* column k after the swap of the two column-k entries *)
    let colk i := if i =? m then A k k else A i k in
    let l i := mul O (neg O (colk i)) t in           (* stored negative multiplier, i > k *)
    fun i j =>
      if j <? k then A i j
      else if j =? k then
        (if i <? k then A i j else if i =? k then p else l i)
      else
        let tj := A m j in
        (* rows k and m exchanged in column j *)
        let sw := if i =? k then tj else if i =? m then A k j else A i j in
        if i <=? k then sw
        else if eqb O tj (zero O) then sw
        else add O sw (mul O (l i) tj).

  Inductive lu_result := LuOk (LU : mat) (ip : nat -> nat) | LuSingular | LuNonSquare | LuPivotSize.

  (* k-loop: k = 0 .. n-2 *)
  Fixpoint lu_loop (n : nat) (steps : nat) (k : nat) (A : mat) (ip : nat -> nat) : option (mat * (nat -> nat)) :=
    match steps with
    | 0 => Some (A, ip)
    | S s =>
        let m := find_pivot n A k in
        if eqb O (A m k) (zero O) then None
        else lu_loop n s (S k) (compact n (elim_step A k m)) (fun i => if i =? k then m else ip i)
    end.

  Definition lu_decomp (nrows ncols iplen : nat) (A : mat) (ip0 : nat -> nat) : lu_result :=
    let n := nrows in
    if negb (n =? ncols) then LuNonSquare
    else if negb (iplen =? n) then LuPivotSize
    else if n =? 1 then
      (if eqb O (A 0 0) (zero O) then LuSingular else LuOk A (fun i => if i =? 0 then 0 else ip0 i))
    else
      match lu_loop n (n - 1) 0 A ip0 with
      | None => LuSingular
      | Some (LU, ip) => if eqb O (LU (n - 1) (n - 1)) (zero O) then LuSingular else LuOk LU ip
      end.

  (* forward elimination on the right-hand side: step k *)
  Definition fwd_step (LU : mat) (ip : nat -> nat) (k : nat) (b : vecf) : vecf :=
    let m := ip k in
    let bs i := if i =? k then b m else if i =? m then b k else b i in   (* b.swap(m,k) *)
    fun i => if k <? i then add O (bs i) (mul O (LU i k) (bs k)) else bs i.

  Fixpoint fwd_loop (n : nat) (LU : mat) (ip : nat -> nat) (steps k : nat) (b : vecf) : vecf :=
    match steps with
    | 0 => b
    | S s => fwd_loop n LU ip s (S k) (compactv n (fwd_step LU ip k b))
    end.

  (* back substitution: for k = n-1 downto 1: b[k] /= a[k,k]; for i<k: b[i] += a[i,k] * -b[k] *)
  Definition back_step (LU : mat) (k : nat) (b : vecf) : vecf :=
    let bk := div O (b k) (LU k k) in
    fun i => if i =? k then bk else if i <? k then add O (b i) (mul O (LU i k) (neg O bk)) else b i.

  Fixpoint back_loop (n : nat) (LU : mat) (kb : nat) (b : vecf) : vecf :=
    (* kb counts n-1 downto 1 *)
    match kb with
    | 0 => b
    | S k' => back_loop n LU k' (compactv n (back_step LU (S k') b))
    end.

  Definition lin_solve (n : nat) (LU : mat) (ip : nat -> nat) (b : vecf) : vecf :=
    if n =? 1 then (fun i => if i =? 0 then div O (b 0) (LU 0 0) else b i)
    else
      let b1 := fwd_loop n LU ip (n - 1) 0 b in
      let b2 := back_loop n LU (n - 1) b1 in
      fun i => if i =? 0 then div O (b2 0) (LU 0 0) else b2 i.
End LU.

Arguments LuOk {F}. Arguments LuSingular {F}. Arguments LuNonSquare {F}. Arguments LuPivotSize {F}.
