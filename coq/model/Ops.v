(* The number interface every numeric model is written against.  Three instances:
   Rops (reals: the theorems), Fops (primitive binary64 floats: bit-exact execution),
   and ad-hoc exact instances for certificates. *)
Require Import ZArith QArith Floats List.
Require Import IVP.model.Lit.
Import ListNotations.

Record Ops (F : Type) := mkOps {
  zero : F; one : F;
  add : F -> F -> F; sub : F -> F -> F; mul : F -> F -> F; div : F -> F -> F;
  neg : F -> F; abs : F -> F; sqrt : F -> F;
  ltb : F -> F -> bool; leb : F -> F -> bool; eqb : F -> F -> bool;
  fmin : F -> F -> F; fmax : F -> F -> F;      (* Rust f64::min / max (NaN-ignoring) *)
  pow : F -> F -> F;                            (* Rust f64::powf *)
  signum : F -> F;                              (* Rust f64::signum: +-1, NaN for NaN *)
  is_nan : F -> bool;
  lit : Lit -> F
}.

Arguments zero {F}. Arguments one {F}. Arguments add {F}. Arguments sub {F}.
Arguments mul {F}. Arguments div {F}. Arguments neg {F}. Arguments abs {F}.
Arguments sqrt {F}. Arguments ltb {F}. Arguments leb {F}. Arguments eqb {F}.
Arguments fmin {F}. Arguments fmax {F}. Arguments pow {F}. Arguments signum {F}.
Arguments is_nan {F}. Arguments lit {F}.

Section Derived.
  Context {F : Type} (O : Ops F).
  (* `n as f64` for small n, without machine integers: exact below 2^53 *)
  Fixpoint ofnat (n : nat) : F :=
    match n with 0%nat => zero O | S k => add O (ofnat k) (one O) end.
  Definition gtb (a b : F) : bool := ltb O b a.
  Definition geb (a b : F) : bool := leb O b a.
  Definition sq (a : F) : F := mul O a a.
End Derived.
