(* Source literals: exact rational value, the binary64 value, and the primitive float. *)
Require Import ZArith QArith Floats List.

Record Lit := mkLit { lit_q : Q; f64_q : Q; lit_f : float }.

Definition SF2Q (s : spec_float) : option Q :=
  match s with
  | S754_zero _ => Some 0%Q
  | S754_finite sg m e =>
      Some ((if sg then (Zneg m # 1) else (Zpos m # 1)) * Qpower 2 e)%Q
  | _ => None
  end.

(* lit_f denotes f64_q, and Coq's own evaluation of the source expression gives lit_f *)
Definition lit_consistent (p : Lit * float) : bool :=
  let (l, src) := p in
  match SF2Q (Prim2SF (lit_f l)) with
  | Some q => Qeq_bool q (f64_q l) && PrimFloat.eqb (lit_f l) src
  | None => false
  end.
