(* The Runge-Kutta matrix that RADAU (src/methods/radau.rs) effectively applies.  The code never stores the
   Radau IIA matrix: it iterates on W = TI Z with the block-diagonal  Lambda = diag(U1, [[ALPH,-BETA],[BETA,ALPH]])
   (the factorised matrices are  U1/h M - J  and  (ALPH + i BETA)/h M - J).  A fixed point of the simplified Newton
   pass satisfies  TI G = Lambda W / h,  Z = T W,  i.e.  Z = h * Aeff * G  with  Aeff = T Lambda^-1 TI
   (proofs/RadauEffFacts.v).  Everything here is exact rational arithmetic on the regenerated constants. *)
Require Import List ZArith QArith Qcanon.
Require Import IVP.model.Lit IVP.model.RK IVP.model.Trees IVP.model.Vec IVP.model.Order.
Require IVP.gen.Consts_radau.
Import ListNotations.
Local Open Scope Qc_scope.

Module RE.
  Import IVP.gen.Consts_radau.
  Section Sel.
    Variable q : Lit -> Q.
    Definition c (l : Lit) : Qc := Q2Qc (q l).
    (* T as the code applies it: w3 = f1*T20 + f2 (T21 = 1, T22 = 0) *)
    Definition T : list qvec := [[c T00; c T01; c T02]; [c T10; c T11; c T12]; [c T20; 1; 0]].
    Definition TI : list qvec := [[c TI00; c TI01; c TI02]; [c TI10; c TI11; c TI12]; [c TI20; c TI21; c TI22]].
    Definition nrm : Qc := c ALPH * c ALPH + c BETA * c BETA.
    (* inverse of Lambda *)
    Definition LamInv : list qvec :=
      [[/ c U1; 0; 0]; [0; c ALPH / nrm; c BETA / nrm]; [0; - c BETA / nrm; c ALPH / nrm]].
    Definition mmul (X Y : list qvec) : list qvec :=
      map (fun r => map (fun j => qdot r (map (fun row => nth j row 0) Y)) (seq 0 3)) X.
    Definition Aeff : list qvec := mmul T (mmul LamInv TI).
    Definition beff : qvec := nth 2 Aeff [].         (* stiffly accurate: ynew = y + Z3 *)
    Definition ceff : qvec := [c C1; c C2; 1].
    Definition a (i j : nat) : Qc := nth j (nth i Aeff []) 0.
    (* stability function R(z) = P(z)/Q(z):  Q(z) = det(I - z A),  P(z) = Q(z) + z * [adj(I - z A) A 1]_3 ;
       coefficients (constant term first), A = (a_ij) *)
    Definition tr : Qc := a 0 0 + a 1 1 + a 2 2.
    Definition m2 : Qc := (a 0 0 * a 1 1 - a 0 1 * a 1 0) + (a 0 0 * a 2 2 - a 0 2 * a 2 0) + (a 1 1 * a 2 2 - a 1 2 * a 2 1).
    Definition det : Qc :=
      a 0 0 * (a 1 1 * a 2 2 - a 1 2 * a 2 1) - a 0 1 * (a 1 0 * a 2 2 - a 1 2 * a 2 0) + a 0 2 * (a 1 0 * a 2 1 - a 1 1 * a 2 0).
    Definition Qpoly : list Qc := [1; - tr; m2; - det].
    (* r_i = (A 1)_i *)
    Definition r (i : nat) : Qc := a i 0 + a i 1 + a i 2.
    (* third row of adj(I - zA) applied to r, as a polynomial in z:  n0 + n1 z + n2 z^2 *)
    Definition n0 : Qc := r 2.
    Definition n1 : Qc := a 2 0 * r 0 + a 2 1 * r 1 - (a 0 0 + a 1 1) * r 2.
    Definition n2 : Qc := (a 1 0 * a 2 1 - a 1 1 * a 2 0) * r 0 + (a 0 1 * a 2 0 - a 0 0 * a 2 1) * r 1
                          + (a 0 0 * a 1 1 - a 0 1 * a 1 0) * r 2.
    Definition Ppoly : list Qc := [1; - tr + n0; m2 + n1; - det + n2].
  End Sel.
End RE.
