(* The Python binding's result layout (src/python/solve.rs build_result, solution.rs) and the
   Jacobian-sparsity column grouping / grouped finite differences (src/python/sparsity.rs). *)
Require Import List Arith Bool ZArith.
Require Import IVP.model.Lit IVP.model.Ops IVP.model.Common.
Import ListNotations.
Local Open Scope bool_scope.

(* y_transposed[j * n_steps + i] = y[i][j]  : (time, state) -> flat (state, time), SciPy's (n, m) *)
Definition py_transpose {A} (d : A) (ys : list (list A)) : list A :=
  let m := length ys in
  let n := match ys with [] => 0 | y :: _ => length y end in
  map (fun idx => nth (idx / m) (nth (idx mod m) ys []) d) (seq 0 (n * m)).

Definition py_status (s : status) : Z :=
  match s with Success => 0%Z | UserInterrupt => 1%Z | _ => (-1)%Z end.
Definition py_success (s : status) : bool := Z.leb 0 (py_status s).

(* ---- greedy first-fit column grouping ---- *)
(* group_rows: for each group, the list of rows already used *)
Definition fits (rows used : list nat) : bool := forallb (fun r => negb (existsb (Nat.eqb r) used)) rows.

Fixpoint first_fit (rows : list nat) (groups : list (list nat)) (k : nat) : option nat :=
  match groups with
  | [] => None
  | used :: rest => if fits rows used then Some k else first_fit rows rest (S k)
  end.

Fixpoint upd_nth {A} (l : list A) (k : nat) (f : A -> A) : list A :=
  match l, k with
  | [], _ => []
  | a :: r, 0 => f a :: r
  | a :: r, S k' => a :: upd_nth r k' f
  end.

(* returns (group of each column, used rows per group) *)
Definition group_step (acc : list nat * list (list nat)) (rows : list nat) : list nat * list (list nat) :=
  let '(assign, groups) := acc in
  match first_fit rows groups 0 with
  | Some g => (assign ++ [g], upd_nth groups g (fun used => used ++ rows))
  | None => (assign ++ [length groups], groups ++ [rows])
  end.

Definition group_columns (col_to_rows : list (list nat)) : list nat * nat :=
  let '(assign, groups) := fold_left group_step col_to_rows ([], []) in
  (assign, length groups).

Definition columns_in_group (assign : list nat) (g : nat) : list nat :=
  filter (fun col => Nat.eqb (nth col assign 0) g) (seq 0 (length assign)).

Section GroupedFD.
  Context {F : Type} (O : Ops F).
  (* one grouped difference quotient: entries (row, col) for the columns of group g *)
  Definition fd_group (f : list F -> list F) (y f0 : list F) (eps : F) (col_to_rows : list (list nat)) (cols : list nat)
    : list (nat * nat * F) :=
    let pert col := mul O eps (fmax O (abs O (nth col y (zero O))) (one O)) in
    let yp := map (fun j => if existsb (Nat.eqb j) cols then add O (nth j y (zero O)) (pert j) else nth j y (zero O))
                  (seq 0 (length y)) in
    let fp := f yp in
    flat_map (fun col => map (fun row => (row, col, div O (sub O (nth row fp (zero O)) (nth row f0 (zero O))) (pert col)))
                             (nth col col_to_rows [])) cols.
End GroupedFD.
