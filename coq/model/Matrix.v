(* The Matrix type of src/matrix/{base,index,add,sub,mul}.rs: three storages, constructors,
   checked reads and writes (None = panic), +, -, scalar operations, is_identity.
   Loops are written in closed form per output cell (each cell is touched at most once per
   operand, in operand order), which the bit-exact replay validates against the Rust loops. *)
Require Import List Arith Bool.
Require Import IVP.model.Lit IVP.model.Ops.
Import ListNotations.
Local Open Scope bool_scope.

Inductive storage := SIdentity | SFull | SBanded (ml mu : nat).

Section Matrix.
  Context {F : Type} (O : Ops F).

  Record matrix := mkM { m_n : nat; m_m : nat; m_data : list F; m_st : storage }.

  Definition tabulate {A} (k : nat) (f : nat -> A) : list A := map f (seq 0 k).

  (* (i,j) lies inside the band:  -mu <= i - j <= ml *)
  Definition in_band (ml mu i j : nat) : bool := (j <=? i + mu) && (i <=? j + ml).
  (* index into the compact band storage: row (i - j + mu), column j *)
  Definition band_idx (m mu i j : nat) : nat := (i + mu - j) * m + j.

  (* ---- Index / IndexMut ---- *)
  Definition get (A : matrix) (i j : nat) : option F :=
    if (i <? m_n A) && (j <? m_m A) then
      match m_st A with
      | SIdentity => if i =? j then nth_error (m_data A) 0 else nth_error (m_data A) 1
      | SFull => nth_error (m_data A) (i * m_m A + j)
      | SBanded ml mu =>
          if in_band ml mu i j then nth_error (m_data A) (band_idx (m_m A) mu i j)
          else Some (zero O)
      end
    else None.

  Fixpoint set_nth (l : list F) (k : nat) (v : F) : option (list F) :=
    match l, k with
    | [], _ => None
    | _ :: r, 0 => Some (v :: r)
    | a :: r, S k' => match set_nth r k' v with Some r' => Some (a :: r') | None => None end
    end.

  Definition set (A : matrix) (i j : nat) (v : F) : option matrix :=
    if (i <? m_n A) && (j <? m_m A) then
      match m_st A with
      | SIdentity => None
      | SFull => match set_nth (m_data A) (i * m_m A + j) v with
                 | Some d => Some (mkM (m_n A) (m_m A) d SFull) | None => None end
      | SBanded ml mu =>
          if in_band ml mu i j then
            match set_nth (m_data A) (band_idx (m_m A) mu i j) v with
            | Some d => Some (mkM (m_n A) (m_m A) d (SBanded ml mu)) | None => None end
          else None
      end
    else None.

  (* ---- constructors ---- *)
  Definition zeros_list (k : nat) : list F := repeat (zero O) k.
  Definition identity (n : nat) : matrix := mkM n n [one O; zero O] SIdentity.
  Definition from_vec (n m : nat) (d : list F) : option matrix :=
    if length d =? n * m then Some (mkM n m d SFull) else None.
  Definition from_storage (n m : nat) (st : storage) : matrix :=
    match st with
    | SIdentity => mkM n m [one O; zero O] SIdentity
    | SFull => mkM n m (zeros_list (n * m)) SFull
    | SBanded ml mu => mkM n m (zeros_list ((ml + mu + 1) * n)) (SBanded ml mu)
    end.
  Definition full (n m : nat) : matrix := mkM n m (zeros_list (n * m)) SFull.
  Definition zeros (n m : nat) : matrix := mkM n m (zeros_list (n * m)) SFull.
  (* Matrix::square (after "fix: Matrix::square allocates its n*n zero entries";
     the pinned tree had Vec::with_capacity, i.e. an empty backing store: finding F11) *)
  Definition square (n : nat) : matrix := mkM n n (zeros_list (n * n)) SFull.
  Definition banded (n ml mu : nat) : matrix := mkM n n (zeros_list ((ml + mu + 1) * n)) (SBanded ml mu).
  Definition diagonal (d : list F) : matrix := mkM (length d) (length d) d (SBanded 0 0).
  Definition lower_triangular (n : nat) : matrix := banded n (n - 1) 0.
  Definition upper_triangular (n : nat) : matrix := banded n 0 (n - 1).

  (* ---- densification used by the mixed-storage operators ---- *)
  Definition nthd (l : list F) (k : nat) : F := nth k l (zero O).
  Definition to_full (n : nat) (d : list F) (st : storage) : list F :=
    match st with
    | SFull => d
    | SIdentity => tabulate (n * n) (fun idx => if idx / n =? idx mod n then one O else zero O)
    | SBanded ml mu =>
        tabulate (n * n) (fun idx => let i := idx / n in let j := idx mod n in
                                      if in_band ml mu i j then add O (zero O) (nthd d (band_idx n mu i j))
                                      else zero O)
    end.

  Fixpoint zipw (f : F -> F -> F) (a b : list F) : list F :=
    match a, b with x :: a', y :: b' => f x y :: zipw f a' b' | _, _ => [] end.

  (* A (+|-) B;  None = the assert_eq!(n, n2) panic *)
  Definition addsub (sub_ : bool) (A B : matrix) : option matrix :=
    let op := if sub_ then sub O else add O in
    if negb (m_n A =? m_n B) then None
    else
      let n := m_n A in
      match m_st A, m_st B with
      | SIdentity, SIdentity =>
          Some (mkM n n (tabulate (n * n) (fun idx => if sub_ then zero O
                                                       else if idx / n =? idx mod n then add O (one O) (one O) else zero O))
                    SFull)
      | SFull, SFull =>
          (* `+` zips (truncating); `-` updates a prefix of A's data in place *)
          Some (mkM n n (zipw op (m_data A) (m_data B)
                           ++ (if sub_ then skipn (length (m_data B)) (m_data A) else [])) SFull)
      | SBanded ml mu, SBanded ml2 mu2 =>
          let mlo := Nat.max ml ml2 in let muo := Nat.max mu mu2 in
          let rows := mlo + muo + 1 in
          Some (mkM n n
                  (tabulate (rows * n)
                     (fun idx =>
                        let ro := idx / n in let j := idx mod n in
                        (* cell (ro, j) of the output band  <->  matrix entry i = j + ro - muo *)
                        let inmat := (muo <=? j + ro) && (j + ro - muo <? n) in
                        let i := j + ro - muo in
                        let v0 := zero O in
                        let v1 := if inmat && in_band ml mu i j
                                  then add O v0 (nthd (m_data A) (band_idx n mu i j)) else v0 in
                        if inmat && in_band ml2 mu2 i j
                        then op v1 (nthd (m_data B) (band_idx n mu2 i j)) else v1))
                  (SBanded mlo muo))
      | sa, sb => Some (mkM n n (zipw op (to_full n (m_data A) sa) (to_full n (m_data B) sb)) SFull)
      end.

  (* component_add / component_sub *)
  Definition caddsub (sub_ : bool) (A : matrix) (c : F) : matrix :=
    let op := if sub_ then sub O else add O in
    let n := m_n A in
    match m_st A with
    | SIdentity =>
        mkM n n (tabulate (n * n) (fun idx => if idx / n =? idx mod n
                                              then (if sub_ then sub O (one O) c else add O c (one O))
                                              else (if sub_ then sub O (zero O) c else c))) SFull
    | SFull => mkM (m_n A) (m_m A) (map (fun v => op v c) (m_data A)) SFull
    | SBanded ml mu =>
        if eqb O c (zero O) then A
        else mkM n n (tabulate (n * n)
                        (fun idx => let i := idx / n in let j := idx mod n in
                                    if in_band ml mu i j then op (nthd (m_data A) (band_idx n mu i j)) c
                                    else (if sub_ then sub O (zero O) c else c))) SFull
    end.

  (* component_mul (by value) and component_mul_mut give the same matrix *)
  Definition cmul (A : matrix) (c : F) : matrix :=
    match m_st A with
    | SIdentity => mkM (m_n A) (m_n A) (repeat c (m_n A)) (SBanded 0 0)
    | SFull => mkM (m_n A) (m_m A) (map (fun v => mul O v c) (m_data A)) SFull
    | SBanded ml mu => mkM (m_n A) (m_n A) (map (fun v => mul O v c) (m_data A)) (SBanded ml mu)
    end.
  Definition cmul_mut (A : matrix) (c : F) : matrix :=
    match m_st A with
    | SIdentity => mkM (m_n A) (m_m A) (repeat c (m_n A)) (SBanded 0 0)
    | SFull => mkM (m_n A) (m_m A) (map (fun v => mul O v c) (m_data A)) SFull
    | SBanded ml mu => mkM (m_n A) (m_m A) (map (fun v => mul O v c) (m_data A)) (SBanded ml mu)
    end.

  (* is_identity: None = a read panicked *)
  Definition is_identity (A : matrix) : option bool :=
    match m_st A with
    | SIdentity => Some true
    | _ =>
        fold_left
          (fun acc idx =>
             match acc with
             | Some true =>
                 let i := idx / m_m A in let j := idx mod m_m A in
                 match get A i j with
                 | Some v => Some (if i =? j then eqb O v (one O) else eqb O v (zero O))
                 | None => None
                 end
             | other => other
             end)
          (seq 0 (m_n A * m_m A)) (Some true)
    end.
End Matrix.

Arguments mkM {F}. Arguments m_n {F}. Arguments m_m {F}. Arguments m_data {F}. Arguments m_st {F}.
