(* DOPRI5 (src/methods/dopri5.rs): kernel (one step attempt) and skeleton (accept/reject loop,
   step-size control, landing on xend, stiffness test, counters, SolOut protocol). *)
Require Import List ZArith Bool.
Require Import IVP.model.Lit IVP.model.Ops IVP.model.Vec IVP.model.Common IVP.model.RK
               IVP.model.Tableau IVP.gen.Inline.
Import ListNotations.
Local Open Scope bool_scope.

Section Dopri5.
  Context {F : Type} (O : Ops F).
  Local Notation "a + b" := (add O a b). Local Notation "a - b" := (sub O a b).
  Local Notation "a * b" := (mul O a b). Local Notation "a / b" := (div O a b).
  Local Notation "a <=? b" := (leb O a b). Local Notation "a <? b" := (ltb O a b).
  Local Notation "a >? b" := (ltb O b a) (at level 70).
  Local Notation "'L' l" := (lit O l) (at level 1, l at level 0).
  Local Notation vec := (list F).

  Record params := mkP {
    p_uround : F; p_safety : F; p_scale_min : F; p_scale_max : F; p_beta : F;
    p_max_step : option F; p_first_step : option F; p_max_steps : N; p_nstiff : N;
    p_dense : bool
  }.

  (* ---------------- kernel ---------------- *)
  Record attempt := mkAtt {
    at_ynew : vec;       (* y1 *)
    at_knew : vec;       (* k2 = f(x+h, y1)  (FSAL) *)
    at_err : F;          (* weighted RMS norm of the embedded error *)
    at_errv : vec;       (* the error vector (overwrites k4 in the code) *)
    at_ks : list vec;    (* k1..k7 *)
    at_calls : list (F * vec)
  }.

  Definition errnorm (atolv rtolv y ynew e : vec) : F :=
    let n := length y in
    let s := fold_left
               (fun acc q => let '(a, r, yi, y1i, ei) := q in
                             let sk := a + r * fmax O (abs O yi) (abs O y1i) in
                             acc + (ei / sk) * (ei / sk))
               (combine (combine (combine (combine atolv rtolv) y) ynew) e) (zero O) in
    sqrt O (s / ofnat O n).

  Definition kernel (f : F -> vec -> vec) (atol rtol : tol F) (x : F) (y k1 : vec) (h : F) : attempt :=
    let n := length y in
    let '(ks, calls) := run_stages O f x h y DOPRI5T.stages [k1] [] in
    let y1 := stage_arg O h y ks (RSum DOPRI5T.b) in
    let k2 := nth 6 ks [] in
    let ev := map (fun s => s * h) (lincomb O DOPRI5T.e ks n) in
    let err := errnorm (tolv atol n) (tolv rtol n) y y1 ev in
    mkAtt y1 k2 err ev ks calls.

  (* dense-output coefficients of an accepted step *)
  Definition dense (y : vec) (h : F) (a : attempt) : vec :=
    let ks := at_ks a in
    let n := length y in
    let k1 := nth 0 ks [] in let k2 := at_knew a in
    let c4 := map (fun s => h * s) (lincomb O DOPRI5T.d ks n) in
    let ydiff := map2 (fun y1 yi => y1 - yi) (at_ynew a) y in
    let bspl := map2 (fun k yd => h * k - yd) k1 ydiff in
    let c3 := map3 (fun k yd bs => neg O h * k + yd - bs) k2 ydiff bspl in
    y ++ ydiff ++ bspl ++ c3 ++ c4.

  Definition block (cont : vec) (n j : nat) : vec := firstn n (skipn (j * n) cont).

  Definition interpolate (cont : vec) (xold h xi : F) (_n : nat) : vec :=
    let n := Nat.div (length cont) 5 in
    let theta := (xi - xold) / h in
    let theta1 := one O - theta in
    map (fun q => let '(c0, c1, c2, c3, c4) := q in
                  c0 + theta * (c1 + theta1 * (c2 + theta * (c3 + theta1 * c4))))
        (combine (combine (combine (combine (block cont n 0) (block cont n 1)) (block cont n 2))
                          (block cont n 3)) (block cont n 4)).

  (* ---------------- skeleton ---------------- *)
  Record state (H : Type) := mkS {
    s_x : F; s_y : vec; s_k1 : vec; s_h : F; s_facold : F;
    s_last : bool; s_reject : bool; s_nonstiff : N; s_hlamb : F; s_iasti : N;
    s_stats : stats; s_log : list (F * vec); s_cb : H
  }.
  Arguments mkS {H}. Arguments s_x {H}. Arguments s_y {H}. Arguments s_k1 {H}. Arguments s_h {H}.
  Arguments s_facold {H}. Arguments s_last {H}. Arguments s_reject {H}. Arguments s_nonstiff {H}.
  Arguments s_hlamb {H}. Arguments s_iasti {H}. Arguments s_stats {H}. Arguments s_log {H}.
  Arguments s_cb {H}.

  Record result (H : Type) := mkR { r_status : status; r_h : F; r_stats : stats;
                                    r_x : F; r_y : vec; r_log : list (F * vec); r_cb : H }.
  Arguments mkR {H}. Arguments r_status {H}. Arguments r_h {H}. Arguments r_stats {H}.
  Arguments r_x {H}. Arguments r_y {H}. Arguments r_log {H}. Arguments r_cb {H}.

  Section Loop.
    Context {H : Type}.
    Variable P : params.
    Variable f : F -> vec -> vec.
    Variables (atol rtol : tol F).
    Variable xend : F.
    Variable posneg : F.
    Variable hmax : F.
    (* the SolOut callback: state, xold, x, y, interpolant -> state, flag, (possibly modified) y *)
    Variable cb : H -> F -> F -> vec -> option (vec * F * F) -> H * flag F * vec.
    (* the step kernel (a Section variable so that skeleton theorems hold for any kernel) *)
    Variable kern : F -> vec -> vec -> F -> attempt.

    Definition finish (st : status) (s : state H) (h : F) : result H :=
      mkR st h (s_stats s) (s_x s) (s_y s) (s_log s) (s_cb s).

    Definition facc1 := one O / p_scale_min P.
    Definition facc2 := one O / p_scale_max P.
    Definition expo1 := L L0_2 - p_beta P * L L0_75.

    (* landing rule: (step to take, is it the last one) *)
    Definition landing (x h : F) (last : bool) : F * bool :=
      if ((x + L L1_01 * h - xend) * posneg) >? zero O then (xend - x, true) else (h, last).

    (* proposed step after an attempt with error norm err *)
    Definition hnew_of (h err facold : F) : F :=
      let fac11 := pow O err expo1 in
      let fac := fac11 / pow O facold (p_beta P) in
      let fac := fmax O facc2 (fmin O facc1 (fac / p_safety P)) in
      h / fac.
    Definition hnew_reject (h err : F) : F :=
      h / fmin O facc1 (pow O err expo1 / p_safety P).
    (* clamps applied to the proposal after an accepted, non-final step *)
    Definition hnew_clamp (hnew h : F) (reject : bool) : F :=
      let hnew := if abs O hnew >? abs O hmax then posneg * abs O hmax else hnew in
      if reject then posneg * fmin O (abs O hnew) (abs O h) else hnew.

    (* stiffness test of an accepted step: (hlamb, nonstiff, iasti, exit with ProbablyStiff?) *)
    Definition stiff_test (s : state H) (y : vec) (h : F) (a : attempt) (st0 : stats) : F * N * N * bool :=
      let do_stiff := N.eqb (N.modulo (naccpt st0) (p_nstiff P)) 0 || N.ltb 0 (s_iasti s) in
      let ks := at_ks a in
      let k2 := at_knew a in let k6 := nth 5 ks [] in
      if do_stiff then
        (* NB: k4 has been overwritten by the error vector at this point in the code *)
        let ks' := firstn 3 ks ++ [at_errv a] ++ skipn 4 ks in
        let ks'' := firstn 1 ks' ++ [k2] ++ skipn 2 ks' in
        let ysti := stage_arg O h y ks'' (RSum [(Consts_dopri5.A61,0); (Consts_dopri5.A62,1);
                        (Consts_dopri5.A63,2); (Consts_dopri5.A64,3); (Consts_dopri5.A65,4)]) in
        let stnum := fold_left (fun acc p => let d1 := fst p - snd p in acc + d1 * d1)
                               (combine k2 k6) (zero O) in
        let stden := fold_left (fun acc p => let d2 := fst p - snd p in acc + d2 * d2)
                               (combine (at_ynew a) ysti) (zero O) in
        let hlamb := if stden >? zero O then abs O h * sqrt O (stnum / stden) else s_hlamb s in
        if hlamb >? L L3_25 then
          let iasti := (s_iasti s + 1)%N in
          (hlamb, 0%N, iasti, N.eqb iasti 15)
        else
          let nonstiff := (s_nonstiff s + 1)%N in
          (hlamb, nonstiff, if N.eqb nonstiff 6 then 0%N else s_iasti s, false)
      else (s_hlamb s, s_nonstiff s, s_iasti s, false).

    (* what a ModifiedSolution return costs: re-evaluate the derivative at the written state *)
    Definition after_flag (fl : flag F) (xph : F) (ycb k2 : vec) (st0 : stats) (log : list (F * vec))
      : vec * stats * list (F * vec) :=
      match fl with
      | ModifiedSolution => (f xph ycb, add_fev st0 1, (xph, ycb) :: log)
      | _ => (k2, st0, log)
      end.

    Definition step (s : state H) : state H + result H :=
      let x := s_x s in let y := s_y s in
      if N.ltb (p_max_steps P) (nstep (s_stats s)) then inr (finish NeedLargerNMax s (s_h s))
      else if (L L0_1 * abs O (s_h s)) <=? (abs O x * p_uround P) then inr (finish StepSizeTooSmall s (s_h s))
      else
        let '(h, last) := landing x (s_h s) (s_last s) in
        let stats := add_step (s_stats s) in
        let a := kern x y (s_k1 s) h in
        let stats := add_fev stats 6 in
        let log := rev_append (at_calls a) (s_log s) in
        let xph := x + h in
        let err := at_err a in
        let hnew := hnew_of h err (s_facold s) in
        if err <=? one O then
          let facold := fmax O err (L L1em4) in
          let stats := add_acc stats in
          let '(hlamb, nonstiff, iasti, stiff_exit) := stiff_test s y h a stats in
          if stiff_exit then
            inr (mkR ProbablyStiff h stats x y log (s_cb s))
          else
            let cont := dense y h a in
            let '(cbs, fl, ycb) := cb (s_cb s) x xph (at_ynew a)
                                      (if p_dense P then Some (cont, x, h) else None) in
            match fl with
            | Interrupt => inr (mkR UserInterrupt h stats xph ycb log cbs)
            | _ =>
                let '(k1, stats, log) := after_flag fl xph ycb (at_knew a) stats log in
                if last then inr (mkR Success hnew stats xph ycb log cbs)
                else
                  inl (mkS xph ycb k1 (hnew_clamp hnew h (s_reject s)) facold last false
                           nonstiff hlamb iasti stats log cbs)
            end
        else
          let stats := if N.ltb 1 (naccpt stats) then add_rej stats else stats in
          inl (mkS x y (s_k1 s) (hnew_reject h err) (s_facold s) false true (s_nonstiff s) (s_hlamb s)
                   (s_iasti s) stats log (s_cb s)).

    Fixpoint loop (fuel : nat) (s : state H) : option (result H) :=
      match fuel with
      | 0 => None
      | S k => match step s with inl s' => loop k s' | inr r => Some r end
      end.
  End Loop.

  (* validation + initialisation + loop; None = configuration error (Err) or out of fuel *)
  Definition solve {H : Type} (P : params) (f : F -> vec -> vec) (x0 : F) (y0 : vec) (xend : F)
             (rtol atol : tol F)
             (cb : H -> F -> F -> vec -> option (vec * F * F) -> H * flag F * vec) (cb0 : H)
             (fuel : nat) : option (result H) :=
    if (p_uround P <=? L L1em35) || (one O <=? p_uround P) then None
    else if (one O <=? p_safety P) || (p_safety P <=? L L1em4) then None
    else if p_beta P >? L L0_2 then None
    else if N.eqb (p_max_steps P) 0 || N.eqb (p_nstiff P) 0 then None
    else
      let hmax := match p_max_step P with Some m => m | None => abs O (xend - x0) end in
      let posneg := signum O (xend - x0) in
      let k1 := f x0 y0 in
      let stats := add_fev stats0 1 in
      let log := [(x0, y0)] in
      let '(h, stats, log) :=
        match p_first_step P with
        | Some h0 => (abs O h0 * posneg, stats, log)
        | None => let '(h, call) := hinit O f x0 y0 posneg k1 5 (fmin O (abs O hmax) (abs O (xend - x0))) atol rtol in
                  (h, add_fev stats 1, call :: log)
        end in
      let '(cbs, fl, y) := cb cb0 x0 x0 y0 None in
      match fl with
      | Interrupt => Some (mkR UserInterrupt h stats x0 y log cbs)
      | _ =>
          let '(k1, stats, log) :=
            match fl with
            | ModifiedSolution => (f x0 y, add_fev stats 1, (x0, y) :: log)
            | _ => (k1, stats, log)
            end in
          loop P f xend posneg hmax cb (kernel f atol rtol) fuel
               (mkS x0 y k1 h (L L1em4) false false 0%N (zero O) 0%N stats log cbs)
      end.
End Dopri5.

Arguments r_status {F H}. Arguments r_h {F H}. Arguments r_stats {F H}.
Arguments r_x {F H}. Arguments r_y {F H}. Arguments r_log {F H}. Arguments r_cb {F H}.
Arguments mkR {F H}. Arguments mkS {F H}.
Arguments s_x {F H}. Arguments s_y {F H}. Arguments s_k1 {F H}. Arguments s_h {F H}.
Arguments s_facold {F H}. Arguments s_last {F H}. Arguments s_reject {F H}. Arguments s_nonstiff {F H}.
Arguments s_hlamb {F H}. Arguments s_iasti {F H}. Arguments s_stats {F H}. Arguments s_log {F H}.
Arguments s_cb {F H}.
