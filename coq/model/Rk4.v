(* RK4 (src/methods/rk4.rs): fixed step *)
Require Import List ZArith Bool.
Require Import IVP.model.Lit IVP.model.Ops IVP.model.Vec IVP.model.Common IVP.model.RK
               IVP.model.Tableau IVP.gen.Inline.
Import ListNotations.
Local Open Scope bool_scope.

Section Rk4.
  Context {F : Type} (O : Ops F).
  Local Notation "a + b" := (add O a b). Local Notation "a - b" := (sub O a b).
  Local Notation "a * b" := (mul O a b). Local Notation "a / b" := (div O a b).
  Local Notation "a <=? b" := (leb O a b). Local Notation "a <? b" := (ltb O a b).
  Local Notation "a >? b" := (ltb O b a) (at level 70).
  Local Notation "'L' l" := (lit O l) (at level 1, l at level 0).
  Local Notation vec := (list F).

  Record params := mkP { p_max_steps : N; p_dense : bool }.

  Record attempt := mkAtt { at_ynew : vec; at_knew : vec; at_ks : list vec; at_calls : list (F * vec) }.

  Definition kernel (f : F -> vec -> vec) (x : F) (y k1 : vec) (h : F) : attempt :=
    let '(ks, calls) := run_stages O f x h y RK4T.stages [k1] [] in
    let ynew := stage_arg O h y ks (RSum RK4T.b) in
    let xnew := x + h in
    mkAtt ynew (f xnew ynew) ks (calls ++ [(xnew, ynew)]).

  (* cont = [y_old ; slope used at the left end ; slope at the right end ; y_new] *)
  Definition dense (y : vec) (a : attempt) : vec :=
    y ++ nth 0 (at_ks a) [] ++ at_knew a ++ at_ynew a.

  Definition block (cont : vec) (n j : nat) : vec := firstn n (skipn (j * n) cont).

  Definition interpolate (cont : vec) (xold h xi : F) (n : nat) : vec :=
    let t := (xi - xold) / h in
    let t2 := t * t in
    let t3 := t2 * t in
    let h00 := L L2 * t3 - L L3 * t2 + one O in
    let h10 := t3 - L L2 * t2 + t in
    let h01 := neg O (L L2) * t3 + L L3 * t2 in
    let h11 := t3 - t2 in
    map (fun q => let '(c0, c1, c2, c3) := q in
                  h00 * c0 + h10 * h * c1 + h01 * c3 + h11 * h * c2)
        (combine (combine (combine (block cont n 0) (block cont n 1)) (block cont n 2)) (block cont n 3)).

  Record state (H : Type) := mkS {
    s_x : F; s_y : vec; s_k1 : vec; s_stats : stats; s_log : list (F * vec); s_cb : H }.
  Record result (H : Type) := mkR { r_status : status; r_h : F; r_stats : stats;
                                    r_x : F; r_y : vec; r_log : list (F * vec); r_cb : H }.
  Arguments mkS {H}. Arguments mkR {H}.
  Arguments s_x {H}. Arguments s_y {H}. Arguments s_k1 {H}.
  Arguments s_stats {H}. Arguments s_log {H}. Arguments s_cb {H}.

  Section Loop.
    Context {H : Type}.
    Variable P : params.
    Variable f : F -> vec -> vec.
    Variable xend : F.
    Variable h : F.
    Variable cb : H -> F -> F -> vec -> option (vec * F * F) -> H * flag F * vec.
    Variable kern : F -> vec -> vec -> F -> attempt.

    Definition step (s : state H) : state H + result H :=
      let x := s_x s in let y := s_y s in
      if N.leb (p_max_steps P) (nstep (s_stats s)) then
        inr (mkR NeedLargerNMax h (s_stats s) x y (s_log s) (s_cb s))
      else
        let last := ((x + L L1_01 * h - xend) * signum O h) >? zero O in
        let h := if last then xend - x else h in
        let a := kern x y (s_k1 s) h in
        let xnew := x + h in
        let stats := add_acc (add_step (add_fev (s_stats s) 4)) in
        let log := rev_append (at_calls a) (s_log s) in
        let cont := dense y a in
        let '(cbs, fl, ycb) := cb (s_cb s) x xnew (at_ynew a)
                                  (if p_dense P then Some (cont, x, h) else None) in
        match fl with
        | Interrupt => inr (mkR UserInterrupt h stats xnew ycb log cbs)
        | _ =>
            let '(k1, stats, log) :=
              match fl with
              | ModifiedSolution => (f xnew ycb, add_fev stats 1, (xnew, ycb) :: log)
              | _ => (at_knew a, stats, log)
              end in
            if last then inr (mkR Success h stats xnew ycb log cbs)
            else inl (mkS xnew ycb k1 stats log cbs)
        end.

    Fixpoint loop (fuel : nat) (s : state H) : option (result H) :=
      match fuel with
      | 0 => None
      | S k => match step s with inl s' => loop k s' | inr r => Some r end
      end.
  End Loop.

  Definition solve {H : Type} (P : params) (f : F -> vec -> vec) (x0 : F) (y0 : vec) (xend h : F)
             (cb : H -> F -> F -> vec -> option (vec * F * F) -> H * flag F * vec) (cb0 : H)
             (fuel : nat) : option (result H) :=
    let posneg := signum O (xend - x0) in
    if eqb O h (zero O) || negb (eqb O (signum O h) posneg) then None
    else if N.eqb (p_max_steps P) 0 then None
    else
      let k1 := f x0 y0 in
      let log := [(x0, y0)] in
      let st1 := add_fev stats0 1 in
      let '(cbs, fl, y) := cb cb0 x0 x0 y0 None in
      match fl with
      | Interrupt => Some (mkR UserInterrupt h st1 x0 y log cbs)
      | _ =>
          let '(k1, stats, log) :=
            match fl with
            | ModifiedSolution => (f x0 y, add_fev st1 1, (x0, y) :: log)
            | _ => (k1, st1, log)
            end in
          loop P f xend h cb (kernel f) fuel (mkS x0 y k1 stats log cbs)
      end.
End Rk4.

Arguments r_status {F H}. Arguments r_h {F H}. Arguments r_stats {F H}.
Arguments r_x {F H}. Arguments r_y {F H}. Arguments r_log {F H}. Arguments r_cb {F H}.
Arguments mkR {F H}. Arguments mkS {F H}.
Arguments s_x {F H}. Arguments s_y {F H}. Arguments s_k1 {F H}.
Arguments s_stats {F H}. Arguments s_log {F H}. Arguments s_cb {F H}.
