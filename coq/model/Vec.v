(* Vectors are lists; every loop `for i in 0..n` over components is a map. *)
Require Import List.
Import ListNotations.

Section Vec.
  Context {F : Type}.
  Fixpoint map2 {A B C} (f : A -> B -> C) (a : list A) (b : list B) : list C :=
    match a, b with
    | x :: a', y :: b' => f x y :: map2 f a' b'
    | _, _ => []
    end.
  Fixpoint map3 {A B C D} (f : A -> B -> C -> D) (a : list A) (b : list B) (c : list C) : list D :=
    match a, b, c with
    | x :: a', y :: b', z :: c' => f x y z :: map3 f a' b' c'
    | _, _, _ => []
    end.
  (* left fold used for `acc += term` loops *)
  Definition sum_with {A} (plus : F -> F -> F) (z : F) (f : A -> F) (l : list A) : F :=
    fold_left (fun acc a => plus acc (f a)) l z.
End Vec.
