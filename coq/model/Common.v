(* Shared solver pieces: tolerances, statistics, status, control flags, the initial-step
   heuristic `hinit` (src/methods/mod.rs). *)
Require Import List ZArith Bool.
Require Import IVP.model.Lit IVP.model.Ops IVP.model.Vec IVP.gen.Inline.
Import ListNotations.
Local Open Scope bool_scope.

Inductive tol (F : Type) := TScalar (v : F) | TVector (l : list F).
Arguments TScalar {F}. Arguments TVector {F}.
(* `atol[i]` for i < n *)
Definition tolv {F} (t : tol F) (n : nat) : list F :=
  match t with TScalar v => repeat v n | TVector l => l end.

Inductive status := Success | UserInterrupt | NeedLargerNMax | StepSizeTooSmall
                  | ProbablyStiff | SingularMatrix | PoorConvergence.

Inductive flag (F : Type) := Continue | Interrupt | XOut (x : F) | ModifiedSolution.
Arguments Continue {F}. Arguments Interrupt {F}. Arguments XOut {F}. Arguments ModifiedSolution {F}.

Record stats := mkStats { nfev : N; njev : N; nlu : N; nstep : N; naccpt : N; nrejct : N }.
Definition stats0 := mkStats 0 0 0 0 0 0.
Definition add_fev (s : stats) (k : N) := mkStats (nfev s + k) (njev s) (nlu s) (nstep s) (naccpt s) (nrejct s).
Definition add_jev (s : stats) (k : N) := mkStats (nfev s) (njev s + k) (nlu s) (nstep s) (naccpt s) (nrejct s).
Definition add_lu (s : stats) (k : N) := mkStats (nfev s) (njev s) (nlu s + k) (nstep s) (naccpt s) (nrejct s).
Definition add_step (s : stats) := mkStats (nfev s) (njev s) (nlu s) (nstep s + 1) (naccpt s) (nrejct s).
Definition add_acc (s : stats) := mkStats (nfev s) (njev s) (nlu s) (nstep s) (naccpt s + 1) (nrejct s).
Definition add_rej (s : stats) := mkStats (nfev s) (njev s) (nlu s) (nstep s) (naccpt s) (nrejct s + 1).

Section Hinit.
  Context {F : Type} (O : Ops F).
  Local Notation "a + b" := (add O a b). Local Notation "a - b" := (sub O a b).
  Local Notation "a * b" := (mul O a b). Local Notation "a / b" := (div O a b).
  Local Notation "a <=? b" := (leb O a b). Local Notation "a >? b" := (ltb O b a) (at level 70).
  Local Notation "'L' l" := (lit O l) (at level 1, l at level 0).

  (* sk_i = atol_i + rtol_i * |y_i| *)
  Definition hinit_sk (atol rtol y : list F) : list F :=
    map3 (fun a r yi => a + r * abs O yi) atol rtol y.

  (* returns the step and the (single) evaluation point it used *)
  Definition hinit (f : F -> list F -> list F) (x : F) (y : list F) (posneg : F) (f0 : list F)
             (iord : nat) (hmax : F) (atol rtol : tol F) : F * (F * list F) :=
    let n := length y in
    let sk := hinit_sk (tolv atol n) (tolv rtol n) y in
    let dnf := fold_left (fun acc p => acc + (fst p / snd p) * (fst p / snd p)) (combine f0 sk) (zero O) in
    let dny := fold_left (fun acc p => acc + (fst p / snd p) * (fst p / snd p)) (combine y sk) (zero O) in
    let h0 := if (dnf <=? L L1em10) || (dny <=? L L1em10) then L L1em6
              else sqrt O (dny / dnf) * L L0_01 in
    let h1 := if h0 >? abs O hmax then abs O hmax else h0 in
    let h := abs O h1 * signum O posneg in
    let y1 := map2 (fun yi fi => yi + h * fi) y f0 in
    let xe := x + h in
    let f1 := f xe y1 in
    let der2s := fold_left (fun acc p => let df := (fst (fst p) - snd (fst p)) / snd p in acc + df * df)
                           (combine (combine f1 f0) sk) (zero O) in
    let der2 := sqrt O der2s / abs O h in
    let der12 := fmax O (abs O der2) (sqrt O dnf) in
    let hh := if der12 <=? L L1em15 then fmax O (L L1em6) (abs O h * L L1em3)
              else pow O (L L0_01 / der12) (one O / ofnat O iord) in
    let hfin := fmin O (fmin O (fmin O (abs O h) (L L100 * abs O h)) hh) (abs O hmax) in
    (abs O hfin * signum O posneg, (xe, y1)).
End Hinit.
