(* Plane rooted trees, their enumeration by size (generic over a fold algebra, so the same
   completeness proof serves the list of trees and the memoised tables of elementary weights). *)
Require Import List Arith Lia.
Import ListNotations.

Inductive tree := Node (cs : list tree).

Fixpoint size (t : tree) : nat :=
  match t with Node cs => S (list_sum (map size cs)) end.
Definition sizeF (cs : list tree) : nat := list_sum (map size cs).

Section Algebra.
  Variables (X Y : Type) (fnil : Y) (fcons : X -> Y -> Y) (fnode : nat -> Y -> X).

  (* fold of a tree; fnode receives the size of the tree it builds *)
  Fixpoint evalT (t : tree) : X :=
    match t with
    | Node cs =>
        fnode (S (sizeF cs))
          ((fix evF (l : list tree) : Y :=
              match l with [] => fnil | c :: r => fcons (evalT c) (evF r) end) cs)
    end.
  Fixpoint evalF (l : list tree) : Y :=
    match l with [] => fnil | c :: r => fcons (evalT c) (evalF r) end.

  (* tables: tabs n = [(F 0, V 1); (F 1, V 2); ...; (F n, V (n+1))] where
     F m = values of all plane forests with m nodes, V k = values of all plane trees with k nodes
     (V (m+1) = map (fnode (m+1)) (F m), stored so that it is computed once) *)
  Definition tabF (tb : list (list Y * list X)) (m : nat) : list Y := fst (nth m tb ([], [])).
  Definition tabV (tb : list (list Y * list X)) (k : nat) : list X :=
    match k with 0 => [] | S k' => snd (nth k' tb ([], [])) end.
  Definition newF (tb : list (list Y * list X)) (m : nat) : list Y :=
    flat_map (fun k => flat_map (fun v => map (fcons v) (tabF tb (m - k))) (tabV tb k)) (seq 1 m).
  Fixpoint tabs (n : nat) : list (list Y * list X) :=
    match n with
    | 0 => [([fnil], [fnode 1 fnil])]
    | S n' => let tb := tabs n' in
              let f := newF tb (S n') in
              tb ++ [(f, map (fnode (S (S n'))) f)]
    end.

  (* values of all plane trees with exactly n nodes (n >= 1) *)
  Definition treesOf (n : nat) : list X := tabV (tabs (n - 1)) n.
  (* values of all plane trees with 1..p nodes *)
  Definition treesUpTo (p : nat) : list X := concat (map snd (tabs (p - 1))).
End Algebra.

(* the enumeration of the trees themselves is the instance with the free algebra *)
Definition enum (n : nat) : list tree :=
  treesOf tree (list tree) [] cons (fun _ cs => Node cs) n.
