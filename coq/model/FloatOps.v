(* The executable instance: Coq primitive floats (IEEE-754 binary64, round to nearest even:
   the same operations as Rust's f64).  `powf` is supplied from outside (OCaml Float.pow = glibc pow). *)
Require Import ZArith Floats Bool.
Require Import IVP.model.Lit IVP.model.Ops.
Local Open Scope float_scope.

Definition f_is_nan (x : float) : bool := negb (x =? x).
(* Rust f64::min / f64::max: if one argument is NaN the other is returned *)
Definition f_min (a b : float) : float :=
  if f_is_nan a then b else if f_is_nan b then a else if a <? b then a else b.
Definition f_max (a b : float) : float :=
  if f_is_nan a then b else if f_is_nan b then a else if b <? a then a else b.
(* Rust f64::signum: 1.0 for +0.0 and positives, -1.0 for -0.0 and negatives, NaN for NaN *)
Definition f_signum (x : float) : float :=
  if f_is_nan x then x
  else if x <? 0 then -1 else if 0 <? x then 1
  else if (1 / x) <? 0 then -1 else 1.

Definition Fops (powf : float -> float -> float) : Ops float :=
  mkOps float 0 1 PrimFloat.add PrimFloat.sub PrimFloat.mul PrimFloat.div
        PrimFloat.opp PrimFloat.abs PrimFloat.sqrt
        PrimFloat.ltb PrimFloat.leb PrimFloat.eqb
        f_min f_max powf f_signum f_is_nan lit_f.
