(* lu_decomp_complex / lin_solve_complex (src/matrix/lu.rs, linear.rs): the complex twins of LU.v,
   real and imaginary parts kept in separate matrices as in the code. *)
Require Import List Arith Bool.
Require Import IVP.model.Lit IVP.model.Ops IVP.model.LU.
Import ListNotations.
Local Open Scope bool_scope.

Section LUc.
  Context {F : Type} (O : Ops F).
  Local Notation "a + b" := (add O a b). Local Notation "a - b" := (sub O a b).
  Local Notation "a * b" := (mul O a b). Local Notation "a / b" := (div O a b).
  Local Notation mat := (nat -> nat -> F).
  Local Notation vecf := (nat -> F).

  Definition cabs1 (r i : F) : F := abs O r + abs O i.

  Definition find_pivot_c (n : nat) (Ar Ai : mat) (k : nat) : nat :=
    fst (fold_left (fun (acc : nat * F) i =>
                      let v := cabs1 (Ar i k) (Ai i k) in
                      if ltb O (snd acc) v then (i, v) else acc)
                   (seq (S k) (Nat.sub n (S k))) (k, cabs1 (Ar k k) (Ai k k))).

  Definition elim_step_c (Ar Ai : mat) (k m : nat) : mat * mat :=
    let tr0 := Ar m k in let ti0 := Ai m k in
    let den := tr0 * tr0 + ti0 * ti0 in
    let tr := tr0 / den in
    let ti := neg O ti0 / den in
    let ckr i := if Nat.eqb i m then Ar k k else Ar i k in
    let cki i := if Nat.eqb i m then Ai k k else Ai i k in
    (* stored negative multipliers, i > k *)
    let lr i := neg O (ckr i * tr - cki i * ti) in
    let li i := neg O (cki i * tr + ckr i * ti) in
    let cell (i j : nat) : F * F :=
      if Nat.ltb j k then (Ar i j, Ai i j)
      else if Nat.eqb j k then
        (if Nat.ltb i k then (Ar i j, Ai i j) else if Nat.eqb i k then (tr0, ti0) else (lr i, li i))
      else
        let mr := Ar m j in let mi := Ai m j in
        let swr := if Nat.eqb i k then mr else if Nat.eqb i m then Ar k j else Ar i j in
        let swi := if Nat.eqb i k then mi else if Nat.eqb i m then Ai k j else Ai i j in
        if Nat.leb i k then (swr, swi)
        else if eqb O (cabs1 mr mi) (zero O) then (swr, swi)
        else if eqb O mi (zero O) then (swr + lr i * mr, swi + li i * mr)
        else if eqb O mr (zero O) then (swr + neg O (li i) * mi, swi + lr i * mi)
        else (swr + (lr i * mr - li i * mi), swi + (li i * mr + lr i * mi)) in
    (fun i j => fst (cell i j), fun i j => snd (cell i j)).

  Fixpoint luc_loop (n steps k : nat) (Ar Ai : mat) (ip : nat -> nat) : option (mat * mat * (nat -> nat)) :=
    match steps with
    | 0 => Some (Ar, Ai, ip)
    | S s =>
        let m := find_pivot_c n Ar Ai k in
        if eqb O (cabs1 (Ar m k) (Ai m k)) (zero O) then None
        else
          let '(Br, Bi) := elim_step_c Ar Ai k m in
          luc_loop n s (S k) (compact O n Br) (compact O n Bi) (fun i => if Nat.eqb i k then m else ip i)
    end.

  (* None = SingularMatrix (shape errors cannot arise from Radau's own calls) *)
  Definition lu_decomp_complex (n : nat) (Ar Ai : mat) (ip0 : nat -> nat) : option (mat * mat * (nat -> nat)) :=
    if Nat.eqb n 1 then
      (if eqb O (cabs1 (Ar 0 0) (Ai 0 0)) (zero O) then None
       else Some (Ar, Ai, fun i => if Nat.eqb i 0 then 0 else ip0 i))
    else
      match luc_loop n (Nat.pred n) 0 Ar Ai ip0 with
      | None => None
      | Some (Lr, Li, ip) =>
          if eqb O (cabs1 (Lr (Nat.pred n) (Nat.pred n)) (Li (Nat.pred n) (Nat.pred n))) (zero O) then None
          else Some (Lr, Li, ip)
      end.

  Definition fwd_step_c (Lr Li : mat) (ip : nat -> nat) (k : nat) (br bi : vecf) : vecf * vecf :=
    let m := ip k in
    let sr i := if Nat.eqb i k then br m else if Nat.eqb i m then br k else br i in
    let si i := if Nat.eqb i k then bi m else if Nat.eqb i m then bi k else bi i in
    let tr := sr k in let ti := si k in
    (fun i => if Nat.ltb k i then sr i + (Lr i k * tr - Li i k * ti) else sr i,
     fun i => if Nat.ltb k i then si i + (Li i k * tr + Lr i k * ti) else si i).

  Fixpoint fwd_loop_c (n : nat) (Lr Li : mat) (ip : nat -> nat) (steps k : nat) (br bi : vecf) : vecf * vecf :=
    match steps with
    | 0 => (br, bi)
    | S s => let '(cr, ci) := fwd_step_c Lr Li ip k br bi in
             fwd_loop_c n Lr Li ip s (S k) (compactv O n cr) (compactv O n ci)
    end.

  Definition cdiv (br bi ar ai : F) : F * F :=
    let den := ar * ar + ai * ai in
    ((br * ar + bi * ai) / den, (bi * ar - br * ai) / den).

  Definition back_step_c (Lr Li : mat) (k : nat) (br bi : vecf) : vecf * vecf :=
    let '(qr, qi) := cdiv (br k) (bi k) (Lr k k) (Li k k) in
    let tr := neg O qr in let ti := neg O qi in
    (fun i => if Nat.eqb i k then qr else if Nat.ltb i k then br i + (Lr i k * tr - Li i k * ti) else br i,
     fun i => if Nat.eqb i k then qi else if Nat.ltb i k then bi i + (Li i k * tr + Lr i k * ti) else bi i).

  Fixpoint back_loop_c (n : nat) (Lr Li : mat) (kb : nat) (br bi : vecf) : vecf * vecf :=
    match kb with
    | 0 => (br, bi)
    | S k' => let '(cr, ci) := back_step_c Lr Li (S k') br bi in
              back_loop_c n Lr Li k' (compactv O n cr) (compactv O n ci)
    end.

  Definition lin_solve_complex (n : nat) (Lr Li : mat) (ip : nat -> nat) (br bi : vecf) : vecf * vecf :=
    if Nat.eqb n 1 then
      let '(qr, qi) := cdiv (br 0) (bi 0) (Lr 0 0) (Li 0 0) in
      (fun i => if Nat.eqb i 0 then qr else br i, fun i => if Nat.eqb i 0 then qi else bi i)
    else
      let '(b1r, b1i) := fwd_loop_c n Lr Li ip (Nat.pred n) 0 br bi in
      let '(b2r, b2i) := back_loop_c n Lr Li (Nat.pred n) b1r b1i in
      let '(qr, qi) := cdiv (b2r 0) (b2i 0) (Lr 0 0) (Li 0 0) in
      (fun i => if Nat.eqb i 0 then qr else b2r i, fun i => if Nat.eqb i 0 then qi else b2i i).
End LUc.
