(* The real-number instance of the number interface: the semantics the universally quantified
   theorems are about.  Literals denote the exact value of the source expression. *)
Require Import Reals QArith Qreals Bool Lra.
Require Import IVP.model.Lit IVP.model.Ops.
Local Open Scope R_scope.

Definition Rltb (a b : R) : bool := if Rlt_dec a b then true else false.
Definition Rleb (a b : R) : bool := if Rle_dec a b then true else false.
Definition Reqb (a b : R) : bool := if Req_EM_T a b then true else false.
(* Rust f64::signum: +1 for +0.0 and positives, -1 for negatives *)
Definition Rsignum (x : R) : R := if Rle_dec 0 x then 1 else -1.

Definition Rops : Ops R :=
  mkOps R 0 1 Rplus Rminus Rmult Rdiv Ropp Rabs R_sqrt.sqrt Rltb Rleb Reqb Rmin Rmax Rpower Rsignum
        (fun _ => false) (fun l => Q2R (lit_q l)).

Lemma Rltb_true a b : Rltb a b = true <-> a < b.
Proof. unfold Rltb. destruct (Rlt_dec a b); split; intros; auto; discriminate. Qed.
Lemma Rltb_false a b : Rltb a b = false <-> b <= a.
Proof. unfold Rltb. destruct (Rlt_dec a b); split; intros; auto; try discriminate; lra. Qed.
Lemma Rleb_true a b : Rleb a b = true <-> a <= b.
Proof. unfold Rleb. destruct (Rle_dec a b); split; intros; auto; discriminate. Qed.
Lemma Rleb_false a b : Rleb a b = false <-> b < a.
Proof. unfold Rleb. destruct (Rle_dec a b); split; intros; auto; try discriminate; lra. Qed.
Lemma Reqb_true a b : Reqb a b = true <-> a = b.
Proof. unfold Reqb. destruct (Req_EM_T a b); split; intros; auto; discriminate. Qed.
