(* Explicit Runge-Kutta stage evaluation, generic over a tableau description that keeps the
   source's operation order (so the float instance is bit-identical to the Rust loops). *)
Require Import List.
Require Import IVP.model.Lit IVP.model.Ops IVP.model.Vec.
Import ListNotations.

(* `y[i] + h * A * k_j[i]`           -> RSingle A j      (Rust parses this as (h*A)*k)
   `y[i] + h * (A1*k_j1[i] + ...)`   -> RSum [(A1,j1);...]  (left-associated sum)        *)
Inductive row := RSingle (a : Lit) (j : nat) | RSum (l : list (Lit * nat)).

(* time argument: `x + C*h` (Some C) or `x + h` (None) *)
Record stage := mkStage { st_c : option Lit; st_row : row }.

Definition row_entries (r : row) : list (Lit * nat) :=
  match r with RSingle a j => [(a, j)] | RSum l => l end.

Section Eval.
  Context {F : Type} (O : Ops F).
  Definition vec := list F.

  (* left-associated sum  a1*k_j1 + a2*k_j2 + ...  componentwise *)
  Definition lincomb (l : list (Lit * nat)) (ks : list vec) (n : nat) : vec :=
    match l with
    | [] => repeat (zero O) n
    | (a, j) :: rest =>
        fold_left (fun acc aj => map2 (fun s k => add O s (mul O (lit O (fst aj)) k)) acc (nth (snd aj) ks []))
                  rest (map (fun k => mul O (lit O a) k) (nth j ks []))
    end.

  Definition stage_arg (h : F) (y : vec) (ks : list vec) (r : row) : vec :=
    match r with
    | RSingle a j => map2 (fun yi k => add O yi (mul O (mul O h (lit O a)) k)) y (nth j ks [])
    | RSum l => map2 (fun yi s => add O yi (mul O h s)) y (lincomb l ks (length y))
    end.

  Definition stage_time (x h : F) (c : option Lit) : F :=
    match c with Some cl => add O x (mul O (lit O cl) h) | None => add O x h end.

  (* run the stages in order; ks grows at the end; returns all stage derivatives and the calls *)
  Fixpoint run_stages (f : F -> vec -> vec) (x h : F) (y : vec) (sts : list stage)
           (ks : list vec) (calls : list (F * vec)) : list vec * list (F * vec) :=
    match sts with
    | [] => (ks, calls)
    | s :: rest =>
        let t := stage_time x h (st_c s) in
        let a := stage_arg h y ks (st_row s) in
        run_stages f x h y rest (ks ++ [f t a]) (calls ++ [(t, a)])
    end.
End Eval.
