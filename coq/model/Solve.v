(* solve_ivp (src/solve/solve_ivp.rs), ContinuousOutput (src/solve/cont.rs) and
   Solution::sol (src/solve/solution.rs). *)
Require Import List ZArith Bool.
Require Import IVP.model.Lit IVP.model.Ops IVP.model.Vec IVP.model.Common IVP.model.SolOut
               IVP.gen.Inline.
Require IVP.model.Dopri5 IVP.model.Rk23 IVP.model.Rk4 IVP.model.Dop853 IVP.model.Radau IVP.model.Bdf IVP.model.Matrix.
Import ListNotations.
Local Open Scope bool_scope.

Inductive method := MRK23 | MDOPRI5 | MDOP853 | MRK4 | MRADAU | MBDF.

Section Solve.
  Context {F : Type} (O : Ops F).
  Local Notation "a + b" := (add O a b). Local Notation "a - b" := (sub O a b).
  Local Notation "a * b" := (mul O a b). Local Notation "a / b" := (div O a b).
  Local Notation "a <=? b" := (leb O a b). Local Notation "a <? b" := (ltb O a b).
  Local Notation "a >=? b" := (leb O b a) (at level 70). Local Notation "a >? b" := (ltb O b a) (at level 70).
  Local Notation "'L' l" := (lit O l) (at level 1, l at level 0).
  Local Notation vec := (list F).

  Record options := mkOpt {
    o_method : method; o_rtol : tol F; o_atol : tol F; o_max_steps : option N;
    o_t_eval : option (list F); o_first_step : option F; o_max_step : option F;
    o_min_step : option F; o_dense : bool;
    o_defaults : list F;      (* the builder defaults of the chosen method, read from the implementation *)
    o_nstiff : N;             (* explicit: stiff_test interval; implicit: newton_maxiter *)
    o_jac_storage : Matrix.storage; o_mass_storage : Matrix.storage
  }.
  Definition dflt (opt : options) (i : nat) : F := nth i (o_defaults opt) (zero O).

  Record problem := mkPr {
    pr_f : F -> vec -> vec;
    pr_events : F -> vec -> vec; pr_nevents : nat; pr_evcfg : list event_config;
    pr_jac : option (F -> vec -> list vec);     (* user Jacobian, rows; None = trait default (finite differences) *)
    pr_mass : option (list vec)                 (* user mass matrix, rows; None = trait default (identity) *)
  }.

  (* what `jac[(r,c)]` / `mass[(r,c)]` read after the user callback filled a matrix of the given storage *)
  Definition stored (st : Matrix.storage) (rows : list vec) (ident : bool) : nat -> nat -> F :=
    fun r c =>
      match st with
      | Matrix.SIdentity => if Nat.eqb r c then one O else zero O
      | Matrix.SFull => if ident then (if Nat.eqb r c then one O else zero O) else nth c (nth r rows []) (zero O)
      | Matrix.SBanded ml mu =>
          if Matrix.in_band ml mu r c then
            (if ident then (if Nat.eqb r c then one O else zero O) else nth c (nth r rows []) (zero O))
          else zero O
      end.
  Definition mass_of (P : problem) (st : Matrix.storage) : nat -> nat -> F :=
    match pr_mass P with Some rows => stored st rows false | None => stored st [] true end.

  (* the Jacobian the solver sees, and the right-hand-side evaluations computing it costs *)
  Definition jac_of (P : problem) (st : Matrix.storage) (n : nat) (x : F) (y : vec) : nat -> nat -> F :=
    match pr_jac P with
    | Some j => stored st (j x y) false
    | None => Radau.fd_jac O (pr_f P) n x y
    end.

  Record solution := mkSol {
    sol_t : list F; sol_y : list vec;                 (* oldest first *)
    sol_tev : list (list F); sol_yev : list (list vec);
    sol_stats : stats; sol_status : status;
    sol_segs : option (list (seg (F:=F)));            (* oldest first; None = dense disabled *)
    sol_odelog : list (F * vec); sol_evlog : list (F * vec);   (* ghost, oldest first *)
    sol_jaclog : list (F * vec);
    sol_unconverged : N;
    sol_hfinal : F
  }.

  (* linear-time reverse (= List.rev, see List.rev_alt) *)
  Definition frev {A} (l : list A) : list A := rev_append l [].

  Definition USIZE_MAX : N := 18446744073709551615%N.

  Definition coeffs_per_state (m : method) : nat :=
    match m with MRK4 => 4 | MRK23 => 4 | MDOPRI5 => 5 | MDOP853 => 8 | MRADAU => 4 | MBDF => 7 end.

  Definition interp_fn (m : method) : vec -> F -> F -> F -> nat -> vec :=
    match m with
    | MRK4 => Rk4.interpolate O
    | MRK23 => Rk23.interpolate O
    | MDOP853 => Dop853.interpolate O
    | MRADAU => Radau.interpolate O
    | MBDF => Bdf.interpolate O
    | _ => Dopri5.interpolate O
    end.

  (* ContinuousOutput::constant *)
  Definition constant_seg (m : method) (x0 : F) (y0 : vec) : seg (F:=F) :=
    let n := length y0 in
    let cps := coeffs_per_state m in
    let cont :=
      match m with
      | MBDF => flat_map (fun yi => yi :: repeat (zero O) (cps - 2) ++ [one O]) y0
      | _ => y0 ++ repeat (zero O) (n * (cps - 1))
      end in
    (cont, x0, L L1em15).

  Definition handler_cb (C : hconfig (F:=F)) (hs : hstate (F:=F)) (xold x : F) (y : vec)
             (sg : option (vec * F * F)) : hstate (F:=F) * flag F * vec :=
    let '(hs', fl) := solout O C hs xold x y sg in (hs', fl, y).

  Definition trivial_solution (P : problem) (t : list F) (y : list vec) (segs : option (list seg)) : solution :=
    mkSol t y (repeat [] (pr_nevents P)) (repeat [] (pr_nevents P)) stats0 Success segs [] [] [] 0 (zero O).

  (* dispatch to a low-level solver with the builder defaults solve_ivp uses; any callback *)
  Definition run_method {H : Type} (P : problem) (x0 xend : F) (y0 : vec) (opt : options)
             (cb : H -> F -> F -> vec -> option (vec * F * F) -> H * flag F * vec) (cb0 : H) (fuel : nat)
    : option (status * stats * list (F * vec) * H * F * list (F * vec) * F * vec) :=
    let nmax := match o_max_steps opt with Some k => k | None => USIZE_MAX end in
    match o_method opt with
    | MDOPRI5 =>
        (* defaults: uround, safety_factor, scale_min, scale_max, beta *)
        let Pm := Dopri5.mkP (dflt opt 0) (dflt opt 1) (dflt opt 2) (dflt opt 3) (dflt opt 4)
                             (o_max_step opt) (o_first_step opt) nmax (o_nstiff opt) true in
        match Dopri5.solve O Pm (pr_f P) x0 y0 xend (o_rtol opt) (o_atol opt) cb cb0 fuel with
        | Some r => Some (Dopri5.r_status r, Dopri5.r_stats r, Dopri5.r_log r, Dopri5.r_cb r, Dopri5.r_h r, [],
                          Dopri5.r_x r, Dopri5.r_y r)
        | None => None
        end
    | MDOP853 =>
        let Pm := Dop853.mkP (dflt opt 0) (dflt opt 1) (dflt opt 2) (dflt opt 3) (dflt opt 4)
                             (o_max_step opt) (o_first_step opt) nmax (o_nstiff opt) true in
        match Dop853.solve O Pm (pr_f P) x0 y0 xend (o_rtol opt) (o_atol opt) cb cb0 fuel with
        | Some r => Some (Dop853.r_status r, Dop853.r_stats r, Dop853.r_log r, Dop853.r_cb r, Dop853.r_h r, [],
                          Dop853.r_x r, Dop853.r_y r)
        | None => None
        end
    | MRK23 =>
        (* defaults: safety_factor, scale_min, scale_max *)
        let Pm := Rk23.mkP (dflt opt 0) (dflt opt 1) (dflt opt 2)
                           (o_max_step opt) (o_first_step opt) nmax true in
        match Rk23.solve O Pm (pr_f P) x0 y0 xend (o_rtol opt) (o_atol opt) cb cb0 fuel with
        | Some r => Some (Rk23.r_status r, Rk23.r_stats r, Rk23.r_log r, Rk23.r_cb r, Rk23.r_h r, [],
                          Rk23.r_x r, Rk23.r_y r)
        | None => None
        end
    | MRK4 =>
        let h := match o_first_step opt with Some h0 => h0 | None => (xend - x0) / L L100 end in
        match Rk4.solve O (Rk4.mkP nmax true) (pr_f P) x0 y0 xend h cb cb0 fuel with
        | Some r => Some (Rk4.r_status r, Rk4.r_stats r, Rk4.r_log r, Rk4.r_cb r, Rk4.r_h r, [],
                          Rk4.r_x r, Rk4.r_y r)
        | None => None
        end
    | MRADAU =>
        (* defaults: uround, safety_factor, scale_min, scale_max; o_nstiff = newton_maxiter *)
        let Pm := Radau.mkP nmax (dflt opt 0) (dflt opt 1) (dflt opt 2) (dflt opt 3)
                            (o_max_step opt) (o_min_step opt) (N.to_nat (o_nstiff opt)) None true
                            (o_first_step opt) true in
        let n := length y0 in
        match Radau.solve O Pm (pr_f P) (jac_of P (o_jac_storage opt) n) (mass_of P (o_mass_storage opt))
                          x0 y0 xend (o_rtol opt) (o_atol opt) cb cb0 fuel with
        | Some r => Some (Radau.r_status r, Radau.r_stats r, Radau.r_log r, Radau.r_cb r, Radau.r_h r,
                          Radau.r_jaclog r, Radau.r_x r, Radau.r_y r)
        | None => None
        end
    | MBDF =>
        (* o_nstiff = newton_maxiter *)
        let Pm := Bdf.mkP nmax (o_max_step opt) (o_min_step opt) (N.to_nat (o_nstiff opt)) None (o_first_step opt) in
        let n := length y0 in
        match Bdf.solve O Pm (pr_f P) (jac_of P (o_jac_storage opt) n) x0 y0 xend (o_rtol opt) (o_atol opt)
                        cb cb0 fuel with
        | Some r => Some (Bdf.r_status r, Bdf.r_stats r, Bdf.r_log r, Bdf.r_cb r, Bdf.r_h r, Bdf.r_jaclog r,
                          Bdf.r_x r, Bdf.r_y r)
        | None => None
        end
    end.

  Definition solve_ivp (P : problem) (x0 xend : F) (y0 : vec) (opt : options) (fuel : nat)
    : option solution :=
    if abs O (xend - x0) <? L L1em15 then
      let t := match o_t_eval opt with
               | Some te => filter (fun t => abs O (t - x0) <? L L1em12) te
               | None => [x0] end in
      Some (trivial_solution P t (map (fun _ => y0) t)
              (if o_dense opt then Some [constant_seg (o_method opt) x0 y0] else None))
    else if Nat.eqb (length y0) 0 then
      let t := match o_t_eval opt with Some te => te | None => [x0; xend] end in
      Some (trivial_solution P t (map (fun _ => []) t)
              (if o_dense opt then Some [constant_seg (o_method opt) x0 y0] else None))
    else
      let first_output_step :=
        match o_first_step opt with
        | Some h => if abs O h <=? abs O (xend - x0) then Some (abs O h) else None
        | None => None
        end in
      let C := mkHC (o_t_eval opt) (o_dense opt) first_output_step x0 (handler_tol O (xend - x0)) (pr_events P) (pr_nevents P)
                    (pr_evcfg P) (interp_fn (o_method opt)) in
      match run_method P x0 xend y0 opt (handler_cb C) (hs_init O C) fuel with
      | None => None
      | Some (st, stats, log, hs, hfin, jl, _, _) =>
          Some (mkSol (frev (hs_t hs)) (frev (hs_y hs)) (map frev (hs_tev hs)) (map frev (hs_yev hs))
                      stats st (if o_dense opt then
                                  (* no accepted step at all: the covered range is the single point x0 *)
                                  Some (match hs_segs hs with
                                        | [] => [constant_seg (o_method opt) x0 y0]
                                        | _ => frev (hs_segs hs)
                                        end)
                                else None)
                      (frev log) (frev (hs_evlog hs)) (frev jl) (hs_brent_unconverged hs) hfin)
      end.

  (* ---------------- dense evaluation ---------------- *)
  Definition seg_in (t : F) (sg : seg (F:=F)) : bool :=
    let '(_, xold, h) := sg in
    let left := fmin O xold (xold + h) in
    let right := fmax O xold (xold + h) in
    (t >=? left - L L1em12) && (t <=? right + L L1em12).

  Definition seg_contains (t : F) (sg : seg (F:=F)) : bool :=
    let '(_, xold, h) := sg in
    let left := fmin O xold (xold + h) in
    let right := fmax O xold (xold + h) in
    (t >=? left) && (t <=? right).

  Definition t_span (segs : list (seg (F:=F))) : option (F * F) :=
    match segs with
    | [] => None
    | (_, x1, _) :: _ => let '(_, xl, hl) := last segs (nil, zero O, zero O) in Some (x1, xl + hl)
    end.

  (* slack of the range check in Solution::sol / sol_many (the same 1e-12 as the segment lookup) *)
  Definition RANGE_TOL : F := L L1em12.

  Inductive sol_result := SolOk (y : vec) | SolNotEnabled | SolOutOfRange.

  Definition sol_eval (m : method) (n : nat) (S : solution) (t : F) : sol_result :=
    match sol_segs S with
    | None => SolNotEnabled
    | Some segs =>
        match t_span segs with
        | None => SolNotEnabled
        | Some (st, en) =>
            let lo := fmin O st en in let hi := fmax O st en in
            if (t <? lo - RANGE_TOL) || (t >? hi + RANGE_TOL) then SolOutOfRange
            else match (match find (seg_contains t) segs with Some g => Some g | None => find (seg_in t) segs end) with
                 | Some (cont, xold, h) => SolOk (interp_fn m cont xold h t n)
                 | None => SolOutOfRange
                 end
        end
    end.

  (* Solution::sol_many: every requested time is range-checked first (the first offender is reported and nothing is
     evaluated); then each time is evaluated exactly as sol evaluates it, in the order given *)
  Inductive solmany_result := SolManyOk (ys : list vec) | SolManyNotEnabled | SolManyOutOfRange (t : F).

  Definition sol_many (m : method) (n : nat) (S : solution) (ts : list F) : solmany_result :=
    match sol_segs S with
    | None => SolManyNotEnabled
    | Some segs =>
        match t_span segs with
        | None => SolManyNotEnabled
        | Some (st, en) =>
            let lo := fmin O st en in let hi := fmax O st en in
            match find (fun t => (t <? lo - RANGE_TOL) || (t >? hi + RANGE_TOL)) ts with
            | Some t => SolManyOutOfRange t
            | None => SolManyOk (map (fun t => match sol_eval m n S t with SolOk y => y | _ => nil end) ts)
            end
        end
    end.
End Solve.
