(* RK23 (src/methods/rk23.rs) *)
Require Import List ZArith Bool.
Require Import IVP.model.Lit IVP.model.Ops IVP.model.Vec IVP.model.Common IVP.model.RK
               IVP.model.Tableau IVP.gen.Inline.
Import ListNotations.
Local Open Scope bool_scope.

Section Rk23.
  Context {F : Type} (O : Ops F).
  Local Notation "a + b" := (add O a b). Local Notation "a - b" := (sub O a b).
  Local Notation "a * b" := (mul O a b). Local Notation "a / b" := (div O a b).
  Local Notation "a <=? b" := (leb O a b). Local Notation "a <? b" := (ltb O a b).
  Local Notation "a >? b" := (ltb O b a) (at level 70).
  Local Notation "'L' l" := (lit O l) (at level 1, l at level 0).
  Local Notation vec := (list F).

  Record params := mkP {
    p_safety : F; p_scale_min : F; p_scale_max : F;
    p_max_step : option F; p_first_step : option F; p_max_steps : N; p_dense : bool
  }.

  Record attempt := mkAtt {
    at_ynew : vec; at_knew : vec (* k4 = f(x+h, ynew) *); at_err : F; at_errv : vec;
    at_ks : list vec; at_calls : list (F * vec)
  }.

  Definition errnorm (atolv rtolv y ynew e : vec) : F :=
    let n := length y in
    let s := fold_left
               (fun acc q => let '(a, r, yi, y1i, ei) := q in
                             let tl := a + r * fmax O (abs O y1i) (abs O yi) in
                             acc + sq O (ei / tl))
               (combine (combine (combine (combine atolv rtolv) y) ynew) e) (zero O) in
    sqrt O (s / ofnat O n).

  Definition kernel (f : F -> vec -> vec) (atol rtol : tol F) (x : F) (y k1 : vec) (h : F) : attempt :=
    let n := length y in
    let '(ks, calls) := run_stages O f x h y RK23T.stages [k1] [] in
    let yt := stage_arg O h y ks (RSum RK23T.b) in
    let k4 := nth 3 ks [] in
    let ev := map (fun s => h * s) (lincomb O RK23T.e ks n) in
    let err := errnorm (tolv atol n) (tolv rtol n) y yt ev in
    mkAtt yt k4 err ev ks calls.

  Definition dense (y : vec) (a : attempt) : vec :=
    let ks := at_ks a in let n := length y in
    y ++ nth 0 ks [] ++ lincomb O RK23T.d2 ks n ++ lincomb O RK23T.d3 ks n.

  Definition block (cont : vec) (n j : nat) : vec := firstn n (skipn (j * n) cont).

  Definition interpolate (cont : vec) (xold h xi : F) (n : nat) : vec :=
    let xc := (xi - xold) / h in
    let x2 := xc * xc in
    let x3 := x2 * xc in
    map (fun q => let '(c0, c1, c2, c3) := q in c0 + h * (c1 * xc + c2 * x2 + c3 * x3))
        (combine (combine (combine (block cont n 0) (block cont n 1)) (block cont n 2)) (block cont n 3)).

  Record state (H : Type) := mkS {
    s_x : F; s_y : vec; s_k1 : vec; s_h : F; s_stats : stats; s_log : list (F * vec); s_cb : H }.
  Record result (H : Type) := mkR { r_status : status; r_h : F; r_stats : stats;
                                    r_x : F; r_y : vec; r_log : list (F * vec); r_cb : H }.
  Arguments mkS {H}. Arguments mkR {H}.
  Arguments s_x {H}. Arguments s_y {H}. Arguments s_k1 {H}. Arguments s_h {H}.
  Arguments s_stats {H}. Arguments s_log {H}. Arguments s_cb {H}.

  Section Loop.
    Context {H : Type}.
    Variable P : params.
    Variable f : F -> vec -> vec.
    Variable xend : F.
    Variable posneg : F.
    Variable hmax : F.
    Variable cb : H -> F -> F -> vec -> option (vec * F * F) -> H * flag F * vec.
    Variable kern : F -> vec -> vec -> F -> attempt.

    Definition step (s : state H) : state H + result H :=
      let x := s_x s in let y := s_y s in let h := s_h s in
      if N.leb (p_max_steps P) (nstep (s_stats s)) then
        inr (mkR NeedLargerNMax h (s_stats s) x y (s_log s) (s_cb s))
      else if (L L0_1 * abs O h) <=? (abs O x * L LEPS) then
        inr (mkR StepSizeTooSmall h (s_stats s) x y (s_log s) (s_cb s))
      else
        let last := ((x + h - xend) * posneg) >? zero O in
        let h := if last then xend - x else h in
        let a := kern x y (s_k1 s) h in
        let stats := add_fev (s_stats s) 3 in
        let log := rev_append (at_calls a) (s_log s) in
        let err := at_err a in
        if err <=? one O then
          let stats := add_acc (add_step stats) in
          let xnew := if last then xend else x + h in      (* the last step lands exactly on xend *)
          let cont := dense y a in
          let '(cbs, fl, ycb) := cb (s_cb s) x xnew (at_ynew a)
                                    (if p_dense P then Some (cont, x, h) else None) in
          match fl with
          | Interrupt => inr (mkR UserInterrupt h stats xnew ycb log cbs)
          | _ =>
              let '(k1, stats, log) :=
                match fl with
                | ModifiedSolution => (f xnew ycb, add_fev stats 1, (xnew, ycb) :: log)
                | _ => (at_knew a, stats, log)
                end in
              let h := h * fmax O (fmin O (p_safety P * pow O err (L LM1_3)) (p_scale_max P)) (p_scale_min P) in
              let h := if abs O h >? hmax then hmax * posneg else h in
              if eqb O xnew xend then inr (mkR Success h stats xnew ycb log cbs)
              else inl (mkS xnew ycb k1 h stats log cbs)
          end
        else
          let stats := add_rej stats in
          let factor := p_safety P * pow O err (L LM1_3) in
          let h := h * (if is_nan O factor then p_scale_min P else fmax O (fmin O factor (one O)) (p_scale_min P)) in
          inl (mkS x y (s_k1 s) h stats log (s_cb s)).

    Fixpoint loop (fuel : nat) (s : state H) : option (result H) :=
      match fuel with
      | 0 => None
      | S k => match step s with inl s' => loop k s' | inr r => Some r end
      end.
  End Loop.

  Definition solve {H : Type} (P : params) (f : F -> vec -> vec) (x0 : F) (y0 : vec) (xend : F)
             (rtol atol : tol F)
             (cb : H -> F -> F -> vec -> option (vec * F * F) -> H * flag F * vec) (cb0 : H)
             (fuel : nat) : option (result H) :=
    if N.eqb (p_max_steps P) 0 then None
    else if (one O <=? p_safety P) || (p_safety P <=? L L1em4) then None
    else if (p_scale_min P <=? zero O) || (p_scale_max P <=? p_scale_min P) then None
    else
      let hmax := match p_max_step P with Some m => abs O m | None => abs O (xend - x0) end in
      let posneg := signum O (xend - x0) in
      let k1 := f x0 y0 in
      let stats := add_fev stats0 1 in
      let log := [(x0, y0)] in
      let '(h, stats, log) :=
        match p_first_step P with
        | Some h0 => (abs O h0 * posneg, stats, log)
        | None => let '(h, call) := hinit O f x0 y0 posneg k1 3 (fmin O hmax (abs O (xend - x0))) atol rtol in
                  (h, add_fev stats 1, call :: log)
        end in
      let '(cbs, fl, y) := cb cb0 x0 x0 y0 None in
      match fl with
      | Interrupt => Some (mkR UserInterrupt h stats x0 y log cbs)
      | _ =>
          let '(k1, stats, log) :=
            match fl with
            | ModifiedSolution => (f x0 y, add_fev stats 1, (x0, y) :: log)
            | _ => (k1, stats, log)
            end in
          loop P f xend posneg hmax cb (kernel f atol rtol) fuel (mkS x0 y k1 h stats log cbs)
      end.
End Rk23.

Arguments r_status {F H}. Arguments r_h {F H}. Arguments r_stats {F H}.
Arguments r_x {F H}. Arguments r_y {F H}. Arguments r_log {F H}. Arguments r_cb {F H}.
Arguments mkR {F H}. Arguments mkS {F H}.
Arguments s_x {F H}. Arguments s_y {F H}. Arguments s_k1 {F H}. Arguments s_h {F H}.
Arguments s_stats {F H}. Arguments s_log {F H}. Arguments s_cb {F H}.
