(* The default output handler of solve_ivp (src/solve/solout.rs), transcribed branch for branch:
   dense-segment collection, event detection with the Brent variant, t_eval sampling (Mode 1)
   and accepted-step recording with first_step enforcement (Mode 2). *)
Require Import List ZArith Bool.
Require Import IVP.model.Lit IVP.model.Ops IVP.model.Vec IVP.model.Common IVP.gen.Inline.
Import ListNotations.
Local Open Scope bool_scope.

Inductive direction := DirAll | DirPositive | DirNegative.
Record event_config := mkEC { ec_dir : direction; ec_terminal : option N }.

Section Handler.
  Context {F : Type} (O : Ops F).
  Local Notation "a + b" := (add O a b). Local Notation "a - b" := (sub O a b).
  Local Notation "a * b" := (mul O a b). Local Notation "a / b" := (div O a b).
  Local Notation "a <=? b" := (leb O a b). Local Notation "a <? b" := (ltb O a b).
  Local Notation "a >=? b" := (leb O b a) (at level 70). Local Notation "a >? b" := (ltb O b a) (at level 70).
  Local Notation "a =? b" := (eqb O a b).
  Local Notation "'L' l" := (lit O l) (at level 1, l at level 0).
  Local Notation vec := (list F).

  (* a per-step interpolant as the handler sees it: coefficients, xold, h *)
  Definition seg := (vec * F * F)%type.

  Record hconfig := mkHC {
    hc_t_eval : option (list F);
    hc_dense : bool;
    hc_first_step : option F;
    hc_x0 : F;
    hc_tol : F;                           (* slack of the time comparisons: 1e-12 * min(|xend - x0|, 1) *)
    hc_events : F -> vec -> vec;          (* all event functions at once *)
    hc_nevents : nat;
    hc_evcfg : list event_config;
    hc_interp : vec -> F -> F -> F -> nat -> vec   (* method's interpolate(cont, xold, h, xi, n) *)
  }.

  (* all growing lists are kept newest-first *)
  Record hstate := mkHS {
    hs_next : nat;
    hs_t : list F; hs_y : list vec;
    hs_tev : list (list F); hs_yev : list (list vec);
    hs_segs : list seg;
    hs_yold : option vec;
    hs_prev : vec;
    hs_hits : list N;
    hs_first_done : bool;
    hs_evlog : list (F * vec);           (* ghost: every event-function evaluation *)
    hs_brent_unconverged : N             (* ghost: Brent loops that hit MAXITER *)
  }.

  Definition hs_init (C : hconfig) : hstate :=
    mkHS 0 [] [] (repeat [] (hc_nevents C)) (repeat [] (hc_nevents C)) [] None
         (repeat (zero O) (hc_nevents C)) (repeat 0%N (hc_nevents C)) false [] 0.

  Definition crossed (left right : F) (d : direction) : bool :=
    match d with
    | DirAll => ((left <=? zero O) && (right >=? zero O)) || ((left >=? zero O) && (right <=? zero O))
    | DirPositive => (left <? zero O) && (right >=? zero O)
    | DirNegative => (left >? zero O) && (right <=? zero O)
    end.

  (* ---------------- Brent variant (lines 184-296 of solout.rs) ---------------- *)
  Definition XTOL := L L2em12.
  Definition RTOL := L LEPS.

  Record brent_st := mkB { ba : F; bb : F; bc : F; bfa : F; bfb : F; bfc : F; bd : F; be : F }.

  (* one loop iteration; g is the event function along the interpolant.
     Returns inr (final state) on `break`, inl (next state, evaluated point) otherwise. *)
  Definition brent_iter (g : F -> F) (s : brent_st) : (brent_st * F) + brent_st :=
    (* if fb * fc > 0 { c = a; fc = fa; d = b - a; e = d } *)
    let s1 := if (bfb s * bfc s) >? zero O
              then mkB (ba s) (bb s) (ba s) (bfa s) (bfb s) (bfa s) (bb s - ba s) (bb s - ba s)
              else s in
    (* if |fc| < |fb| { a = b; b = c; c = a; fa = fb; fb = fc; fc = fa } *)
    let s2 := if abs O (bfc s1) <? abs O (bfb s1)
              then mkB (bb s1) (bc s1) (bb s1) (bfb s1) (bfc s1) (bfb s1) (bd s1) (be s1)
              else s1 in
    let a := ba s2 in let b := bb s2 in let c := bc s2 in
    let fa := bfa s2 in let fb := bfb s2 in let fc := bfc s2 in
    let d := bd s2 in let e := be s2 in
    let tol1 := L L2 * RTOL * abs O b + L L0_5 * XTOL in
    let xm := L L0_5 * (c - b) in
    if (abs O xm <=? tol1) || (fb =? zero O) then inr s2
    else
      let '(d', e') :=
        if (abs O e >=? tol1) && (abs O fa >? abs O fb) then
          let sdiv := fb / fa in
          let '(p, q) :=
            if a =? c then
              (L L2 * xm * sdiv, one O - sdiv)
            else
              let qv := fa / fc in
              let r := fb / fc in
              (sdiv * (L L2 * xm * qv * (qv - r) - (b - a) * (r - one O)),
               (qv - one O) * (r - one O) * (sdiv - one O)) in
          let '(p, q) := (abs O p, if p >? zero O then neg O q else q) in
          if (L L2 * p) <? fmin O (L L3 * xm * q - abs O (tol1 * q)) (abs O (e * q))
          then (p / q, d)
          else (xm, xm)
        else (xm, xm) in
      let a' := b in let fa' := fb in
      let b' := if abs O d' >? tol1 then b + d'
                else b + (if xm >? zero O then tol1 else neg O tol1) in
      let fb' := g b' in
      inl (mkB a' b' c fa' fb' fc d' e', b').

  (* at most `fuel` iterations; returns final b, the evaluated points (oldest first), converged? *)
  Fixpoint brent_loop (fuel : nat) (g : F -> F) (s : brent_st) (pts : list F) : F * list F * bool :=
    match fuel with
    | 0 => (bb s, pts, false)
    | S k =>
        match brent_iter g s with
        | inr s' => (bb s', pts, true)
        | inl (s', p) => brent_loop k g s' (pts ++ [p])
        end
    end.

  Definition MAXITER := 100.

  (* refine one crossing; returns (t_e, y_e, evaluated points, converged) *)
  Definition locate_event (C : hconfig) (i : nat) (xold x : F) (yold y : vec) (gprev gcurr : F)
             (sg : option seg) : F * vec * list F * bool :=
    let n := length y in
    let interp xi := match sg with
                     | Some (cont, xo, h) => hc_interp C cont xo h xi n
                     | None => repeat (zero O) n      (* Rust: unwrap() would panic *)
                     end in
    if abs O gprev <=? XTOL then (xold, yold, [], true)
    else if abs O gcurr <=? XTOL then (x, y, [], true)
    else
      let g b := nth i (hc_events C b (interp b)) (zero O) in
      let s0 := mkB xold x xold gprev gcurr gprev (x - xold) (x - xold) in
      let '(b, pts, conv) := brent_loop MAXITER g s0 [] in
      (b, interp b, pts, conv).

  (* stable insertion sort of detected events by time *)
  Fixpoint insert_ev (before : F -> F -> bool) (e : F * nat * vec) (l : list (F * nat * vec)) :=
    match l with
    | [] => [e]
    | e' :: r => if before (fst (fst e')) (fst (fst e)) || negb (before (fst (fst e)) (fst (fst e')))
                 then e' :: insert_ev before e r      (* e' <= e : keep e' first (stability) *)
                 else e :: l
    end.
  Definition sort_ev (before : F -> F -> bool) (l : list (F * nat * vec)) :=
    fold_left (fun acc e => insert_ev before e acc) l [].

  Fixpoint upd {A} (l : list A) (i : nat) (f : A -> A) : list A :=
    match l, i with
    | [], _ => []
    | a :: r, 0 => f a :: r
    | a :: r, S k => a :: upd r k f
    end.

  (* on a terminal event: requested times not beyond the event are still reported *)
  Fixpoint scan_terminal (fwd : bool) (tol xold tev : F) (interp : F -> vec) (te : list F) (i : nat)
           (t : list F) (ys : list vec) : nat * list F * list vec :=
    match te with
    | [] => (i, t, ys)
    | v :: r =>
        let inside := if fwd then v <=? tev else v >=? tev in
        if inside then
          let take := if fwd then v >=? xold - tol else v <=? xold + tol in
          if take then scan_terminal fwd tol xold tev interp r (S i) (v :: t) (interp v :: ys)
          else scan_terminal fwd tol xold tev interp r (S i) t ys
        else (i, t, ys)
    end.

  (* process sorted events; returns the state and whether a terminal event fired *)
  Fixpoint process_events (C : hconfig) (fwd : bool) (xold : F) (interp : F -> vec)
           (evs : list (F * nat * vec)) (s : hstate) : hstate * bool :=
    match evs with
    | [] => (s, false)
    | (te, i, ye) :: rest =>
        let hits := upd (hs_hits s) i (fun h => (h + 1)%N) in
        let s1 := mkHS (hs_next s) (hs_t s) (hs_y s)
                       (upd (hs_tev s) i (cons te)) (upd (hs_yev s) i (cons ye))
                       (hs_segs s) (hs_yold s) (hs_prev s) hits (hs_first_done s)
                       (hs_evlog s) (hs_brent_unconverged s) in
        let term := match ec_terminal (nth i (hc_evcfg C) (mkEC DirAll None)) with
                    | Some limit => N.leb limit (nth i hits 0%N)
                    | None => false
                    end in
        if term then
          let '(nx, t1, y1) :=
            match hc_t_eval C with
            | Some tev => scan_terminal fwd (hc_tol C) xold te interp (skipn (hs_next s1) tev)
                                        (hs_next s1) (hs_t s1) (hs_y s1)
            | None => (hs_next s1, hs_t s1, hs_y s1)
            end in
          (mkHS nx (te :: t1) (ye :: y1) (hs_tev s1) (hs_yev s1)
                (hs_segs s1) (hs_yold s1) (hs_prev s1) (hs_hits s1) (hs_first_done s1)
                (hs_evlog s1) (hs_brent_unconverged s1), true)
        else process_events C fwd xold interp rest s1
    end.

  (* Mode 1 scans *)
  Fixpoint scan_initial (tol x : F) (y : vec) (te : list F) (i : nat) (t : list F) (ys : list vec)
    : nat * list F * list vec :=
    match te with
    | [] => (i, t, ys)
    | v :: r => if abs O (v - x) <=? tol then scan_initial tol x y r (S i) (v :: t) (y :: ys)
                else (i, t, ys)
    end.
  Fixpoint scan_step (fwd : bool) (tol xold x : F) (interp : F -> vec) (te : list F) (i : nat)
           (t : list F) (ys : list vec) : nat * list F * list vec :=
    match te with
    | [] => (i, t, ys)
    | v :: r =>
        let inside := if fwd then v <=? x + tol else v >=? x - tol in
        if inside then
          let take := if fwd then v >=? xold - tol else v <=? xold + tol in
          if take then scan_step fwd tol xold x interp r (S i) (v :: t) (interp v :: ys)
          else scan_step fwd tol xold x interp r (S i) t ys
        else (i, t, ys)
    end.

  (* DefaultSolOut::new: tol = 1e-12 * span.abs().min(1.0) *)
  Definition handler_tol (span : F) : F := L L1em12 * fmin O (abs O span) (one O).

  Definition interp_of (C : hconfig) (n : nat) (sg : option seg) (xi : F) : vec :=
    match sg with
    | Some (cont, xo, h) => hc_interp C cont xo h xi n
    | None => repeat (zero O) n
    end.

  (* ---- dense collection ---- *)
  Definition collect_dense (C : hconfig) (s : hstate) (xold x : F) (sg : option seg) : hstate :=
    let segs :=
      match sg with
      | Some (cont, xo, h) =>
          if hc_dense C && negb (x =? xold) && negb (h =? zero O) then (cont, xo, h) :: hs_segs s
          else hs_segs s
      | None => hs_segs s
      end in
    mkHS (hs_next s) (hs_t s) (hs_y s) (hs_tev s) (hs_yev s) segs (hs_yold s) (hs_prev s)
         (hs_hits s) (hs_first_done s) (hs_evlog s) (hs_brent_unconverged s).

  (* ---- events: detect, refine, sort, record; true = a terminal event fired ---- *)
  Definition detect_events (C : hconfig) (s : hstate) (xold x : F) (y : vec) (sg : option seg)
    : hstate * bool :=
    let n := length y in
    if Nat.ltb 0 (hc_nevents C) then
      let gcurr := hc_events C x y in
      let s := mkHS (hs_next s) (hs_t s) (hs_y s) (hs_tev s) (hs_yev s) (hs_segs s) (hs_yold s)
                    (hs_prev s) (hs_hits s) (hs_first_done s) ((x, y) :: hs_evlog s)
                    (hs_brent_unconverged s) in
      match hs_yold s with
      | None =>
          (mkHS (hs_next s) (hs_t s) (hs_y s) (hs_tev s) (hs_yev s) (hs_segs s) (hs_yold s)
                gcurr (hs_hits s) (hs_first_done s) (hs_evlog s) (hs_brent_unconverged s), false)
      | Some yold =>
          (* first pass: detect and refine, in index order *)
          let '(det, log, unconv) :=
            fold_left
              (fun acc i =>
                 let '(det, log, unconv) := acc in
                 let gp := nth i (hs_prev s) (zero O) in
                 let gc := nth i gcurr (zero O) in
                 let cfg := nth i (hc_evcfg C) (mkEC DirAll None) in
                 if crossed gp gc (ec_dir cfg) then
                   let '(te, ye, pts, conv) := locate_event C i xold x yold y gp gc sg in
                   (det ++ [(te, i, ye)],
                    fold_left (fun l p => (p, interp_of C n sg p) :: l) pts log,
                    if conv then unconv else (unconv + 1)%N)
                 else acc)
              (seq 0 (hc_nevents C)) ([], hs_evlog s, hs_brent_unconverged s) in
          let fwd := x >? xold in
          let sorted := sort_ev (if fwd then (fun a b => a <? b) else (fun a b => a >? b)) det in
          let s := mkHS (hs_next s) (hs_t s) (hs_y s) (hs_tev s) (hs_yev s) (hs_segs s) (hs_yold s)
                        (hs_prev s) (hs_hits s) (hs_first_done s) log unconv in
          let '(s, term) := process_events C fwd xold (interp_of C n sg) sorted s in
          (mkHS (hs_next s) (hs_t s) (hs_y s) (hs_tev s) (hs_yev s) (hs_segs s) (hs_yold s)
                gcurr (hs_hits s) (hs_first_done s) (hs_evlog s) (hs_brent_unconverged s), term)
      end
    else (s, false).

  (* ---- sampling (Mode 1: t_eval; Mode 2: accepted steps with first_step enforcement) ---- *)
  Definition sample (C : hconfig) (s : hstate) (xold x : F) (y : vec) (sg : option seg) : hstate :=
    let n := length y in
    let interp := interp_of C n sg in
    match hc_t_eval C with
    | Some te =>
        let rest := skipn (hs_next s) te in
        let '(i, t, ys) :=
          if xold =? x then scan_initial (hc_tol C) x y rest (hs_next s) (hs_t s) (hs_y s)
          else scan_step (x >? xold) (hc_tol C) xold x interp rest (hs_next s) (hs_t s) (hs_y s) in
        mkHS i t ys (hs_tev s) (hs_yev s) (hs_segs s) (hs_yold s) (hs_prev s) (hs_hits s)
             (hs_first_done s) (hs_evlog s) (hs_brent_unconverged s)
    | None =>
        let normal :=
          let push := match hs_t s with
                      | [] => true
                      | tl :: _ => negb (tl =? x)
                      end in
          if push then
            mkHS (hs_next s) (x :: hs_t s) (y :: hs_y s) (hs_tev s) (hs_yev s) (hs_segs s)
                 (hs_yold s) (hs_prev s) (hs_hits s) (hs_first_done s) (hs_evlog s)
                 (hs_brent_unconverged s)
          else s in
        match hc_first_step C with
        | Some h0 =>
            if negb (hs_first_done s) && negb (xold =? x) then
              let dirn := signum O (x - xold) in
              let target := hc_x0 C + dirn * h0 in
              if (dirn * (x - target)) >=? neg O (hc_tol C) then
                let '(t1, y1, done) :=
                  match sg with
                  | Some _ => (target :: hs_t s, interp target :: hs_y s, true)
                  | None => (hs_t s, hs_y s, hs_first_done s)
                  end in
                let '(t2, y2) := if abs O (x - target) >? hc_tol C then (x :: t1, y :: y1) else (t1, y1) in
                mkHS (hs_next s) t2 y2 (hs_tev s) (hs_yev s) (hs_segs s) (hs_yold s) (hs_prev s)
                     (hs_hits s) done (hs_evlog s) (hs_brent_unconverged s)
              else s
            else normal
        | None => normal
        end
    end.

  Definition set_yold (s : hstate) (y : vec) : hstate :=
    mkHS (hs_next s) (hs_t s) (hs_y s) (hs_tev s) (hs_yev s) (hs_segs s) (Some y)
         (hs_prev s) (hs_hits s) (hs_first_done s) (hs_evlog s) (hs_brent_unconverged s).

  Definition solout (C : hconfig) (s : hstate) (xold x : F) (y : vec) (sg : option seg)
    : hstate * flag F :=
    let s1 := collect_dense C s xold x sg in
    let se := detect_events C s1 xold x y sg in
    if snd se then (fst se, Interrupt)
    else (sample C (set_yold (fst se) y) xold x y sg, Continue).
End Handler.
