(* Elementary weights of a Runge-Kutta tableau over an arbitrary (commutative) ring of scalars,
   and order-condition checks computed through the memoised tables of Trees.v.
   Instances: Qc (canonical rationals: Leibniz equality is rational equality), Z and BigZ
   (scaled-integer certificates for the 30-digit DOP853 coefficients). *)
Require Import List ZArith QArith Qcanon.
Require Import IVP.model.Lit IVP.model.RK IVP.model.Trees IVP.model.Vec.
Import ListNotations.

Record KOps (K : Type) := mkK { kzero : K; kone : K; kadd : K -> K -> K; kmul : K -> K -> K }.
Arguments kzero {K}. Arguments kone {K}. Arguments kadd {K}. Arguments kmul {K}.

Section PhiDef.
  Context {K : Type} (R : KOps K).
  Definition kdot (a b : list K) : K := fold_right (kadd R) (kzero R) (map2 (kmul R) a b).
  Definition kmv (A : list (list K)) (v : list K) : list K := map (fun r => kdot r v) A.
  Definition kvmul (a b : list K) : list K := map2 (kmul R) a b.
  Definition kones (s : nat) : list K := repeat (kone R) s.

  Variables (A : list (list K)) (s : nat).
  (* elementary weights Phi_i(t):  Phi(Node [c1..cm]) = prod_k (A . Phi(ck)), componentwise *)
  Fixpoint Phi (t : tree) : list K :=
    match t with
    | Node cs =>
        (fix PF (l : list tree) : list K :=
           match l with [] => kones s | c :: r => kvmul (kmv A (Phi c)) (PF r) end) cs
    end.
  Fixpoint PhiF (l : list tree) : list K :=
    match l with [] => kones s | c :: r => kvmul (kmv A (Phi c)) (PhiF r) end.

  (* what the tables hold for each tree *)
  Record wval := mkW { w_phi : list K; w_aphi : list K; w_gamma : Z; w_size : nat }.
  Definition wnil : list K * Z := (kones s, 1%Z).
  Definition wcons (x : wval) (y : list K * Z) : list K * Z :=
    (kvmul (w_aphi x) (fst y), (w_gamma x * snd y)%Z).
  Definition wnode (n : nat) (y : list K * Z) : wval :=
    mkW (fst y) (kmv A (fst y)) (Z.of_nat n * snd y)%Z n.
  Definition wtrees (p : nat) : list wval := treesUpTo wval (list K * Z) wnil wcons wnode p.
  Definition check_all (c : wval -> bool) (p : nat) : bool := forallb c (wtrees p).
End PhiDef.

(* density gamma(t) *)
Fixpoint gamma (t : tree) : Z :=
  match t with
  | Node cs =>
      (Z.of_nat (S (sizeF cs)) *
       (fix GF (l : list tree) : Z := match l with [] => 1 | c :: r => gamma c * GF r end) cs)%Z
  end.
Fixpoint gammaF (l : list tree) : Z :=
  match l with [] => 1%Z | c :: r => (gamma c * gammaF r)%Z end.

(* ------------------------------- rational instance ------------------------------- *)
Local Open Scope Qc_scope.
Definition QcK : KOps Qc := mkK Qc 0 1 Qcplus Qcmult.
Definition qvec := list Qc.
Definition Z2Qc (z : Z) : Qc := Q2Qc (inject_Z z).
Definition qeqb (x y : Qc) : bool := Qeq_bool (this x) (this y).
Definition qabs (x : Qc) : Qc := if Qle_bool 0 (this x) then x else - x.
Definition qleb (x y : Qc) : bool := Qle_bool (this x) (this y).
Notation qdot := (kdot QcK).

(* exact order conditions:  gamma(t) * (b . Phi(t)) = 1 *)
Definition cond_exact (w : qvec) (v : wval) : bool :=
  qeqb (Z2Qc (w_gamma v) * qdot w (w_phi v)) 1.
(* approximate:  | gamma(t) * (b . Phi(t)) - 1 | <= gamma(t) * tol *)
Definition cond_approx (tol : Qc) (w : qvec) (v : wval) : bool :=
  qleb (qabs (Z2Qc (w_gamma v) * qdot w (w_phi v) - 1)) (Z2Qc (w_gamma v) * tol).
(* annihilation (embedded error estimators):  w . Phi(t) = 0 *)
Definition cond_zero (w : qvec) (v : wval) : bool := qeqb (qdot w (w_phi v)) 0.
Definition cond_zero_approx (tol : Qc) (w : qvec) (v : wval) : bool :=
  qleb (qabs (qdot w (w_phi v))) tol.

(* ---- from the source-order tableau to dense rational arrays ---- *)
Definition sel := Lit -> Q.
Definition dense_row (q : sel) (s : nat) (l : list (Lit * nat)) : qvec :=
  map (fun j => fold_right Qcplus 0
                  (map (fun aj => if Nat.eqb (snd aj) j then Q2Qc (q (fst aj)) else 0) l))
      (seq 0 s).
(* rows for stages 1..s: stage 1 has the empty row *)
Definition dense_A (q : sel) (s : nat) (sts : list stage) : list qvec :=
  map (fun r => dense_row q s r) ([] :: map (fun st => row_entries (st_row st)) sts).
Definition dense_c (q : sel) (sts : list stage) (cfinal : Q) : qvec :=
  0 :: map (fun st => match st_c st with Some c => Q2Qc (q c) | None => Q2Qc cfinal end) sts.
Definition row_sums (A : list qvec) : qvec := map (fun r => fold_right Qcplus 0 r) A.

(* ------------------------------- integer instance ------------------------------- *)
Definition ZK : KOps Z := mkK Z 0%Z 1%Z Z.add Z.mul.
