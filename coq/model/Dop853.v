(* DOP853 (src/methods/dop853.rs) *)
Require Import List ZArith Bool.
Require Import IVP.model.Lit IVP.model.Ops IVP.model.Vec IVP.model.Common IVP.model.RK
               IVP.model.Tableau IVP.gen.Inline.
Import ListNotations.
Local Open Scope bool_scope.

Section Dop853.
  Context {F : Type} (O : Ops F).
  Local Notation "a + b" := (add O a b). Local Notation "a - b" := (sub O a b).
  Local Notation "a * b" := (mul O a b). Local Notation "a / b" := (div O a b).
  Local Notation "a <=? b" := (leb O a b). Local Notation "a <? b" := (ltb O a b).
  Local Notation "a >? b" := (ltb O b a) (at level 70).
  Local Notation "'L' l" := (lit O l) (at level 1, l at level 0).
  Local Notation vec := (list F).

  Record params := mkP {
    p_uround : F; p_safety : F; p_scale_min : F; p_scale_max : F; p_beta : F;
    p_max_step : option F; p_first_step : option F; p_max_steps : N; p_nstiff : N;
    p_dense : bool
  }.

  Record attempt := mkAtt {
    at_ynew : vec;       (* k5 = y + h * (b . k) *)
    at_bk : vec;         (* k4 = b . k *)
    at_err : F;
    at_ks : list vec;    (* stages 1..12 *)
    at_y1_12 : vec;      (* argument of stage 12 (used by the stiffness test) *)
    at_calls : list (F * vec)
  }.

  Definition kernel (f : F -> vec -> vec) (atol rtol : tol F) (x : F) (y k1 : vec) (h : F) : attempt :=
    let n := length y in
    let '(ks, calls) := run_stages O f x h y DOP853T.stages12 [k1] [] in
    let bk := lincomb O DOP853T.b ks n in
    let k5 := map2 (fun yi s => yi + h * s) y bk in
    let y1_12 := match rev calls with (_, a) :: _ => a | [] => y end in
    let k1v := nth 0 ks [] in let k9 := nth 8 ks [] in let k12 := nth 11 ks [] in
    let erv := lincomb O DOP853T.er ks n in
    let atv := tolv atol n in let rtv := tolv rtol n in
    let '(err, err2) :=
      fold_left
        (fun acc q =>
           let '(e, e2) := acc in
           let '(a, r, yi, k5i, bki, k1i, k9i, k12i, eri) := q in
           let sk := a + r * fmax O (abs O yi) (abs O k5i) in
           let erri2 := bki - L Consts_dop853.BH1 * k1i - L Consts_dop853.BH2 * k9i - L Consts_dop853.BH3 * k12i in
           let e2' := e2 + sq O (erri2 / sk) in
           let e' := e + sq O (eri / sk) in
           (e', e2'))
        (combine (combine (combine (combine (combine (combine (combine (combine atv rtv) y) k5) bk) k1v) k9) k12) erv)
        (zero O, zero O) in
    let deno := err + L L0_01 * err2 in
    let deno := if deno <=? zero O then one O else deno in
    let errf := abs O h * err * sqrt O (one O / (ofnat O n * deno)) in
    mkAtt k5 bk errf ks y1_12 calls.

  (* accepted step: stage 13 = f(x+h, ynew) (FSAL), then the three dense stages, then cont *)
  Definition dense_part1 (ks : list vec) (n : nat) (l : list (Lit * nat)) : vec := lincomb O l ks n.

  Definition finish_dense (f : F -> vec -> vec) (x h : F) (y : vec) (a : attempt) (k13 : vec)
    : vec * list (F * vec) :=
    let n := length y in
    let ks13 := at_ks a ++ [k13] in
    let '(ks16, calls) := run_stages O f x h y DOP853T.stages_dense ks13 [] in
    let k1 := nth 0 ks16 [] in
    let ydiff := map2 (fun k5i yi => k5i - yi) (at_ynew a) y in
    let bspl := map2 (fun k yd => h * k - yd) k1 ydiff in
    let c3 := map3 (fun yd k bs => yd - h * k - bs) ydiff k13 bspl in
    let tail (la lb : list (Lit * nat)) :=
      let p1 := lincomb O la ks16 n in
      (* h * (part1 + D?13*k13 + D?14*k14 + D?15*k15 + D?16*k16) *)
      map (fun s => h * s)
          (fold_left (fun acc aj => map2 (fun s k => s + L (fst aj) * k) acc (nth (snd aj) ks16 [])) lb p1) in
    (y ++ ydiff ++ bspl ++ c3 ++ tail DOP853T.d4a DOP853T.d4b ++ tail DOP853T.d5a DOP853T.d5b
       ++ tail DOP853T.d6a DOP853T.d6b ++ tail DOP853T.d7a DOP853T.d7b, calls).

  Definition block (cont : vec) (n j : nat) : vec := firstn n (skipn (j * n) cont).

  Definition interpolate (cont : vec) (xold h xi : F) (_n : nat) : vec :=
    let n := Nat.div (length cont) 8 in
    let s := (xi - xold) / h in
    let s1 := one O - s in
    map (fun q => let '(c0, c1, c2, c3, c4, c5, c6, c7) := q in
                  let conpar := c4 + s * (c5 + s1 * (c6 + s * c7)) in
                  c0 + s * (c1 + s1 * (c2 + s * (c3 + s1 * conpar))))
        (combine (combine (combine (combine (combine (combine (combine (block cont n 0) (block cont n 1))
           (block cont n 2)) (block cont n 3)) (block cont n 4)) (block cont n 5)) (block cont n 6)) (block cont n 7)).

  Record state (H : Type) := mkS {
    s_x : F; s_y : vec; s_k1 : vec; s_h : F; s_facold : F;
    s_last : bool; s_reject : bool; s_nonstiff : N; s_hlamb : F; s_iasti : N;
    s_stats : stats; s_log : list (F * vec); s_cb : H
  }.
  Record result (H : Type) := mkR { r_status : status; r_h : F; r_stats : stats;
                                    r_x : F; r_y : vec; r_log : list (F * vec); r_cb : H }.
  Arguments mkS {H}. Arguments mkR {H}.
  Arguments s_x {H}. Arguments s_y {H}. Arguments s_k1 {H}. Arguments s_h {H}.
  Arguments s_facold {H}. Arguments s_last {H}. Arguments s_reject {H}. Arguments s_nonstiff {H}.
  Arguments s_hlamb {H}. Arguments s_iasti {H}. Arguments s_stats {H}. Arguments s_log {H}.
  Arguments s_cb {H}.

  Section Loop.
    Context {H : Type}.
    Variable P : params.
    Variable f : F -> vec -> vec.
    Variable xend : F.
    Variable posneg : F.
    Variable hmax : F.
    Variable cb : H -> F -> F -> vec -> option (vec * F * F) -> H * flag F * vec.
    Variable kern : F -> vec -> vec -> F -> attempt.

    Definition facc1 := one O / p_scale_min P.
    Definition facc2 := one O / p_scale_max P.
    Definition expo1 := L L1_8 - p_beta P * L L0_2.

    Definition landing (x h : F) (last : bool) : F * bool :=
      if ((x + L L1_01 * h - xend) * posneg) >? zero O then (xend - x, true) else (h, last).

    Definition hnew_of (h err facold : F) : F :=
      let fac11 := pow O err expo1 in
      let fac := fac11 / pow O facold (p_beta P) in
      let fac := fmax O facc2 (fmin O facc1 (fac / p_safety P)) in
      h / fac.
    Definition hnew_reject (h err : F) : F :=
      h / fmin O facc1 (pow O err expo1 / p_safety P).
    Definition hnew_clamp (hnew h : F) (reject : bool) : F :=
      let hnew := if abs O hnew >? abs O hmax then posneg * abs O hmax else hnew in
      if reject then posneg * fmin O (abs O hnew) (abs O h) else hnew.

    Definition stiff_test (s : state H) (h : F) (a : attempt) (k13 : vec) (st0 : stats) : F * N * N * bool :=
      let do_stiff := N.eqb (N.modulo (naccpt st0) (p_nstiff P)) 0 || N.ltb 0 (s_iasti s) in
      let k12 := nth 11 (at_ks a) [] in
      if do_stiff then
        let stnum := fold_left (fun acc p => let d1 := fst p - snd p in acc + d1 * d1)
                               (combine k13 k12) (zero O) in
        let stden := fold_left (fun acc p => let d2 := fst p - snd p in acc + d2 * d2)
                               (combine (at_ynew a) (at_y1_12 a)) (zero O) in
        let hlamb := if stden >? zero O then abs O h * sqrt O (stnum / stden) else s_hlamb s in
        if hlamb >? L L6_1 then
          let iasti := (s_iasti s + 1)%N in
          (hlamb, 0%N, iasti, N.eqb iasti 15)
        else
          let nonstiff := (s_nonstiff s + 1)%N in
          (hlamb, nonstiff, if N.eqb nonstiff 6 then 0%N else s_iasti s, false)
      else (s_hlamb s, s_nonstiff s, s_iasti s, false).

    Definition after_flag (fl : flag F) (xph : F) (ycb k13 : vec) (st0 : stats) (log : list (F * vec))
      : vec * stats * list (F * vec) :=
      match fl with
      | ModifiedSolution => (f xph ycb, add_fev st0 1, (xph, ycb) :: log)
      | _ => (k13, st0, log)
      end.

    (* the three extra dense-output stages are computed only when an interpolant is wanted *)
    Definition dense_stage (x h : F) (y : vec) (a : attempt) (k13 : vec) (st0 : stats) (log : list (F * vec))
      : vec * stats * list (F * vec) :=
      if p_dense P then
        let '(cont, dcalls) := finish_dense f x h y a k13 in
        (cont, add_fev st0 (N.of_nat (length dcalls)), rev_append dcalls log)
      else ([], st0, log).

    Definition step (s : state H) : state H + result H :=
      let x := s_x s in let y := s_y s in
      if N.ltb (p_max_steps P) (nstep (s_stats s)) then
        inr (mkR NeedLargerNMax (s_h s) (s_stats s) x y (s_log s) (s_cb s))
      else if (L L0_1 * abs O (s_h s)) <=? (abs O x * p_uround P) then
        inr (mkR StepSizeTooSmall (s_h s) (s_stats s) x y (s_log s) (s_cb s))
      else
        let '(h, last) := landing x (s_h s) (s_last s) in
        let stats := add_step (s_stats s) in
        let a := kern x y (s_k1 s) h in
        let stats := add_fev stats 11 in
        let log := rev_append (at_calls a) (s_log s) in
        let xph := x + h in
        let err := at_err a in
        let hnew := hnew_of h err (s_facold s) in
        if err <=? one O then
          let facold := fmax O err (L L1em4) in
          let stats := add_acc stats in
          let k13 := f xph (at_ynew a) in
          let stats := add_fev stats 1 in
          let log := (xph, at_ynew a) :: log in
          let '(hlamb, nonstiff, iasti, stiff_exit) := stiff_test s h a k13 stats in
          if stiff_exit then inr (mkR ProbablyStiff h stats x y log (s_cb s))
          else
            let '(cont, stats, log) := dense_stage x h y a k13 stats log in
            let '(cbs, fl, ycb) := cb (s_cb s) x xph (at_ynew a)
                                      (if p_dense P then Some (cont, x, h) else None) in
            match fl with
            | Interrupt => inr (mkR UserInterrupt h stats xph ycb log cbs)
            | _ =>
                let '(k1, stats, log) := after_flag fl xph ycb k13 stats log in
                if last then inr (mkR Success hnew stats xph ycb log cbs)
                else
                  inl (mkS xph ycb k1 (hnew_clamp hnew h (s_reject s)) facold last false
                           nonstiff hlamb iasti stats log cbs)
            end
        else
          let stats := if N.ltb 1 (naccpt stats) then add_rej stats else stats in
          inl (mkS x y (s_k1 s) (hnew_reject h err) (s_facold s) false true (s_nonstiff s) (s_hlamb s)
                   (s_iasti s) stats log (s_cb s)).

    Fixpoint loop (fuel : nat) (s : state H) : option (result H) :=
      match fuel with
      | 0 => None
      | S k => match step s with inl s' => loop k s' | inr r => Some r end
      end.
  End Loop.

  Definition solve {H : Type} (P : params) (f : F -> vec -> vec) (x0 : F) (y0 : vec) (xend : F)
             (rtol atol : tol F)
             (cb : H -> F -> F -> vec -> option (vec * F * F) -> H * flag F * vec) (cb0 : H)
             (fuel : nat) : option (result H) :=
    if (p_uround P <=? L L1em35) || (one O <=? p_uround P) then None
    else if (one O <=? p_safety P) || (p_safety P <=? L L1em4) then None
    else if p_beta P >? L L0_2 then None
    else if N.eqb (p_max_steps P) 0 || N.eqb (p_nstiff P) 0 then None
    else
      let hmax := match p_max_step P with Some m => m | None => abs O (xend - x0) end in
      let posneg := signum O (xend - x0) in
      let k1 := f x0 y0 in
      let stats := add_fev stats0 1 in
      let log := [(x0, y0)] in
      let '(h, stats, log) :=
        match p_first_step P with
        | Some h0 => (abs O h0 * posneg, stats, log)
        | None => let '(h, call) := hinit O f x0 y0 posneg k1 8 (fmin O (abs O hmax) (abs O (xend - x0))) atol rtol in
                  (h, add_fev stats 1, call :: log)
        end in
      let '(cbs, fl, y) := cb cb0 x0 x0 y0 None in
      match fl with
      | Interrupt => Some (mkR UserInterrupt h stats x0 y log cbs)
      | _ =>
          let '(k1, stats, log) :=
            match fl with
            | ModifiedSolution => (f x0 y, add_fev stats 1, (x0, y) :: log)
            | _ => (k1, stats, log)
            end in
          loop P f xend posneg hmax cb (kernel f atol rtol) fuel
               (mkS x0 y k1 h (L L1em4) false false 0%N (zero O) 0%N stats log cbs)
      end.
End Dop853.

Arguments r_status {F H}. Arguments r_h {F H}. Arguments r_stats {F H}.
Arguments r_x {F H}. Arguments r_y {F H}. Arguments r_log {F H}. Arguments r_cb {F H}.
Arguments mkR {F H}. Arguments mkS {F H}.
Arguments s_x {F H}. Arguments s_y {F H}. Arguments s_k1 {F H}. Arguments s_h {F H}.
Arguments s_facold {F H}. Arguments s_last {F H}. Arguments s_reject {F H}. Arguments s_nonstiff {F H}.
Arguments s_hlamb {F H}. Arguments s_iasti {F H}. Arguments s_stats {F H}. Arguments s_log {F H}.
Arguments s_cb {F H}.
