(* C09 -- no sign change between accepted steps goes unreported (the detection predicate, real semantics). *)
Require Import Reals.
Require Import IVP.model.Ops IVP.model.SolOut IVP.model.RealOps IVP.proofs.MiscFacts.

Theorem C09_strict_opposite_crosses :
  forall l r : R,
    ((l < 0 /\ 0 < r)%R -> crossed Rops l r DirAll = true /\ crossed Rops l r DirPositive = true /\
                           crossed Rops l r DirNegative = false) /\
    ((0 < l /\ r < 0)%R -> crossed Rops l r DirAll = true /\ crossed Rops l r DirNegative = true /\
                           crossed Rops l r DirPositive = false).
Proof. exact crossed_strict_opposite. Qed.
Print Assumptions C09_strict_opposite_crosses.

Theorem C09_strict_same_does_not :
  forall (l r : R) d, ((l < 0 /\ r < 0) \/ (0 < l /\ 0 < r))%R -> crossed Rops l r d = false.
Proof. exact crossed_strict_same. Qed.
Print Assumptions C09_strict_same_does_not.
