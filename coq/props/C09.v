(* C09 -- no sign change between accepted steps goes unreported (the detection predicate, real semantics). *)
Require Import Reals.
Require Import IVP.model.Ops IVP.model.SolOut IVP.model.RealOps IVP.proofs.MiscFacts.

Theorem C09_strict_opposite_crosses :
  forall l r : R,
    ((l < 0 /\ 0 < r)%R -> crossed Rops l r DirAll = true /\ crossed Rops l r DirPositive = true /\
                           crossed Rops l r DirNegative = false) /\
    ((0 < l /\ r < 0)%R -> crossed Rops l r DirAll = true /\ crossed Rops l r DirNegative = true /\
                           crossed Rops l r DirPositive = false).
Proof. exact crossed_strict_opposite. Qed.
Print Assumptions C09_strict_opposite_crosses.

Theorem C09_strict_same_does_not :
  forall (l r : R) d, ((l < 0 /\ r < 0) \/ (0 < l /\ 0 < r))%R -> crossed Rops l r d = false.
Proof. exact crossed_strict_same. Qed.
Print Assumptions C09_strict_same_does_not.

(* Per accepted step and per event function: exactly one event is recorded when `crossed` fires on the function's values
   at the two step ends (the previous callback's values `hs_prev` and the current ones), none otherwise; and the values
   remembered for the next step are the current ones.  For ANY number type, event functions, interpolant, root refinement
   outcome and any configuration without terminal events (with a terminal event the run stops at it: C10).
   Together with the two theorems above (real semantics of `crossed`): strictly opposite signs in the configured
   direction give exactly one event of that function inside that step, equal strict signs give none. *)
Require Import List.
Require Import IVP.model.Common IVP.proofs.SolOutFacts IVP.proofs.EventCount.
Theorem C09_one_event_per_crossing :
  forall (F : Type) (O : Ops F) (C : hconfig (F:=F)) s xold x y sg yold,
    no_terminal C -> (0 < hc_nevents C)%nat -> hs_yold s = Some yold -> length (hs_tev s) = hc_nevents C ->
    let s' := fst (detect_events O C s xold x y sg) in
    let gcurr := hc_events C x y in
    hs_prev s' = gcurr /\
    length (hs_tev s') = hc_nevents C /\
    forall i, (i < hc_nevents C)%nat ->
      length (nth i (hs_tev s') nil) =
      (length (nth i (hs_tev s) nil) + (if crossb O C (hs_prev s) gcurr i then 1 else 0))%nat.
Proof. exact @events_per_step. Qed.
Print Assumptions C09_one_event_per_crossing.
