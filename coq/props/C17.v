(* C17 -- matrix values do not depend on the storage scheme.
   `get` returns None exactly where the Rust Index/IndexMut would panic.  For all sizes n, all bandwidths
   (ml, mu), all indices. *)
Require Import List Arith Bool Reals.
Require Import IVP.model.Ops IVP.model.Matrix IVP.model.RealOps IVP.proofs.MatrixFacts IVP.proofs.MatrixSum.
Import ListNotations.
Local Open Scope bool_scope.

(* every public constructor yields a matrix all of whose entries can be read, with the expected value *)
Theorem C17_constructors_readable :
  forall (F : Type) (O : Ops F) n ml mu (d : list F) i j,
    i < n -> j < n ->
    get O (identity O n) i j = Some (if i =? j then one O else zero O) /\
    get O (zeros O n n) i j = Some (zero O) /\
    get O (full O n n) i j = Some (zero O) /\
    get O (square O n) i j = Some (zero O) /\
    get O (banded O n ml mu) i j = Some (zero O) /\
    get O (lower_triangular O n) i j = Some (zero O) /\
    get O (upper_triangular O n) i j = Some (zero O) /\
    (n = length d -> get O (diagonal d) i j = Some (if i =? j then nth i d (zero O) else zero O)).
Proof.
  intros. repeat split; try (intros; subst).
  - now apply get_identity. - now apply get_zeros. - now apply get_full_ctor. - now apply get_square.
  - now apply get_banded. - now apply get_lower_triangular. - now apply get_upper_triangular.
  - now apply get_diagonal.
Qed.
Print Assumptions C17_constructors_readable.

Theorem C17_from_vec :
  forall (F : Type) (O : Ops F) n m (d : list F) A i j,
    from_vec n m d = Some A -> i < n -> j < m -> get O A i j = Some (nth (i * m + j) d (zero O)).
Proof. exact @get_from_vec. Qed.
Print Assumptions C17_from_vec.

(* distinct in-band entries live in distinct cells; off-band reads are zero; reads outside the shape panic *)
Theorem C17_band_index_injective :
  forall m ml mu i j i' j',
    j < m -> j' < m -> in_band ml mu i j = true -> in_band ml mu i' j' = true ->
    band_idx m mu i j = band_idx m mu i' j' -> i = i' /\ j = j'.
Proof. exact band_idx_inj. Qed.
Print Assumptions C17_band_index_injective.

Theorem C17_off_band_and_out_of_shape :
  forall (F : Type) (O : Ops F) (A : matrix) ml mu i j,
    (m_st A = SBanded ml mu -> i < m_n A -> j < m_m A -> in_band ml mu i j = false -> get O A i j = Some (zero O)) /\
    (m_n A <= i \/ m_m A <= j -> get O A i j = None).
Proof. intros. split; [apply get_off_band|apply get_out_of_shape]. Qed.
Print Assumptions C17_off_band_and_out_of_shape.

(* writes: inside the band (or anywhere in a Full matrix) exactly the addressed entry changes;
   outside the band and into an Identity matrix they panic *)
Theorem C17_write_updates_one_entry :
  forall (F : Type) (O : Ops F) (A : matrix) i j v A' i' j',
    Matrix.set A i j v = Some A' -> i' < m_n A -> j' < m_m A ->
    get O A' i' j' = if (i' =? i) && (j' =? j) then Some v else get O A i' j'.
Proof. exact @get_set. Qed.
Print Assumptions C17_write_updates_one_entry.

Theorem C17_illegal_writes_panic :
  forall (F : Type) (A : matrix (F:=F)) ml mu i j v,
    (m_st A = SIdentity -> Matrix.set A i j v = None) /\
    (m_st A = SBanded ml mu -> in_band ml mu i j = false -> Matrix.set A i j v = None).
Proof. intros. split; [apply set_identity_panics|apply set_off_band_panics]. Qed.
Print Assumptions C17_illegal_writes_panic.

(* operators (real-number instance): entrywise sum / difference / scalar multiple of the dense equivalents *)
Theorem C17_full_plus_minus_full :
  forall sub_ (A B C : matrix (F:=R)) i j,
    wf A -> wf B -> m_st A = SFull -> m_st B = SFull -> addsub Rops sub_ A B = Some C ->
    i < m_n A -> j < m_n A -> get Rops C i j = Some (rop sub_ (dn A i j) (dn B i j)).
Proof. exact addsub_full_full. Qed.
Print Assumptions C17_full_plus_minus_full.

Theorem C17_banded_plus_minus_banded :
  forall sub_ (A B C : matrix (F:=R)) ml mu ml2 mu2 i j,
    wf A -> wf B -> m_st A = SBanded ml mu -> m_st B = SBanded ml2 mu2 -> addsub Rops sub_ A B = Some C ->
    i < m_n A -> j < m_n A ->
    m_st C = SBanded (Nat.max ml ml2) (Nat.max mu mu2) /\
    get Rops C i j = Some (rop sub_ (dn A i j) (dn B i j)).
Proof. exact addsub_banded_banded. Qed.
Print Assumptions C17_banded_plus_minus_banded.

Theorem C17_scalar_multiple :
  forall (A : matrix (F:=R)) c i j,
    wf A -> i < m_n A -> j < m_n A -> dn (cmul Rops A c) i j = (dn A i j * c)%R.
Proof. exact cmul_dense. Qed.
Print Assumptions C17_scalar_multiple.

(* ---------------- the remaining operators (proofs/MatrixMixed.v) ---------------- *)
Require Import IVP.proofs.MatrixMixed.

(* any two DIFFERENT storage kinds (Identity/Full/Banded in either order): a Full result holding the entrywise result *)
Theorem C17_mixed_storage_plus_minus :
  forall sub_ (A B C : rmatrix) i j,
    wf A -> wf B -> mixed (m_st A) (m_st B) -> addsub Rops sub_ A B = Some C ->
    (i < m_n A)%nat -> (j < m_n A)%nat ->
    m_st C = SFull /\ get Rops C i j = Some (rop sub_ (dn A i j) (dn B i j)).
Proof. exact addsub_mixed. Qed.
Print Assumptions C17_mixed_storage_plus_minus.

Theorem C17_identity_plus_minus_identity :
  forall sub_ (A B C : rmatrix) i j,
    wf A -> wf B -> m_st A = SIdentity -> m_st B = SIdentity -> addsub Rops sub_ A B = Some C ->
    (i < m_n A)%nat -> (j < m_n A)%nat ->
    get Rops C i j = Some (rop sub_ (dn A i j) (dn B i j)).
Proof. exact addsub_identity_identity. Qed.
Print Assumptions C17_identity_plus_minus_identity.

(* component_add / component_sub for every storage: every entry -- also the implicit ones -- receives the scalar *)
Theorem C17_scalar_add_sub :
  forall sub_ (A : rmatrix) c i j,
    wf A -> (i < m_n A)%nat -> (j < m_n A)%nat ->
    get Rops (caddsub Rops sub_ A c) i j = Some (rop sub_ (dn A i j) c).
Proof. exact caddsub_dense. Qed.
Print Assumptions C17_scalar_add_sub.

(* is_identity agrees with the dense definition, for every storage *)
Theorem C17_is_identity_iff_dense_identity :
  forall A : rmatrix, wf A ->
    (is_identity Rops A = Some true <->
     forall i j, (i < m_n A)%nat -> (j < m_n A)%nat -> dn A i j = if (i =? j)%nat then 1%R else 0%R).
Proof. exact is_identity_iff. Qed.
Print Assumptions C17_is_identity_iff_dense_identity.
