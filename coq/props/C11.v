(* C11 -- max_step, first_step and max_steps are honoured (budget part, generic number type). *)
Require Import List ZArith.
Require Import IVP.model.Lit IVP.model.Ops IVP.model.Common IVP.model.Dopri5.
Require Import IVP.proofs.Dopri5Protocol.

(* the reported step count never exceeds max_steps + 1, and NeedLargerNMax means the budget ran out *)
Theorem C11_dopri5_budget_count :
  forall (F : Type) (O : Ops F) (H : Type) (P : params) f xend posneg hmax
         (cb : H -> F -> F -> list F -> option (list F * F * F) -> H * flag F * list F) kern fuel s r,
    (nstep (s_stats s) <= p_max_steps P + 1)%N ->
    loop O P f xend posneg hmax cb kern fuel s = Some r ->
    (nstep (r_stats r) <= p_max_steps P + 1)%N /\
    (r_status r = NeedLargerNMax -> (p_max_steps P < nstep (r_stats r))%N).
Proof. exact @loop_budget. Qed.
Print Assumptions C11_dopri5_budget_count.

(* below both budgets, the two runs take literally the same step: the budgeted run is a
   bit-identical prefix of the unbudgeted one *)
Theorem C11_dopri5_budget_prefix :
  forall (F : Type) (O : Ops F) (H : Type) (P : params) f xend posneg hmax
         (cb : H -> F -> F -> list F -> option (list F * F * F) -> H * flag F * list F) kern (n1 n2 : N) s,
    (nstep (s_stats s) <= n1)%N -> (nstep (s_stats s) <= n2)%N ->
    step O (with_budget P n1) f xend posneg hmax cb kern s =
    step O (with_budget P n2) f xend posneg hmax cb kern s.
Proof. exact @step_budget_prefix. Qed.
Print Assumptions C11_dopri5_budget_prefix.

(* ---- max_step (real-arithmetic semantics, any kernel / right-hand side / callback) ---- *)
Require Import Reals.
Require Import IVP.model.RealOps IVP.proofs.Dopri5Real.
Local Open Scope R_scope.

(* every attempted step is at most max_step long, except the step that lands on xend, which may be
   up to 1% longer; and the bound is re-established for the next attempt (after an acceptance by the
   explicit clamp, after a rejection because the rejection factor is at most 1) *)
Theorem C11_dopri5_max_step :
  forall (H : Type) (P : params) f xend posneg hmax
         (cb : H -> R -> R -> list R -> option (list R * R * R) -> H * flag R * list R) kern,
    posneg = 1 \/ posneg = -1 -> 0 < p_scale_min P -> 0 < p_safety P ->
    p_scale_min P <= 1 -> p_safety P <= 1 -> 0 <= expo1 Rops P ->
    forall s, Inv xend posneg s -> InvH xend hmax s ->
    let '(h, last) := landing Rops xend posneg (s_x s) (s_h s) (s_last s) in
    (if last then Rabs h < 101 / 100 * Rabs hmax else Rabs h <= Rabs hmax) /\
    match step Rops P f xend posneg hmax cb kern s with
    | inl s' => InvH xend hmax s'
    | inr _ => True
    end.
Proof. intros; eapply step_max_step; eauto. Qed.
Print Assumptions C11_dopri5_max_step.

(* ---------------- DOP853 (proofs/Dop853Protocol.v, Dop853Real.v) ---------------- *)
Require IVP.model.Dop853 IVP.proofs.Dop853Protocol IVP.proofs.Dop853Real.

Theorem C11_dop853_budget_count :
  forall (F : Type) (O : Ops F) (H : Type) (P : Dop853.params) f xend posneg hmax
         (cb : H -> F -> F -> list F -> option (list F * F * F) -> H * flag F * list F) kern fuel s r,
    (nstep (Dop853.s_stats s) <= Dop853.p_max_steps P + 1)%N ->
    Dop853.loop O P f xend posneg hmax cb kern fuel s = Some r ->
    (nstep (Dop853.r_stats r) <= Dop853.p_max_steps P + 1)%N /\
    (Dop853.r_status r = NeedLargerNMax -> (Dop853.p_max_steps P < nstep (Dop853.r_stats r))%N).
Proof. exact @Dop853Protocol.loop_budget. Qed.
Print Assumptions C11_dop853_budget_count.

Theorem C11_dop853_budget_prefix :
  forall (F : Type) (O : Ops F) (H : Type) (P : Dop853.params) f xend posneg hmax
         (cb : H -> F -> F -> list F -> option (list F * F * F) -> H * flag F * list F) kern (n1 n2 : N) s,
    (nstep (Dop853.s_stats s) <= n1)%N -> (nstep (Dop853.s_stats s) <= n2)%N ->
    Dop853.step O (Dop853Protocol.with_budget P n1) f xend posneg hmax cb kern s =
    Dop853.step O (Dop853Protocol.with_budget P n2) f xend posneg hmax cb kern s.
Proof. exact @Dop853Protocol.step_budget_prefix. Qed.
Print Assumptions C11_dop853_budget_prefix.

Theorem C11_dop853_max_step :
  forall (H : Type) (P : Dop853.params) f xend posneg hmax
         (cb : H -> R -> R -> list R -> option (list R * R * R) -> H * flag R * list R) kern,
    posneg = 1 \/ posneg = -1 -> 0 < Dop853.p_scale_min P -> 0 < Dop853.p_safety P ->
    Dop853.p_scale_min P <= 1 -> Dop853.p_safety P <= 1 -> 0 <= Dop853.expo1 Rops P ->
    forall s, Dop853Real.Inv xend posneg s -> Dop853Real.InvH xend hmax s ->
    let '(h, last) := Dop853.landing Rops xend posneg (Dop853.s_x s) (Dop853.s_h s) (Dop853.s_last s) in
    (if last then Rabs h < 101 / 100 * Rabs hmax else Rabs h <= Rabs hmax) /\
    match Dop853.step Rops P f xend posneg hmax cb kern s with
    | inl s' => Dop853Real.InvH xend hmax s'
    | inr _ => True
    end.
Proof. intros; eapply Dop853Real.step_max_step; eauto. Qed.
Print Assumptions C11_dop853_max_step.

(* ---------------- RK23 (proofs/Rk23Real.v): no landing stretch at all ---------------- *)
Require IVP.model.Rk23 IVP.proofs.Rk23Real.

Theorem C11_rk23_max_step :
  forall (H : Type) (P : Rk23.params) f xend posneg hmax
         (cb : H -> R -> R -> list R -> option (list R * R * R) -> H * flag R * list R) kern,
    posneg = 1 \/ posneg = -1 -> 0 < Rk23.p_scale_min P -> 0 < hmax -> Rk23.p_scale_min P <= 1 ->
    forall s, Rk23Real.Inv xend posneg s -> Rabs (Rk23.s_h s) <= hmax ->
    Rabs (Rk23Real.htry xend posneg (Rk23.s_x s) (Rk23.s_h s)) <= hmax /\
    match Rk23.step Rops P f xend posneg hmax cb kern s with
    | inl s' => Rabs (Rk23.s_h s') <= hmax /\
                (Rk23.s_x s' = Rk23.s_x s ->
                 Rabs (Rk23.s_h s') <= Rabs (Rk23Real.htry xend posneg (Rk23.s_x s) (Rk23.s_h s)))
    | inr _ => True
    end.
Proof. intros; eapply Rk23Real.step_max_step; eauto. Qed.
Print Assumptions C11_rk23_max_step.

(* ---------------- RK4: every step is h, the last one the remaining distance < 1.01 |h| ---------------- *)
Require IVP.model.Rk4 IVP.proofs.Rk4Real.

Theorem C11_rk4_fixed_step :
  forall (H : Type) (P : Rk4.params) f xend h
         (cb : H -> R -> R -> list R -> option (list R * R * R) -> H * flag R * list R) kern,
    h <> 0 ->
    forall s, Rk4Real.Inv xend h s ->
    Rabs (Rk4Real.htry xend h (Rk4.s_x s)) < 101 / 100 * Rabs h /\
    match Rk4.step Rops P f xend h cb kern s with
    | inl s' => Rk4.s_x s' = Rk4.s_x s + h
    | inr r => Rk4.r_status r = NeedLargerNMax \/ Rk4.r_x r = Rk4.s_x s + Rk4Real.htry xend h (Rk4.s_x s)
    end.
Proof.
  intros H P f xend h cb kern Hh s Hi.
  destruct (Rk4Real.step_discipline P f xend h cb kern Hh s Hi) as [_ [A B]]. split; [exact A|].
  destruct (Rk4.step Rops P f xend h cb kern s) as [s'|r]; [apply B|].
  destruct B as [[B _]|[B _]]; [left|right]; exact B.
Qed.
Print Assumptions C11_rk4_fixed_step.

(* ---------------- RK23, Radau, BDF: the step budget (proofs/{Rk23,Radau,Bdf}Budget.v) ----------------
   For any number type, kernel / right-hand side / Jacobian / mass matrix and callback, started below the budget
   (solve starts at 0): the reported nstep never exceeds max_steps + 1, NeedLargerNMax is reported only when the budget
   is used up, and an iteration below two budgets is literally the same computation under both. *)
Local Close Scope R_scope.
Require IVP.model.Rk23 IVP.model.Radau IVP.model.Bdf IVP.proofs.Rk23Budget IVP.proofs.RadauBudget IVP.proofs.BdfBudget.

Theorem C11_rk23_budget :
  forall (F : Type) (O : Ops F) (H : Type) (P : Rk23.params) f xend posneg hmax kern
         (cb : H -> F -> F -> list F -> option (list F * F * F) -> H * flag F * list F),
    (forall fuel s r, (nstep (Rk23.s_stats s) <= Rk23.p_max_steps P)%N ->
       Rk23.loop O P f xend posneg hmax cb kern fuel s = Some r ->
       (nstep (Rk23.r_stats r) <= Rk23.p_max_steps P + 1)%N /\
       (Rk23.r_status r = NeedLargerNMax -> (Rk23.p_max_steps P <= nstep (Rk23.r_stats r) + 0)%N)) /\
    (forall n1 n2 s, (nstep (Rk23.s_stats s) + 0 < n1)%N -> (nstep (Rk23.s_stats s) + 0 < n2)%N ->
       Rk23.step O (Rk23Budget.with_budget P n1) f xend posneg hmax cb kern s =
       Rk23.step O (Rk23Budget.with_budget P n2) f xend posneg hmax cb kern s).
Proof.
  intros. split; [intros; eapply Rk23Budget.loop_budget; eauto | intros; now apply Rk23Budget.step_budget_prefix].
Qed.
Print Assumptions C11_rk23_budget.

Theorem C11_radau_budget :
  forall (F : Type) (O : Ops F) (H : Type) (P : Radau.params) n f jacf mass atolv rtolv newton_tol xend posneg hmax hmin
         (cb : H -> F -> F -> list F -> option (list F * F * F) -> H * flag F * list F),
    (forall fuel s r, (nstep (Radau.s_stats _ s) <= Radau.p_max_steps P)%N ->
       Radau.loop O P n f jacf mass atolv rtolv newton_tol xend posneg hmax hmin cb fuel s = Some r ->
       (nstep (Radau.r_stats r) <= Radau.p_max_steps P + 1)%N /\
       (Radau.r_status r = NeedLargerNMax -> (Radau.p_max_steps P <= nstep (Radau.r_stats r) + 1)%N)) /\
    (forall n1 n2 s, (nstep (Radau.s_stats _ s) + 1 < n1)%N -> (nstep (Radau.s_stats _ s) + 1 < n2)%N ->
       Radau.step O (RadauBudget.with_budget P n1) n f jacf mass atolv rtolv newton_tol xend posneg hmax hmin cb s =
       Radau.step O (RadauBudget.with_budget P n2) n f jacf mass atolv rtolv newton_tol xend posneg hmax hmin cb s).
Proof.
  intros. split; [intros; eapply RadauBudget.loop_budget; eauto | intros; now apply RadauBudget.step_budget_prefix].
Qed.
Print Assumptions C11_radau_budget.

Theorem C11_bdf_budget :
  forall (F : Type) (O : Ops F) (H : Type) (P : Bdf.params) n f jacf atolv rtolv newton_tol maxiter xend direction hmax hmin
         (cb : H -> F -> F -> list F -> option (list F * F * F) -> H * flag F * list F),
    (forall fuel s r, (nstep (Bdf.s_stats _ s) <= Bdf.p_max_steps P)%N ->
       Bdf.loop O P n f jacf atolv rtolv newton_tol maxiter xend direction hmax hmin cb fuel s = Some r ->
       (nstep (Bdf.r_stats r) <= Bdf.p_max_steps P + 1)%N /\
       (Bdf.r_status r = NeedLargerNMax -> (Bdf.p_max_steps P <= nstep (Bdf.r_stats r) + 0)%N)) /\
    (forall n1 n2 s, (nstep (Bdf.s_stats _ s) + 0 < n1)%N -> (nstep (Bdf.s_stats _ s) + 0 < n2)%N ->
       Bdf.step O (BdfBudget.with_budget P n1) n f jacf atolv rtolv newton_tol maxiter xend direction hmax hmin cb s =
       Bdf.step O (BdfBudget.with_budget P n2) n f jacf atolv rtolv newton_tol maxiter xend direction hmax hmin cb s).
Proof.
  intros. split; [intros; eapply BdfBudget.loop_budget; eauto | intros; now apply BdfBudget.step_budget_prefix].
Qed.
Print Assumptions C11_bdf_budget.

(* ---------------- BDF: max_step, real-number semantics (proofs/BdfStepBounds.v) ----------------
   One iteration of the solver moves the abscissa forward (in the direction of integration) by at most max_step and
   never past xend -- for ANY right-hand side, Jacobian, callback, tolerances, Newton outcome and order history.
   `hmax` is |max_step| (the interval length by default); min_step <= max_step is what makes the configuration valid. *)
Require IVP.proofs.BdfStepBounds.
Theorem C11_bdf_max_step :
  forall (H : Type) (P : Bdf.params (F:=R)) n f jacf atolv rtolv newton_tol maxiter xend direction hmax hmin
         (cb : H -> R -> R -> list R -> option (list R * R * R) -> H * flag R * list R),
    (direction = 1 \/ direction = -1)%R -> (0 <= hmax)%R -> (hmin <= hmax)%R ->
    forall s, (0 <= direction * (xend - Bdf.s_x _ s))%R ->
    match Bdf.step Rops P n f jacf atolv rtolv newton_tol maxiter xend direction hmax hmin cb s with
    | inl s' => (0 <= direction * (xend - Bdf.s_x _ s') /\ 0 <= direction * (Bdf.s_x _ s' - Bdf.s_x _ s) <= hmax)%R
    | inr r => (0 <= direction * (xend - Bdf.r_x r) /\ 0 <= direction * (Bdf.r_x r - Bdf.s_x _ s) <= hmax)%R
    end.
Proof. intros; now apply (@BdfStepBounds.step_bounds H). Qed.
Print Assumptions C11_bdf_max_step.
