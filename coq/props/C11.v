(* C11 -- max_step, first_step and max_steps are honoured (budget part, generic number type). *)
Require Import List ZArith.
Require Import IVP.model.Lit IVP.model.Ops IVP.model.Common IVP.model.Dopri5.
Require Import IVP.proofs.Dopri5Protocol.

(* the reported step count never exceeds max_steps + 1, and NeedLargerNMax means the budget ran out *)
Theorem C11_dopri5_budget_count :
  forall (F : Type) (O : Ops F) (H : Type) (P : params) f xend posneg hmax
         (cb : H -> F -> F -> list F -> option (list F * F * F) -> H * flag F * list F) kern fuel s r,
    (nstep (s_stats s) <= p_max_steps P + 1)%N ->
    loop O P f xend posneg hmax cb kern fuel s = Some r ->
    (nstep (r_stats r) <= p_max_steps P + 1)%N /\
    (r_status r = NeedLargerNMax -> (p_max_steps P < nstep (r_stats r))%N).
Proof. exact @loop_budget. Qed.
Print Assumptions C11_dopri5_budget_count.

(* below both budgets, the two runs take literally the same step: the budgeted run is a
   bit-identical prefix of the unbudgeted one *)
Theorem C11_dopri5_budget_prefix :
  forall (F : Type) (O : Ops F) (H : Type) (P : params) f xend posneg hmax
         (cb : H -> F -> F -> list F -> option (list F * F * F) -> H * flag F * list F) kern (n1 n2 : N) s,
    (nstep (s_stats s) <= n1)%N -> (nstep (s_stats s) <= n2)%N ->
    step O (with_budget P n1) f xend posneg hmax cb kern s =
    step O (with_budget P n2) f xend posneg hmax cb kern s.
Proof. exact @step_budget_prefix. Qed.
Print Assumptions C11_dopri5_budget_prefix.

(* ---- max_step (real-arithmetic semantics, any kernel / right-hand side / callback) ---- *)
Require Import Reals.
Require Import IVP.model.RealOps IVP.proofs.Dopri5Real.
Local Open Scope R_scope.

(* every attempted step is at most max_step long, except the step that lands on xend, which may be
   up to 1% longer; and the bound is re-established for the next attempt (after an acceptance by the
   explicit clamp, after a rejection because the rejection factor is at most 1) *)
Theorem C11_dopri5_max_step :
  forall (H : Type) (P : params) f xend posneg hmax
         (cb : H -> R -> R -> list R -> option (list R * R * R) -> H * flag R * list R) kern,
    posneg = 1 \/ posneg = -1 -> 0 < p_scale_min P -> 0 < p_safety P ->
    p_scale_min P <= 1 -> p_safety P <= 1 -> 0 <= expo1 Rops P ->
    forall s, Inv xend posneg s -> InvH xend hmax s ->
    let '(h, last) := landing Rops xend posneg (s_x s) (s_h s) (s_last s) in
    (if last then Rabs h < 101 / 100 * Rabs hmax else Rabs h <= Rabs hmax) /\
    match step Rops P f xend posneg hmax cb kern s with
    | inl s' => InvH xend hmax s'
    | inr _ => True
    end.
Proof. intros; eapply step_max_step; eauto. Qed.
Print Assumptions C11_dopri5_max_step.
