(* C04 -- solve_ivp always terminates and never panics (the mechanism: NaN handling on IEEE floats and
   shrinking rejections; full float-level termination is not proved: see DESIGN.md). *)
Require Import Floats Reals List ZArith.
Require Import IVP.model.Ops IVP.model.FloatOps IVP.model.RealOps IVP.model.Common IVP.model.Dopri5.
Require Import IVP.proofs.MiscFacts IVP.proofs.Dopri5Real IVP.proofs.Dopri5Protocol.

(* on binary64: a NaN error norm never passes `err <= 1.0` (nor any other comparison) *)
Theorem C04_nan_is_rejected :
  forall x y : float, f_is_nan x = true -> (x <=? y)%float = false /\ (x <? y)%float = false /\ (y <=? x)%float = false.
Proof. exact nan_leb_false. Qed.
Print Assumptions C04_nan_is_rejected.

(* Rust's f64::min / max drop a NaN argument: the clamps of the step-size factor stay finite *)
Theorem C04_min_max_ignore_nan :
  forall x y : float, f_is_nan x = true ->
    f_min x y = y /\ f_max x y = y /\ (f_is_nan y = false -> f_min y x = y /\ f_max y x = y).
Proof. exact f_min_max_nan. Qed.
Print Assumptions C04_min_max_ignore_nan.

(* a rejection never enlarges the step (real semantics, DOPRI5 controller, parameters in their valid range) *)
Theorem C04_dopri5_reject_shrinks :
  forall (P : params) (h err : R),
    (0 < p_scale_min P)%R -> (0 < p_safety P)%R -> (p_scale_min P <= 1)%R -> (p_safety P <= 1)%R ->
    (0 <= expo1 Rops P)%R -> (1 < err)%R ->
    (Rabs (hnew_reject Rops P h err) <= Rabs h)%R.
Proof. intros; eapply hnew_reject_le; eauto. Qed.
Print Assumptions C04_dopri5_reject_shrinks.

(* with a finite budget the loop performs at most max_steps + 1 attempts before it stops *)
Theorem C04_dopri5_budget_bounds_work :
  forall (F : Type) (O : Ops F) (H : Type) (P : params) f xend posneg hmax
         (cb : H -> F -> F -> list F -> option (list F * F * F) -> H * flag F * list F) kern fuel s r,
    (nstep (s_stats s) <= p_max_steps P + 1)%N ->
    loop O P f xend posneg hmax cb kern fuel s = Some r ->
    (nstep (r_stats r) <= p_max_steps P + 1)%N.
Proof. intros. eapply (proj1 (loop_budget O P f xend posneg hmax cb kern fuel s r H0 H1)). Qed.
Print Assumptions C04_dopri5_budget_bounds_work.

(* ---------------- DOP853 / RK23: the same mechanism ---------------- *)
Require IVP.model.Dop853 IVP.proofs.Dop853Real IVP.proofs.Dop853Protocol IVP.model.Rk23 IVP.proofs.Rk23Real.

Theorem C04_dop853_reject_shrinks :
  forall (P : Dop853.params) (h err : R),
    (0 < Dop853.p_scale_min P)%R -> (0 < Dop853.p_safety P)%R -> (Dop853.p_scale_min P <= 1)%R ->
    (Dop853.p_safety P <= 1)%R -> (0 <= Dop853.expo1 Rops P)%R -> (1 < err)%R ->
    (Rabs (Dop853.hnew_reject Rops P h err) <= Rabs h)%R.
Proof. intros; eapply Dop853Real.hnew_reject_le; eauto. Qed.
Print Assumptions C04_dop853_reject_shrinks.

Theorem C04_dop853_budget_bounds_work :
  forall (F : Type) (O : Ops F) (H : Type) (P : Dop853.params) f xend posneg hmax
         (cb : H -> F -> F -> list F -> option (list F * F * F) -> H * flag F * list F) kern fuel s r,
    (nstep (Dop853.s_stats s) <= Dop853.p_max_steps P + 1)%N ->
    Dop853.loop O P f xend posneg hmax cb kern fuel s = Some r ->
    (nstep (Dop853.r_stats r) <= Dop853.p_max_steps P + 1)%N.
Proof. intros. eapply (proj1 (Dop853Protocol.loop_budget O P f xend posneg hmax cb kern fuel s r H0 H1)). Qed.
Print Assumptions C04_dop853_budget_bounds_work.

(* RK23 (after "fix: RK23 stops with StepSizeTooSmall ... and shrinks the step on a NaN error estimate", F6):
   whatever the error estimate, the rejection factor lies in (0, 1] *)
Theorem C04_rk23_reject_factor :
  forall (P : Rk23.params) (factor : R),
    (0 < Rk23.p_scale_min P)%R -> (Rk23.p_scale_min P <= 1)%R ->
    (0 < Rmax (Rmin factor 1) (Rk23.p_scale_min P) <= 1)%R.
Proof. intros P factor H0 H1. exact (Rk23Real.reject_factor_le1 P H0 H1 factor). Qed.
Print Assumptions C04_rk23_reject_factor.
