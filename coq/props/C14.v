(* C14 -- implicit methods stay stable on stiff problems: the part that is a theorem.
   Radau, as the code applies it (model/RadauEff.v: Aeff = T Lambda^-1 TI from the regenerated constants): on the test
   equation y' = lambda y with z = h*lambda <= 0 (a decaying mode of ANY rate), every solution of the stage equations
   -- the fixed point of the simplified Newton iteration, however many passes it took -- gives
       ynew = R(z) y,   |R(z)| <= 1,   and for |z| >= 1   |R(z)| <= 100/|z| + 1e-13,
   i.e. fast modes are damped for every step size (no stability restriction, hence a step count that need not grow
   with the stiffness ratio), and a mode with h*lambda = -1e8 is wiped out in one step.
   NOT theorems (measured by the stiff-problem oracles on the implementation): convergence of the simplified Newton
   iteration, success / accuracy / step counts on nonlinear problems, BDF's stability, conservation of invariants. *)
Require Import Reals.
Require Import IVP.model.Lit IVP.model.RadauEff.
Require Import IVP.proofs.Stab3 IVP.proofs.RadauEffCert IVP.proofs.RadauEffFacts.
Local Open Scope R_scope.

Theorem C14_radau_stable_on_negative_real_axis :
  forall s Z0 Z1 Z2, 0 <= s -> RadauReal.stages (- s) Z0 Z1 Z2 ->
    1 + Z2 = RadauReal.PzR (- s) / RadauReal.QzR (- s) /\
    Rabs (1 + Z2) <= 1 /\
    (1 <= s -> Rabs (1 + Z2) <= 100 / s + 1 / 10 ^ 13).
Proof. exact RadauReal.radau_amplification. Qed.
Print Assumptions C14_radau_stable_on_negative_real_axis.

(* the linear systems of the stage equations are uniquely solvable for every z <= 0 (Q(z) >= 1) *)
Theorem C14_radau_stage_equations_solvable :
  forall s, 0 <= s -> 1 <= RadauReal.QzR (- s).
Proof. intros s Hs. exact (proj1 (RadauReal.real_axis_stable s Hs)). Qed.
Print Assumptions C14_radau_stage_equations_solvable.

(* non-vacuity: z = 0 (h = 0 or lambda = 0) -- the stage equations hold with Z = 0 *)
Example C14_stage_eqs_satisfiable : RadauReal.stages (- 0) 0 0 0.
Proof. unfold RadauReal.stages, stage_eqs. repeat split; ring. Qed.
