(* C14 -- implicit methods stay stable on stiff problems: the part that is a theorem.
   Radau, as the code applies it (model/RadauEff.v: Aeff = T Lambda^-1 TI from the regenerated constants): on the test
   equation y' = lambda y with z = h*lambda <= 0 (a decaying mode of ANY rate), every solution of the stage equations
   -- the fixed point of the simplified Newton iteration, however many passes it took -- gives
       ynew = R(z) y,   |R(z)| <= 1,   and for |z| >= 1   |R(z)| <= 100/|z| + 1e-13,
   i.e. fast modes are damped for every step size (no stability restriction, hence a step count that need not grow
   with the stiffness ratio), and a mode with h*lambda = -1e8 is wiped out in one step.
   NOT theorems (measured by the stiff-problem oracles on the implementation): convergence of the simplified Newton
   iteration, success / accuracy / step counts on nonlinear problems, BDF's stability, conservation of invariants. *)
Require Import Reals.
Require Import IVP.model.Lit IVP.model.RadauEff.
Require Import IVP.proofs.Stab3 IVP.proofs.RadauEffCert IVP.proofs.RadauEffFacts.
Local Open Scope R_scope.

Theorem C14_radau_stable_on_negative_real_axis :
  forall s Z0 Z1 Z2, 0 <= s -> RadauReal.stages (- s) Z0 Z1 Z2 ->
    1 + Z2 = RadauReal.PzR (- s) / RadauReal.QzR (- s) /\
    Rabs (1 + Z2) <= 1 /\
    (1 <= s -> Rabs (1 + Z2) <= 100 / s + 1 / 10 ^ 13).
Proof. exact RadauReal.radau_amplification. Qed.
Print Assumptions C14_radau_stable_on_negative_real_axis.

(* the linear systems of the stage equations are uniquely solvable for every z <= 0 (Q(z) >= 1) *)
Theorem C14_radau_stage_equations_solvable :
  forall s, 0 <= s -> 1 <= RadauReal.QzR (- s).
Proof. intros s Hs. exact (proj1 (RadauReal.real_axis_stable s Hs)). Qed.
Print Assumptions C14_radau_stage_equations_solvable.

(* non-vacuity: z = 0 (h = 0 or lambda = 0) -- the stage equations hold with Z = 0 *)
Example C14_stage_eqs_satisfiable : RadauReal.stages (- 0) 0 0 0.
Proof. unfold RadauReal.stages, stage_eqs. repeat split; ring. Qed.

(* Where the matrix above comes from (proofs/RadauFixedPoint.v).  The simplified Newton iteration of the code works on
   the transformed increments W = TI Z; its right-hand sides vanish exactly when, per component,
       TI_1 . G = (U1/h) W1,   TI_2 . G = (ALPH/h) W2 - (BETA/h) W3,   TI_3 . G = (ALPH/h) W3 + (BETA/h) W2,
   with G_j = f(x + c_j h, y + Z_j) and Z = T W (T_32 = 1, T_33 = 0, as the code applies T).  For ANY real T, TI and
   eigenvalue data with U1 <> 0, ALPH^2 + BETA^2 <> 0 and h <> 0, such a fixed point satisfies the stage equations
       Z = h * (T Lambda^-1 TI) G,
   however many Newton passes it took to get there (identity mass matrix).  The second theorem says that the matrix
   Aeff of model/RadauEff.v, whose order / Pade / damping properties are the theorems of C02 and above, is exactly that
   product for the constants regenerated from src/methods/radau.rs. *)
Require Import IVP.proofs.RadauFixedPoint.
Theorem C14_radau_newton_fixed_point_solves_stage_equations :
  forall t00 t01 t02 t10 t11 t12 t20 i00 i01 i02 i10 i11 i12 i20 i21 i22 u1 al be h : R,
    u1 <> 0 -> al * al + be * be <> 0 -> h <> 0 ->
    forall g1 g2 g3 w1 w2 w3 z1 z2 z3 : R,
    i00 * g1 + i01 * g2 + i02 * g3 = u1 / h * w1 ->
    i10 * g1 + i11 * g2 + i12 * g3 = al / h * w2 - be / h * w3 ->
    i20 * g1 + i21 * g2 + i22 * g3 = al / h * w3 + be / h * w2 ->
    z1 = w1 * t00 + w2 * t01 + w3 * t02 -> z2 = w1 * t10 + w2 * t11 + w3 * t12 -> z3 = w1 * t20 + w2 ->
    let A := aeff u1 al be in
    z1 = h * (A t00 t01 t02 i00 i10 i20 * g1 + A t00 t01 t02 i01 i11 i21 * g2 + A t00 t01 t02 i02 i12 i22 * g3) /\
    z2 = h * (A t10 t11 t12 i00 i10 i20 * g1 + A t10 t11 t12 i01 i11 i21 * g2 + A t10 t11 t12 i02 i12 i22 * g3) /\
    z3 = h * (A t20 1 0 i00 i10 i20 * g1 + A t20 1 0 i01 i11 i21 * g2 + A t20 1 0 i02 i12 i22 * g3).
Proof. intros; eapply fixed_point_stage_equations; eauto. Qed.
Print Assumptions C14_radau_newton_fixed_point_solves_stage_equations.

Require QArith Qcanon.
Theorem C14_radau_Aeff_is_T_LamInv_TI :
  RE.Aeff lit_q = qaeff_matrix /\
  RE.c lit_q IVP.gen.Consts_radau.U1 <> Qcanon.Q2Qc (QArith_base.Qmake 0 1) /\
  Qcanon.Qcplus (Qcanon.Qcmult (RE.c lit_q IVP.gen.Consts_radau.ALPH) (RE.c lit_q IVP.gen.Consts_radau.ALPH))
                (Qcanon.Qcmult (RE.c lit_q IVP.gen.Consts_radau.BETA) (RE.c lit_q IVP.gen.Consts_radau.BETA)) <> Qcanon.Q2Qc (QArith_base.Qmake 0 1).
Proof. split; [exact Aeff_is_T_LamInv_TI|exact eigen_data_nonzero]. Qed.
Print Assumptions C14_radau_Aeff_is_T_LamInv_TI.
