(* C18 -- reported statistics count what actually happened.
   Statements only.  `r_log r` is the ghost log of every right-hand-side evaluation the model's
   stepper makes (the bit-exact replay compares its length and a hash of all its entries with the
   implementation's recorded calls); the callback `cb` and the right-hand side `f` are arbitrary. *)
Require Import List ZArith.
Require Import IVP.model.Lit IVP.model.Ops IVP.model.Common.
Require IVP.model.Dopri5 IVP.model.Dop853 IVP.model.Rk23 IVP.model.Rk4.
Require IVP.proofs.Dopri5Counters IVP.proofs.Dop853Counters IVP.proofs.Rk23Counters IVP.proofs.Rk4Counters.

Theorem C18_dopri5_counts :
  forall (F : Type) (O : Ops F) (H : Type) (P : Dopri5.params) f x0 y0 xend rtol atol
         (cb : H -> F -> F -> list F -> option (list F * F * F) -> H * flag F * list F) cb0 fuel r,
    Dopri5.solve O P f x0 y0 xend rtol atol cb cb0 fuel = Some r ->
    nfev (Dopri5.r_stats r) = N.of_nat (length (Dopri5.r_log r)) /\
    (naccpt (Dopri5.r_stats r) <= nstep (Dopri5.r_stats r))%N.
Proof. exact @Dopri5Counters.solve_counted. Qed.
Print Assumptions C18_dopri5_counts.

Theorem C18_dop853_counts :
  forall (F : Type) (O : Ops F) (H : Type) (P : Dop853.params) f x0 y0 xend rtol atol
         (cb : H -> F -> F -> list F -> option (list F * F * F) -> H * flag F * list F) cb0 fuel r,
    Dop853.solve O P f x0 y0 xend rtol atol cb cb0 fuel = Some r ->
    nfev (Dop853.r_stats r) = N.of_nat (length (Dop853.r_log r)).
Proof. exact @Dop853Counters.solve_counted. Qed.
Print Assumptions C18_dop853_counts.

Theorem C18_rk23_counts :
  forall (F : Type) (O : Ops F) (H : Type) (P : Rk23.params) f x0 y0 xend rtol atol
         (cb : H -> F -> F -> list F -> option (list F * F * F) -> H * flag F * list F) cb0 fuel r,
    Rk23.solve O P f x0 y0 xend rtol atol cb cb0 fuel = Some r ->
    nfev (Rk23.r_stats r) = N.of_nat (length (Rk23.r_log r)).
Proof. exact @Rk23Counters.solve_counted. Qed.
Print Assumptions C18_rk23_counts.

(* RK4 (after "fix: RK4 counts its initial right-hand-side evaluation and its accepted steps";
   on the pinned tree nfev missed the initial call and naccpt stayed 0: finding F3) *)
Theorem C18_rk4_counts :
  forall (F : Type) (O : Ops F) (H : Type) (P : Rk4.params) f x0 y0 xend h
         (cb : H -> F -> F -> list F -> option (list F * F * F) -> H * flag F * list F) cb0 fuel r,
    Rk4.solve O P f x0 y0 xend h cb cb0 fuel = Some r ->
    nfev (Rk4.r_stats r) = N.of_nat (length (Rk4.r_log r)) /\
    naccpt (Rk4.r_stats r) = nstep (Rk4.r_stats r).
Proof. exact @Rk4Counters.solve_counted. Qed.
Print Assumptions C18_rk4_counts.

(* Radau and BDF: additionally njev = number of logged Jacobian evaluations.  `jacf` is an arbitrary function: the
   right-hand-side calls a finite-difference Jacobian makes happen inside it and are, as the property demands, not
   part of nfev (the replay compares them separately through the recording IVP). *)
Require IVP.model.Radau IVP.model.Bdf IVP.proofs.RadauCounters IVP.proofs.BdfCounters.

Theorem C18_radau_counts :
  forall (F : Type) (O : Ops F) (H : Type) (P : Radau.params) f jacf mass x0 y0 xend rtol atol
         (cb : H -> F -> F -> list F -> option (list F * F * F) -> H * flag F * list F) cb0 fuel r,
    Radau.solve O P f jacf mass x0 y0 xend rtol atol cb cb0 fuel = Some r ->
    nfev (Radau.r_stats r) = N.of_nat (length (Radau.r_log r)) /\
    njev (Radau.r_stats r) = N.of_nat (length (Radau.r_jaclog r)).
Proof. exact @RadauCounters.solve_counted. Qed.
Print Assumptions C18_radau_counts.

Theorem C18_bdf_counts :
  forall (F : Type) (O : Ops F) (H : Type) (P : Bdf.params) f jacf x0 y0 xend rtol atol
         (cb : H -> F -> F -> list F -> option (list F * F * F) -> H * flag F * list F) cb0 fuel r,
    Bdf.solve O P f jacf x0 y0 xend rtol atol cb cb0 fuel = Some r ->
    nfev (Bdf.r_stats r) = N.of_nat (length (Bdf.r_log r)) /\
    njev (Bdf.r_stats r) = N.of_nat (length (Bdf.r_jaclog r)).
Proof. exact @BdfCounters.solve_counted. Qed.
Print Assumptions C18_bdf_counts.

(* ---- nstep is at least naccpt (+ nrejct): Radau, BDF (whole low-level solver), RK23 (the loop) ----
   Every attempt counted by nstep ends in at most one acceptance or one counted rejection.  Any number type, kernel,
   right-hand side, Jacobian, mass matrix, callback (proofs/{Radau,Bdf,Rk23}AccSteps.v). *)
Require IVP.proofs.RadauAccSteps IVP.proofs.BdfAccSteps IVP.proofs.Rk23AccSteps.
Theorem C18_radau_nstep_bounds_naccpt :
  forall (F : Type) (O : Ops F) (H : Type) (P : Radau.params) f jacf mass x0 y0 xend rtol atol
         (cb : H -> F -> F -> list F -> option (list F * F * F) -> H * flag F * list F) cb0 fuel r,
    Radau.solve O P f jacf mass x0 y0 xend rtol atol cb cb0 fuel = Some r ->
    (naccpt (Radau.r_stats r) + nrejct (Radau.r_stats r) <= nstep (Radau.r_stats r))%N.
Proof. intros; eapply RadauAccSteps.solve_le; eauto. Qed.
Print Assumptions C18_radau_nstep_bounds_naccpt.

Theorem C18_bdf_nstep_bounds_naccpt :
  forall (F : Type) (O : Ops F) (H : Type) (P : Bdf.params) f jacf x0 y0 xend rtol atol
         (cb : H -> F -> F -> list F -> option (list F * F * F) -> H * flag F * list F) cb0 fuel r,
    Bdf.solve O P f jacf x0 y0 xend rtol atol cb cb0 fuel = Some r ->
    (naccpt (Bdf.r_stats r) + nrejct (Bdf.r_stats r) <= nstep (Bdf.r_stats r))%N.
Proof. intros; eapply BdfAccSteps.solve_le; eauto. Qed.
Print Assumptions C18_bdf_nstep_bounds_naccpt.

Theorem C18_rk23_nstep_bounds_naccpt :
  forall (F : Type) (O : Ops F) (H : Type) (P : Rk23.params) f xend posneg hmax
         (cb : H -> F -> F -> list F -> option (list F * F * F) -> H * flag F * list F) kern fuel s r,
    (naccpt (Rk23.s_stats s) <= nstep (Rk23.s_stats s))%N ->
    Rk23.loop O P f xend posneg hmax cb kern fuel s = Some r ->
    (naccpt (Rk23.r_stats r) <= nstep (Rk23.r_stats r))%N.
Proof. intros; eapply Rk23AccSteps.loop_le; eauto. Qed.
Print Assumptions C18_rk23_nstep_bounds_naccpt.

Require IVP.proofs.Dop853AccSteps.
Theorem C18_dop853_nstep_bounds_naccpt :
  forall (F : Type) (O : Ops F) (H : Type) (P : Dop853.params) f xend posneg hmax
         (cb : H -> F -> F -> list F -> option (list F * F * F) -> H * flag F * list F) kern fuel s r,
    (naccpt (Dop853.s_stats s) <= nstep (Dop853.s_stats s))%N ->
    Dop853.loop O P f xend posneg hmax cb kern fuel s = Some r ->
    (naccpt (Dop853.r_stats r) <= nstep (Dop853.r_stats r))%N.
Proof. intros; eapply Dop853AccSteps.loop_le; eauto. Qed.
Print Assumptions C18_dop853_nstep_bounds_naccpt.
