(* C08 -- reported events are genuine, direction-filtered, ordered and consistent. *)
Require Import List Arith Sorted Permutation Reals.
Require Import IVP.model.Ops IVP.model.SolOut IVP.model.RealOps IVP.proofs.SolOutFacts IVP.proofs.MiscFacts.
Import ListNotations.

(* the reported pair is consistent: either an endpoint of the step with the state stored there, or a
   point t_e with y_e = the step interpolant evaluated at t_e *)
Theorem C08_event_consistent :
  forall (F : Type) (O : Ops F) C i xold x yold y gp gc sg,
    let '(te, ye, pts, conv) := locate_event O C i xold x yold y gp gc sg in
    (te = xold /\ ye = yold) \/ (te = x /\ ye = y) \/ ye = interp_of O C (length y) sg te.
Proof. exact @locate_event_consistent. Qed.
Print Assumptions C08_event_consistent.

(* the events of one step are recorded in the order of integration (a stable sort of the detected ones:
   nothing lost, nothing duplicated) *)
Theorem C08_events_sorted :
  forall (F : Type) (before : F -> F -> bool) (l : list (F * nat * list F)),
    Sorted (ev_le before) (sort_ev before l) /\ Permutation l (sort_ev before l).
Proof. exact @sort_ev_sorted. Qed.
Print Assumptions C08_events_sorted.

(* direction filter (real semantics): a strict sign change is seen by `All` and by the matching
   one-sided filter only *)
Theorem C08_direction_filter :
  forall l r : R,
    ((l < 0 /\ 0 < r)%R -> crossed Rops l r DirAll = true /\ crossed Rops l r DirPositive = true /\
                           crossed Rops l r DirNegative = false) /\
    ((0 < l /\ r < 0)%R -> crossed Rops l r DirAll = true /\ crossed Rops l r DirNegative = true /\
                           crossed Rops l r DirPositive = false).
Proof. exact crossed_strict_opposite. Qed.
Print Assumptions C08_direction_filter.
