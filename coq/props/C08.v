(* C08 -- reported events are genuine, direction-filtered, ordered and consistent. *)
Require Import List Arith Sorted Permutation Reals.
Require Import IVP.model.Ops IVP.model.SolOut IVP.model.RealOps IVP.proofs.SolOutFacts IVP.proofs.MiscFacts.
Import ListNotations.

(* the reported pair is consistent: either an endpoint of the step with the state stored there, or a
   point t_e with y_e = the step interpolant evaluated at t_e *)
Theorem C08_event_consistent :
  forall (F : Type) (O : Ops F) C i xold x yold y gp gc sg,
    let '(te, ye, pts, conv) := locate_event O C i xold x yold y gp gc sg in
    (te = xold /\ ye = yold) \/ (te = x /\ ye = y) \/ ye = interp_of O C (length y) sg te.
Proof. exact @locate_event_consistent. Qed.
Print Assumptions C08_event_consistent.

(* the events of one step are recorded in the order of integration (a stable sort of the detected ones:
   nothing lost, nothing duplicated) *)
Theorem C08_events_sorted :
  forall (F : Type) (before : F -> F -> bool) (l : list (F * nat * list F)),
    Sorted (ev_le before) (sort_ev before l) /\ Permutation l (sort_ev before l).
Proof. exact @sort_ev_sorted. Qed.
Print Assumptions C08_events_sorted.

(* direction filter (real semantics): a strict sign change is seen by `All` and by the matching
   one-sided filter only *)
Theorem C08_direction_filter :
  forall l r : R,
    ((l < 0 /\ 0 < r)%R -> crossed Rops l r DirAll = true /\ crossed Rops l r DirPositive = true /\
                           crossed Rops l r DirNegative = false) /\
    ((0 < l /\ r < 0)%R -> crossed Rops l r DirAll = true /\ crossed Rops l r DirNegative = true /\
                           crossed Rops l r DirPositive = false).
Proof. exact crossed_strict_opposite. Qed.
Print Assumptions C08_direction_filter.

(* every reported event time, and every point at which the event function is evaluated while it is being located,
   lies inside the accepted step [min(xold,x), max(xold,x)] -- real-number semantics, for ANY event function,
   interpolant, event index and endpoint values, converged or not (proofs/BrentFacts.v).  With the sign normalisation
   of the pinned tree this was false (finding F12: roots reported outside the step and outside the span). *)
Require Import Reals.
Require Import IVP.model.RealOps IVP.proofs.BrentFacts.
Theorem C08_event_located_inside_its_step :
  forall (C : hconfig (F:=R)) i xold x yold y gprev gcurr sg,
    let '(te, _, pts, _) := locate_event Rops C i xold x yold y gprev gcurr sg in
    (Rmin xold x <= te <= Rmax xold x)%R /\ Forall (fun p => (Rmin xold x <= p <= Rmax xold x)%R) pts.
Proof. exact locate_event_in_step. Qed.
Print Assumptions C08_event_located_inside_its_step.
