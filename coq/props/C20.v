(* C20 -- the Python binding returns the Rust solution in SciPy layout (layout, status mapping and
   column grouping as theorems; equality of the numbers is the differential tie). *)
Require Import List Arith ZArith.
Require Import IVP.model.Common IVP.model.PyLayout IVP.proofs.PyLayoutFacts.
Import ListNotations.

(* y has shape (n, m): entry (state j, time i) of the flat array is component j of sample i *)
Theorem C20_transpose_spec :
  forall (A : Type) (d : A) ys i j,
    i < length ys -> j < (match ys with [] => 0 | y :: _ => length y end) ->
    nth (j * length ys + i) (py_transpose d ys) d = nth j (nth i ys []) d.
Proof. exact @py_transpose_spec. Qed.
Print Assumptions C20_transpose_spec.

Theorem C20_transpose_length :
  forall (A : Type) (d : A) ys,
    length (py_transpose d ys) = (match ys with [] => 0 | y :: _ => length y end) * length ys.
Proof. exact @py_transpose_length. Qed.
Print Assumptions C20_transpose_length.

(* status 0 / 1 / -1 and success = status >= 0 *)
Theorem C20_status_spec :
  forall s,
    (s = Success -> py_status s = 0%Z) /\ (s = UserInterrupt -> py_status s = 1%Z) /\
    (s <> Success -> s <> UserInterrupt -> py_status s = (-1)%Z) /\
    (py_success s = true <-> (0 <= py_status s)%Z).
Proof. exact py_status_spec. Qed.
Print Assumptions C20_status_spec.

(* for ALL sparsity patterns: the grouping never puts two columns sharing a row into one group *)
Theorem C20_groups_valid :
  forall col_to_rows,
    let '(assign, ngroups) := group_columns col_to_rows in
    length assign = length col_to_rows /\
    (forall c, c < length col_to_rows -> nth c assign 0 < ngroups) /\
    (forall c1 c2 r, c1 < length col_to_rows -> c2 < length col_to_rows -> c1 <> c2 ->
       nth c1 assign 0 = nth c2 assign 0 ->
       In r (nth c1 col_to_rows []) -> ~ In r (nth c2 col_to_rows [])).
Proof. exact group_columns_valid. Qed.
Print Assumptions C20_groups_valid.
