(* C06 -- dense output is continuous, matches the samples, and covers exactly the span.
   Real-number instance of the model, EVERY dimension n, every step size h <> 0 of either sign, every value
   of the stage derivatives (so: after rejections, for any right-hand side).  Component i of a state vector v
   is nth i v 0.
   Not proved (DESIGN.md, C06): the left end of the Radau collocation polynomial (exact only up to the rounding of
   the decimal constants C1, C2, C1M1, ...) and both ends of the BDF difference polynomial; these are decided
   by the replay + oracle on the implementation only. *)
Require Import List Arith Reals Lra.
Require Import IVP.model.Ops IVP.model.RK IVP.model.Tableau IVP.model.RealOps IVP.model.SolOut IVP.model.Solve.
Require IVP.model.Dopri5 IVP.model.Dop853 IVP.model.Rk23 IVP.model.Rk4 IVP.model.Radau.
Require Import IVP.proofs.DenseFacts IVP.proofs.SolEvalFacts IVP.proofs.SolOutFacts.
Import ListNotations.
Local Open Scope R_scope.

Theorem C06_dopri5_endpoints :
  forall (n : nat) (y : list R) (h : R) (a : Dopri5.attempt (F:=R)),
    length y = n -> length (Dopri5.at_ynew a) = n -> length (Dopri5.at_knew a) = n ->
    (forall j, (j < 7)%nat -> length (nth j (Dopri5.at_ks a) []) = n) ->
    forall i xold, (i < n)%nat -> h <> 0 ->
      nth i (Dopri5.interpolate Rops (Dopri5.dense Rops y h a) xold h xold n) 0 = nth i y 0 /\
      nth i (Dopri5.interpolate Rops (Dopri5.dense Rops y h a) xold h (xold + h) n) 0 = nth i (Dopri5.at_ynew a) 0.
Proof. intros; split; [apply d5_left|apply d5_right]; assumption. Qed.
Print Assumptions C06_dopri5_endpoints.

Theorem C06_dop853_endpoints :
  forall (n : nat) (f : R -> list R -> list R) (x : R) (y : list R) (h : R) (a : Dop853.attempt (F:=R)) (k13 : list R),
    (forall t v, length (f t v) = n) -> length y = n -> length (Dop853.at_ynew a) = n -> length k13 = n ->
    Forall (fun k : list R => length k = n) (Dop853.at_ks a) -> length (Dop853.at_ks a) = 12%nat ->
    forall i xold, (i < n)%nat -> h <> 0 ->
      nth i (Dop853.interpolate Rops (fst (Dop853.finish_dense Rops f x h y a k13)) xold h xold n) 0 = nth i y 0 /\
      nth i (Dop853.interpolate Rops (fst (Dop853.finish_dense Rops f x h y a k13)) xold h (xold + h) n) 0
        = nth i (Dop853.at_ynew a) 0.
Proof. intros; split; [apply d8_left|apply d8_right]; assumption. Qed.
Print Assumptions C06_dop853_endpoints.

Theorem C06_rk4_endpoints :
  forall (n : nat) (y : list R) (a : Rk4.attempt (F:=R)),
    length y = n -> length (Rk4.at_ynew a) = n -> length (Rk4.at_knew a) = n ->
    length (nth 0 (Rk4.at_ks a) []) = n ->
    forall i xold h, (i < n)%nat -> h <> 0 ->
      nth i (Rk4.interpolate Rops (Rk4.dense y a) xold h xold n) 0 = nth i y 0 /\
      nth i (Rk4.interpolate Rops (Rk4.dense y a) xold h (xold + h) n) 0 = nth i (Rk4.at_ynew a) 0.
Proof. intros; split; [apply r4_left|apply r4_right]; assumption. Qed.
Print Assumptions C06_rk4_endpoints.

(* RK23: the right end uses the exact rationals of the source constants: e1 + D2 + D3 = b *)
Theorem C06_rk23_endpoints :
  forall (n : nat) (y : list R) (h : R) (a : Rk23.attempt (F:=R)),
    length y = n -> (forall j, (j < 4)%nat -> length (nth j (Rk23.at_ks a) []) = n) ->
    Rk23.at_ynew a = stage_arg Rops h y (Rk23.at_ks a) (RSum RK23T.b) ->
    forall i xold, (i < n)%nat -> h <> 0 ->
      nth i (Rk23.interpolate Rops (Rk23.dense Rops y a) xold h xold n) 0 = nth i y 0 /\
      nth i (Rk23.interpolate Rops (Rk23.dense Rops y a) xold h (xold + h) n) 0 = nth i (Rk23.at_ynew a) 0.
Proof. intros; split; [apply r23_left|apply r23_right]; assumption. Qed.
Print Assumptions C06_rk23_endpoints.

Theorem C06_radau_right_end_partial :
  forall (n : nat) (ynew c1 c2 c3 : list R) i xold h,
    length ynew = n -> length c1 = n -> length c2 = n -> length c3 = n -> (i < n)%nat -> h <> 0 ->
    nth i (Radau.interpolate Rops (ynew ++ c1 ++ c2 ++ c3) xold h (xold + h) n) 0 = nth i ynew 0.
Proof. exact radau_right. Qed.
Print Assumptions C06_radau_right_end_partial.

(* no gaps: on a contiguous chain of segments (either direction) every t between the first and last covered
   time is evaluated, by a segment that contains t exactly *)
(* Radau, both ends (supersedes the partial statement above): with the coefficient blocks built as in the accepted branch
   of model/Radau.v (`radau_cont`), the interpolant equals the old state at the left end and the new state y + Z3 at the
   right end of the step -- exact over the rationals of the source literals, where C1M1 = C1-1 etc. hold digit for digit *)
Require Import IVP.proofs.RadauDenseFacts.
Theorem C06_radau_endpoints :
  forall n (y z1 z2 z3 : list R) i xold h,
    length y = n -> length z1 = n -> length z2 = n -> length z3 = n -> (i < n)%nat -> h <> 0 ->
    nth i (Radau.interpolate Rops (radau_cont y z1 z2 z3) xold h (xold + 0 * h) n) 0 = nth i y 0 /\
    nth i (Radau.interpolate Rops (radau_cont y z1 z2 z3) xold h (xold + 1 * h) n) 0 = nth i y 0 + nth i z3 0.
Proof.
  intros n y z1 z2 z3 i xold h Hy H1 H2 H3 Hi Hh.
  destruct (radau_dense_interpolates n y z1 z2 z3 i xold h Hy H1 H2 H3 Hi Hh) as [A [_ [_ B]]]. split; [exact A|exact B].
Qed.
Print Assumptions C06_radau_endpoints.

Theorem C06_sol_covers_span :
  forall fwd m n (S : solution (F:=R)) segs x t,
    sol_segs S = Some segs -> segs <> [] -> chain fwd x segs ->
    (if fwd then x <= t <= chain_end x segs else chain_end x segs <= t <= x) ->
    exists cont xold h, In (cont, xold, h) segs /\
      sol_eval Rops m n S t = SolOk (interp_fn Rops m cont xold h t n) /\
      seg_contains Rops t (cont, xold, h) = true.
Proof. exact sol_eval_covers. Qed.
Print Assumptions C06_sol_covers_span.

(* "clearly outside": beyond the 1e-12 slack of the range check (RANGE_TOL; after "fix: sol / sol_many accept times
   within the segment lookup's slack": with a strict check sol(xend) failed for BDF's last sample, finding F25) *)
Theorem C06_sol_outside_and_disabled :
  forall m n (S : solution (F:=R)) t,
    (forall segs st en, sol_segs S = Some segs -> t_span Rops segs = Some (st, en) ->
       t < Rmin st en - RANGE_TOL Rops \/ Rmax st en + RANGE_TOL Rops < t -> sol_eval Rops m n S t = SolOutOfRange) /\
    (sol_segs S = None -> sol_eval Rops m n S t = SolNotEnabled).
Proof. intros. split; [intros; eapply sol_eval_outside; eassumption|apply sol_eval_disabled]. Qed.
Print Assumptions C06_sol_outside_and_disabled.

(* the handler stores exactly the interpolant it was handed for the step, and nothing else (any number type) *)
Theorem C06_handler_collects_step_segment :
  forall (F : Type) (O : Ops F) C s xold x sg,
    hs_segs (collect_dense O C s xold x sg) = hs_segs s \/
    exists g, sg = Some g /\ hs_segs (collect_dense O C s xold x sg) = g :: hs_segs s.
Proof. exact @collect_dense_segs. Qed.
Print Assumptions C06_handler_collects_step_segment.

(* non-vacuity: a concrete forward chain of two segments and a concrete RK23 attempt meet the hypotheses *)
Example C06_chain_nonvacuous : chain true 0 [([], 0, 1); ([], 0 + 1, 2)].
Proof. cbn. repeat split; lra. Qed.
