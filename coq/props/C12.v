(* C12 -- output options do not perturb the integration.
   (1) the default handler is a passive observer unless an event is configured terminal;
   (2) two passive observers see literally the same solver trajectory (all of the solver's state
       except the observer's own: x, y, k1, h, controller memory, flags, statistics, call log). *)
Require Import List ZArith.
Require Import IVP.model.Lit IVP.model.Ops IVP.model.Common IVP.model.SolOut IVP.model.Dopri5.
Require Import IVP.proofs.SolOutFacts IVP.proofs.Dopri5Protocol.

Theorem C12_handler_flag :
  forall (F : Type) (O : Ops F) C s xold x y sg,
    snd (solout O C s xold x y sg) = Continue \/ snd (solout O C s xold x y sg) = Interrupt.
Proof. exact @solout_flag. Qed.
Print Assumptions C12_handler_flag.

Theorem C12_handler_passive :
  forall (F : Type) (O : Ops F) C s xold x y sg,
    no_terminal C -> snd (solout O C s xold x y sg) = Continue.
Proof. exact @solout_passive. Qed.
Print Assumptions C12_handler_passive.

Theorem C12_dopri5_observer_independence :
  forall (F : Type) (O : Ops F) (H1 H2 : Type) (P : params) f xend posneg hmax
         (cb1 : H1 -> F -> F -> list F -> option (list F * F * F) -> H1 * flag F * list F)
         (cb2 : H2 -> F -> F -> list F -> option (list F * F * F) -> H2 * flag F * list F) kern,
    (forall h xold x y sg, exists h', cb1 h xold x y sg = (h', Continue, y)) ->
    (forall h xold x y sg, exists h', cb2 h xold x y sg = (h', Continue, y)) ->
    forall fuel (s1 : state H1) (s2 : state H2),
      core s1 = core s2 ->
      match loop O P f xend posneg hmax cb1 kern fuel s1, loop O P f xend posneg hmax cb2 kern fuel s2 with
      | Some a, Some b => rcore a = rcore b
      | None, None => True
      | _, _ => False
      end.
Proof. exact @loop_passive. Qed.
Print Assumptions C12_dopri5_observer_independence.

(* ---------------- DOP853: the same independence, including the three extra dense stages (which are
   computed or not according to the solver's own dense flag, never according to the observer) ---------------- *)
Require IVP.model.Dop853 IVP.proofs.Dop853Protocol.

Theorem C12_dop853_observer_independence :
  forall (F : Type) (O : Ops F) (H1 H2 : Type) (P : Dop853.params) f xend posneg hmax
         (cb1 : H1 -> F -> F -> list F -> option (list F * F * F) -> H1 * flag F * list F)
         (cb2 : H2 -> F -> F -> list F -> option (list F * F * F) -> H2 * flag F * list F) kern,
    (forall h xold x y sg, exists h', cb1 h xold x y sg = (h', Continue, y)) ->
    (forall h xold x y sg, exists h', cb2 h xold x y sg = (h', Continue, y)) ->
    forall fuel (s1 : Dop853.state H1) (s2 : Dop853.state H2),
      Dop853Protocol.core s1 = Dop853Protocol.core s2 ->
      match Dop853.loop O P f xend posneg hmax cb1 kern fuel s1, Dop853.loop O P f xend posneg hmax cb2 kern fuel s2 with
      | Some a, Some b => Dop853Protocol.rcore a = Dop853Protocol.rcore b
      | None, None => True
      | _, _ => False
      end.
Proof. exact @Dop853Protocol.loop_passive. Qed.
Print Assumptions C12_dop853_observer_independence.

(* ---------------- RK23, RK4, Radau, BDF: passive observers by erasure ----------------
   `erase` forgets the observer's own data in a solver state (all other fields -- abscissa, state, step size, flags,
   factorisations, statistics, evaluation logs -- are kept), `erase_r` in a result.  For two callbacks that are passive
   (always Continue, state returned unchanged -- what C12_handler_passive shows of the default handler without terminal
   events) and two start states equal up to the observers' data, the runs are equal up to the observers' data: same
   accepted steps, states, statistics, status; for every number type, kernel / right-hand side / Jacobian / mass. *)
Require IVP.model.Rk23 IVP.model.Rk4 IVP.model.Radau IVP.model.Bdf.
Require IVP.proofs.Rk23Passive IVP.proofs.Rk4Passive IVP.proofs.RadauPassive IVP.proofs.BdfPassive.

Theorem C12_rk23_observer_independence :
  forall (F : Type) (O : Ops F) (H1 H2 : Type) (P : Rk23.params) f xend posneg hmax kern
         (cb1 : H1 -> F -> F -> list F -> option (list F * F * F) -> H1 * flag F * list F)
         (cb2 : H2 -> F -> F -> list F -> option (list F * F * F) -> H2 * flag F * list F),
    (forall h xold x y sg, exists h', cb1 h xold x y sg = (h', Continue, y)) ->
    (forall h xold x y sg, exists h', cb2 h xold x y sg = (h', Continue, y)) ->
    forall fuel (s1 : Rk23.state H1) (s2 : Rk23.state H2),
      Rk23Passive.erase s1 = Rk23Passive.erase s2 ->
      option_map Rk23Passive.erase_r (Rk23.loop O P f xend posneg hmax cb1 kern fuel s1) =
      option_map Rk23Passive.erase_r (Rk23.loop O P f xend posneg hmax cb2 kern fuel s2).
Proof. intros. now apply Rk23Passive.observer_independence. Qed.
Print Assumptions C12_rk23_observer_independence.

Theorem C12_rk4_observer_independence :
  forall (F : Type) (O : Ops F) (H1 H2 : Type) (P : Rk4.params) f xend h kern
         (cb1 : H1 -> F -> F -> list F -> option (list F * F * F) -> H1 * flag F * list F)
         (cb2 : H2 -> F -> F -> list F -> option (list F * F * F) -> H2 * flag F * list F),
    (forall h xold x y sg, exists h', cb1 h xold x y sg = (h', Continue, y)) ->
    (forall h xold x y sg, exists h', cb2 h xold x y sg = (h', Continue, y)) ->
    forall fuel (s1 : Rk4.state H1) (s2 : Rk4.state H2),
      Rk4Passive.erase s1 = Rk4Passive.erase s2 ->
      option_map Rk4Passive.erase_r (Rk4.loop O P f xend h cb1 kern fuel s1) =
      option_map Rk4Passive.erase_r (Rk4.loop O P f xend h cb2 kern fuel s2).
Proof. intros. now apply Rk4Passive.observer_independence. Qed.
Print Assumptions C12_rk4_observer_independence.

Theorem C12_radau_observer_independence :
  forall (F : Type) (O : Ops F) (H1 H2 : Type) (P : Radau.params) n f jacf mass atolv rtolv newton_tol xend posneg hmax hmin
         (cb1 : H1 -> F -> F -> list F -> option (list F * F * F) -> H1 * flag F * list F)
         (cb2 : H2 -> F -> F -> list F -> option (list F * F * F) -> H2 * flag F * list F),
    (forall h xold x y sg, exists h', cb1 h xold x y sg = (h', Continue, y)) ->
    (forall h xold x y sg, exists h', cb2 h xold x y sg = (h', Continue, y)) ->
    forall fuel (s1 : Radau.state H1) (s2 : Radau.state H2),
      RadauPassive.erase s1 = RadauPassive.erase s2 ->
      option_map RadauPassive.erase_r (Radau.loop O P n f jacf mass atolv rtolv newton_tol xend posneg hmax hmin cb1 fuel s1) =
      option_map RadauPassive.erase_r (Radau.loop O P n f jacf mass atolv rtolv newton_tol xend posneg hmax hmin cb2 fuel s2).
Proof. intros. now apply RadauPassive.observer_independence. Qed.
Print Assumptions C12_radau_observer_independence.

Theorem C12_bdf_observer_independence :
  forall (F : Type) (O : Ops F) (H1 H2 : Type) (P : Bdf.params) n f jacf atolv rtolv newton_tol maxiter xend direction hmax hmin
         (cb1 : H1 -> F -> F -> list F -> option (list F * F * F) -> H1 * flag F * list F)
         (cb2 : H2 -> F -> F -> list F -> option (list F * F * F) -> H2 * flag F * list F),
    (forall h xold x y sg, exists h', cb1 h xold x y sg = (h', Continue, y)) ->
    (forall h xold x y sg, exists h', cb2 h xold x y sg = (h', Continue, y)) ->
    forall fuel (s1 : Bdf.state H1) (s2 : Bdf.state H2),
      BdfPassive.erase s1 = BdfPassive.erase s2 ->
      option_map BdfPassive.erase_r (Bdf.loop O P n f jacf atolv rtolv newton_tol maxiter xend direction hmax hmin cb1 fuel s1) =
      option_map BdfPassive.erase_r (Bdf.loop O P n f jacf atolv rtolv newton_tol maxiter xend direction hmax hmin cb2 fuel s2).
Proof. intros. now apply BdfPassive.observer_independence. Qed.
Print Assumptions C12_bdf_observer_independence.
