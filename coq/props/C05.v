(* C05 -- t_eval: exactly the requested times, with the interpolated values (per accepted step).
   The scan of one accepted step [xold, x] consumes a prefix of the still-pending requested times:
   exactly those not beyond the step end (within tol); of these it reports, in their order and each with
   the step interpolant's value at that very time, the ones not before the step start (within tol).
   Nothing is reordered, invented, altered or dropped inside the step; reported times are the requested
   values themselves (bit for bit, duplicates included).  Any number type, any interpolant. *)
Require Import List Arith.
Require Import IVP.model.Ops IVP.model.SolOut IVP.proofs.SolOutFacts.
Import ListNotations.

Theorem C05_scan_step_spec :
  forall (F : Type) (O : Ops F) (fwd : bool) (tol xold x : F) (interp : F -> list F)
         (te : list F) (i : nat) (t : list F) (ys : list (list F)),
    let inside (v : F) := if fwd then leb O v (add O x tol) else leb O (sub O x tol) v in
    let take (v : F) := if fwd then leb O (sub O xold tol) v else leb O v (add O xold tol) in
    exists k, k <= length te /\
      Forall (fun v => inside v = true) (firstn k te) /\
      (match nth_error te k with Some v => inside v = false | None => True end) /\
      scan_step O fwd tol xold x interp te i t ys =
        (i + k, rev (filter take (firstn k te)) ++ t, rev (map interp (filter take (firstn k te))) ++ ys).
Proof. exact @scan_step_spec. Qed.
Print Assumptions C05_scan_step_spec.

(* the handler's flag does not depend on t_eval / dense_output: sampling happens after the event pass
   and cannot turn Continue into anything else (C05: reported values independent of dense_output is
   checked by the bit-exact option-subset replay of C12) *)
Theorem C05_handler_flag :
  forall (F : Type) (O : Ops F) C s xold x y sg,
    snd (solout O C s xold x y sg) = Common.Continue \/ snd (solout O C s xold x y sg) = Common.Interrupt.
Proof. exact @solout_flag. Qed.
Print Assumptions C05_handler_flag.
