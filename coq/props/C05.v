(* C05 -- t_eval: exactly the requested times, with the interpolated values (per accepted step).
   The scan of one accepted step [xold, x] consumes a prefix of the still-pending requested times:
   exactly those not beyond the step end (within tol); of these it reports, in their order and each with
   the step interpolant's value at that very time, the ones not before the step start (within tol).
   Nothing is reordered, invented, altered or dropped inside the step; reported times are the requested
   values themselves (bit for bit, duplicates included).  Any number type, any interpolant. *)
Require Import List Arith.
Require Import IVP.model.Ops IVP.model.SolOut IVP.proofs.SolOutFacts.
Import ListNotations.

Theorem C05_scan_step_spec :
  forall (F : Type) (O : Ops F) (fwd : bool) (tol xold x : F) (interp : F -> list F)
         (te : list F) (i : nat) (t : list F) (ys : list (list F)),
    let inside (v : F) := if fwd then leb O v (add O x tol) else leb O (sub O x tol) v in
    let take (v : F) := if fwd then leb O (sub O xold tol) v else leb O v (add O xold tol) in
    exists k, k <= length te /\
      Forall (fun v => inside v = true) (firstn k te) /\
      (match nth_error te k with Some v => inside v = false | None => True end) /\
      scan_step O fwd tol xold x interp te i t ys =
        (i + k, rev (filter take (firstn k te)) ++ t, rev (map interp (filter take (firstn k te))) ++ ys).
Proof. exact @scan_step_spec. Qed.
Print Assumptions C05_scan_step_spec.

(* the handler's flag does not depend on t_eval / dense_output: sampling happens after the event pass
   and cannot turn Continue into anything else (C05: reported values independent of dense_output is
   checked by the bit-exact option-subset replay of C12) *)
Theorem C05_handler_flag :
  forall (F : Type) (O : Ops F) C s xold x y sg,
    snd (solout O C s xold x y sg) = Common.Continue \/ snd (solout O C s xold x y sg) = Common.Interrupt.
Proof. exact @solout_flag. Qed.
Print Assumptions C05_handler_flag.

(* ---------------- the whole run (real-number semantics) ----------------
   For ANY slack tol >= 0, ANY chain of accepted steps x0 < x1 < ... < xN with ANY per-step interpolants, ANY initial state
   and ANY requested times `te` that are sorted in the direction of integration and lie in [x0, xN] (up to the slack at
   x0): after the initial callback (`scan_initial`) and the steps (`scan_step`, iterated by `run_steps` with the handler's
   own bookkeeping `skipn next_idx te`), the reported times are exactly `te` -- same values, same order, duplicates kept,
   none skipped, none added -- and there is one reported state per time.  `sample_scans` says the handler's `sample`
   (Mode 1) is these two scans.  Backward integration: the mirror statement.
   Not covered by this theorem: the terminal-event branch (C10's statements + replay) and number types with rounding. *)
Require Import Reals Lra.
Require Import IVP.model.RealOps IVP.proofs.TevalRun.
Local Open Scope R_scope.

Theorem C05_teval_exact_forward :
  forall (tol : R), 0 <= tol -> forall te : list R,
    (forall i j, (i <= j < length te)%nat -> nth i te 0 <= nth j te 0) ->
    forall x0 y0 chain,
      chain_ok x0 chain ->
      (forall v, In v te -> x0 - tol <= v <= chain_end x0 chain) ->
      let '(i0, t0, ys0) := scan_initial Rops tol x0 y0 te 0 nil nil in
      let '(i, t, ys) := run_steps tol te chain i0 t0 ys0 in
      rev t = te /\ i = length te /\ length ys = length te.
Proof. exact teval_exact_forward. Qed.
Print Assumptions C05_teval_exact_forward.

Theorem C05_teval_exact_backward :
  forall (tol : R), 0 <= tol -> forall te : list R,
    (forall i j, (i <= j < length te)%nat -> nth j te 0 <= nth i te 0) ->
    forall x0 y0 chain,
      chain_ok_b x0 chain ->
      (forall v, In v te -> chain_end_b x0 chain <= v <= x0 + tol) ->
      let '(i0, t0, ys0) := scan_initial Rops tol x0 y0 te 0 nil nil in
      let '(i, t, ys) := run_steps_b tol te chain i0 t0 ys0 in
      rev t = te /\ i = length te /\ length ys = length te.
Proof. exact teval_exact_backward. Qed.
Print Assumptions C05_teval_exact_backward.

Theorem C05_sample_is_the_scans :
  forall (C : hconfig (F:=R)) s xold x y sg te,
    hc_t_eval C = Some te ->
    let s' := sample Rops C s xold x y sg in
    (hs_next s', hs_t s', hs_y s') =
    (if Reqb xold x then scan_initial Rops (hc_tol C) x y (skipn (hs_next s) te) (hs_next s) (hs_t s) (hs_y s)
     else scan_step Rops (Rltb xold x) (hc_tol C) xold x (interp_of Rops C (length y) sg) (skipn (hs_next s) te)
                    (hs_next s) (hs_t s) (hs_y s)).
Proof. exact sample_scans. Qed.
Print Assumptions C05_sample_is_the_scans.

(* non-vacuity: a two-step chain and three requested times, one of them a duplicate of a step end *)
Example C05_chain_nonvacuous :
  chain_ok 0 [(0, 1, fun _ => nil); (1, 3, fun _ => nil)] /\
  (forall v, In v [1/2; 1; 1] -> 0 - 0 <= v <= chain_end 0 [(0, 1, fun _ : R => @nil R); (1, 3, fun _ => nil)]).
Proof.
  split; [cbn; repeat split; lra|]. intros v [<-|[<-|[<-|[]]]]; cbn; lra.
Qed.

(* ---------------- the scan made when a terminal event stops the run (proofs/ScanTerminal.v) ----------------
   `process_events` calls `scan_terminal` on the still-pending requested times (`skipn next_idx t_eval`) before it appends
   the event point and answers Interrupt.  The scan consumes exactly the pending times not beyond the event time; of these
   it reports, in order, bit for bit and with the interpolant's value, those not before the step start (within tol); none
   beyond the event is reported.  Any number type, any interpolant. *)
Require Import IVP.proofs.ScanTerminal.
Theorem C05_scan_terminal_spec :
  forall (F : Type) (O : Ops F) (fwd : bool) (tol xold tev : F) (interp : F -> list F)
         (te : list F) (i : nat) (t : list F) (ys : list (list F)),
    let inside (v : F) := if fwd then Ops.leb O v tev else Ops.leb O tev v in
    let take (v : F) := if fwd then Ops.leb O (Ops.sub O xold tol) v else Ops.leb O v (Ops.add O xold tol) in
    exists k : nat, (k <= length te)%nat /\
      Forall (fun v => inside v = true) (firstn k te) /\
      (match nth_error te k with Some v => inside v = false | None => True end) /\
      scan_terminal O fwd tol xold tev interp te i t ys =
        ((i + k)%nat, rev (filter take (firstn k te)) ++ t, rev (map interp (filter take (firstn k te))) ++ ys).
Proof. exact @scan_terminal_spec. Qed.
Print Assumptions C05_scan_terminal_spec.
