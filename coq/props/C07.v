(* C07 -- dense output is accurate to the interpolant's order inside every step.
   Two layers, both for EVERY dimension n, step size h <> 0 of either sign, evaluation point theta (not only
   theta in [0,1]) and stage values:
   (link)   the real-number instance of the model's interpolant is the continuous Runge-Kutta formula
              u(theta) = y + h * sum_j b_j(theta) k_j
            with the weight polynomials b_j of model/DenseW.v (exact rationals of the source constants);
   (order)  those polynomials satisfy the continuous order conditions
              sum_j b_j(theta) Phi_j(t) = theta^|t| / gamma(t)      for every rooted tree |t| <= q,
            coefficient by coefficient, q = 4 (DOPRI5), 3 (RK23), 3 (RK4's cubic Hermite with the FSAL-like fifth
            stage f(x+h, ynew)).  By the standard theory (Hairer-Norsett-Wanner II.6) this is uniform local
            order q, i.e. error O(h^(q+1)) over the step -- that last step is textbook, not formalised here.
   Not proved (DESIGN.md, C07): for DOP853 only the order part is proved (end of file); Radau's collocation
   polynomial and BDF's difference polynomial: decided by the one-step slope experiment on the implementation. *)
Require Import List ZArith QArith Qcanon Reals.
Require Import IVP.model.Lit IVP.model.Ops IVP.model.RK IVP.model.Trees IVP.model.Order IVP.model.Tableau
               IVP.model.DenseW IVP.model.RealOps.
Require IVP.model.Dopri5 IVP.model.Rk23 IVP.model.Rk4.
Require Import IVP.proofs.OrderFacts IVP.proofs.CertSmall IVP.proofs.CertDense IVP.proofs.DenseLink.
Import ListNotations.

(* ---------------- DOPRI5, q = 4 ---------------- *)
Theorem C07_dopri5_is_continuous_rk :
  forall (n : nat) (y : list R) (h : R) (a : Dopri5.attempt (F:=R)),
    length y = n -> (forall j, (j < 7)%nat -> length (nth j (Dopri5.at_ks a) []) = n) ->
    Dopri5.at_ynew a = stage_arg Rops h y (Dopri5.at_ks a) (RSum DOPRI5T.b) ->
    Dopri5.at_knew a = nth 6 (Dopri5.at_ks a) [] ->
    forall i xold xi, (i < n)%nat -> h <> 0%R ->
      nth i (Dopri5.interpolate Rops (Dopri5.dense Rops y h a) xold h xi n) 0%R =
      (nth i y 0 + h * wsum (D5W.Wj lit_q) 7 ((xi - xold) / h) (fun j => nth i (nth j (Dopri5.at_ks a) []) 0))%R.
Proof. exact d5_link. Qed.
Print Assumptions C07_dopri5_is_continuous_rk.

Local Open Scope Qc_scope.
Theorem C07_dopri5_continuous_order4 :
  forall t, (size t <= 4)%nat -> forall m, (m <= 4)%nat ->
    Z2Qc (gamma t) * qdot (wcol (D5W.W lit_q) m) (Phi QcK (D5W.A lit_q) 7 t) = if Nat.eqb (size t) m then 1 else 0.
Proof. exact (check_cont_sound _ _ _ _ _ d5_cont4). Qed.
Print Assumptions C07_dopri5_continuous_order4.

Theorem C07_dopri5_not_continuous_order5 :
  exists t m, size t = 5%nat /\
    Z2Qc (gamma t) * qdot (wcol (D5W.W lit_q) m) (Phi QcK (D5W.A lit_q) 7 t) <> if Nat.eqb (size t) m then 1 else 0.
Proof. exists d5_witness5, 2%nat. split; [reflexivity|qc_neq]. Qed.
Print Assumptions C07_dopri5_not_continuous_order5.
Local Close Scope Qc_scope.

(* ---------------- RK23, q = 3 ---------------- *)
Theorem C07_rk23_is_continuous_rk :
  forall (n : nat) (y : list R) (h : R) (a : Rk23.attempt (F:=R)),
    length y = n -> (forall j, (j < 4)%nat -> length (nth j (Rk23.at_ks a) []) = n) ->
    forall i xold xi, (i < n)%nat -> h <> 0%R ->
      nth i (Rk23.interpolate Rops (Rk23.dense Rops y a) xold h xi n) 0%R =
      (nth i y 0 + h * wsum (R23W.Wj lit_q) 4 ((xi - xold) / h) (fun j => nth i (nth j (Rk23.at_ks a) []) 0))%R.
Proof. exact r23_link. Qed.
Print Assumptions C07_rk23_is_continuous_rk.

Local Open Scope Qc_scope.
Theorem C07_rk23_continuous_order3 :
  forall t, (size t <= 3)%nat -> forall m, (m <= 3)%nat ->
    Z2Qc (gamma t) * qdot (wcol (R23W.W lit_q) m) (Phi QcK (R23W.A lit_q) 4 t) = if Nat.eqb (size t) m then 1 else 0.
Proof. exact (check_cont_sound _ _ _ _ _ r23_cont3). Qed.
Print Assumptions C07_rk23_continuous_order3.
Local Close Scope Qc_scope.

(* ---------------- RK4, q = 3 (cubic Hermite) ---------------- *)
Theorem C07_rk4_is_continuous_rk :
  forall (n : nat) (y : list R) (h : R) (a : Rk4.attempt (F:=R)),
    length y = n -> length (Rk4.at_knew a) = n ->
    (forall j, (j < 4)%nat -> length (nth j (Rk4.at_ks a) []) = n) ->
    Rk4.at_ynew a = stage_arg Rops h y (Rk4.at_ks a) (RSum RK4T.b) ->
    forall i xold xi, (i < n)%nat -> h <> 0%R ->
      nth i (Rk4.interpolate Rops (Rk4.dense y a) xold h xi n) 0%R =
      (nth i y 0 + h * wsum (R4W.Wj lit_q) 5 ((xi - xold) / h)
                        (fun j => if Nat.eqb j 4 then nth i (Rk4.at_knew a) 0 else nth i (nth j (Rk4.at_ks a) []) 0))%R.
Proof. exact r4_link. Qed.
Print Assumptions C07_rk4_is_continuous_rk.

Local Open Scope Qc_scope.
Theorem C07_rk4_continuous_order3 :
  forall t, (size t <= 3)%nat -> forall m, (m <= 3)%nat ->
    Z2Qc (gamma t) * qdot (wcol (R4W.W lit_q) m) (Phi QcK (R4W.A lit_q) 5 t) = if Nat.eqb (size t) m then 1 else 0.
Proof. exact (check_cont_sound _ _ _ _ _ r4_cont3). Qed.
Print Assumptions C07_rk4_continuous_order3.
Local Close Scope Qc_scope.

(* the attempts computed by the kernels (any right-hand side, tolerances, step) have the assumed shape *)
Theorem C07_kernels_have_assumed_shape :
  (forall f atol rtol x y k1 h,
     let a := Dopri5.kernel Rops f atol rtol x y k1 h in
     Dopri5.at_ynew a = stage_arg Rops h y (Dopri5.at_ks a) (RSum DOPRI5T.b) /\
     Dopri5.at_knew a = nth 6 (Dopri5.at_ks a) []) /\
  (forall f atol rtol x y k1 h,
     let a := Rk23.kernel Rops f atol rtol x y k1 h in
     Rk23.at_ynew a = stage_arg Rops h y (Rk23.at_ks a) (RSum RK23T.b)) /\
  (forall f x y k1 h,
     let a := Rk4.kernel Rops f x y k1 h in
     Rk4.at_ynew a = stage_arg Rops h y (Rk4.at_ks a) (RSum RK4T.b) /\
     Rk4.at_knew a = f (x + h)%R (Rk4.at_ynew a)).
Proof. split; [exact d5_kernel_shape|split; [exact r23_kernel_shape|exact r4_kernel_shape]]. Qed.
Print Assumptions C07_kernels_have_assumed_shape.

(* ---------------- DOP853, q = 7 (order part) ----------------
   W_j(theta), j = 1..16, are the weight polynomials of the dense output u(theta) = y + h sum_j W_j(theta) k_j assembled in
   proofs/CertDop853Dense.v from the regenerated constants in the very shape `finish_dense` and `interpolate` of
   model/Dop853.v combine them (stage 13 = f(x+h, ynew), stages 14-16 the extra dense stages).  For every rooted tree of
   order <= 7 and every power theta^m, m = 0..7, the continuous order condition
        gamma(t) * sum_j [theta^m] W_j * Phi_j(t)  =  1 if m = |t|, 0 otherwise
   holds up to M / D^|t| with |M| * 1e24 <= gamma(t) D^|t| (30-digit decimal coefficients: scaled integers as in C02), and
   it fails (by more than 1e-6) for a tree of order 8.  NOT proved for DOP853: that the real-number instance of the
   model's `interpolate (finish_dense ...)` equals this formula (the analogue of C07_dopri5_is_continuous_rk) -- that
   reading is tied by the bit-exact replay of every dense value and by the interior slope experiment. *)
Require Import IVP.proofs.ScaleFacts IVP.proofs.CertDop853Dense IVP.proofs.Dop853DenseFacts.
Local Open Scope Qc_scope.

Theorem C07_dop853_continuous_order7 :
  forall t, (size t <= 7)%nat -> forall m, (m < 8)%nat -> exists M : Z,
    Z2Qc (gamma t) * qdot (wcol (D8W.W lit_q) m) (Phi QcK (D8W.A lit_q) 16 t) - (if Nat.eqb (size t) m then 1 else 0)
      = (/ Z2Qc (D8W.D lit_q)) ^ size t * Z2Qc M /\
    (Z.abs M * 10^24 <= gamma t * 1 * (D8W.D lit_q) ^ Z.of_nat (size t))%Z.
Proof. exact cont7_sound. Qed.
Print Assumptions C07_dop853_continuous_order7.

Theorem C07_dop853_not_continuous_order8 :
  size D8Cert.t8 = 8%nat /\ D8Cert.m8 <> 8%nat /\
  Z2Qc (gamma D8Cert.t8) * qdot (wcol (D8W.W lit_q) D8Cert.m8) (Phi QcK (D8W.A lit_q) 16 D8Cert.t8)
    = (/ Z2Qc (D8W.D lit_q)) ^ size D8Cert.t8 * Z2Qc D8Cert.M8 /\
  (10^6 <= Z.abs D8Cert.M8 * 10^12 / (D8W.D lit_q) ^ 8)%Z.
Proof.
  split; [exact size_t8|]. split; [discriminate|]. split; [exact resid8_eq|].
  apply Z.leb_le. exact D8Cert.M8_val.
Qed.
Print Assumptions C07_dop853_not_continuous_order8.
Local Close Scope Qc_scope.

(* ---------------- Radau IIA, q = 3: the dense output IS the collocation polynomial ----------------
   `radau_cont y z1 z2 z3` repeats the lines of the accepted branch of model/Radau.v that build the four coefficient
   blocks from the old state y and the converged stage increments Z1, Z2, Z3.  Over the reals, for every dimension,
   h <> 0 of either sign and every theta, `interpolate` evaluates a cubic in theta that takes the values y, y+Z1, y+Z2, y+Z3
   at theta = 0, C1, C2, 1 (the node constants as exact rationals of the source literals): the collocation polynomial,
   whose uniform order for Radau IIA with s = 3 is 3 (collocation theory: textbook, not formalised). *)
Require Import IVP.proofs.RadauDenseFacts.
Theorem C07_radau_dense_is_collocation_polynomial :
  forall n (y z1 z2 z3 : list R) i xold h,
    length y = n -> length z1 = n -> length z2 = n -> length z3 = n -> (i < n)%nat -> h <> 0%R ->
    let u theta := nth i (Radau.interpolate Rops (radau_cont y z1 z2 z3) xold h (xold + theta * h)%R n) 0%R in
    u 0%R = nth i y 0%R /\ u rC1 = (nth i y 0 + nth i z1 0)%R /\
    u rC2 = (nth i y 0 + nth i z2 0)%R /\ u 1%R = (nth i y 0 + nth i z3 0)%R.
Proof. exact radau_dense_interpolates. Qed.
Print Assumptions C07_radau_dense_is_collocation_polynomial.
