(* C07 -- dense output is accurate to the interpolant's order inside every step.
   Two layers, both for EVERY dimension n, step size h <> 0 of either sign, evaluation point theta (not only
   theta in [0,1]) and stage values:
   (link)   the real-number instance of the model's interpolant is the continuous Runge-Kutta formula
              u(theta) = y + h * sum_j b_j(theta) k_j
            with the weight polynomials b_j of model/DenseW.v (exact rationals of the source constants);
   (order)  those polynomials satisfy the continuous order conditions
              sum_j b_j(theta) Phi_j(t) = theta^|t| / gamma(t)      for every rooted tree |t| <= q,
            coefficient by coefficient, q = 4 (DOPRI5), 3 (RK23), 3 (RK4's cubic Hermite with the FSAL-like fifth
            stage f(x+h, ynew)).  By the standard theory (Hairer-Norsett-Wanner II.6) this is uniform local
            order q, i.e. error O(h^(q+1)) over the step -- that last step is textbook, not formalised here.
   Not proved (DESIGN.md, C07): DOP853 (q = 7, 16 stages with 30-digit coefficients), Radau's collocation
   polynomial and BDF's difference polynomial: decided by the one-step slope experiment on the implementation. *)
Require Import List ZArith QArith Qcanon Reals.
Require Import IVP.model.Lit IVP.model.Ops IVP.model.RK IVP.model.Trees IVP.model.Order IVP.model.Tableau
               IVP.model.DenseW IVP.model.RealOps.
Require IVP.model.Dopri5 IVP.model.Rk23 IVP.model.Rk4.
Require Import IVP.proofs.OrderFacts IVP.proofs.CertSmall IVP.proofs.CertDense IVP.proofs.DenseLink.
Import ListNotations.

(* ---------------- DOPRI5, q = 4 ---------------- *)
Theorem C07_dopri5_is_continuous_rk :
  forall (n : nat) (y : list R) (h : R) (a : Dopri5.attempt (F:=R)),
    length y = n -> (forall j, (j < 7)%nat -> length (nth j (Dopri5.at_ks a) []) = n) ->
    Dopri5.at_ynew a = stage_arg Rops h y (Dopri5.at_ks a) (RSum DOPRI5T.b) ->
    Dopri5.at_knew a = nth 6 (Dopri5.at_ks a) [] ->
    forall i xold xi, (i < n)%nat -> h <> 0%R ->
      nth i (Dopri5.interpolate Rops (Dopri5.dense Rops y h a) xold h xi n) 0%R =
      (nth i y 0 + h * wsum (D5W.Wj lit_q) 7 ((xi - xold) / h) (fun j => nth i (nth j (Dopri5.at_ks a) []) 0))%R.
Proof. exact d5_link. Qed.
Print Assumptions C07_dopri5_is_continuous_rk.

Local Open Scope Qc_scope.
Theorem C07_dopri5_continuous_order4 :
  forall t, (size t <= 4)%nat -> forall m, (m <= 4)%nat ->
    Z2Qc (gamma t) * qdot (wcol (D5W.W lit_q) m) (Phi QcK (D5W.A lit_q) 7 t) = if Nat.eqb (size t) m then 1 else 0.
Proof. exact (check_cont_sound _ _ _ _ _ d5_cont4). Qed.
Print Assumptions C07_dopri5_continuous_order4.

Theorem C07_dopri5_not_continuous_order5 :
  exists t m, size t = 5%nat /\
    Z2Qc (gamma t) * qdot (wcol (D5W.W lit_q) m) (Phi QcK (D5W.A lit_q) 7 t) <> if Nat.eqb (size t) m then 1 else 0.
Proof. exists d5_witness5, 2%nat. split; [reflexivity|qc_neq]. Qed.
Print Assumptions C07_dopri5_not_continuous_order5.
Local Close Scope Qc_scope.

(* ---------------- RK23, q = 3 ---------------- *)
Theorem C07_rk23_is_continuous_rk :
  forall (n : nat) (y : list R) (h : R) (a : Rk23.attempt (F:=R)),
    length y = n -> (forall j, (j < 4)%nat -> length (nth j (Rk23.at_ks a) []) = n) ->
    forall i xold xi, (i < n)%nat -> h <> 0%R ->
      nth i (Rk23.interpolate Rops (Rk23.dense Rops y a) xold h xi n) 0%R =
      (nth i y 0 + h * wsum (R23W.Wj lit_q) 4 ((xi - xold) / h) (fun j => nth i (nth j (Rk23.at_ks a) []) 0))%R.
Proof. exact r23_link. Qed.
Print Assumptions C07_rk23_is_continuous_rk.

Local Open Scope Qc_scope.
Theorem C07_rk23_continuous_order3 :
  forall t, (size t <= 3)%nat -> forall m, (m <= 3)%nat ->
    Z2Qc (gamma t) * qdot (wcol (R23W.W lit_q) m) (Phi QcK (R23W.A lit_q) 4 t) = if Nat.eqb (size t) m then 1 else 0.
Proof. exact (check_cont_sound _ _ _ _ _ r23_cont3). Qed.
Print Assumptions C07_rk23_continuous_order3.
Local Close Scope Qc_scope.

(* ---------------- RK4, q = 3 (cubic Hermite) ---------------- *)
Theorem C07_rk4_is_continuous_rk :
  forall (n : nat) (y : list R) (h : R) (a : Rk4.attempt (F:=R)),
    length y = n -> length (Rk4.at_knew a) = n ->
    (forall j, (j < 4)%nat -> length (nth j (Rk4.at_ks a) []) = n) ->
    Rk4.at_ynew a = stage_arg Rops h y (Rk4.at_ks a) (RSum RK4T.b) ->
    forall i xold xi, (i < n)%nat -> h <> 0%R ->
      nth i (Rk4.interpolate Rops (Rk4.dense y a) xold h xi n) 0%R =
      (nth i y 0 + h * wsum (R4W.Wj lit_q) 5 ((xi - xold) / h)
                        (fun j => if Nat.eqb j 4 then nth i (Rk4.at_knew a) 0 else nth i (nth j (Rk4.at_ks a) []) 0))%R.
Proof. exact r4_link. Qed.
Print Assumptions C07_rk4_is_continuous_rk.

Local Open Scope Qc_scope.
Theorem C07_rk4_continuous_order3 :
  forall t, (size t <= 3)%nat -> forall m, (m <= 3)%nat ->
    Z2Qc (gamma t) * qdot (wcol (R4W.W lit_q) m) (Phi QcK (R4W.A lit_q) 5 t) = if Nat.eqb (size t) m then 1 else 0.
Proof. exact (check_cont_sound _ _ _ _ _ r4_cont3). Qed.
Print Assumptions C07_rk4_continuous_order3.
Local Close Scope Qc_scope.

(* the attempts computed by the kernels (any right-hand side, tolerances, step) have the assumed shape *)
Theorem C07_kernels_have_assumed_shape :
  (forall f atol rtol x y k1 h,
     let a := Dopri5.kernel Rops f atol rtol x y k1 h in
     Dopri5.at_ynew a = stage_arg Rops h y (Dopri5.at_ks a) (RSum DOPRI5T.b) /\
     Dopri5.at_knew a = nth 6 (Dopri5.at_ks a) []) /\
  (forall f atol rtol x y k1 h,
     let a := Rk23.kernel Rops f atol rtol x y k1 h in
     Rk23.at_ynew a = stage_arg Rops h y (Rk23.at_ks a) (RSum RK23T.b)) /\
  (forall f x y k1 h,
     let a := Rk4.kernel Rops f x y k1 h in
     Rk4.at_ynew a = stage_arg Rops h y (Rk4.at_ks a) (RSum RK4T.b) /\
     Rk4.at_knew a = f (x + h)%R (Rk4.at_ynew a)).
Proof. split; [exact d5_kernel_shape|split; [exact r23_kernel_shape|exact r4_kernel_shape]]. Qed.
Print Assumptions C07_kernels_have_assumed_shape.
