(* C10 -- a terminal event stops the run at the event. *)
Require Import List Arith.
Require Import IVP.model.Ops IVP.model.Common IVP.model.SolOut IVP.proofs.SolOutFacts.
Import ListNotations.

(* when the event pass of a step reports a terminal event, the newest sample is that event's time and
   state, and it is one of the events located in this step (any number type, any event functions) *)
Theorem C10_terminal_sample :
  forall (F : Type) (O : Ops F) C fwd xold interp evs s s',
    process_events O C fwd xold interp evs s = (s', true) ->
    exists te i ye, In (te, i, ye) evs /\
                    (exists tt, hs_t s' = te :: tt) /\ (exists yy, hs_y s' = ye :: yy).
Proof. exact @process_events_terminal. Qed.
Print Assumptions C10_terminal_sample.

(* the handler answers a terminal event with Interrupt, and never interrupts otherwise *)
Theorem C10_interrupt_iff_terminal :
  forall (F : Type) (O : Ops F) C s xold x y sg,
    (snd (solout O C s xold x y sg) = Interrupt <->
     snd (detect_events O C (collect_dense O C s xold x sg) xold x y sg) = true).
Proof.
  intros. unfold solout. destruct (snd (detect_events _ _ _ _ _ _ _)); split; intros H; try reflexivity; discriminate H.
Qed.
Print Assumptions C10_interrupt_iff_terminal.

Theorem C10_no_terminal_no_interrupt :
  forall (F : Type) (O : Ops F) C s xold x y sg,
    no_terminal C -> snd (solout O C s xold x y sg) = Continue.
Proof. exact @solout_passive. Qed.
Print Assumptions C10_no_terminal_no_interrupt.
