(* C10 -- a terminal event stops the run at the event. *)
Require Import List Arith.
Require Import IVP.model.Ops IVP.model.Common IVP.model.SolOut IVP.proofs.SolOutFacts.
Import ListNotations.

(* when the event pass of a step reports a terminal event, the newest sample is that event's time and
   state, and it is one of the events located in this step (any number type, any event functions) *)
Theorem C10_terminal_sample :
  forall (F : Type) (O : Ops F) C fwd xold interp evs s s',
    process_events O C fwd xold interp evs s = (s', true) ->
    exists te i ye, In (te, i, ye) evs /\
                    (exists tt, hs_t s' = te :: tt) /\ (exists yy, hs_y s' = ye :: yy).
Proof. exact @process_events_terminal. Qed.
Print Assumptions C10_terminal_sample.

(* the handler answers a terminal event with Interrupt, and never interrupts otherwise *)
Theorem C10_interrupt_iff_terminal :
  forall (F : Type) (O : Ops F) C s xold x y sg,
    (snd (solout O C s xold x y sg) = Interrupt <->
     snd (detect_events O C (collect_dense O C s xold x sg) xold x y sg) = true).
Proof.
  intros. unfold solout. destruct (snd (detect_events _ _ _ _ _ _ _)); split; intros H; try reflexivity; discriminate H.
Qed.
Print Assumptions C10_interrupt_iff_terminal.

Theorem C10_no_terminal_no_interrupt :
  forall (F : Type) (O : Ops F) C s xold x y sg,
    no_terminal C -> snd (solout O C s xold x y sg) = Continue.
Proof. exact @solout_passive. Qed.
Print Assumptions C10_no_terminal_no_interrupt.

(* "Everything reported before the stop is identical to what the same run reports without the terminal flag":
   `clear_terminal C` is C with every terminal count removed.  As long as a callback does not answer Interrupt it
   computes exactly the same handler state (samples, events, dense segments, bookkeeping) under C and under
   clear_terminal C -- for ANY number type, event functions, interpolants.  Both handlers are passive up to there
   (C12_handler_passive, this file), so by the observer-independence theorems of C12 the solver's steps are the same too. *)
Require Import IVP.proofs.TerminalPrefix.
Theorem C10_prefix_equals_run_without_terminal_flag :
  forall (F : Type) (O : Ops F) C s xold x y sg,
    snd (solout O C s xold x y sg) = Continue ->
    solout O (clear_terminal C) s xold x y sg = solout O C s xold x y sg.
Proof. exact @solout_prefix. Qed.
Print Assumptions C10_prefix_equals_run_without_terminal_flag.

Theorem C10_cleared_configuration_never_interrupts :
  forall (F : Type) (O : Ops F) C s xold x y sg,
    snd (solout O (clear_terminal C) s xold x y sg) = Continue.
Proof. intros. apply solout_passive. apply clear_no_terminal. Qed.
Print Assumptions C10_cleared_configuration_never_interrupts.
