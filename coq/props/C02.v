(* C02 -- each method attains its advertised order (order-condition form).
   Statements only; proofs are `exact`/short wrappers around lemmas in proofs/. *)
Require Import List ZArith QArith Qcanon.
Require Import IVP.model.Lit IVP.model.RK IVP.model.Trees IVP.model.Order IVP.model.Tableau.
Require Import IVP.proofs.OrderFacts IVP.proofs.CertSmall.
Import ListNotations.
Local Open Scope Qc_scope.

(* Reading: A, b, c are the dense arrays of the tableau that model/RK.v's stage evaluator
   applies (the same evaluator that is replayed bit-for-bit against the Rust loops);
   `lit_q` = exact value of the source expression, `f64_q` = the binary64 the program multiplies by.
   Phi A s t are the elementary weights, gamma t the density: the order condition of tree t is
   gamma(t) * sum_i b_i Phi_i(t) = 1. *)

(* ---------- RK4: order 4, not 5 ---------- *)
Theorem C02_rk4_order4 :
  forall t, (size t <= 4)%nat ->
    Z2Qc (gamma t) * qdot (RK4C.b lit_q) (Phi QcK (RK4C.A lit_q) 4 t) = 1.
Proof. exact (check_exact_sound _ _ _ _ RK4C.order4). Qed.
Print Assumptions C02_rk4_order4.

Theorem C02_rk4_order4_f64 :
  forall t, (size t <= 4)%nat ->
    qabs (Z2Qc (gamma t) * qdot (RK4C.b f64_q) (Phi QcK (RK4C.A f64_q) 4 t) - 1)
      <= Z2Qc (gamma t) * Q2Qc (1 # 10^15).
Proof. exact (check_approx_sound _ _ _ _ _ RK4C.order4_f64). Qed.
Print Assumptions C02_rk4_order4_f64.

Theorem C02_rk4_not_order5 :
  exists t, size t = 5%nat /\
    Z2Qc (gamma t) * qdot (RK4C.b lit_q) (Phi QcK (RK4C.A lit_q) 4 t) <> 1.
Proof. exists RK4C.witness5. split; [reflexivity|qc_neq]. Qed.
Print Assumptions C02_rk4_not_order5.

Theorem C02_rk4_rowsums : row_sums (RK4C.A lit_q) = RK4C.c lit_q.
Proof. exact (qvec_eqb_correct _ _ RK4C.rowsums). Qed.
Print Assumptions C02_rk4_rowsums.

(* ---------- RK23: order 3, not 4; estimator q = 3 ---------- *)
Theorem C02_rk23_order3 :
  forall t, (size t <= 3)%nat ->
    Z2Qc (gamma t) * qdot (RK23C.b lit_q) (Phi QcK (RK23C.A lit_q) 4 t) = 1.
Proof. exact (check_exact_sound _ _ _ _ RK23C.order3). Qed.
Print Assumptions C02_rk23_order3.

Theorem C02_rk23_order3_f64 :
  forall t, (size t <= 3)%nat ->
    qabs (Z2Qc (gamma t) * qdot (RK23C.b f64_q) (Phi QcK (RK23C.A f64_q) 4 t) - 1)
      <= Z2Qc (gamma t) * Q2Qc (1 # 10^15).
Proof. exact (check_approx_sound _ _ _ _ _ RK23C.order3_f64). Qed.
Print Assumptions C02_rk23_order3_f64.

Theorem C02_rk23_not_order4 :
  exists t, size t = 4%nat /\
    Z2Qc (gamma t) * qdot (RK23C.b lit_q) (Phi QcK (RK23C.A lit_q) 4 t) <> 1.
Proof. exists RK23C.witness4. split; [reflexivity|qc_neq]. Qed.
Print Assumptions C02_rk23_not_order4.

(* the error estimate  h * sum_i e_i k_i  vanishes on every elementary differential of order <= 2
   and not on all of order 3: the controller exponent 1/3 is the right one (q = 3) *)
Theorem C02_rk23_estimator :
  (forall t, (size t <= 2)%nat -> qdot (RK23C.e lit_q) (Phi QcK (RK23C.A lit_q) 4 t) = 0) /\
  (exists t, size t = 3%nat /\ qdot (RK23C.e lit_q) (Phi QcK (RK23C.A lit_q) 4 t) <> 0).
Proof.
  split; [exact (check_zero_sound _ _ _ _ RK23C.est2)|].
  exists RK23C.witness3. split; [reflexivity|qc_neq].
Qed.
Print Assumptions C02_rk23_estimator.

Theorem C02_rk23_rowsums : row_sums (RK23C.A lit_q) = RK23C.c lit_q.
Proof. exact (qvec_eqb_correct _ _ RK23C.rowsums). Qed.
Print Assumptions C02_rk23_rowsums.

(* ---------- DOPRI5: order 5, not 6; estimator q = 5 ---------- *)
Theorem C02_dopri5_order5 :
  forall t, (size t <= 5)%nat ->
    Z2Qc (gamma t) * qdot (DOPRI5C.b lit_q) (Phi QcK (DOPRI5C.A lit_q) 7 t) = 1.
Proof. exact (check_exact_sound _ _ _ _ DOPRI5C.order5). Qed.
Print Assumptions C02_dopri5_order5.

Theorem C02_dopri5_order5_f64 :
  forall t, (size t <= 5)%nat ->
    qabs (Z2Qc (gamma t) * qdot (DOPRI5C.b f64_q) (Phi QcK (DOPRI5C.A f64_q) 7 t) - 1)
      <= Z2Qc (gamma t) * Q2Qc (1 # 10^15).
Proof. exact (check_approx_sound _ _ _ _ _ DOPRI5C.order5_f64). Qed.
Print Assumptions C02_dopri5_order5_f64.

Theorem C02_dopri5_not_order6 :
  exists t, size t = 6%nat /\
    Z2Qc (gamma t) * qdot (DOPRI5C.b lit_q) (Phi QcK (DOPRI5C.A lit_q) 7 t) <> 1.
Proof. exists DOPRI5C.witness6. split; [reflexivity|qc_neq]. Qed.
Print Assumptions C02_dopri5_not_order6.

Theorem C02_dopri5_estimator :
  (forall t, (size t <= 4)%nat -> qdot (DOPRI5C.e lit_q) (Phi QcK (DOPRI5C.A lit_q) 7 t) = 0) /\
  (exists t, size t = 5%nat /\ qdot (DOPRI5C.e lit_q) (Phi QcK (DOPRI5C.A lit_q) 7 t) <> 0).
Proof.
  split; [exact (check_zero_sound _ _ _ _ DOPRI5C.est4)|].
  exists DOPRI5C.witness5. split; [reflexivity|qc_neq].
Qed.
Print Assumptions C02_dopri5_estimator.

Theorem C02_dopri5_rowsums : row_sums (DOPRI5C.A lit_q) = DOPRI5C.c lit_q.
Proof. exact (qvec_eqb_correct _ _ DOPRI5C.rowsums). Qed.
Print Assumptions C02_dopri5_rowsums.
