(* C02 -- each method attains its advertised order (order-condition form).
   Statements only; proofs are `exact`/short wrappers around lemmas in proofs/. *)
Require Import List ZArith QArith Qcanon.
Require Import IVP.model.Lit IVP.model.RK IVP.model.Trees IVP.model.Order IVP.model.Tableau.
Require Import IVP.proofs.OrderFacts IVP.proofs.CertSmall.
Import ListNotations.
Local Open Scope Qc_scope.

(* Reading: A, b, c are the dense arrays of the tableau that model/RK.v's stage evaluator
   applies (the same evaluator that is replayed bit-for-bit against the Rust loops);
   `lit_q` = exact value of the source expression, `f64_q` = the binary64 the program multiplies by.
   Phi A s t are the elementary weights, gamma t the density: the order condition of tree t is
   gamma(t) * sum_i b_i Phi_i(t) = 1. *)

(* ---------- RK4: order 4, not 5 ---------- *)
Theorem C02_rk4_order4 :
  forall t, (size t <= 4)%nat ->
    Z2Qc (gamma t) * qdot (RK4C.b lit_q) (Phi QcK (RK4C.A lit_q) 4 t) = 1.
Proof. exact (check_exact_sound _ _ _ _ RK4C.order4). Qed.
Print Assumptions C02_rk4_order4.

Theorem C02_rk4_order4_f64 :
  forall t, (size t <= 4)%nat ->
    qabs (Z2Qc (gamma t) * qdot (RK4C.b f64_q) (Phi QcK (RK4C.A f64_q) 4 t) - 1)
      <= Z2Qc (gamma t) * Q2Qc (1 # 10^15).
Proof. exact (check_approx_sound _ _ _ _ _ RK4C.order4_f64). Qed.
Print Assumptions C02_rk4_order4_f64.

Theorem C02_rk4_not_order5 :
  exists t, size t = 5%nat /\
    Z2Qc (gamma t) * qdot (RK4C.b lit_q) (Phi QcK (RK4C.A lit_q) 4 t) <> 1.
Proof. exists RK4C.witness5. split; [reflexivity|qc_neq]. Qed.
Print Assumptions C02_rk4_not_order5.

Theorem C02_rk4_rowsums : row_sums (RK4C.A lit_q) = RK4C.c lit_q.
Proof. exact (qvec_eqb_correct _ _ RK4C.rowsums). Qed.
Print Assumptions C02_rk4_rowsums.

(* ---------- RK23: order 3, not 4; estimator q = 3 ---------- *)
Theorem C02_rk23_order3 :
  forall t, (size t <= 3)%nat ->
    Z2Qc (gamma t) * qdot (RK23C.b lit_q) (Phi QcK (RK23C.A lit_q) 4 t) = 1.
Proof. exact (check_exact_sound _ _ _ _ RK23C.order3). Qed.
Print Assumptions C02_rk23_order3.

Theorem C02_rk23_order3_f64 :
  forall t, (size t <= 3)%nat ->
    qabs (Z2Qc (gamma t) * qdot (RK23C.b f64_q) (Phi QcK (RK23C.A f64_q) 4 t) - 1)
      <= Z2Qc (gamma t) * Q2Qc (1 # 10^15).
Proof. exact (check_approx_sound _ _ _ _ _ RK23C.order3_f64). Qed.
Print Assumptions C02_rk23_order3_f64.

Theorem C02_rk23_not_order4 :
  exists t, size t = 4%nat /\
    Z2Qc (gamma t) * qdot (RK23C.b lit_q) (Phi QcK (RK23C.A lit_q) 4 t) <> 1.
Proof. exists RK23C.witness4. split; [reflexivity|qc_neq]. Qed.
Print Assumptions C02_rk23_not_order4.

(* the error estimate  h * sum_i e_i k_i  vanishes on every elementary differential of order <= 2
   and not on all of order 3: the controller exponent 1/3 is the right one (q = 3) *)
Theorem C02_rk23_estimator :
  (forall t, (size t <= 2)%nat -> qdot (RK23C.e lit_q) (Phi QcK (RK23C.A lit_q) 4 t) = 0) /\
  (exists t, size t = 3%nat /\ qdot (RK23C.e lit_q) (Phi QcK (RK23C.A lit_q) 4 t) <> 0).
Proof.
  split; [exact (check_zero_sound _ _ _ _ RK23C.est2)|].
  exists RK23C.witness3. split; [reflexivity|qc_neq].
Qed.
Print Assumptions C02_rk23_estimator.

Theorem C02_rk23_rowsums : row_sums (RK23C.A lit_q) = RK23C.c lit_q.
Proof. exact (qvec_eqb_correct _ _ RK23C.rowsums). Qed.
Print Assumptions C02_rk23_rowsums.

(* ---------- DOPRI5: order 5, not 6; estimator q = 5 ---------- *)
Theorem C02_dopri5_order5 :
  forall t, (size t <= 5)%nat ->
    Z2Qc (gamma t) * qdot (DOPRI5C.b lit_q) (Phi QcK (DOPRI5C.A lit_q) 7 t) = 1.
Proof. exact (check_exact_sound _ _ _ _ DOPRI5C.order5). Qed.
Print Assumptions C02_dopri5_order5.

Theorem C02_dopri5_order5_f64 :
  forall t, (size t <= 5)%nat ->
    qabs (Z2Qc (gamma t) * qdot (DOPRI5C.b f64_q) (Phi QcK (DOPRI5C.A f64_q) 7 t) - 1)
      <= Z2Qc (gamma t) * Q2Qc (1 # 10^15).
Proof. exact (check_approx_sound _ _ _ _ _ DOPRI5C.order5_f64). Qed.
Print Assumptions C02_dopri5_order5_f64.

Theorem C02_dopri5_not_order6 :
  exists t, size t = 6%nat /\
    Z2Qc (gamma t) * qdot (DOPRI5C.b lit_q) (Phi QcK (DOPRI5C.A lit_q) 7 t) <> 1.
Proof. exists DOPRI5C.witness6. split; [reflexivity|qc_neq]. Qed.
Print Assumptions C02_dopri5_not_order6.

Theorem C02_dopri5_estimator :
  (forall t, (size t <= 4)%nat -> qdot (DOPRI5C.e lit_q) (Phi QcK (DOPRI5C.A lit_q) 7 t) = 0) /\
  (exists t, size t = 5%nat /\ qdot (DOPRI5C.e lit_q) (Phi QcK (DOPRI5C.A lit_q) 7 t) <> 0).
Proof.
  split; [exact (check_zero_sound _ _ _ _ DOPRI5C.est4)|].
  exists DOPRI5C.witness5. split; [reflexivity|qc_neq].
Qed.
Print Assumptions C02_dopri5_estimator.

Theorem C02_dopri5_rowsums : row_sums (DOPRI5C.A lit_q) = DOPRI5C.c lit_q.
Proof. exact (qvec_eqb_correct _ _ DOPRI5C.rowsums). Qed.
Print Assumptions C02_dopri5_rowsums.

(* ---------- DOP853: order 8, not 9; estimators of order 5 and 3 (q = 8 through the combined formula) ----------
   The coefficients are 30-digit decimals, so the conditions hold to ~1e-28, not exactly.  Elementary weights are
   computed over Z on the common denominator D of the tableau (proofs/ScaleFacts.v, CertDop853.v):
   the RESIDUAL gamma(t) * b.Phi(t) - 1 of every tree equals M / D^size(t) for an integer M that the certificate
   bounds:  |M| * 10^25 <= gamma(t) * D^size(t),  i.e.  |residual| <= gamma(t) * 1e-25.
   `lit_q`: the decimal literals as written; `f64_q`: the binary64 numbers the program multiplies by (bound 1e-13). *)
Require Import IVP.proofs.ScaleFacts IVP.proofs.CertDop853.
Import DOP853C.

Notation iD := (/ Z2Qc (D lit_q)).

Theorem C02_dop853_order8 :
  forall t, (size t <= 8)%nat ->
    exists M : Z,
      Z2Qc (gamma t) * qdot (b lit_q) (Phi QcK (A lit_q) 12 t) - 1 = iD ^ size t * Z2Qc M /\
      (Z.abs M * 10^25 <= gamma t * 1 * (D lit_q) ^ Z.of_nat (size t))%Z.
Proof. exact DOP853Cert.order8_sound. Qed.
Print Assumptions C02_dop853_order8.

Theorem C02_dop853_order8_f64 :
  forall t, (size t <= 8)%nat ->
    exists M : Z,
      Z2Qc (gamma t) * qdot (b f64_q) (Phi QcK (A f64_q) 12 t) - 1 = (/ Z2Qc (D f64_q)) ^ size t * Z2Qc M /\
      (Z.abs M * 10^13 <= gamma t * 1 * (D f64_q) ^ Z.of_nat (size t))%Z.
Proof. exact DOP853Cert.order8_f64_sound. Qed.
Print Assumptions C02_dop853_order8_f64.

(* the order-9 condition of the bushy tree t9 = [tau^8] fails: its residual M9 / D^9 exceeds 1e-4 in magnitude *)
Theorem C02_dop853_not_order9 :
  size DOP853Cert.t9 = 9%nat /\
  Z2Qc (gamma DOP853Cert.t9) * qdot (b lit_q) (Phi QcK (A lit_q) 12 DOP853Cert.t9) - 1
    = iD ^ size DOP853Cert.t9 * Z2Qc DOP853Cert.M9 /\
  (10^8 <= Z.abs DOP853Cert.M9 * 10^12 / (D lit_q) ^ 9)%Z.
Proof.
  split; [exact DOP853Cert.size_t9|]. split; [exact DOP853Cert.resid9_eq|].
  apply Z.leb_le. exact DOP853Cert.M9_val.
Qed.
Print Assumptions C02_dop853_not_order9.

(* err  = |h| * |er . k|   annihilates every elementary differential of order <= 5 (to 1e-25), not all of order 6;
   err2 = |h| * |(b - bhh) . k|  those of order <= 3, not all of order 4 *)
Theorem C02_dop853_estimators :
  (forall t, (size t <= 5)%nat -> exists M : Z,
      qdot (er lit_q) (Phi QcK (A lit_q) 12 t) = iD ^ size t * Z2Qc M /\
      (Z.abs M * 10^25 <= 1 * (D lit_q) ^ Z.of_nat (size t))%Z) /\
  (forall t, (size t <= 3)%nat -> exists M : Z,
      qdot (e2 lit_q) (Phi QcK (A lit_q) 12 t) = iD ^ size t * Z2Qc M /\
      (Z.abs M * 10^25 <= 1 * (D lit_q) ^ Z.of_nat (size t))%Z) /\
  (size DOP853Cert.t6 = 6%nat /\
   qdot (er lit_q) (Phi QcK (A lit_q) 12 DOP853Cert.t6) = iD ^ size DOP853Cert.t6 * Z2Qc DOP853Cert.M6 /\
   (10^8 <= Z.abs DOP853Cert.M6 * 10^12 / (D lit_q) ^ 6)%Z) /\
  (size DOP853Cert.t4 = 4%nat /\
   qdot (e2 lit_q) (Phi QcK (A lit_q) 12 DOP853Cert.t4) = iD ^ size DOP853Cert.t4 * Z2Qc DOP853Cert.M4 /\
   (10^10 <= Z.abs DOP853Cert.M4 * 10^12 / (D lit_q) ^ 4)%Z).
Proof.
  split; [exact DOP853Cert.est5_sound|]. split; [exact DOP853Cert.est3_sound|]. split.
  - split; [exact DOP853Cert.size_t6|]. split; [exact DOP853Cert.resid6_eq|].
    apply Z.leb_le. exact DOP853Cert.M6_val.
  - split; [exact DOP853Cert.size_t4|]. split; [exact DOP853Cert.resid4_eq|].
    apply Z.leb_le. exact DOP853Cert.M4_val.
Qed.
Print Assumptions C02_dop853_estimators.

(* the time argument of every stage is consistent with its state argument: |sum_j a_ij - c_i| <= 1e-28 (1e-14 in binary64) *)
Theorem C02_dop853_rowsums :
  (length (row_sums (A lit_q)) = length (c lit_q) /\
   forall i, (i < length (row_sums (A lit_q)))%nat ->
     qabs (nth i (row_sums (A lit_q)) 0 - nth i (c lit_q) 0) <= Q2Qc (1 # 10^28)) /\
  (forall i, (i < length (row_sums (A f64_q)))%nat ->
     qabs (nth i (row_sums (A f64_q)) 0 - nth i (c f64_q) 0) <= Q2Qc (1 # 10^14)).
Proof.
  split; [exact (DOP853Cert.rows_close_spec _ _ _ DOP853Cert.rowsums)|].
  exact (proj2 (DOP853Cert.rows_close_spec _ _ _ DOP853Cert.rowsums_f64)).
Qed.
Print Assumptions C02_dop853_rowsums.

(* ---------- Radau IIA: order 5, not 6; stability function = (2,3) Pade approximant ----------
   The code stores T, TI and the eigenvalues U1, ALPH +- i BETA of the inverse Radau IIA matrix (16-digit decimals)
   and iterates on the transformed stages.  model/RadauEff.v computes the Runge-Kutta matrix
   Aeff = T * diag(U1, [[ALPH,-BETA],[BETA,ALPH]])^-1 * TI  that a fixed point of that iteration satisfies
   (Z = h Aeff F(Z)), with weights beff = its last row (ynew = y + Z3, stiffly accurate).  Residuals as for DOP853:
   M / D^size(t) with |M| * 1e14 <= gamma(t) D^size(t). *)
Require Import IVP.model.RadauEff IVP.proofs.RadauEffCert IVP.proofs.RadauEffFacts.

Theorem C02_radau_order5 :
  forall t, (size t <= 5)%nat -> exists M : Z,
    Z2Qc (gamma t) * qdot (RE.beff lit_q) (Phi QcK (RE.Aeff lit_q) 3 t) - 1
      = (/ Z2Qc (RadauCert.D lit_q)) ^ size t * Z2Qc M /\
    (Z.abs M * 10^14 <= gamma t * 1 * (RadauCert.D lit_q) ^ Z.of_nat (size t))%Z.
Proof. exact RadauOrder.order5_sound. Qed.
Print Assumptions C02_radau_order5.

Theorem C02_radau_order5_f64 :
  forall t, (size t <= 5)%nat -> exists M : Z,
    Z2Qc (gamma t) * qdot (RE.beff f64_q) (Phi QcK (RE.Aeff f64_q) 3 t) - 1
      = (/ Z2Qc (RadauCert.D f64_q)) ^ size t * Z2Qc M /\
    (Z.abs M * 10^14 <= gamma t * 1 * (RadauCert.D f64_q) ^ Z.of_nat (size t))%Z.
Proof. exact RadauOrder.order5_f64_sound. Qed.
Print Assumptions C02_radau_order5_f64.

Theorem C02_radau_not_order6 :
  size RadauCert.t6 = 6%nat /\
  Z2Qc (gamma RadauCert.t6) * qdot (RE.beff lit_q) (Phi QcK (RE.Aeff lit_q) 3 RadauCert.t6) - 1
    = (/ Z2Qc (RadauCert.D lit_q)) ^ size RadauCert.t6 * Z2Qc RadauCert.M6 /\
  (10^8 <= Z.abs RadauCert.M6 * 10^12 / (RadauCert.D lit_q) ^ 6)%Z.
Proof.
  split; [exact RadauCert.size_t6|]. split; [exact RadauOrder.resid6_eq|].
  apply Z.leb_le. exact RadauCert.M6_val.
Qed.
Print Assumptions C02_radau_not_order6.

(* the abscissae C1, C2, 1 at which the code evaluates f are the row sums of Aeff (to 1e-15) *)
Theorem C02_radau_nodes :
  forall i, (i < 3)%nat ->
    qabs (nth i (map (RE.r lit_q) [0; 1; 2]%nat) 0 - nth i (RE.ceff lit_q) 0) <= Q2Qc (1 # 10^15).
Proof. exact (proj2 (DOP853Cert.rows_close_spec _ _ _ RadauCert.nodes)). Qed.
Print Assumptions C02_radau_nodes.

(* "one Radau step on y' = lambda y reproduces the (2,3) Pade approximant of exp(h lambda)":
   for every real z = h*lambda at which Q(z) <> 0, the stage equations Z = z Aeff (1 + Z) have exactly one solution and
   it gives ynew/y = 1 + Z3 = P(z)/Q(z), where P and Q have the coefficients computed in RE.Ppoly / RE.Qpoly, which are
   within 1e-15 of (1, 2/5, 1/20, 0) and (1, -3/5, 3/20, -1/60). *)
Require Import Reals.
Theorem C02_radau_pade :
  (forall z Z0 Z1 Z2 : R, RadauReal.QzR z <> 0%R -> RadauReal.stages z Z0 Z1 Z2 ->
     (1 + Z2 = RadauReal.PzR z / RadauReal.QzR z)%R) /\
  (forall z : R, RadauReal.PzR z = (1 + QcR (RadauCert.p 1) * z + QcR (RadauCert.p 2) * z * z + QcR (RadauCert.p 3) * z * z * z)%R) /\
  (forall z : R, RadauReal.QzR z = (1 + QcR (RadauCert.qq 1) * z + QcR (RadauCert.qq 2) * z * z + QcR (RadauCert.qq 3) * z * z * z)%R) /\
  (forall i, (i < 4)%nat ->
     (qabs (nth i (RE.Ppoly lit_q) 0 - nth i RadauCert.pade_P 0) <= Q2Qc (1 # 10^15))%Qc /\
     (qabs (nth i (RE.Qpoly lit_q) 0 - nth i RadauCert.pade_Q 0) <= Q2Qc (1 # 10^15))%Qc).
Proof.
  split; [|split; [exact RadauReal.PzR_coefs|split; [exact RadauReal.QzR_coefs|]]].
  - intros z Z0 Z1 Z2 HQ H. exact (Stab3.stability_function _ _ _ _ _ _ _ _ _ _ HQ _ _ _ H).
  - intros i Hi. split.
    + exact (proj2 (DOP853Cert.rows_close_spec _ _ _ RadauCert.pade_P_close) i Hi).
    + exact (proj2 (DOP853Cert.rows_close_spec _ _ _ RadauCert.pade_Q_close) i Hi).
Qed.
Print Assumptions C02_radau_pade.
