(* C16 -- LU factorisation and triangular solves (lu_decomp / lin_solve, Hairer's DEC/SOL with deferred row
   swaps).  Exact-arithmetic part of the property, for EVERY dimension n and every matrix over the reals:
   the floating-point backward-error bound c*n*eps*|A|*|x| is not proved (DESIGN.md, C16: measured by the
   exact-rational residual oracle on the implementation); the complex twin is tied by replay only. *)
Require Import List Arith Bool Reals.
Require Import IVP.model.Ops IVP.model.LU IVP.model.RealOps IVP.proofs.LUFacts.
Local Open Scope R_scope.

(* if the factorisation succeeds, the solve returns the exact solution of A . x = b *)
Theorem C16_solve_exact :
  forall n (A : nat -> nat -> R) ip0 LU ip (b : nat -> R),
    lu_decomp Rops n n n A ip0 = LuOk LU ip ->
    forall i, (i < n)%nat -> sumfrom 0 n (fun j => A i j * lin_solve Rops n LU ip b j) = b i.
Proof. exact lu_solve_exact. Qed.
Print Assumptions C16_solve_exact.

(* the pivot chosen at step k is a largest entry of the column on or below the diagonal ... *)
Theorem C16_pivot_is_column_max :
  forall n (A : nat -> nat -> R) k, (k < n)%nat ->
    (k <= find_pivot Rops n A k < n)%nat /\
    forall i, (k <= i < n)%nat -> Rabs (A i k) <= Rabs (A (find_pivot Rops n A k) k).
Proof. exact find_pivot_spec. Qed.
Print Assumptions C16_pivot_is_column_max.

(* ... so that every stored multiplier is at most 1 in magnitude *)
Theorem C16_multipliers_at_most_one :
  forall n (A : nat -> nat -> R) k i,
    (k < n)%nat -> (k < i < n)%nat -> A (find_pivot Rops n A k) k <> 0 ->
    Rabs (elim_step Rops A k (find_pivot Rops n A k) i k) <= 1.
Proof. exact multipliers_bounded. Qed.
Print Assumptions C16_multipliers_at_most_one.

(* a pivot column that is exactly zero (on and below the diagonal, at whatever stage) is rejected *)
Theorem C16_zero_pivot_column_rejected :
  forall n (A : nat -> nat -> R) ip s k,
    (k < n)%nat -> (forall i, (k <= i < n)%nat -> A i k = 0) -> lu_loop Rops n (S s) k A ip = None.
Proof. exact zero_pivot_column_rejected. Qed.
Print Assumptions C16_zero_pivot_column_rejected.

Theorem C16_zero_first_column_singular :
  forall n (A : nat -> nat -> R) ip0,
    (1 <= n)%nat -> (forall i, (i < n)%nat -> A i 0%nat = 0) -> lu_decomp Rops n n n A ip0 = LuSingular.
Proof. exact zero_first_column_singular. Qed.
Print Assumptions C16_zero_first_column_singular.

(* success certifies that every pivot (diagonal entry of U) is non-zero *)
Theorem C16_success_pivots_nonzero :
  forall n (A : nat -> nat -> R) ip0 LU ip,
    (1 <= n)%nat -> lu_decomp Rops n n n A ip0 = LuOk LU ip -> forall j, (j < n)%nat -> LU j j <> 0.
Proof. exact lu_success_diag. Qed.
Print Assumptions C16_success_pivots_nonzero.

(* shape and pivot-length mismatches are rejected with their own errors, for any number type *)
Theorem C16_shape_rejections :
  forall (F : Type) (O : Ops F) nr nc ipl (A : nat -> nat -> F) ip0,
    (nr <> nc -> lu_decomp O nr nc ipl A ip0 = LuNonSquare) /\
    (nr = nc -> ipl <> nr -> lu_decomp O nr nc ipl A ip0 = LuPivotSize).
Proof. exact @shape_rejections. Qed.
Print Assumptions C16_shape_rejections.

(* non-vacuity: a 3x3 matrix needing a row swap is factorised (over the floats, by evaluation) *)
Require Import Floats IVP.model.FloatOps.
Import ListNotations.
Example C16_nonvacuous :
  match lu_decomp (Fops PrimFloat.div) 3 3 3
          (fun i j => nth j (nth i [[0;2;1];[4;1;0];[2;0;3]]%float []) 0%float) (fun _ => 0%nat) with
  | LuOk _ ip => ip 0%nat = 1%nat
  | _ => False
  end.
Proof. vm_compute. reflexivity. Qed.
