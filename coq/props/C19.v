(* C19 -- the SolOut callback protocol of the low-level solvers (DOPRI5 skeleton; the other explicit
   skeletons share the structure and are tied by the scripted-callback replay).
   For ANY number type, kernel, right-hand side and user callback `cb`: wrap `cb` in a recorder;
   the recorded invocations (newest first) are contiguous, the newest ends at the solver's final x,
   status UserInterrupt holds exactly when the newest call returned Interrupt, and no earlier call
   returned Interrupt (i.e. nothing runs after an Interrupt). *)
Require Import List ZArith.
Require Import IVP.model.Lit IVP.model.Ops IVP.model.Common IVP.model.Dopri5.
Require Import IVP.proofs.Dopri5Protocol.

Theorem C19_dopri5_protocol :
  forall (F : Type) (O : Ops F) (H : Type) (P : params) f xend posneg hmax
         (cb : H -> F -> F -> list F -> option (list F * F * F) -> H * flag F * list F) kern fuel s r,
    trace_ok (s_x s) (snd (s_cb s)) -> no_interrupt (snd (s_cb s)) ->
    loop O P f xend posneg hmax (rec_cb cb) kern fuel s = Some r ->
    contiguous (snd (r_cb r)) /\
    (match snd (r_cb r) with c :: _ => c_x c = r_x r | nil => False end) /\
    (r_status r = UserInterrupt <->
       match snd (r_cb r) with c :: _ => c_flag c = Interrupt | nil => False end) /\
    (match snd (r_cb r) with c :: rest => no_interrupt rest | nil => True end).
Proof. exact @loop_trace. Qed.
Print Assumptions C19_dopri5_protocol.

(* each loop iteration makes at most one call, for the interval [x, x'] it has just accepted *)
Theorem C19_dopri5_one_call_per_step :
  forall (F : Type) (O : Ops F) (H : Type) (P : params) f xend posneg hmax
         (cb : H -> F -> F -> list F -> option (list F * F * F) -> H * flag F * list F) kern s,
    trace_ok (s_x s) (snd (s_cb s)) -> no_interrupt (snd (s_cb s)) ->
    match step O P f xend posneg hmax (rec_cb cb) kern s with
    | inl s' => trace_ok (s_x s') (snd (s_cb s')) /\ no_interrupt (snd (s_cb s'))
                /\ (snd (s_cb s') = snd (s_cb s) \/
                    exists c, snd (s_cb s') = c :: snd (s_cb s) /\ c_xold c = s_x s /\ c_x c = s_x s')
    | inr r =>
        (snd (r_cb r) = snd (s_cb s) /\ r_status r <> UserInterrupt /\ r_x r = s_x s) \/
        (exists c, snd (r_cb r) = c :: snd (s_cb s) /\ c_xold c = s_x s /\ c_x c = r_x r /\
                   (r_status r = UserInterrupt <-> c_flag c = Interrupt) /\
                   (r_status r = UserInterrupt \/ r_status r = Success))
    end.
Proof. exact @step_trace. Qed.
Print Assumptions C19_dopri5_one_call_per_step.

(* ---------------- DOP853: the same protocol (proofs/Dop853Protocol.v) ---------------- *)
Require IVP.model.Dop853 IVP.proofs.Dop853Protocol.

Theorem C19_dop853_protocol :
  forall (F : Type) (O : Ops F) (H : Type) (P : Dop853.params) f xend posneg hmax
         (cb : H -> F -> F -> list F -> option (list F * F * F) -> H * flag F * list F) kern fuel s r,
    Dop853Protocol.trace_ok (Dop853.s_x s) (snd (Dop853.s_cb s)) ->
    Dop853Protocol.no_interrupt (snd (Dop853.s_cb s)) ->
    Dop853.loop O P f xend posneg hmax (Dop853Protocol.rec_cb cb) kern fuel s = Some r ->
    Dop853Protocol.contiguous (snd (Dop853.r_cb r)) /\
    (match snd (Dop853.r_cb r) with c :: _ => Dop853Protocol.c_x c = Dop853.r_x r | nil => False end) /\
    (Dop853.r_status r = UserInterrupt <->
       match snd (Dop853.r_cb r) with c :: _ => Dop853Protocol.c_flag c = Interrupt | nil => False end) /\
    (match snd (Dop853.r_cb r) with c :: rest => Dop853Protocol.no_interrupt rest | nil => True end).
Proof. exact @Dop853Protocol.loop_trace. Qed.
Print Assumptions C19_dop853_protocol.
