(* C19 -- the SolOut callback protocol of the low-level solvers (DOPRI5 skeleton; the other explicit
   skeletons share the structure and are tied by the scripted-callback replay).
   For ANY number type, kernel, right-hand side and user callback `cb`: wrap `cb` in a recorder;
   the recorded invocations (newest first) are contiguous, the newest ends at the solver's final x,
   status UserInterrupt holds exactly when the newest call returned Interrupt, and no earlier call
   returned Interrupt (i.e. nothing runs after an Interrupt). *)
Require Import List ZArith.
Require Import IVP.model.Lit IVP.model.Ops IVP.model.Common IVP.model.Dopri5.
Require Import IVP.proofs.Dopri5Protocol.

Theorem C19_dopri5_protocol :
  forall (F : Type) (O : Ops F) (H : Type) (P : params) f xend posneg hmax
         (cb : H -> F -> F -> list F -> option (list F * F * F) -> H * flag F * list F) kern fuel s r,
    trace_ok (s_x s) (snd (s_cb s)) -> no_interrupt (snd (s_cb s)) ->
    loop O P f xend posneg hmax (rec_cb cb) kern fuel s = Some r ->
    contiguous (snd (r_cb r)) /\
    (match snd (r_cb r) with c :: _ => c_x c = r_x r | nil => False end) /\
    (r_status r = UserInterrupt <->
       match snd (r_cb r) with c :: _ => c_flag c = Interrupt | nil => False end) /\
    (match snd (r_cb r) with c :: rest => no_interrupt rest | nil => True end).
Proof. exact @loop_trace. Qed.
Print Assumptions C19_dopri5_protocol.

(* each loop iteration makes at most one call, for the interval [x, x'] it has just accepted *)
Theorem C19_dopri5_one_call_per_step :
  forall (F : Type) (O : Ops F) (H : Type) (P : params) f xend posneg hmax
         (cb : H -> F -> F -> list F -> option (list F * F * F) -> H * flag F * list F) kern s,
    trace_ok (s_x s) (snd (s_cb s)) -> no_interrupt (snd (s_cb s)) ->
    match step O P f xend posneg hmax (rec_cb cb) kern s with
    | inl s' => trace_ok (s_x s') (snd (s_cb s')) /\ no_interrupt (snd (s_cb s'))
                /\ (snd (s_cb s') = snd (s_cb s) \/
                    exists c, snd (s_cb s') = c :: snd (s_cb s) /\ c_xold c = s_x s /\ c_x c = s_x s')
    | inr r =>
        (snd (r_cb r) = snd (s_cb s) /\ r_status r <> UserInterrupt /\ r_x r = s_x s) \/
        (exists c, snd (r_cb r) = c :: snd (s_cb s) /\ c_xold c = s_x s /\ c_x c = r_x r /\
                   (r_status r = UserInterrupt <-> c_flag c = Interrupt) /\
                   (r_status r = UserInterrupt \/ r_status r = Success))
    end.
Proof. exact @step_trace. Qed.
Print Assumptions C19_dopri5_one_call_per_step.

(* ---------------- DOP853: the same protocol (proofs/Dop853Protocol.v) ---------------- *)
Require IVP.model.Dop853 IVP.proofs.Dop853Protocol.

Theorem C19_dop853_protocol :
  forall (F : Type) (O : Ops F) (H : Type) (P : Dop853.params) f xend posneg hmax
         (cb : H -> F -> F -> list F -> option (list F * F * F) -> H * flag F * list F) kern fuel s r,
    Dop853Protocol.trace_ok (Dop853.s_x s) (snd (Dop853.s_cb s)) ->
    Dop853Protocol.no_interrupt (snd (Dop853.s_cb s)) ->
    Dop853.loop O P f xend posneg hmax (Dop853Protocol.rec_cb cb) kern fuel s = Some r ->
    Dop853Protocol.contiguous (snd (Dop853.r_cb r)) /\
    (match snd (Dop853.r_cb r) with c :: _ => Dop853Protocol.c_x c = Dop853.r_x r | nil => False end) /\
    (Dop853.r_status r = UserInterrupt <->
       match snd (Dop853.r_cb r) with c :: _ => Dop853Protocol.c_flag c = Interrupt | nil => False end) /\
    (match snd (Dop853.r_cb r) with c :: rest => Dop853Protocol.no_interrupt rest | nil => True end).
Proof. exact @Dop853Protocol.loop_trace. Qed.
Print Assumptions C19_dop853_protocol.

(* ---------------- RK23, RK4, Radau, BDF: the protocol of the whole low-level solver ----------------
   `rec_cb cb` wraps ANY user callback in a recorder (proofs/ProtocolGen.v); the solver is started with an empty
   record.  `res_ok c0 status x trace` (newest call first) says:
     - consecutive calls are contiguous: each xold is exactly the x of the previous call,
     - the newest call ends at the abscissa the solver returned,
     - status = UserInterrupt exactly when that newest call returned Interrupt, and no earlier call returned
       Interrupt (so nothing -- no step, no evaluation, no callback -- happens after an Interrupt),
     - the oldest call is c0 = (xold = x0, x = x0, y0, no interpolant): the initial call.
   For every number type, right-hand side, Jacobian, mass matrix, kernel and callback; out-of-fuel (None) excluded. *)
Require IVP.model.Rk23 IVP.model.Rk4 IVP.model.Radau IVP.model.Bdf.
Require IVP.proofs.ProtocolGen IVP.proofs.Rk23Protocol IVP.proofs.Rk4Protocol IVP.proofs.RadauProtocol IVP.proofs.BdfProtocol.
Import ProtocolGen.

Theorem C19_rk23_protocol :
  forall (F : Type) (O : Ops F) (H : Type) (P : Rk23.params) f x0 y0 xend rtol atol
         (cb : H -> F -> F -> list F -> option (list F * F * F) -> H * flag F * list F) (h0 : H) fuel r,
    Rk23.solve O P f x0 y0 xend rtol atol (rec_cb cb) (h0, nil) fuel = Some r ->
    exists fl0, res_ok (mkCall x0 x0 y0 None fl0) (Rk23.r_status r) (Rk23.r_x r) (snd (Rk23.r_cb r)).
Proof. exact @Rk23Protocol.solve_trace. Qed.
Print Assumptions C19_rk23_protocol.

Theorem C19_rk4_protocol :
  forall (F : Type) (O : Ops F) (H : Type) (P : Rk4.params) f x0 y0 xend h
         (cb : H -> F -> F -> list F -> option (list F * F * F) -> H * flag F * list F) (h0 : H) fuel r,
    Rk4.solve O P f x0 y0 xend h (rec_cb cb) (h0, nil) fuel = Some r ->
    exists fl0, res_ok (mkCall x0 x0 y0 None fl0) (Rk4.r_status r) (Rk4.r_x r) (snd (Rk4.r_cb r)).
Proof. exact @Rk4Protocol.solve_trace. Qed.
Print Assumptions C19_rk4_protocol.

Theorem C19_radau_protocol :
  forall (F : Type) (O : Ops F) (H : Type) (P : Radau.params) f jacf mass x0 y0 xend rtol atol
         (cb : H -> F -> F -> list F -> option (list F * F * F) -> H * flag F * list F) (h0 : H) fuel r,
    Radau.solve O P f jacf mass x0 y0 xend rtol atol (rec_cb cb) (h0, nil) fuel = Some r ->
    exists fl0, res_ok (mkCall x0 x0 y0 None fl0) (Radau.r_status r) (Radau.r_x r) (snd (Radau.r_cb r)).
Proof. exact @RadauProtocol.solve_trace. Qed.
Print Assumptions C19_radau_protocol.

(* BDF (after "fix: BDF passes the previous accepted abscissa itself as xold": before, xold was x - h, equal to the
   previous x only up to rounding -- finding F27) *)
Theorem C19_bdf_protocol :
  forall (F : Type) (O : Ops F) (H : Type) (P : Bdf.params) f jacf x0 y0 xend rtol atol
         (cb : H -> F -> F -> list F -> option (list F * F * F) -> H * flag F * list F) (h0 : H) fuel r,
    y0 <> nil ->
    Bdf.solve O P f jacf x0 y0 xend rtol atol (rec_cb cb) (h0, nil) fuel = Some r ->
    exists fl0, res_ok (mkCall x0 x0 y0 None fl0) (Bdf.r_status r) (Bdf.r_x r) (snd (Bdf.r_cb r)).
Proof. exact @BdfProtocol.solve_trace. Qed.
Print Assumptions C19_bdf_protocol.
