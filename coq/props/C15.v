(* C15 -- mass matrices, DAEs and Jacobian sources/storages are interchangeable (storage part). *)
Require Import List Arith.
Require Import IVP.model.Ops IVP.model.Matrix IVP.model.Solve IVP.proofs.MiscFacts.
Import ListNotations.

(* with no mass matrix supplied the problem is y' = f whatever mass storage is selected
   (after "fix: the default mass matrix is the identity ..."; on the pinned tree Full gave all zeros: F10) *)
Theorem C15_default_mass_identity :
  forall (F : Type) (O : Ops F) (P : problem) st r c,
    pr_mass P = None -> mass_of O P st r c = if Nat.eqb r c then one O else zero O.
Proof. exact @default_mass_identity. Qed.
Print Assumptions C15_default_mass_identity.

(* Full and Banded storage holding the same entries denote the same matrix to the solvers *)
Theorem C15_full_vs_banded :
  forall (F : Type) (O : Ops F) rows ml mu r c,
    (in_band ml mu r c = false -> nth c (nth r rows []) (zero O) = zero O) ->
    stored O SFull rows false r c = stored O (SBanded ml mu) rows false r c.
Proof. exact @stored_full_banded. Qed.
Print Assumptions C15_full_vs_banded.

Theorem C15_band_widening :
  forall (F : Type) (O : Ops F) rows ml mu ml' mu' r c,
    ml <= ml' -> mu <= mu' ->
    (in_band ml mu r c = false -> nth c (nth r rows []) (zero O) = zero O) ->
    stored O (SBanded ml mu) rows false r c = stored O (SBanded ml' mu') rows false r c.
Proof. exact @stored_band_widen. Qed.
Print Assumptions C15_band_widening.
