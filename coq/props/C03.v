(* C03 -- interval discipline and honest status (DOPRI5 skeleton, real-arithmetic semantics).
   For ANY kernel (so in particular the real one), right-hand side and callback, from any state
   strictly before xend with a step pointing toward xend:
   every accepted abscissa moves strictly toward xend, none passes it, status Success implies
   x = xend, and x = xend implies Success or UserInterrupt. *)
Require Import Reals Lra List ZArith.
Require Import IVP.model.Lit IVP.model.Ops IVP.model.Common IVP.model.Dopri5 IVP.model.RealOps.
Require Import IVP.proofs.Dopri5Real.
Local Open Scope R_scope.

Theorem C03_dopri5_step_discipline :
  forall (H : Type) (P : params) f xend posneg hmax
         (cb : H -> R -> R -> list R -> option (list R * R * R) -> H * flag R * list R) kern,
    posneg = 1 \/ posneg = -1 -> 0 < p_scale_min P -> 0 < p_scale_max P -> 0 < p_safety P -> hmax <> 0 ->
    forall s, Inv xend posneg s ->
    match step Rops P f xend posneg hmax cb kern s with
    | inl s' => Inv xend posneg s' /\ 0 <= (s_x s' - s_x s) * posneg /\
                (s_x s' <> s_x s -> 0 < (s_x s' - s_x s) * posneg)
    | inr r => 0 <= (xend - r_x r) * posneg /\ 0 <= (r_x r - s_x s) * posneg /\
               (r_status r = Success -> r_x r = xend) /\
               (r_x r = xend -> r_status r = Success \/ r_status r = UserInterrupt)
    end.
Proof. exact @step_discipline. Qed.
Print Assumptions C03_dopri5_step_discipline.

Theorem C03_dopri5_run_discipline :
  forall (H : Type) (P : params) f xend posneg hmax
         (cb : H -> R -> R -> list R -> option (list R * R * R) -> H * flag R * list R) kern,
    posneg = 1 \/ posneg = -1 -> 0 < p_scale_min P -> 0 < p_scale_max P -> 0 < p_safety P -> hmax <> 0 ->
    forall fuel s r, Inv xend posneg s ->
    loop Rops P f xend posneg hmax cb kern fuel s = Some r ->
    0 <= (xend - r_x r) * posneg /\ 0 <= (r_x r - s_x s) * posneg /\
    (r_status r = Success -> r_x r = xend) /\
    (r_x r = xend -> r_status r = Success \/ r_status r = UserInterrupt).
Proof. exact @loop_discipline. Qed.
Print Assumptions C03_dopri5_run_discipline.

(* non-vacuity: the invariant is satisfiable (x = 0, xend = 1, h = 1/10, forward) *)
Example C03_inv_satisfiable (H : Type) (c : H) :
  Inv 1 1 (mkS 0 nil nil (1/10) 1 false false 0%N 0 0%N stats0 nil c).
Proof. unfold Inv; cbn. repeat split; lra. Qed.

(* ---------------- DOP853: the same discipline (proofs/Dop853Real.v) ---------------- *)
Require IVP.model.Dop853 IVP.proofs.Dop853Real.

Theorem C03_dop853_step_discipline :
  forall (H : Type) (P : Dop853.params) f xend posneg hmax
         (cb : H -> R -> R -> list R -> option (list R * R * R) -> H * flag R * list R) kern,
    posneg = 1 \/ posneg = -1 -> 0 < Dop853.p_scale_min P -> 0 < Dop853.p_scale_max P ->
    0 < Dop853.p_safety P -> hmax <> 0 ->
    forall s, Dop853Real.Inv xend posneg s ->
    match Dop853.step Rops P f xend posneg hmax cb kern s with
    | inl s' => Dop853Real.Inv xend posneg s' /\ 0 <= (Dop853.s_x s' - Dop853.s_x s) * posneg /\
                (Dop853.s_x s' <> Dop853.s_x s -> 0 < (Dop853.s_x s' - Dop853.s_x s) * posneg)
    | inr r => 0 <= (xend - Dop853.r_x r) * posneg /\ 0 <= (Dop853.r_x r - Dop853.s_x s) * posneg /\
               (Dop853.r_status r = Success -> Dop853.r_x r = xend) /\
               (Dop853.r_x r = xend -> Dop853.r_status r = Success \/ Dop853.r_status r = UserInterrupt)
    end.
Proof. exact @Dop853Real.step_discipline. Qed.
Print Assumptions C03_dop853_step_discipline.

Theorem C03_dop853_run_discipline :
  forall (H : Type) (P : Dop853.params) f xend posneg hmax
         (cb : H -> R -> R -> list R -> option (list R * R * R) -> H * flag R * list R) kern,
    posneg = 1 \/ posneg = -1 -> 0 < Dop853.p_scale_min P -> 0 < Dop853.p_scale_max P ->
    0 < Dop853.p_safety P -> hmax <> 0 ->
    forall fuel s r, Dop853Real.Inv xend posneg s ->
    Dop853.loop Rops P f xend posneg hmax cb kern fuel s = Some r ->
    0 <= (xend - Dop853.r_x r) * posneg /\ 0 <= (Dop853.r_x r - Dop853.s_x s) * posneg /\
    (Dop853.r_status r = Success -> Dop853.r_x r = xend) /\
    (Dop853.r_x r = xend -> Dop853.r_status r = Success \/ Dop853.r_status r = UserInterrupt).
Proof. exact @Dop853Real.loop_discipline. Qed.
Print Assumptions C03_dop853_run_discipline.

(* ---------------- RK23 (proofs/Rk23Real.v): Success is decided by the test x == xend ---------------- *)
Require IVP.model.Rk23 IVP.proofs.Rk23Real.

Theorem C03_rk23_step_discipline :
  forall (H : Type) (P : Rk23.params) f xend posneg hmax
         (cb : H -> R -> R -> list R -> option (list R * R * R) -> H * flag R * list R) kern,
    posneg = 1 \/ posneg = -1 -> 0 < Rk23.p_scale_min P -> 0 < hmax ->
    forall s, Rk23Real.Inv xend posneg s ->
    match Rk23.step Rops P f xend posneg hmax cb kern s with
    | inl s' => Rk23Real.Inv xend posneg s' /\ 0 <= (Rk23.s_x s' - Rk23.s_x s) * posneg /\
                (Rk23.s_x s' <> Rk23.s_x s -> 0 < (Rk23.s_x s' - Rk23.s_x s) * posneg)
    | inr r => 0 <= (xend - Rk23.r_x r) * posneg /\ 0 <= (Rk23.r_x r - Rk23.s_x s) * posneg /\
               (Rk23.r_status r = Success <-> Rk23.r_x r = xend /\ Rk23.r_status r <> UserInterrupt)
    end.
Proof. exact @Rk23Real.step_discipline. Qed.
Print Assumptions C03_rk23_step_discipline.

Theorem C03_rk23_run_discipline :
  forall (H : Type) (P : Rk23.params) f xend posneg hmax
         (cb : H -> R -> R -> list R -> option (list R * R * R) -> H * flag R * list R) kern,
    posneg = 1 \/ posneg = -1 -> 0 < Rk23.p_scale_min P -> 0 < hmax ->
    forall fuel s r, Rk23Real.Inv xend posneg s ->
    Rk23.loop Rops P f xend posneg hmax cb kern fuel s = Some r ->
    0 <= (xend - Rk23.r_x r) * posneg /\ 0 <= (Rk23.r_x r - Rk23.s_x s) * posneg /\
    (Rk23.r_status r = Success <-> Rk23.r_x r = xend /\ Rk23.r_status r <> UserInterrupt).
Proof. exact @Rk23Real.loop_discipline. Qed.
Print Assumptions C03_rk23_run_discipline.

(* ---------------- RK4 (proofs/Rk4Real.v; after "fix: RK4 shortens ... its last step", finding F2) ---------------- *)
Require IVP.model.Rk4 IVP.proofs.Rk4Real.

Theorem C03_rk4_step_discipline :
  forall (H : Type) (P : Rk4.params) f xend h
         (cb : H -> R -> R -> list R -> option (list R * R * R) -> H * flag R * list R) kern,
    h <> 0 ->
    forall s, Rk4Real.Inv xend h s ->
    0 < Rk4Real.htry xend h (Rk4.s_x s) * Rsignum h /\
    Rabs (Rk4Real.htry xend h (Rk4.s_x s)) < 101 / 100 * Rabs h /\
    match Rk4.step Rops P f xend h cb kern s with
    | inl s' => Rk4Real.Inv xend h s' /\ Rk4.s_x s' = Rk4.s_x s + h
    | inr r => (Rk4.r_status r = NeedLargerNMax /\ Rk4.r_x r = Rk4.s_x s) \/
               (Rk4.r_x r = Rk4.s_x s + Rk4Real.htry xend h (Rk4.s_x s) /\
                0 <= (xend - Rk4.r_x r) * Rsignum h /\
                (Rk4.r_status r = Success \/ Rk4.r_status r = UserInterrupt) /\
                (Rk4.r_status r = Success -> Rk4.r_x r = xend))
    end.
Proof. exact @Rk4Real.step_discipline. Qed.
Print Assumptions C03_rk4_step_discipline.

Theorem C03_rk4_run_discipline :
  forall (H : Type) (P : Rk4.params) f xend h
         (cb : H -> R -> R -> list R -> option (list R * R * R) -> H * flag R * list R) kern,
    h <> 0 ->
    forall fuel s r, Rk4Real.Inv xend h s ->
    Rk4.loop Rops P f xend h cb kern fuel s = Some r ->
    0 <= (xend - Rk4.r_x r) * Rsignum h /\ 0 <= (Rk4.r_x r - Rk4.s_x s) * Rsignum h /\
    (Rk4.r_status r = Success -> Rk4.r_x r = xend).
Proof. exact @Rk4Real.loop_discipline. Qed.
Print Assumptions C03_rk4_run_discipline.

(* ---------------- Radau and BDF: honest Success (real semantics, whole low-level solver) ----------------
   For ANY right-hand side, Jacobian, mass matrix, callback, tolerances and parameters: if the solver returns Success,
   the abscissa it returns is xend.  Radau: by the invariant "while `last` is set, x + h = xend", every path that changes h
   clears the flag (the seeded change C03-c removed one reset and broke exactly this theorem).  BDF: Success is returned
   only from the two tests that compare the new abscissa with xend; direction = signum(xend - x0) = +-1. *)
Require IVP.model.Radau IVP.model.Bdf IVP.proofs.RadauReal IVP.proofs.BdfReal.

Theorem C03_radau_success_means_xend :
  forall (H : Type) (P : Radau.params) f jacf mass x0 y0 xend rtol atol
         (cb : H -> R -> R -> list R -> option (list R * R * R) -> H * flag R * list R) cb0 fuel r,
    Radau.solve Rops P f jacf mass x0 y0 xend rtol atol cb cb0 fuel = Some r ->
    Radau.r_status r = Success -> Radau.r_x r = xend.
Proof. exact @RadauReal.solve_status. Qed.
Print Assumptions C03_radau_success_means_xend.

Theorem C03_bdf_success_means_xend :
  forall (H : Type) (P : Bdf.params) f jacf x0 y0 xend rtol atol
         (cb : H -> R -> R -> list R -> option (list R * R * R) -> H * flag R * list R) cb0 fuel r,
    y0 <> nil ->
    Bdf.solve Rops P f jacf x0 y0 xend rtol atol cb cb0 fuel = Some r ->
    Bdf.r_status r = Success -> Bdf.r_x r = xend.
Proof. exact @BdfReal.solve_status. Qed.
Print Assumptions C03_bdf_success_means_xend.

(* ---------------- BDF: monotone and never past xend, whole run (proofs/BdfStepBounds.v) ----------------
   Every iteration moves the abscissa in the direction of integration (or leaves it where it is: a rejected attempt) and
   never past xend; hence so does every run.  Real-number semantics, any right-hand side / Jacobian / callback. *)
Require IVP.proofs.BdfStepBounds.
Theorem C03_bdf_run_discipline :
  forall (H : Type) (P : Bdf.params (F:=R)) n f jacf atolv rtolv newton_tol maxiter xend direction hmax hmin
         (cb : H -> R -> R -> list R -> option (list R * R * R) -> H * flag R * list R),
    direction = 1 \/ direction = -1 -> 0 <= hmax -> hmin <= hmax ->
    forall fuel s r, 0 <= direction * (xend - Bdf.s_x _ s) ->
    Bdf.loop Rops P n f jacf atolv rtolv newton_tol maxiter xend direction hmax hmin cb fuel s = Some r ->
    0 <= direction * (xend - Bdf.r_x r) /\ 0 <= direction * (Bdf.r_x r - Bdf.s_x _ s).
Proof.
  intros H P n f jacf atolv rtolv nt mi xend d hmax hmin cb Hd Hm Hn fuel s r HI Hl.
  exact (BdfStepBounds.loop_bounds P n f jacf atolv rtolv nt mi xend d hmax hmin cb Hd Hm Hn fuel s r HI Hl).
Qed.
Print Assumptions C03_bdf_run_discipline.
