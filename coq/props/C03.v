(* C03 -- interval discipline and honest status (DOPRI5 skeleton, real-arithmetic semantics).
   For ANY kernel (so in particular the real one), right-hand side and callback, from any state
   strictly before xend with a step pointing toward xend:
   every accepted abscissa moves strictly toward xend, none passes it, status Success implies
   x = xend, and x = xend implies Success or UserInterrupt. *)
Require Import Reals Lra List ZArith.
Require Import IVP.model.Lit IVP.model.Ops IVP.model.Common IVP.model.Dopri5 IVP.model.RealOps.
Require Import IVP.proofs.Dopri5Real.
Local Open Scope R_scope.

Theorem C03_dopri5_step_discipline :
  forall (H : Type) (P : params) f xend posneg hmax
         (cb : H -> R -> R -> list R -> option (list R * R * R) -> H * flag R * list R) kern,
    posneg = 1 \/ posneg = -1 -> 0 < p_scale_min P -> 0 < p_scale_max P -> 0 < p_safety P -> hmax <> 0 ->
    forall s, Inv xend posneg s ->
    match step Rops P f xend posneg hmax cb kern s with
    | inl s' => Inv xend posneg s' /\ 0 <= (s_x s' - s_x s) * posneg /\
                (s_x s' <> s_x s -> 0 < (s_x s' - s_x s) * posneg)
    | inr r => 0 <= (xend - r_x r) * posneg /\ 0 <= (r_x r - s_x s) * posneg /\
               (r_status r = Success -> r_x r = xend) /\
               (r_x r = xend -> r_status r = Success \/ r_status r = UserInterrupt)
    end.
Proof. exact @step_discipline. Qed.
Print Assumptions C03_dopri5_step_discipline.

Theorem C03_dopri5_run_discipline :
  forall (H : Type) (P : params) f xend posneg hmax
         (cb : H -> R -> R -> list R -> option (list R * R * R) -> H * flag R * list R) kern,
    posneg = 1 \/ posneg = -1 -> 0 < p_scale_min P -> 0 < p_scale_max P -> 0 < p_safety P -> hmax <> 0 ->
    forall fuel s r, Inv xend posneg s ->
    loop Rops P f xend posneg hmax cb kern fuel s = Some r ->
    0 <= (xend - r_x r) * posneg /\ 0 <= (r_x r - s_x s) * posneg /\
    (r_status r = Success -> r_x r = xend) /\
    (r_x r = xend -> r_status r = Success \/ r_status r = UserInterrupt).
Proof. exact @loop_discipline. Qed.
Print Assumptions C03_dopri5_run_discipline.

(* non-vacuity: the invariant is satisfiable (x = 0, xend = 1, h = 1/10, forward) *)
Example C03_inv_satisfiable (H : Type) (c : H) :
  Inv 1 1 (mkS 0 nil nil (1/10) 1 false false 0%N 0 0%N stats0 nil c).
Proof. unfold Inv; cbn. repeat split; lra. Qed.
