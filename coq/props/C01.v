(* C01 -- tolerance-controlled accuracy (the mechanism only; the global error bound is measured, see DESIGN.md):
   a DOPRI5 step advances the solution only if its weighted error norm, built from the USER's atol/rtol, is <= 1. *)
Require Import List ZArith.
Require Import IVP.model.Ops IVP.model.Common IVP.model.Dopri5.

Theorem C01_dopri5_advance_implies_accepted :
  forall (F : Type) (O : Ops F) (H : Type) (P : params) f xend posneg hmax
         (cb : H -> F -> F -> list F -> option (list F * F * F) -> H * flag F * list F) kern s s',
    step O P f xend posneg hmax cb kern s = inl s' ->
    (* either the attempt was rejected and x did not move ... *)
    (s_x s' = s_x s /\ s_y s' = s_y s /\ s_reject s' = true) \/
    (* ... or it was accepted with error norm <= 1 for the step actually taken *)
    (let '(h, _) := landing O xend posneg (s_x s) (s_h s) (s_last s) in
     leb O (at_err (kern (s_x s) (s_y s) (s_k1 s) h)) (one O) = true /\ s_x s' = add O (s_x s) h).
Proof.
  intros F O H P f xend posneg hmax cb kern s s'. unfold step, finish.
  destruct (N.ltb _ _); [discriminate|]. destruct (leb O (mul O _ _) _); [discriminate|].
  destruct (landing _ _ _ _ _ _) as [h last].
  destruct (leb O (at_err _) (one O)) eqn:E.
  - destruct (stiff_test _ _ _ _ _ _ _) as [[[hl ns] ia] se]. destruct se; [discriminate|].
    destruct (cb _ _ _ _ _) as [[cbs fl] ycb].
    destruct fl; try discriminate;
      (destruct (after_flag _ _ _ _ _ _ _) as [[k1 st'] lg']; destruct last; [discriminate|];
       intros E2; inversion E2; subst; right; split; [reflexivity|reflexivity]).
  - intros E2. inversion E2; subst. left. repeat split.
Qed.
Print Assumptions C01_dopri5_advance_implies_accepted.

(* the norm that is compared with 1 is the RMS of e_i / (atol_i + rtol_i * max(|y_i|, |ynew_i|)) with the
   user's tolerances: by definition of the kernel (model/Dopri5.v, errnorm), replayed bit for bit *)
Theorem C01_dopri5_errnorm_uses_user_tolerances :
  forall (F : Type) (O : Ops F) f atol rtol x y k1 h,
    at_err (kernel O f atol rtol x y k1 h) =
    errnorm O (tolv atol (length y)) (tolv rtol (length y)) y
            (at_ynew (kernel O f atol rtol x y k1 h)) (at_errv (kernel O f atol rtol x y k1 h)).
Proof.
  intros. unfold kernel. destruct (RK.run_stages _ _ _ _ _ _ _ _) as [ks calls]. reflexivity.
Qed.
Print Assumptions C01_dopri5_errnorm_uses_user_tolerances.

(* the same mechanism for RK23 and DOP853 (proofs/AcceptFacts.v): an iteration that continues either leaves (x, y)
   where they were (the attempt was rejected) or went through an attempt whose error norm passed `err <= 1`.
   For DOP853 that norm is the combined estimate err / sqrt(err^2 + 0.01 err2^2) built in the kernel from the two
   embedded formulas whose orders are the theorems C02_dop853_estimators. *)
Require IVP.model.Rk23 IVP.model.Dop853 IVP.proofs.AcceptFacts.

Theorem C01_rk23_advance_implies_accepted :
  forall (F : Type) (O : Ops F) (H : Type) (P : Rk23.params) f xend posneg hmax
         (cb : H -> F -> F -> list F -> option (list F * F * F) -> H * flag F * list F) kern s s',
    Rk23.step O P f xend posneg hmax cb kern s = inl s' ->
    (Rk23.s_x s' = Rk23.s_x s /\ Rk23.s_y s' = Rk23.s_y s) \/
    exists h, leb O (Rk23.at_err (kern (Rk23.s_x s) (Rk23.s_y s) (Rk23.s_k1 s) h)) (one O) = true.
Proof.
  intros F O H P f xend posneg hmax cb kern s s' E.
  pose proof (AcceptFacts.rk23_advance_implies_accepted O P f xend posneg hmax cb kern s) as A.
  rewrite E in A. exact A.
Qed.
Print Assumptions C01_rk23_advance_implies_accepted.

Theorem C01_dop853_advance_implies_accepted :
  forall (F : Type) (O : Ops F) (H : Type) (P : Dop853.params) f xend posneg hmax
         (cb : H -> F -> F -> list F -> option (list F * F * F) -> H * flag F * list F) kern s s',
    Dop853.step O P f xend posneg hmax cb kern s = inl s' ->
    (Dop853.s_x s' = Dop853.s_x s /\ Dop853.s_y s' = Dop853.s_y s) \/
    exists h, leb O (Dop853.at_err (kern (Dop853.s_x s) (Dop853.s_y s) (Dop853.s_k1 s) h)) (one O) = true.
Proof.
  intros F O H P f xend posneg hmax cb kern s s' E.
  pose proof (AcceptFacts.dop853_advance_implies_accepted O P f xend posneg hmax cb kern s) as A.
  rewrite E in A. exact A.
Qed.
Print Assumptions C01_dop853_advance_implies_accepted.
