(* C01 -- tolerance-controlled accuracy (the mechanism only; the global error bound is measured, see DESIGN.md):
   a DOPRI5 step advances the solution only if its weighted error norm, built from the USER's atol/rtol, is <= 1. *)
Require Import List ZArith.
Require Import IVP.model.Ops IVP.model.Common IVP.model.Dopri5.

Theorem C01_dopri5_advance_implies_accepted :
  forall (F : Type) (O : Ops F) (H : Type) (P : params) f xend posneg hmax
         (cb : H -> F -> F -> list F -> option (list F * F * F) -> H * flag F * list F) kern s s',
    step O P f xend posneg hmax cb kern s = inl s' ->
    (* either the attempt was rejected and x did not move ... *)
    (s_x s' = s_x s /\ s_y s' = s_y s /\ s_reject s' = true) \/
    (* ... or it was accepted with error norm <= 1 for the step actually taken *)
    (let '(h, _) := landing O xend posneg (s_x s) (s_h s) (s_last s) in
     leb O (at_err (kern (s_x s) (s_y s) (s_k1 s) h)) (one O) = true /\ s_x s' = add O (s_x s) h).
Proof.
  intros F O H P f xend posneg hmax cb kern s s'. unfold step, finish.
  destruct (N.ltb _ _); [discriminate|]. destruct (leb O (mul O _ _) _); [discriminate|].
  destruct (landing _ _ _ _ _ _) as [h last].
  destruct (leb O (at_err _) (one O)) eqn:E.
  - destruct (stiff_test _ _ _ _ _ _ _) as [[[hl ns] ia] se]. destruct se; [discriminate|].
    destruct (cb _ _ _ _ _) as [[cbs fl] ycb].
    destruct fl; try discriminate;
      (destruct (after_flag _ _ _ _ _ _ _) as [[k1 st'] lg']; destruct last; [discriminate|];
       intros E2; inversion E2; subst; right; split; [reflexivity|reflexivity]).
  - intros E2. inversion E2; subst. left. repeat split.
Qed.
Print Assumptions C01_dopri5_advance_implies_accepted.

(* the norm that is compared with 1 is the RMS of e_i / (atol_i + rtol_i * max(|y_i|, |ynew_i|)) with the
   user's tolerances: by definition of the kernel (model/Dopri5.v, errnorm), replayed bit for bit *)
Theorem C01_dopri5_errnorm_uses_user_tolerances :
  forall (F : Type) (O : Ops F) f atol rtol x y k1 h,
    at_err (kernel O f atol rtol x y k1 h) =
    errnorm O (tolv atol (length y)) (tolv rtol (length y)) y
            (at_ynew (kernel O f atol rtol x y k1 h)) (at_errv (kernel O f atol rtol x y k1 h)).
Proof.
  intros. unfold kernel. destruct (RK.run_stages _ _ _ _ _ _ _ _) as [ks calls]. reflexivity.
Qed.
Print Assumptions C01_dopri5_errnorm_uses_user_tolerances.
