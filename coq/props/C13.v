(* C13 -- equivalent problems get equivalent answers (tolerance representation). *)
Require Import List.
Require Import IVP.model.Common IVP.proofs.MiscFacts.

(* every solver model reads tolerances only through `tolv`, and a scalar tolerance denotes literally the
   same per-component vector as the constant vector *)
Theorem C13_tol_scalar_vector :
  forall (F : Type) (v : F) n, tolv (TScalar v) n = tolv (TVector (repeat v n)) n.
Proof. exact @tolv_scalar_vector. Qed.
Print Assumptions C13_tol_scalar_vector.

(* ---------------- duplication: the error norm is blind to identical copies (real semantics) ---------------- *)
Require Import List Reals.
Require Import IVP.model.RealOps IVP.proofs.NormCopies.
Require IVP.model.Dopri5 IVP.model.Rk23.

Theorem C13_dopri5_errnorm_copies :
  forall m (atolv rtolv y ynew e : list R),
    (0 < m)%nat -> (0 < length y)%nat ->
    length atolv = length y -> length rtolv = length y -> length ynew = length y -> length e = length y ->
    Dopri5.errnorm Rops (dup m atolv) (dup m rtolv) (dup m y) (dup m ynew) (dup m e) =
    Dopri5.errnorm Rops atolv rtolv y ynew e.
Proof. exact dopri5_errnorm_copies. Qed.
Print Assumptions C13_dopri5_errnorm_copies.

Theorem C13_rk23_errnorm_copies :
  forall m (atolv rtolv y ynew e : list R),
    (0 < m)%nat -> (0 < length y)%nat ->
    length atolv = length y -> length rtolv = length y -> length ynew = length y -> length e = length y ->
    Rk23.errnorm Rops (dup m atolv) (dup m rtolv) (dup m y) (dup m ynew) (dup m e) =
    Rk23.errnorm Rops atolv rtolv y ynew e.
Proof. exact rk23_errnorm_copies. Qed.
Print Assumptions C13_rk23_errnorm_copies.

(* ---------------- time reflection (real semantics) ----------------
   the stage recurrence shared by all four explicit methods, for ANY tableau description: the reflected problem
   z'(s) = -f(-s, z), started at -x with step -h and negated first slope(s), is evaluated at the mirrored times with the
   SAME state arguments and returns the negated slopes; one DOPRI5 attempt then has the same new state, error vector and
   error norm, so that the accept/reject decision and the proposed step length are mirrored too. *)
Require Import IVP.model.RK IVP.proofs.ReflectKernel.

Theorem C13_stage_recurrence_mirrors_under_time_reflection :
  forall f x h y sts ks calls,
    run_stages Rops (refl f) (- x)%R (- h)%R y sts (map negv ks) (map (fun c => (- fst c, snd c)%R) calls) =
    let '(ks', calls') := run_stages Rops f x h y sts ks calls in
    (map negv ks', map (fun c => (- fst c, snd c)%R) calls').
Proof. exact run_stages_reflect. Qed.
Print Assumptions C13_stage_recurrence_mirrors_under_time_reflection.

Theorem C13_dopri5_attempt_mirrors_under_time_reflection :
  forall f atol rtol x y k1 h,
    let a := Dopri5.kernel Rops f atol rtol x y k1 h in
    let a' := Dopri5.kernel Rops (refl f) atol rtol (- x)%R y (negv k1) (- h)%R in
    Dopri5.at_ynew a' = Dopri5.at_ynew a /\ Dopri5.at_errv a' = Dopri5.at_errv a /\ Dopri5.at_err a' = Dopri5.at_err a /\
    Dopri5.at_knew a' = negv (Dopri5.at_knew a) /\ Dopri5.at_ks a' = map negv (Dopri5.at_ks a) /\
    Dopri5.at_calls a' = map (fun c => (- fst c, snd c)%R) (Dopri5.at_calls a).
Proof. exact dopri5_attempt_reflect. Qed.
Print Assumptions C13_dopri5_attempt_mirrors_under_time_reflection.
