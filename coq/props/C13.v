(* C13 -- equivalent problems get equivalent answers (tolerance representation). *)
Require Import List.
Require Import IVP.model.Common IVP.proofs.MiscFacts.

(* every solver model reads tolerances only through `tolv`, and a scalar tolerance denotes literally the
   same per-component vector as the constant vector *)
Theorem C13_tol_scalar_vector :
  forall (F : Type) (v : F) n, tolv (TScalar v) n = tolv (TVector (repeat v n)) n.
Proof. exact @tolv_scalar_vector. Qed.
Print Assumptions C13_tol_scalar_vector.
