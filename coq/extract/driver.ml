(* Reads the same case lines as the Rust harness, runs the extracted Coq model, prints the same
   result format.  Everything numeric happens inside Model (extracted); this file only parses,
   builds closures for the expression language, and prints. *)
open Model

let unhx (s : string) : float = Int64.float_of_bits (Int64.of_string s)
let bits (v : float) : int64 = if Float.is_nan v then 0x7ff8000000000000L else Int64.bits_of_float v
let hx (v : float) : string = Printf.sprintf "0x%016Lx" (bits v)

let rec nat_of_int n = let rec go acc k = if k = 0 then acc else go (S acc) (k - 1) in go O n
let rec int_of_nat = function O -> 0 | S k -> 1 + int_of_nat k
let int_of_nat n = let rec go acc = function O -> acc | S k -> go (acc + 1) k in go 0 n

let rec pos_of_int (n : int) : positive =
  if n = 1 then XH else if n land 1 = 0 then XO (pos_of_int (n lsr 1)) else XI (pos_of_int (n lsr 1))
let n_of_int (n : int) : n = if n = 0 then N0 else Npos (pos_of_int n)
let rec int_of_pos = function XH -> 1 | XO p -> 2 * int_of_pos p | XI p -> 2 * int_of_pos p + 1
let int_of_n = function N0 -> 0 | Npos p -> int_of_pos p
(* decimal string <-> N, for values up to 2^64-1, through unsigned Int64 *)
let rec pos_of_u64 (x : int64) : positive =
  if x = 1L then XH
  else if Int64.logand x 1L = 0L then XO (pos_of_u64 (Int64.shift_right_logical x 1))
  else XI (pos_of_u64 (Int64.shift_right_logical x 1))
let n_of_string (s : string) : n =
  let x = Int64.of_string ("0u" ^ s) in if x = 0L then N0 else Npos (pos_of_u64 x)
let rec u64_of_pos = function
  | XH -> 1L
  | XO p -> Int64.shift_left (u64_of_pos p) 1
  | XI p -> Int64.logor (Int64.shift_left (u64_of_pos p) 1) 1L
let string_of_n (x : n) : string =
  match x with N0 -> "0" | Npos p -> Printf.sprintf "%Lu" (u64_of_pos p)

let split_on c s = String.split_on_char c s
let unlist (s : string) : float list =
  match String.index_opt s ':' with
  | None -> []
  | Some i ->
    let body = String.sub s (i + 1) (String.length s - i - 1) in
    if body = "" then [] else List.map unhx (split_on ',' body)
let hxlist (l : float list) = String.concat "," (List.map hx l)

(* ---- expression language ---- *)
type expr =
  | Const of float | T | Y of int
  | Add of expr * expr | Sub of expr * expr | Mul of expr * expr | Div of expr * expr
  | Neg of expr | Abs of expr | Sqrt of expr | IfLt of expr * expr * expr * expr

let parse_expr (s : string) : expr =
  let toks = Array.of_list (split_on ',' s) in
  let pos = ref 0 in
  let rec go () =
    let t = toks.(!pos) in
    incr pos;
    match t with
    | "t" -> T
    | "+" -> let a = go () in let b = go () in Add (a, b)
    | "-" -> let a = go () in let b = go () in Sub (a, b)
    | "*" -> let a = go () in let b = go () in Mul (a, b)
    | "/" -> let a = go () in let b = go () in Div (a, b)
    | "neg" -> Neg (go ())
    | "abs" -> Abs (go ())
    | "sqrt" -> Sqrt (go ())
    | "iflt" -> let a = go () in let b = go () in let c = go () in let d = go () in IfLt (a, b, c, d)
    | _ when t.[0] = 'y' -> Y (int_of_string (String.sub t 1 (String.length t - 1)))
    | _ when t.[0] = 'c' -> Const (unhx (String.sub t 1 (String.length t - 1)))
    | _ -> failwith ("bad token " ^ t)
  in
  let e = go () in
  assert (!pos = Array.length toks); e

let rec eval (e : expr) (t : float) (y : float array) : float =
  match e with
  | Const c -> c | T -> t | Y i -> y.(i)
  | Add (a, b) -> let x = eval a t y in let z = eval b t y in x +. z
  | Sub (a, b) -> let x = eval a t y in let z = eval b t y in x -. z
  | Mul (a, b) -> let x = eval a t y in let z = eval b t y in x *. z
  | Div (a, b) -> let x = eval a t y in let z = eval b t y in x /. z
  | Neg a -> -. (eval a t y)
  | Abs a -> Float.abs (eval a t y)
  | Sqrt a -> Float.sqrt (eval a t y)
  | IfLt (a, b, c, d) -> if eval a t y < eval b t y then eval c t y else eval d t y

let kv_of_line (line : string) : string * (string, string) Hashtbl.t =
  let toks = List.filter (fun s -> s <> "") (split_on ' ' line) in
  let h = Hashtbl.create 32 in
  match toks with
  | [] -> ("", h)
  | kind :: rest ->
    List.iter (fun tok ->
        match String.index_opt tok '=' with
        | Some i -> Hashtbl.replace h (String.sub tok 0 i) (String.sub tok (i + 1) (String.length tok - i - 1))
        | None -> ()) rest;
    (kind, h)

let get h k d = match Hashtbl.find_opt h k with Some v -> v | None -> d
let opt_f s = if s = "none" then None else Some (unhx s)

let parse_tol (s : string) : float tol =
  let i = String.index s ':' in
  let k = String.sub s 0 i and body = String.sub s (i + 1) (String.length s - i - 1) in
  if k = "s" then TScalar (unhx body)
  else TVector (if body = "" then [] else List.map unhx (split_on ',' body))

let parse_method = function
  | "RK4" -> MRK4 | "RK23" -> MRK23 | "DOPRI5" -> MDOPRI5 | "DOP853" -> MDOP853
  | "RADAU" -> MRADAU | "BDF" -> MBDF | _ -> failwith "method"

let status_name = function
  | Success -> "Success" | UserInterrupt -> "UserInterrupt" | NeedLargerNMax -> "NeedLargerNMax"
  | StepSizeTooSmall -> "StepSizeTooSmall" | ProbablyStiff -> "ProbablyStiff"
  | SingularMatrix -> "SingularMatrix" | PoorConvergence -> "PoorConvergence"

let fops : float ops = fops Float.pow

let body_after_colon s =
  let i = String.index s ':' in String.sub s (i + 1) (String.length s - i - 1)

let parse_exprs (s : string) : expr list =
  let b = body_after_colon s in if b = "" then [] else List.map parse_expr (split_on ';' b)

let log_summary (name : string) (log : (float * float list) list) (full : bool) (buf : Buffer.t) =
  let h = ref 0xcbf29ce484222325L in
  let word (w : int64) = h := Int64.mul (Int64.logxor !h w) 1099511628211L in
  let n = ref 0 in
  List.iter (fun (t, y) -> incr n; word (bits t); List.iter (fun v -> word (bits v)) y) log;
  Buffer.add_string buf (Printf.sprintf "%s %d 0x%016Lx\n" name !n !h);
  if full then
    List.iter (fun (t, y) -> Buffer.add_string buf (Printf.sprintf " %scall %s %s\n" name (hx t) (hxlist y))) log

(* unbounded fuel: a cyclic value of the extracted type nat = O | S of nat.  The model's loops then end exactly when the
   modelled solver ends (out-of-fuel, which every theorem excludes, cannot occur); a run that does not end is cut by the
   runner's timeout, like the implementation's. *)
let rec fuel = S fuel

let run_solve (h : (string, string) Hashtbl.t) : string =
  let buf = Buffer.create 4096 in
  let fexprs = parse_exprs (get h "f" "0:") in
  let f t y = let ya = Array.of_list y in List.map (fun e -> eval e t ya) fexprs in
  let evb = body_after_colon (get h "ev" "0:") in
  let evs = if evb = "" then [] else
      List.map (fun e ->
          match String.split_on_char '/' e with
          | d :: t :: rest ->
            let ex = parse_expr (String.concat "/" rest) in
            let dir = let d = int_of_string d in if d > 0 then DirPositive else if d < 0 then DirNegative else DirAll in
            let term = if t = "none" then None else Some (n_of_int (int_of_string t)) in
            ({ ec_dir = dir; ec_terminal = term }, ex)
          | _ -> failwith "ev") (split_on ';' evb) in
  let evf t y = let ya = Array.of_list y in List.map (fun (_, e) -> eval e t ya) evs in
  let jacspec = get h "jac" "none" in
  let pr_jac = if jacspec = "none" then None else begin
      let i = String.index jacspec ':' in
      let n = int_of_string (String.sub jacspec 0 i) in
      let es = Array.of_list (List.map parse_expr (split_on ';' (String.sub jacspec (i + 1) (String.length jacspec - i - 1)))) in
      Some (fun t y -> let ya = Array.of_list y in
             List.init n (fun r -> List.init n (fun c -> eval es.(r * n + c) t ya)))
    end in
  let massspec = get h "mass" "none" in
  let pr_mass = if massspec = "none" then None else begin
      let i = String.index massspec ':' in
      let n = int_of_string (String.sub massspec 0 i) in
      let vs = Array.of_list (List.map unhx (split_on ',' (String.sub massspec (i + 1) (String.length massspec - i - 1)))) in
      Some (List.init n (fun r -> List.init n (fun c -> vs.(r * n + c))))
    end in
  let parse_storage s =
    if s = "identity" then SIdentity else if s = "full" then SFull
    else match split_on ':' s with
      | [_; ml; mu] -> SBanded (nat_of_int (int_of_string ml), nat_of_int (int_of_string mu))
      | _ -> failwith "storage" in
  let pr = { pr_f = f; pr_events = evf; pr_nevents = nat_of_int (List.length evs); pr_evcfg = List.map fst evs;
             pr_jac = pr_jac; pr_mass = pr_mass } in
  let x0 = unhx (Hashtbl.find h "x0") and xend = unhx (Hashtbl.find h "xend") in
  let y0 = unlist (Hashtbl.find h "y0") in
  let full = get h "full" "0" = "1" in
  let meth = parse_method (Hashtbl.find h "method") in
  let opt = {
    o_method = meth;
    o_rtol = parse_tol (Hashtbl.find h "rtol"); o_atol = parse_tol (Hashtbl.find h "atol");
    o_max_steps = (let s = get h "maxsteps" "none" in if s = "none" then None else Some (n_of_string s));
    o_t_eval = (let s = get h "teval" "none" in if s = "none" then None else Some (unlist s));
    o_first_step = opt_f (get h "firststep" "none");
    o_max_step = opt_f (get h "maxstep" "none");
    o_min_step = opt_f (get h "minstep" "none");
    o_dense = (get h "dense" "0" = "1");
    o_defaults = unlist (get h "defaults" "0:");
    o_nstiff = n_of_int (int_of_string (get h "nstiff" "1000"));
    o_jac_storage = parse_storage (get h "jacstorage" "full");
    o_mass_storage = parse_storage (get h "massstorage" "identity");
  } in
  let query = unlist (get h "query" "0:") in
  (match solve_ivp fops pr x0 xend y0 opt fuel with
   | None -> Buffer.add_string buf "error\n"
   | Some s ->
     Buffer.add_string buf (Printf.sprintf "status %s\n" (status_name s.sol_status));
     let st = s.sol_stats in
     Buffer.add_string buf (Printf.sprintf "stats %s %s %s %s %s %s\n" (string_of_n st.nfev) (string_of_n st.njev)
                              (string_of_n st.nlu) (string_of_n st.nstep) (string_of_n st.naccpt) (string_of_n st.nrejct));
     Buffer.add_string buf (Printf.sprintf "t %d %s\n" (List.length s.sol_t) (hxlist s.sol_t));
     Buffer.add_string buf (Printf.sprintf "y %d" (List.length s.sol_y));
     List.iter (fun yi -> Buffer.add_string buf (" " ^ hxlist yi)) s.sol_y;
     Buffer.add_char buf '\n';
     List.iteri (fun i te ->
         Buffer.add_string buf (Printf.sprintf "tev %d %d %s\n" i (List.length te) (hxlist te));
         let ye = List.nth s.sol_yev i in
         Buffer.add_string buf (Printf.sprintf "yev %d %d" i (List.length ye));
         List.iter (fun yi -> Buffer.add_string buf (" " ^ hxlist yi)) ye;
         Buffer.add_char buf '\n') s.sol_tev;
     log_summary "odelog" s.sol_odelog full buf;
     log_summary "evlog" s.sol_evlog full buf;
     log_summary "jaclog" s.sol_jaclog full buf;
     if pr_jac = None && pr_mass = None && (meth = MRADAU || meth = MBDF) then Buffer.add_string buf "fd_default_same true\n";
     (match s.sol_segs with
      | None -> Buffer.add_string buf "span none\n"
      | Some segs ->
        (match t_span fops segs with
         | None -> Buffer.add_string buf "span none\n"
         | Some (a, b) -> Buffer.add_string buf (Printf.sprintf "span %s %s\n" (hx a) (hx b))));
     (match s.sol_segs with
      | None -> ()
      | Some _ ->
        let maxdev = ref 0.0 and fails = ref 0 in
        let nt = List.length s.sol_t in
        let stride = max 1 (nt / 200) in
        let idx = ref (-1) in
        List.iter2 (fun ti yi ->
            incr idx;
            if nt > 2000 && !idx >= 100 && !idx + 100 < nt && !idx mod stride <> 0 then ()
            else
            match sol_eval fops meth (nat_of_int (List.length y0)) s ti with
            | SolOk v -> List.iter2 (fun a b -> let d = Float.abs (a -. b) in if d > !maxdev || Float.is_nan d then maxdev := d) v yi
            | _ -> incr fails) s.sol_t s.sol_y;
        Buffer.add_string buf (Printf.sprintf "selfsol fails=%d maxdev=%s\n" !fails (hx !maxdev)));
     (match s.sol_segs with
      | None -> ()
      | Some _ ->
        List.iteri (fun i (tev, yev) ->
            let maxdev = ref 0.0 and fails = ref 0 in
            List.iter2 (fun te ye ->
                match sol_eval fops meth (nat_of_int (List.length y0)) s te with
                | SolOk v -> List.iter2 (fun a b -> let d = Float.abs (a -. b) in if d > !maxdev || Float.is_nan d then maxdev := d) v ye
                | _ -> incr fails) tev yev;
            Buffer.add_string buf (Printf.sprintf "evsol %d fails=%d maxdev=%s\n" i !fails (hx !maxdev)))
          (List.combine s.sol_tev s.sol_yev));
     if get h "py" "0" = "1" then begin
       let z_to_int = function Z0 -> 0 | Zpos p -> int_of_pos p | Zneg p -> - (int_of_pos p) in
       Buffer.add_string buf (Printf.sprintf "pystatus %d %s\n" (z_to_int (py_status s.sol_status))
                                (if py_success s.sol_status then "True" else "False"));
       Buffer.add_string buf (Printf.sprintf "pystats %s %s %s\n" (string_of_n st.nfev)
                                (if get h "constjac" "0" = "1" then "0" else string_of_n st.njev) (string_of_n st.nlu));
       let flat = py_transpose 0.0 s.sol_y in
       let n = match s.sol_y with [] -> 0 | y :: _ -> List.length y in
       Buffer.add_string buf (Printf.sprintf "ypy %d %d %s\n" n (List.length s.sol_y) (hxlist flat))
     end;
     List.iter (fun q ->
         match sol_eval fops meth (nat_of_int (List.length y0)) s q with
         | SolOk v -> Buffer.add_string buf (Printf.sprintf "sol %s ok %s\n" (hx q) (hxlist v))
         | SolNotEnabled -> Buffer.add_string buf (Printf.sprintf "sol %s notenabled\n" (hx q))
         | SolOutOfRange -> Buffer.add_string buf (Printf.sprintf "sol %s outofrange\n" (hx q))) query;
       let nn = nat_of_int (List.length y0) in
       let okq = List.filter (fun q -> match sol_eval fops meth nn s q with SolOk _ -> true | _ -> false) query in
       List.iter (fun (tag, list, each) ->
           match sol_many fops meth nn s list with
           | SolManyOk vs ->
             if each then List.iter2 (fun t v -> Buffer.add_string buf (Printf.sprintf "solm %s %s ok %s\n" tag (hx t) (hxlist v))) list vs
             else Buffer.add_string buf (Printf.sprintf "solm %s ok %d\n" tag (List.length vs))
           | SolManyNotEnabled -> Buffer.add_string buf (Printf.sprintf "solm %s notenabled\n" tag)
           | SolManyOutOfRange t -> Buffer.add_string buf (Printf.sprintf "solm %s outofrange %s\n" tag (hx t)))
         [("f", okq, true); ("r", List.rev okq, true); ("a", query, false)]);
  Buffer.contents buf

(* ---------------- matrix / lu ---------------- *)
let parse_st (s : string) : storage =
  if s = "identity" then SIdentity else if s = "full" then SFull
  else match split_on '-' s with
    | [_; ml; mu] -> SBanded (nat_of_int (int_of_string ml), nat_of_int (int_of_string mu))
    | _ -> failwith "st"

let st_name = function
  | SIdentity -> "identity" | SFull -> "full"
  | SBanded (ml, mu) -> Printf.sprintf "banded-%d-%d" (int_of_nat ml) (int_of_nat mu)

let ctor (s : string) : float matrix option =
  let p = Array.of_list (split_on ':' s) in
  let u i = nat_of_int (int_of_string p.(i)) in
  let lst i = unlist (p.(i) ^ ":" ^ (if Array.length p > i + 1 then p.(i + 1) else "")) in
  match p.(0) with
  | "identity" -> Some (identity fops (u 1))
  | "zeros" -> Some (zeros fops (u 1) (u 2))
  | "full" -> Some (full fops (u 1) (u 2))
  | "square" -> Some (square fops (u 1))
  | "banded" -> Some (banded fops (u 1) (u 2) (u 3))
  | "lower" -> Some (lower_triangular fops (u 1))
  | "upper" -> Some (upper_triangular fops (u 1))
  | "diag" -> Some (diagonal (lst 1))
  | "fromvec" -> from_vec (u 1) (u 2) (lst 3)
  | "fromstorage" -> Some (from_storage fops (u 1) (u 2) (parse_st p.(3)))
  | _ -> failwith "ctor"

let build (c : string) (w : string) : float matrix option =
  match ctor c with
  | None -> None
  | Some m ->
    let body = body_after_colon w in
    if body = "" then Some m else
      List.fold_left (fun acc t ->
          match acc with
          | None -> None
          | Some m ->
            (match split_on '/' t with
             | [i; j; v] -> set m (nat_of_int (int_of_string i)) (nat_of_int (int_of_string j)) (unhx v)
             | _ -> failwith "write")) (Some m) (split_on ',' body)

let run_matrix (h : (string, string) Hashtbl.t) : string =
  let buf = Buffer.create 1024 in
  match build (Hashtbl.find h "a") (get h "aw" "0:") with
  | None -> "A panic\n"
  | Some a ->
    Buffer.add_string buf "A ok\n";
    let bspec = get h "b" "none" in
    let b = if bspec = "none" then Some None else
        (match build bspec (get h "bw" "0:") with None -> None | Some b -> Some (Some b)) in
    (match b with
     | None -> Buffer.add_string buf "B panic\n"; Buffer.contents buf
     | Some b ->
       let op = get h "op" "none" in
       let p = Array.of_list (split_on ':' op) in
       let getb () = match b with Some b -> b | None -> failwith "no b" in
       let r = match p.(0) with
         | "none" -> Some a
         | "add" | "addassign" -> addsub fops false a (getb ())
         | "sub" | "subassign" | "subassignref" -> addsub fops true a (getb ())
         | "cadd" -> Some (caddsub fops false a (unhx p.(1)))
         | "csub" -> Some (caddsub fops true a (unhx p.(1)))
         | "cmul" -> Some (cmul fops a (unhx p.(1)))
         | "cmulmut" -> Some (cmul_mut fops a (unhx p.(1)))
         | _ -> failwith "op" in
       (match r with
        | None -> Buffer.add_string buf "op panic\n"
        | Some r ->
          let n = int_of_nat r.m_n and m = int_of_nat r.m_m in
          Buffer.add_string buf (Printf.sprintf "R %s %d %d\n" (st_name r.m_st) n m);
          Buffer.add_string buf (Printf.sprintf "data %s\n" (hxlist r.m_data));
          for i = 0 to n - 1 do
            let row = List.init m (fun j -> match Model.get fops r (nat_of_int i) (nat_of_int j) with Some v -> hx v | None -> "P") in
            Buffer.add_string buf (Printf.sprintf "row %d %s\n" i (String.concat "," row))
          done;
          Buffer.add_string buf (Printf.sprintf "oob %s\n" (match Model.get fops r r.m_n O with Some _ -> "ok" | None -> "P"));
          Buffer.add_string buf (Printf.sprintf "isid %s\n"
                                   (match is_identity fops r with Some true -> "true" | Some false -> "false" | None -> "P")));
       Buffer.contents buf)

let run_lu (h : (string, string) Hashtbl.t) : string =
  let buf = Buffer.create 1024 in
  let n = int_of_string (Hashtbl.find h "n") and cols = int_of_string (Hashtbl.find h "cols")
  and iplen = int_of_string (Hashtbl.find h "iplen") in
  let adata = Array.of_list (unlist (Hashtbl.find h "a")) in
  let b0 = Array.of_list (unlist (Hashtbl.find h "b")) in
  if Array.length adata <> n * cols then "res panic\n" else begin
    let a i j = let i = int_of_nat i and j = int_of_nat j in
      if i < n && j < cols then adata.(i * cols + j) else 0.0 in
    (match lu_decomp fops (nat_of_int n) (nat_of_int cols) (nat_of_int iplen) a (fun _ -> nat_of_int 7) with
     | LuSingular -> Buffer.add_string buf "res singular\n"
     | LuNonSquare -> Buffer.add_string buf "res nonsquare\n"
     | LuPivotSize -> Buffer.add_string buf "res pivotsize\n"
     | LuOk (lu, ip) ->
       Buffer.add_string buf "res ok\n";
       let cells = List.concat (List.init n (fun i -> List.init n (fun j -> lu (nat_of_int i) (nat_of_int j)))) in
       Buffer.add_string buf (Printf.sprintf "lu %s\n" (hxlist cells));
       let nip = if n = 1 then 1 else n - 1 in
       Buffer.add_string buf (Printf.sprintf "ip %s\n" (String.concat "," (List.init nip (fun k -> string_of_int (int_of_nat (ip (nat_of_int k)))))));
       if Array.length b0 < n then Buffer.add_string buf "solve panic\n" else begin
         let b i = let i = int_of_nat i in if i < Array.length b0 then b0.(i) else 0.0 in
         let x = lin_solve fops (nat_of_int n) lu ip b in
         Buffer.add_string buf (Printf.sprintf "x %s\n" (hxlist (List.init (Array.length b0) (fun i -> x (nat_of_int i)))));
         Buffer.add_string buf "a_untouched true\n"
       end);
    Buffer.contents buf
  end

(* complex LU (square inputs only; the shape rejections are checked on the implementation's result alone) *)
let run_luc (h : (string, string) Hashtbl.t) : string =
  let buf = Buffer.create 1024 in
  let n = int_of_string (Hashtbl.find h "n") in
  let cols = int_of_string (get h "cols" (string_of_int n)) and iplen = int_of_string (Hashtbl.find h "iplen") in
  let ard = Array.of_list (unlist (Hashtbl.find h "ar")) and aid = Array.of_list (unlist (Hashtbl.find h "ai")) in
  let br0 = Array.of_list (unlist (Hashtbl.find h "br")) and bi0 = Array.of_list (unlist (Hashtbl.find h "bi")) in
  if Array.length ard <> n * cols || Array.length aid <> n * cols then "res panic\n" else begin
  let mk d i j = let i = int_of_nat i and j = int_of_nat j in if i < n && j < cols then d.(i * cols + j) else 0.0 in
  (match lu_decomp_complex_checked fops (nat_of_int n) (nat_of_int cols) (nat_of_int n) (nat_of_int cols) (nat_of_int iplen)
           (mk ard) (mk aid) (fun _ -> nat_of_int 7) with
   | LucSingular -> Buffer.add_string buf "res singular\n"
   | LucNonSquare -> Buffer.add_string buf "res nonsquare\n"
   | LucPivotSize -> Buffer.add_string buf "res pivotsize\n"
   | LucOk (lr, li, ip) ->
     Buffer.add_string buf "res ok\n";
     let cells m = List.concat (List.init n (fun i -> List.init n (fun j -> m (nat_of_int i) (nat_of_int j)))) in
     Buffer.add_string buf (Printf.sprintf "lur %s\n" (hxlist (cells lr)));
     Buffer.add_string buf (Printf.sprintf "lui %s\n" (hxlist (cells li)));
     let nip = if n = 1 then 1 else n - 1 in
     Buffer.add_string buf (Printf.sprintf "ip %s\n" (String.concat "," (List.init nip (fun k -> string_of_int (int_of_nat (ip (nat_of_int k)))))));
     let vec d i = let i = int_of_nat i in if i < Array.length d then d.(i) else 0.0 in
     let (xr, xi) = lin_solve_complex fops (nat_of_int n) lr li ip (vec br0) (vec bi0) in
     Buffer.add_string buf (Printf.sprintf "xr %s\n" (hxlist (List.init n (fun i -> xr (nat_of_int i)))));
     Buffer.add_string buf (Printf.sprintf "xi %s\n" (hxlist (List.init n (fun i -> xi (nat_of_int i)))));
     Buffer.add_string buf "a_untouched true\n");
  Buffer.contents buf
  end

(* ---------------- low-level API with a scripted SolOut ---------------- *)
type cbst = { cnt : int; trace : (float * float * float list * bool * float list) list }

let run_lowlevel (h : (string, string) Hashtbl.t) : string =
  let buf = Buffer.create 4096 in
  let fexprs = parse_exprs (get h "f" "0:") in
  let f t y = let ya = Array.of_list y in List.map (fun e -> eval e t ya) fexprs in
  let jacspec = get h "jac" "none" in
  let pr_jac = if jacspec = "none" then None else begin
      let i = String.index jacspec ':' in
      let n = int_of_string (String.sub jacspec 0 i) in
      let es = Array.of_list (List.map parse_expr (split_on ';' (String.sub jacspec (i + 1) (String.length jacspec - i - 1)))) in
      Some (fun t y -> let ya = Array.of_list y in
             List.init n (fun r -> List.init n (fun c -> eval es.(r * n + c) t ya)))
    end in
  let pr = { pr_f = f; pr_events = (fun _ _ -> []); pr_nevents = O; pr_evcfg = []; pr_jac = pr_jac; pr_mass = None } in
  let x0 = unhx (Hashtbl.find h "x0") and xend = unhx (Hashtbl.find h "xend") in
  let y0 = unlist (Hashtbl.find h "y0") in
  let full = get h "full" "0" = "1" in
  let meth = parse_method (Hashtbl.find h "method") in
  let opt = {
    o_method = meth;
    o_rtol = parse_tol (Hashtbl.find h "rtol"); o_atol = parse_tol (Hashtbl.find h "atol");
    o_max_steps = Some (n_of_string (Hashtbl.find h "maxsteps"));
    o_t_eval = None;
    o_first_step = opt_f (get h "firststep" "none");
    o_max_step = opt_f (get h "maxstep" "none");
    o_min_step = None;
    o_dense = true;
    o_defaults = unlist (get h "defaults" "0:");
    o_nstiff = n_of_int (int_of_string (get h "nstiff" "1000"));
    o_jac_storage = SFull; o_mass_storage = SIdentity;
  } in
  let actions = Hashtbl.create 8 in
  let sb = body_after_colon (get h "script" "0:") in
  if sb <> "" then List.iter (fun t -> match split_on '/' t with
      | [i; a; v] -> Hashtbl.replace actions (int_of_string i) (a.[0], unhx v)
      | _ -> failwith "script") (split_on ',' sb);
  let n = nat_of_int (List.length y0) in
  let cb (st : cbst) xold x y sg =
    let mid = xold +. 0.5 *. (x -. xold) in
    let ym = match sg with
      | Some ((cont, xo), hh) -> interp_fn fops meth cont xo hh mid n
      | None -> List.map (fun _ -> 0.0) y in
    let st' = { cnt = st.cnt + 1; trace = (xold, x, y, (sg <> None), ym) :: st.trace } in
    match Hashtbl.find_opt actions st.cnt with
    | Some ('I', _) -> ((st', Interrupt), y)
    | Some ('M', v) -> ((st', ModifiedSolution), List.map (fun yi -> yi *. v) y)
    | Some ('N', _) -> ((st', ModifiedSolution), y)
    | _ -> ((st', Continue), y) in
  (match run_method fops pr x0 xend y0 opt cb { cnt = 0; trace = [] } fuel with
   | None -> Buffer.add_string buf "error\n"
   | Some (((((((status, st), log), cbs), hfin), jl), _), _) ->
     Buffer.add_string buf (Printf.sprintf "status %s\n" (status_name status));
     Buffer.add_string buf (Printf.sprintf "stats %s %s %s %s %s %s\n" (string_of_n st.nfev) (string_of_n st.njev)
                              (string_of_n st.nlu) (string_of_n st.nstep) (string_of_n st.naccpt) (string_of_n st.nrejct));
     Buffer.add_string buf (Printf.sprintf "hfinal %s\n" (hx hfin));
     let tr = List.rev cbs.trace in
     let hh = ref 0xcbf29ce484222325L in
     let word (w : int64) = hh := Int64.mul (Int64.logxor !hh w) 1099511628211L in
     List.iter (fun (xo, x, y, has, ym) ->
         word (bits xo); word (bits x); List.iter (fun v -> word (bits v)) y;
         word (if has then 1L else 0L); List.iter (fun v -> word (bits v)) ym) tr;
     let ntr = List.length tr in
     Buffer.add_string buf (Printf.sprintf "trace %d 0x%016Lx\n" ntr !hh);
     List.iteri (fun k (xo, x, y, has, ym) ->
         if full || k < 3 || k + 2 >= ntr then
           Buffer.add_string buf (Printf.sprintf " call %d %s %s %s %d %s\n" k (hx xo) (hx x) (hxlist y) (if has then 1 else 0) (hxlist ym))) tr;
     log_summary "odelog" (List.rev log) full buf;
     log_summary "jaclog" (List.rev jl) full buf);
  Buffer.contents buf

let run_group (h : (string, string) Hashtbl.t) : string =
  (* cols=<k>:r,r|r|...  (rows of each column separated by '|', empty allowed) *)
  let spec = body_after_colon (Hashtbl.find h "cols") in
  let cols = if spec = "" then [] else
      List.map (fun c -> if c = "" then [] else List.map (fun r -> nat_of_int (int_of_string r)) (split_on ',' c)) (split_on '|' spec) in
  let (assign, ng) = group_columns cols in
  Printf.sprintf "groups %s\nngroups %d\n" (String.concat "," (List.map (fun g -> string_of_int (int_of_nat g)) assign)) (int_of_nat ng)

let () =
  try
    while true do
      let line = input_line stdin in
      if String.length line > 0 && line.[0] <> '#' then begin
        let (kind, h) = kv_of_line line in
        Printf.printf "case %s\n" (get h "id" "");
        let body =
          try
            (match kind with
             | "solve" -> run_solve h
             | "lowlevel" -> run_lowlevel h
             | "group" -> run_group h
             | "matrix" -> run_matrix h
             | "lu" -> run_lu h
             | "luc" -> run_luc h
             | _ -> "unknown-kind\n")
          with
          | Stack_overflow -> "driver-stack-overflow\n"
          | Failure m -> "driver-failure " ^ m ^ "\n"
          | Not_found -> "driver-not-found\n"
          | Invalid_argument m -> "driver-invalid " ^ m ^ "\n" in
        print_string body;
        print_string "end\n"
      end
    done
  with End_of_file -> ()
