(* Extraction of the executable model to OCaml for the bit-exact correspondence runs.
   Directives used: ExtrOcamlBasic (bool, option, prod, list, unit, sumbool),
   ExtrOCamlFloats (PrimFloat.* -> Float64.* of our float64.ml shim).  Nothing else:
   nat, N, positive, Z stay the extracted inductive types. *)
Require Import ExtrOcamlBasic ExtrOCamlFloats.
Require Import IVP.model.Lit IVP.model.Ops IVP.model.FloatOps IVP.model.Common IVP.model.SolOut
               IVP.model.Solve IVP.model.Matrix IVP.model.LU IVP.model.LUc IVP.model.LUcShape IVP.model.PyLayout.
Extraction "extract/model.ml" Fops solve_ivp run_method interp_fn sol_eval sol_many t_span
  Matrix.get Matrix.set Matrix.identity Matrix.from_vec Matrix.from_storage Matrix.full Matrix.zeros
  Matrix.square Matrix.banded Matrix.diagonal Matrix.lower_triangular Matrix.upper_triangular
  Matrix.addsub Matrix.caddsub Matrix.cmul Matrix.cmul_mut Matrix.is_identity
  LU.lu_decomp LU.lin_solve LUc.lu_decomp_complex LUc.lin_solve_complex LUcShape.lu_decomp_complex_checked
  py_transpose py_status py_success group_columns.
