(* Extraction of the executable model to OCaml for the bit-exact correspondence runs.
   Directives used: ExtrOcamlBasic (bool, option, prod, list, unit, sumbool),
   ExtrOCamlFloats (PrimFloat.* -> Float64.* of our float64.ml shim).  Nothing else:
   nat, N, positive, Z stay the extracted inductive types. *)
Require Import ExtrOcamlBasic ExtrOCamlFloats.
Require Import IVP.model.Lit IVP.model.Ops IVP.model.FloatOps IVP.model.Common IVP.model.SolOut
               IVP.model.Solve.
Extraction "extract/model.ml" Fops solve_ivp sol_eval.
