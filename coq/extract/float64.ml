(* Stand-in for Coq's kernel module Float64 (which ExtrOCamlFloats targets): OCaml floats are
   IEEE-754 binary64 with round-to-nearest-even, like Coq's primitive floats and Rust's f64. *)
type t = float
let of_float (x : float) : t = x
let add (a : t) (b : t) : t = a +. b
let sub (a : t) (b : t) : t = a -. b
let mul (a : t) (b : t) : t = a *. b
let div (a : t) (b : t) : t = a /. b
let opp (a : t) : t = -. a
let abs (a : t) : t = Float.abs a
let sqrt (a : t) : t = Float.sqrt a
let eq (a : t) (b : t) : bool = a = b
let lt (a : t) (b : t) : bool = a < b
let le (a : t) (b : t) : bool = a <= b
