"""One-time build after a fresh restore: generated constants, the whole Coq development,
the OCaml driver and the Rust harness.  Everything offline."""
import os
import sys
from . import common


def main():
    rc, out = common.regenerate()
    print(out)
    if rc != 0:
        return 1
    ok, log = common.coq_build([], timeout=3000)
    print(log[-3000:])
    if not ok:
        print("setup: coq build failed")
        return 1
    try:
        from . import harness
        ok, log = harness.build_all()
        print(log[-3000:])
        if not ok:
            print("setup: harness build failed")
            return 1
    except ImportError:
        pass
    print("setup: ok")
    return 0
