"""Property oracles over IMPLEMENTATION results (the failing-input search / validation side).
Each oracle encodes the property as worded, with the weakest reasonable reading of vague terms,
so that it cannot fire on a tree where the property holds.  Returns a list of
(finding_key, message) -- finding_key is what known_findings.txt is matched against."""
import math

EXPLICIT = ("RK4", "RK23", "DOPRI5", "DOP853")
CONTROLLED = ("RK23", "DOPRI5", "DOP853", "RADAU", "BDF")


def ulp_slack(*vals):
    m = max([1e-300] + [abs(v) for v in vals if v == v and abs(v) != math.inf])
    return 64 * 2.0 ** -52 * m + 1e-300


def direction(kw):
    return 1.0 if kw["xend"] >= kw["x0"] else -1.0


def terminal_configs(kw):
    out = []
    for e in kw.get("events", ()):
        d, term, _ = e.split("/", 2)
        out.append((int(d), None if term == "none" else int(term)))
    return out


def terminal_fired(kw, res):
    for i, (_, term) in enumerate(terminal_configs(kw)):
        if term is not None and len(res.get("tev", {}).get(i, [])) >= term:
            return True
    return False


def oracle_shapes(meta, kw, res):
    out = []
    t, y = res.get("t", []), res.get("y", [])
    n = len(kw["prob"]["y0"])
    if len(t) != len(y):
        out.append(("shape", "len(t)=%d != len(y)=%d" % (len(t), len(y))))
    if any(len(yi) != n for yi in y):
        out.append(("shape", "a sample does not have the problem's dimension %d" % n))
    for i, te in res.get("tev", {}).items():
        ye = res.get("yev", {}).get(i, [])
        if len(te) != len(ye) or any(len(v) != n for v in ye):
            out.append(("shape-events", "t_events[%d]/y_events[%d] shapes differ" % (i, i)))
    return out


def oracle_C03(meta, kw, res):
    out = oracle_shapes(meta, kw, res)
    st = res.get("status")
    if st in ("error", "panic", None):
        return out
    d = direction(kw)
    x0, xend = kw["x0"], kw["xend"]
    t = res.get("t", [])
    slack = ulp_slack(x0, xend) * (100 if kw["method"] == "RK4" else 1)
    te = kw.get("t_eval")
    if te is None and t and t[0] != x0:
        out.append(("start", "first sample %r is not x0=%r" % (t[0], x0)))
    for a, b in zip(t, t[1:]):
        if (b - a) * d < 0 or ((b - a) * d == 0 and te is None and not (st == "UserInterrupt")):
            out.append(("monotone", "samples not strictly monotone toward xend: %r then %r" % (a, b)))
            break
    for v in t:
        if (v - xend) * d > slack or (x0 - v) * d > slack:
            out.append(("past-xend", "sample time %r outside [x0,xend]=[%r,%r]" % (v, x0, xend)))
            break
    fired = terminal_fired(kw, res)
    if st == "Success":
        if te is None and t and abs(t[-1] - xend) > slack:
            q = ""
            if abs(xend - x0) <= 1e-12 * (1 + 1e-9):
                q = ":span<=1e-12"
            elif kw.get("first_step") is not None and (abs(kw["first_step"]) > abs(xend - x0) or kw["first_step"] < 0):
                q = ":first_step-exceeds-span-or-negative"
            out.append(("success-not-at-xend" + q, "status Success but last sample %r is not xend=%r" % (t[-1], xend)))
        if te is not None and te and abs(te[-1] - xend) <= 0 and (not t or t[-1] != te[-1]):
            out.append(("success-not-at-xend", "status Success but requested time xend=%r is not reported" % xend))
        if kw["method"] in CONTROLLED:
            for yi in res.get("y", []):
                if any(v != v or abs(v) == math.inf for v in yi):
                    out.append(("success-nonfinite", "status Success with a non-finite state"))
                    break
        if fired:
            out.append(("interrupt-status", "terminal event reached its count but status is Success"))
    if st not in ("Success", "UserInterrupt") and te is None and t and len(t) > 1 and abs(t[-1] - xend) <= 4 * 2.0 ** -52 * max(abs(xend), abs(x0)):
        out.append(("covered-but-not-success", "the last sample is xend but the status is %s" % st))
    if st == "UserInterrupt" and not fired:
        out.append(("interrupt-status", "status UserInterrupt but no terminal event reached its count"))
    if st != "UserInterrupt" and fired:
        out.append(("interrupt-status", "terminal event reached its count but status is %s" % st))
    # evaluation times of f / events inside the closed interval
    for name in ("odelogcall", "evlogcall", "jaclogcall"):
        for (tc, _) in res.get(name, []):
            if tc != tc:
                continue
            if (tc - xend) * d > slack or (x0 - tc) * d > slack:
                out.append(("eval-outside-" + name[:-7], "%s evaluated at t=%r outside [x0,xend]=[%r,%r]" % (name[:-7], tc, x0, xend)))
                break
    return out


def oracle_C11(meta, kw, res):
    out = []
    st = res.get("status")
    if st in ("error", "panic", None):
        return out
    t = res.get("t", [])
    ms = kw.get("max_step")
    x0, xend = kw["x0"], kw["xend"]
    if ms is not None and kw.get("t_eval") is None and not kw.get("events") and kw.get("first_step") is None:
        steps = [abs(b - a) for a, b in zip(t, t[1:])]
        for k, s in enumerate(steps):
            lim = abs(ms) * (1.0 + 1e-12)
            last = (k == len(steps) - 1) and st == "Success"
            if last:
                lim = abs(ms) * 1.01 * (1.0 + 1e-12)
            if s > lim + ulp_slack(x0, xend):
                out.append(("max-step", "accepted step %d has length %r > max_step %r" % (k, s, ms)))
                break
    mx = kw.get("max_steps")
    if mx is not None:
        nstep = res["stats"][3]
        if nstep > mx + 1:
            out.append(("budget-count", "nstep=%d exceeds max_steps+1=%d" % (nstep, mx + 1)))
    return out


def oracle_C18(meta, kw, res):
    out = []
    st = res.get("status")
    if st in ("error", "panic", None) or "stats" not in res:
        return out
    nfev, njev, nlu, nstep, naccpt, nrejct = res["stats"]
    nodes = res["odelog"][0]
    if nfev != nodes:
        out.append(("nfev-%s" % kw["method"], "nfev=%d but the stepper made %d right-hand-side evaluations" % (nfev, nodes)))
    if "jaclog" in res and njev != res["jaclog"][0]:
        out.append(("njev-%s" % kw["method"], "njev=%d but %d Jacobian evaluations were made" % (njev, res["jaclog"][0])))
    if nstep < naccpt:
        out.append(("nstep-lt-naccpt", "nstep=%d < naccpt=%d" % (nstep, naccpt)))
    plain = kw.get("t_eval") is None and not kw.get("events") and kw.get("first_step") is None
    if plain and st in ("Success", "NeedLargerNMax", "StepSizeTooSmall", "ProbablyStiff"):
        intervals = max(0, len(res.get("t", [])) - 1)
        if naccpt != intervals and not (kw["method"] in ("DOPRI5", "DOP853") and st == "ProbablyStiff" and naccpt == intervals + 1):
            out.append(("naccpt-%s" % kw["method"], "naccpt=%d but %d intervals were reported" % (naccpt, intervals)))
    return out


def oracle_C05(meta, kw, res):
    out = []
    st = res.get("status")
    te = kw.get("t_eval")
    if te is None or st in ("error", "panic", None):
        return out
    t = res.get("t", [])
    fired = terminal_fired(kw, res)
    if st == "Success":
        if t != te:
            out.append(("teval-exact", "Success but reported times differ from t_eval (%d vs %d entries)" % (len(t), len(te))))
    else:
        # prefix, possibly followed by the terminal event point
        body = t
        if st == "UserInterrupt" and fired and t:
            body = t[:-1]
        if body != te[:len(body)]:
            out.append(("teval-prefix", "early stop: reported times are not a prefix of t_eval"))
        elif st == "UserInterrupt" and fired and t:
            tau = t[-1]
            d = direction(kw)
            missing = [v for v in te[len(body):] if (tau - v) * d >= 0]
            if missing:
                out.append(("teval-before-terminal", "requested times %r not beyond the terminal event at %r are missing" % (missing[:3], tau)))
            beyond = [v for v in body if (v - tau) * d > 1e-12]
            if beyond:
                out.append(("teval-beyond-terminal", "requested times beyond the terminal event were reported"))
    return out


def oracle_C10(meta, kw, res):
    out = []
    st = res.get("status")
    if st in ("error", "panic", None) or not kw.get("events"):
        return out
    if not terminal_fired(kw, res):
        return out
    d = direction(kw)
    t = res.get("t", [])
    # a terminal event that reached its occurrence count stops the run: the status says so, in whichever step it happened
    # (seeded change C10-b: RK23 reported Success when the event fell into the step that lands on xend)
    if st != "UserInterrupt":
        out.append(("terminal-status", "a terminal event reached its occurrence count but the status is %s, not UserInterrupt" % st))
    # the terminal event point is the last sample
    cfgs = terminal_configs(kw)
    taus = []
    for i, (_, term) in enumerate(cfgs):
        tev = res.get("tev", {}).get(i, [])
        if term is not None and len(tev) >= term:
            taus.append((tev[term - 1], i))
    tau, iterm = min(taus, key=lambda p: p[0] * d)
    if not t or t[-1] != tau:
        out.append(("terminal-last-sample", "final sample %r is not the terminal event time %r" % (t[-1] if t else None, tau)))
    yev = res.get("yev", {}).get(iterm, [])
    if t and res.get("y") and yev and res["y"][-1] != yev[cfgs[iterm][1] - 1]:
        out.append(("terminal-last-state", "final sample state differs from the terminal event state"))
    for i in range(len(cfgs)):
        for v in res.get("tev", {}).get(i, []):
            if (v - tau) * d > 0:
                out.append(("event-after-terminal", "event of function %d at %r lies beyond the terminal event at %r" % (i, v, tau)))
                break
    return out


def eval_expr(expr, t, y):
    """evaluates a generator expression (prefix, ',' separated: see gen.py) with Python floats"""
    from .harness import unhx
    toks = expr.split(",")
    pos = [0]

    def ev():
        k = toks[pos[0]]
        pos[0] += 1
        if k == "t":
            return t
        if k[0] == "c":
            return unhx(k[1:])
        if k[0] == "y" and k[1:].isdigit():
            return y[int(k[1:])]
        if k in ("+", "-", "*", "/"):
            a = ev()
            b = ev()
            try:
                return a + b if k == "+" else a - b if k == "-" else a * b if k == "*" else a / b
            except (ZeroDivisionError, OverflowError):
                return float("nan")
        if k == "neg":
            return -ev()
        if k == "abs":
            return abs(ev())
        if k == "sqrt":
            a = ev()
            return math.sqrt(a) if a >= 0 else float("nan")
        if k == "iflt":
            a, b, c, dd = ev(), ev(), ev(), ev()
            return c if a < b else dd
        raise ValueError("unknown token %r" % k)
    return ev()


def oracle_C08(meta, kw, res):
    out = []
    st = res.get("status")
    if st in ("error", "panic", None) or not kw.get("events"):
        return out
    d = direction(kw)
    x0, xend = kw["x0"], kw["xend"]
    slack = ulp_slack(x0, xend)
    # genuine roots: g(t_e, y_e) is zero to root-finder accuracy.  The refinement works on the time axis
    # (tolerance 4 eps |t| + 2e-12), so |g| is bounded by that times the local slope of g along the solution; the
    # threshold below allows a slope of 1e5 x (the largest |g| seen at any reported sample, at least 1).
    for i, ev in enumerate(kw["events"]):
        expr = ev.split("/", 2)[2]
        tev = res.get("tev", {}).get(i, [])
        yev = res.get("yev", {}).get(i, [])
        if not tev or len(tev) != len(yev):
            continue
        try:
            scale = max([1.0] + [abs(eval_expr(expr, tt, yy)) for tt, yy in zip(res.get("t", []), res.get("y", []))
                                 if all(v == v and abs(v) != math.inf for v in yy)])
            for te_, ye_ in zip(tev, yev):
                g = eval_expr(expr, te_, ye_)
                # what a displacement of the root-finder's time tolerance changes in g along the solution here (stiff
                # problems have slopes far above 1e5: y' = -1e10 (y - ...) crossing a level within 1e-10 time units)
                tau = 4 * 2.0 ** -52 * abs(te_) + 2e-12
                fe = [eval_expr(fx, te_, ye_) for fx in kw["prob"]["f"]]
                along = 0.0
                for sg in (1.0, -1.0):
                    gg = eval_expr(expr, te_ + sg * tau, [a + sg * tau * b for a, b in zip(ye_, fe)])
                    if gg == gg and abs(gg) != math.inf:
                        along = max(along, abs(gg - g))
                # the same along the computed trajectory itself: the step (pair of consecutive samples) that brackets the
                # event is as long as the time tolerance or shorter on picosecond spans, where the refinement has nothing
                # to do and any point of the step is the root to root-finder accuracy; in general the mean slope of g
                # over the bracketing samples times the tolerance is allowed as well (the linearisation above sees a
                # slope of 0 where f vanishes, e.g. y' = -2 s y^2 at s = 0)
                ts_, ys_ = res.get("t", []), res.get("y", [])
                for ka in range(len(ts_) - 1):
                    ta_, tb_ = ts_[ka], ts_[ka + 1]
                    if min(ta_, tb_) <= te_ <= max(ta_, tb_) and ta_ != tb_:
                        ga_, gb_ = eval_expr(expr, ta_, ys_[ka]), eval_expr(expr, tb_, ys_[ka + 1])
                        if ga_ == ga_ and gb_ == gb_ and abs(ga_) != math.inf and abs(gb_) != math.inf:
                            along = max(along, abs(gb_ - ga_) * min(1.0, 4.0 * tau / abs(tb_ - ta_)))
                        break
                if kw.get("t_eval") is not None and 4.0 * tau >= 1e-3 * abs(xend - x0):
                    continue        # samples are not the steps and the tolerance is not small against the span
                if g == g and abs(g) > 1e-6 * scale + 4.0 * along:
                    out.append(("event-not-a-root", "event %d reported at t=%r where g = %r (scale of g over the run %.3g): not a root of the event function" % (i, te_, g, scale)))
                    break
        except (ValueError, IndexError):
            pass
    # y_e equals the continuous solution at t_e (dense runs): both come from the same step interpolant, so the deviation is
    # rounding at most (seeded change C08-c returned a stale scratch buffer when Brent converged on entry)
    ys = [abs(v) for yy in res.get("y", []) for v in yy if v == v and abs(v) != math.inf]
    yscale = max([1.0] + ys)
    for i, (fails, dev) in res.get("evsol", {}).items():
        if fails:
            out.append(("event-state-vs-sol", "sol(t_e) failed for %d reported event(s) of function %d" % (fails, i)))
        elif not (dev <= 1e-9 * yscale):
            out.append(("event-state-vs-sol", "y_events of function %d differ from sol(t_events) by %.3g" % (i, dev)))
    for i, tev in res.get("tev", {}).items():
        for a, b in zip(tev, tev[1:]):
            # the same root may be reported from both adjacent steps; such twins are ordered only up to root-finder accuracy
            if (b - a) * d < -(4 * 2.0 ** -52 * max(abs(a), abs(b)) + 4e-12):
                out.append(("event-order", "events of function %d not in integration order: %r then %r" % (i, a, b)))
                break
        for v in tev:
            if (v - xend) * d > slack or (x0 - v) * d > slack:
                out.append(("event-outside-span", "event of function %d at %r lies outside [x0,xend]" % (i, v)))
                break
    return out


def oracle_C04(meta, kw, res):
    out = []
    st = res.get("status")
    if st == "panic":
        out.append(("panic-%s" % kw["method"], "solve_ivp panicked"))
    if st == "Success" and kw["method"] in CONTROLLED:
        for yi in res.get("y", []):
            if any(v != v or abs(v) == math.inf for v in yi):
                out.append(("success-nonfinite-%s" % kw["method"], "status Success with a non-finite state"))
                break
    return out


def oracle_C09(meta, kw, res):
    """single known root t=c of g = s*(t-c): exactly one event, at the root (grid-aware builder)"""
    out = []
    st = res.get("status")
    roots = meta.get("roots")
    if not roots or st in ("error", "panic", None):
        return out
    d = direction(kw)
    stop = None
    if st != "Success":
        t = res.get("t", [])
        stop = t[-1] if t else kw["x0"]
    for i, r in enumerate(roots):
        c, slope, dirn = r["root"], r["slope"], r["dir"]
        tev = res.get("tev", {}).get(i, [])
        expected = (dirn == 0) or (dirn > 0 and slope > 0) or (dirn < 0 and slope < 0)
        tol = 2 * (4 * 2.0 ** -52 * abs(c) + 2e-12 + 2e-12 / abs(slope)) + 1e-15
        if stop is not None:
            if (c - stop) * d > -tol:
                if (c - stop) * d > tol and tev:
                    out.append(("event-beyond-stop", "event %d reported although its root %r lies beyond the stopping point %r" % (i, c, stop)))
                continue
        on_boundary = "boundary" in meta.get("placements", [])
        if not expected:
            if tev:
                out.append(("direction-filter", "event %d reported at %r against its direction filter %d (slope %+g in integration order)" % (i, tev[0], dirn, slope)))
            continue
        if len(tev) == 0:
            out.append(("missed-root", "event %d: g = s*(t-%r) changes sign inside the span but no event was reported (placements %s)" % (i, c, meta.get("placements"))))
        elif len(tev) > 1 and not on_boundary:
            out.append(("duplicate-root", "event %d: single root %r reported %d times: %r" % (i, c, len(tev), tev[:3])))
        elif abs(tev[0] - c) > tol:
            out.append(("root-location", "event %d reported at %r, root is %r (|diff| %.3g > %.3g)" % (i, tev[0], c, abs(tev[0] - c), tol)))
    return out


def oracle_C09_steps(meta, kw, res):
    """the clause as worded, for ANY event functions: when the reported samples are the accepted steps (no t_eval, no
    first_step, no step budget), a strict sign change of g_i between two consecutive samples in the configured direction
    has an event of function i inside that step, and equal strict signs have none strictly inside it"""
    out = []
    st = res.get("status")
    if st in ("error", "panic", None) or not kw.get("events"):
        return out
    if kw.get("t_eval") is not None or kw.get("first_step") is not None or kw.get("max_steps") is not None:
        return out
    ts, ys = res.get("t", []), res.get("y", [])
    npairs = len(ts) - 1
    if st == "UserInterrupt":
        npairs -= 1          # the last sample is the terminal event's point, not a step end
    for i, ev in enumerate(kw["events"]):
        dirn = int(ev.split("/", 2)[0])
        expr = ev.split("/", 2)[2]
        tev = res.get("tev", {}).get(i, [])
        try:
            gs = [eval_expr(expr, t, y) for t, y in zip(ts, ys)]
        except Exception:
            continue
        for k in range(max(0, npairs)):
            ga, gb = gs[k], gs[k + 1]
            if not (ga == ga and gb == gb) or ga == 0.0 or gb == 0.0 or abs(ga) == math.inf or abs(gb) == math.inf:
                continue
            lo, hi = min(ts[k], ts[k + 1]), max(ts[k], ts[k + 1])
            inside_closed = [te for te in tev if lo <= te <= hi]
            inside_open = [te for te in tev if lo < te < hi]
            if (ga < 0) != (gb < 0):
                rising = ga < 0          # in the order of integration: from the earlier sample to the later one
                wanted = dirn == 0 or (dirn > 0 and rising) or (dirn < 0 and not rising)
                if wanted and not inside_closed:
                    out.append(("unreported-sign-change", "event %d: g(%r)=%.3g, g(%r)=%.3g, direction %d: no event reported inside the step" %
                                (i, ts[k], ga, ts[k + 1], gb, dirn)))
                    break
                if not wanted and inside_open:
                    out.append(("filtered-direction-reported", "event %d: sign change against the direction filter %d between %r and %r, but an event is reported at %r" %
                                (i, dirn, ts[k], ts[k + 1], inside_open[0])))
                    break
            elif inside_open:
                out.append(("event-without-sign-change", "event %d: g has the same strict sign at %r and %r (%.3g, %.3g) but an event is reported at %r" %
                            (i, ts[k], ts[k + 1], ga, gb, inside_open[0])))
                break
    return out
