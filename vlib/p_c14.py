"""C14: implicit methods stay stable and cheap on stiff problems (partial: mechanism proved, behaviour measured)."""
import math
import os
import random
from . import solvercheck, oracles, orders, gen, sweep
from .p_common import TB
from .gen import C, Y, T, add, sub, mul, neg, lin

LAMS = [1e2, 1e4, 1e6, 1e8, 1e10]


def stiff_forced(lam, y0):
    return {"name": "stiff_forced", "f": [add(mul(C(-lam), sub(Y(0), mul(T, T))), mul(C(2.0), T))], "y0": [y0],
            "jac": [[C(-lam)]], "exact": (lambda t: [t * t + y0 * math.exp(-lam * t)])}


def stiff_linear(lam, n):
    A = [[0.0] * n for _ in range(n)]
    for i in range(n):
        A[i][i] = -1.0 if i == 0 else -lam * (1.0 + 0.1 * i)
        if i > 0:
            A[i][0] = lam * 0.5
    y0 = [1.0] + [0.3] * (n - 1)

    def ex(t):
        u = math.exp(-t)
        out = [u]
        for i in range(1, n):
            a = lam * (1.0 + 0.1 * i)
            # v' = -a v + (lam/2) u  ->  v = c e^{-a t} + (lam/2)/(a-1) e^{-t}
            p = (lam * 0.5) / (a - 1.0)
            out.append((0.3 - p) * math.exp(-a * t) + p * u)
        return out
    return {"name": "stiff_linear%d" % n, "f": [lin(A[i], n) for i in range(n)], "y0": y0,
            "jac": [[C(A[i][j]) for j in range(n)] for i in range(n)], "exact": ex}


def stiff_diag(lam, n):
    """decoupled modes: one slow, the others fast"""
    rates = [1.0] + [lam * (1.0 + 0.1 * i) for i in range(1, n)]
    y0 = [1.0] + [0.3] * (n - 1)
    return {"name": "stiff_diag%d" % n, "f": [mul(C(-rates[i]), Y(i)) for i in range(n)], "y0": y0,
            "jac": [[C(-rates[i]) if i == j else C(0.0) for j in range(n)] for i in range(n)],
            "exact": (lambda t: [y0[i] * math.exp(-rates[i] * t) for i in range(n)])}


def stiff_osc(lam):
    """a fast mode tracking an oscillation:  y' = -lam (y - u) + v,  u' = v,  v' = -u  with y = u = cos t, v = -sin t
    (the textbook y' = -lam (y - cos t) - sin t written without trigonometric functions); over several periods the step
    size keeps growing and shrinking, so accepted steps that reuse the factorisation are followed by rejections"""
    return {"name": "stiff_osc", "f": [add(mul(C(-lam), sub(Y(0), Y(1))), Y(2)), Y(2), neg(Y(1))], "y0": [1.0, 1.0, 0.0],
            "jac": [[C(-lam), C(lam), C(1.0)], [C(0.0), C(0.0), C(1.0)], [C(0.0), C(-1.0), C(0.0)]],
            "exact": (lambda t: [math.cos(t), math.cos(t), -math.sin(t)])}


def builder(seed, n, defaults, tag):
    rng = random.Random(seed)
    cases, metas = [], {}
    g = 0
    ngroups = max(2, n // (2 * len(LAMS)))
    for gi in range(ngroups):
        for method in ("RADAU", "BDF"):
            kind = rng.choice(["forced", "linear", "diag"])
            nn = rng.randint(2, 8)
            y0 = rng.choice([0.0, 0.5])
            span = rng.uniform(0.5, 2.0)
            rt = 10 ** rng.uniform(-7, -3)
            use_jac = rng.random() < 0.5
            backward = rng.random() < 0.4
            for lam in LAMS:
                prob = stiff_forced(lam, y0) if kind == "forced" else stiff_linear(lam, nn) if kind == "linear" else stiff_diag(lam, nn)
                xe = span
                if backward:
                    # the time-reflected problem z' = -f(-s, z), integrated from 0 to -span, is the same stable problem
                    from .p_c13 import subst_reflect
                    ex0 = prob["exact"]
                    prob = dict(prob)
                    prob["f"] = ["neg," + subst_reflect(e) for e in prob["f"]]
                    prob["jac"] = [["neg," + subst_reflect(e) for e in row] for row in prob["jac"]]
                    prob["exact"] = (lambda t, ex0=ex0: ex0(-t))
                    xe = -span
                kw = dict(method=method, prob=prob, x0=0.0, xend=xe, rtol=rt, atol=rt * 1e-3, defaults=defaults, use_jac=use_jac)
                cid = "%s%d_%g" % (tag, g, lam)
                meta = {"family": prob["name"], "n": len(prob["y0"]), "backward": backward, "tolmode": "mixed", "method": method,
                        "group": g, "lam": lam, "exact": prob["exact"], "fdjac": not use_jac}
                cases.append(gen.solve_case(cid, **kw))
                metas[cid] = (meta, kw)
            g += 1
    # oscillatory forcing over several periods, a sweep of tolerances per stiffness ratio
    for gi in range(max(2, n // 40)):
        for method in ("RADAU", "BDF"):
            span = rng.uniform(6.0, 12.0)
            use_jac = rng.random() < 0.5
            for lam in (1e4, 1e6, 1e8, 1e10):
                rt = 10 ** rng.uniform(-9, -4)
                prob = stiff_osc(lam)
                kw = dict(method=method, prob=prob, x0=0.0, xend=span, rtol=rt, atol=rt * 1e-2, defaults=defaults, use_jac=use_jac)
                cid = "%sosc%d_%g" % (tag, g, lam)
                meta = {"family": prob["name"], "n": 3, "backward": False, "tolmode": "mixed", "method": method,
                        "group": "osc%d" % g, "lam": lam, "exact": prob["exact"], "fdjac": not use_jac, "no_count_compare": True}
                cases.append(gen.solve_case(cid, **kw))
                metas[cid] = (meta, kw)
            g += 1
    # the same with a window in which the oscillator's frequency jumps (kinks in the forcing): steps that reuse the
    # factorisation (steady step size, linear problem) are followed by error-test rejections at the kinks
    from .gen import iflt, absx
    for lam in (1e2, 1e4, 1e6, 1e8):
        for rt in (1e-4, 1e-5, 1e-6, 1e-7, 1e-8):
            for method, reps in (("RADAU", 2), ("BDF", 1)):
                for _ in range(reps):
                    coef = add(C(1.0), iflt(absx(sub(T, C(rng.uniform(1.0, 8.0)))), C(rng.uniform(0.05, 0.5)),
                                            C(rng.choice([3.0, 30.0, 80.0])), C(0.0)))
                    prob = {"name": "stiff_osc_kink", "y0": [1.0, 1.0, 0.0],
                            "f": [add(mul(C(-lam), sub(Y(0), Y(1))), Y(2)), Y(2), neg(mul(coef, Y(1)))]}
                    kw = dict(method=method, prob=prob, x0=0.0, xend=10.0, rtol=rt, atol=rt * 1e-2, defaults=defaults)
                    cid = "%skink%d" % (tag, len(cases))
                    meta = {"family": prob["name"], "n": 3, "backward": False, "tolmode": "mixed", "method": method,
                            "group": "kink%d" % len(cases), "lam": lam, "fdjac": True}
                    cases.append(gen.solve_case(cid, **kw))
                    metas[cid] = (meta, kw)
    # nonlinear: Robertson (linear invariant y1+y2+y3 = 1) and stiff Van der Pol
    for method in ("RADAU", "BDF"):
        for use_jac in (True, False):
            for fam in (gen.fam_robertson, gen.fam_vdp_stiff):
                prob = fam(rng)
                rt = 10 ** rng.uniform(-6, -4)
                kw = dict(method=method, prob=prob, x0=0.0, xend=prob["span"], rtol=rt, atol=rt * 1e-4, defaults=defaults, use_jac=use_jac)
                cid = "%snl%d" % (tag, len(cases))
                meta = {"family": prob["name"], "n": len(prob["y0"]), "backward": False, "tolmode": "mixed", "method": method,
                        "group": "nl%d" % len(cases), "invariant": prob.get("invariant"), "fdjac": not use_jac}
                cases.append(gen.solve_case(cid, **kw))
                metas[cid] = (meta, kw)
    return cases, metas


def group_oracle(metas, parsed):
    out = []
    groups = {}
    for cid, (meta, kw) in metas.items():
        groups.setdefault(meta["group"], []).append(cid)
    for g, cids in groups.items():
        counts = []
        for cid in cids:
            meta, kw = metas[cid]
            r = parsed[cid]
            if r.get("status") != "Success":
                out.append((cid, "not-success:" + meta["family"], "status %s on a stiff problem (rate %s)" % (r.get("status"), meta.get("lam"))))
                continue
            counts.append((meta.get("lam"), r["stats"][4]))
            if meta.get("exact"):
                rt, at = kw["rtol"], kw["atol"]
                worst = 0.0
                for t, y in zip(r["t"], r["y"]):
                    e = meta["exact"](t)
                    for yi, ei in zip(y, e):
                        worst = max(worst, abs(yi - ei) / (at + rt * max(abs(ei), abs(yi))))
                if worst > 50.0 * max(1, r["stats"][4]):
                    out.append((cid, "stiff-accuracy", "error is %.3g x (atol + rtol|y|) with %d steps at stiffness %g" % (worst, r["stats"][4], meta["lam"])))
            inv = meta.get("invariant")
            if inv:
                s0 = sum(w * v for w, v in zip(inv, kw["prob"]["y0"]))
                dev = max(abs(sum(w * v for w, v in zip(inv, y)) - s0) for y in r["y"])
                lim = 1e-12 if not meta.get("fdjac") else 1e-9
                if dev > lim * max(1, len(r["t"])):
                    out.append((cid, "invariant", "linear invariant drifts by %.3g" % dev))
        if len(counts) >= 3 and counts[0][0] is not None and not metas[cids[0]][0].get("no_count_compare"):
            lo = min(c for _, c in counts)
            hi = max(c for _, c in counts)
            if hi > 4 * lo + 60:
                out.append((cids[0], "steps-grow-with-stiffness", "accepted steps vary from %d to %d across stiffness ratios %r" % (lo, hi, counts)))
    return out


def check():
    return solvercheck.run(
        "C14", "C14.v" if os.path.exists(os.path.join(solvercheck.common.COQ, "props", "C14.v")) else None,
        [dict(builder=builder, n_quick=120, n_thorough=1200, group_oracle=group_oracle),
         dict(builder=orders.pade_builder, n_quick=1, n_thorough=1, nontrivial=lambda r: r.get("status") == "Success")],
        [oracles.oracle_shapes, orders.oracle_pade], TB,
        "Radau and BDF on y'=-L(y-t^2)+2t and on linear systems (n=2..8) with fast rates L=1e2..1e10 (groups over L at fixed tolerance), "
        "Robertson and stiff Van der Pol, analytic and finite-difference Jacobian: Success, error <= 50 x steps x (atol+rtol|y|), accepted "
        "steps bounded across L (max <= 4 min + 60), Robertson invariant to 1e-12/step; single Radau steps on y'=lambda*y (z = h*lambda down to -1e8) against the (2,3) Pade approximant whose bound |R| <= 1 is the theorem; every run replayed bit-for-bit on the model")
