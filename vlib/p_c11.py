"""C11 (see DESIGN.md)."""
from . import solvercheck, oracles
from .p_common import TB, PROFILES
from . import gridgen


def tiny_max_step_builder(seed, n, defaults, tag):
    """automatic first step under a max_step far below the heuristic's fallback guess (1e-6): a start at rest or from a
    zero state takes that fallback (seeded change C11-e no longer limited it by max_step); sub-microsecond time scales"""
    import random
    from . import gen, sweep
    from .gen import C, Y, T, add, mul, neg
    rng = random.Random(seed)
    cases, metas = [], {}
    k = 0
    probs = [{"name": "from_zero", "f": [add(C(1.0), mul(C(0.5), Y(0)))], "y0": [0.0]},
             {"name": "from_rest", "f": [Y(1), neg(Y(0))], "y0": [0.0, 0.0]},
             {"name": "at_rest_forced", "f": [mul(C(3.0), T)], "y0": [1.0]},
             {"name": "moving", "f": [neg(Y(0))], "y0": [1.0]}]
    for method in sweep.available_methods():
        for prob in probs:
            for ms in (1e-7, 2e-7, 3e-9):
                d = -1.0 if rng.random() < 0.3 else 1.0
                kw = dict(method=method, prob=dict(prob, span=25 * ms), x0=0.0, xend=d * 25 * ms, rtol=1e-6, atol=1e-9,
                          defaults=defaults, max_step=ms)
                cid = "%s%d" % (tag, k)
                k += 1
                cases.append(gen.solve_case(cid, **kw))
                metas[cid] = ({"family": prob["name"], "n": len(prob["y0"]), "backward": d < 0, "tolmode": "mixed",
                               "method": method}, kw)
    return cases, metas


def check():
    return solvercheck.run(
        "C11", "C11.v",
        [dict(profile=PROFILES["steps"], n_quick=300, n_thorough=5000),
         dict(profile=PROFILES["plain"], n_quick=60, n_thorough=1000),
         dict(builder=gridgen.budget_builder, n_quick=400, n_thorough=4000),
         dict(builder=tiny_max_step_builder, n_quick=1, n_thorough=1)],
        [oracles.oracle_C11, oracles.oracle_shapes], TB,
        "profile 'steps' + budget sweeps (every max_steps = 1..nstep on runs with rejected attempts) + plain runs over the 4 explicit methods, both directions + automatic first steps under a max_step below 1e-6 (starts at rest / from zero); each case replayed bit-for-bit on the "
        "extracted model; the property's clauses checked on the implementation's results; non-trivial = at least 2 accepted "
        "steps; distinct = distinct case lines")
