"""C11 (see DESIGN.md)."""
from . import solvercheck, oracles
from .p_common import TB, PROFILES
from . import gridgen


def check():
    return solvercheck.run(
        "C11", "C11.v",
        [dict(profile=PROFILES["steps"], n_quick=300, n_thorough=5000),
         dict(profile=PROFILES["plain"], n_quick=60, n_thorough=1000),
         dict(builder=gridgen.budget_builder, n_quick=400, n_thorough=4000)],
        [oracles.oracle_C11, oracles.oracle_shapes], TB,
        "profile 'steps' + budget sweeps (every max_steps = 1..nstep on runs with rejected attempts) + plain runs over the 4 explicit methods, both directions; each case replayed bit-for-bit on the "
        "extracted model; the property's clauses checked on the implementation's results; non-trivial = at least 2 accepted "
        "steps; distinct = distinct case lines")
