"""C03: interval discipline and honest status."""
from . import solvercheck, oracles
from .p_common import TB, PROFILES


def check():
    return solvercheck.run(
        "C03", "C03.v",
        [dict(profile=PROFILES["config"], n_quick=240, n_thorough=4000, full=True),
         dict(profile=PROFILES["output"], n_quick=120, n_thorough=2000, full=True)],
        [oracles.oracle_C03], TB,
        "configuration sweep (direction x span 1e-12..12 x first_step x max_step x t_eval x dense x events x 4 explicit methods); "
        "every case replayed bit-for-bit on the extracted model, and the property's clauses checked on the implementation's "
        "samples and its full call log; non-trivial = at least 2 accepted steps; distinct = distinct case lines")
