"""C03: interval discipline and honest status."""
from . import solvercheck, oracles, sweep, gen
from .p_common import TB, PROFILES


def landing_builder(seed, n, defaults, tag):
    """first_step >= the whole interval at tight tolerances: the very first attempt is the landing step and is (usually)
    rejected by the error test, so the run has to forget that it was 'last' (seeded change C03-c, Radau)"""
    import random
    rng = random.Random(seed)
    methods = [m for m in sweep.available_methods() if m != "RK4"]
    cases, metas = [], {}
    for g in range(n):
        kw, meta = sweep.base_case(rng, g, methods[g % len(methods)], defaults)
        span = abs(kw["xend"] - kw["x0"])
        kw["first_step"] = span * rng.choice([1.0, 1.0, 2.5, 10.0, 25.0])
        kw["rtol"] = rng.choice([1e-5, 1e-7, 1e-9])
        kw["atol"] = kw["rtol"] * 1e-2
        if rng.random() < 0.3:
            kw["dense"] = True
        meta["tolmode"] = "mixed"
        meta["landing_first"] = True
        cid = "%s%d" % (tag, g)
        cases.append(gen.solve_case(cid, **kw))
        metas[cid] = (meta, kw)
    return cases, metas


def check():
    return solvercheck.run(
        "C03", "C03.v",
        [dict(profile=PROFILES["config"], n_quick=240, n_thorough=4000, full=True),
         dict(profile=PROFILES["output"], n_quick=120, n_thorough=2000, full=True),
         dict(builder=landing_builder, n_quick=90, n_thorough=1500, full=True)],
        [oracles.oracle_C03], TB,
        "configuration sweep (direction x span 1e-12..12 x first_step (incl. >= span) x max_step x t_eval x dense x events x all 6 methods), plus "
        "first_step >= interval at tight tolerances (rejected landing attempts); "
        "every case replayed bit-for-bit on the extracted model, and the property's clauses checked on the implementation's "
        "samples and its full call log; non-trivial = at least 2 accepted steps; distinct = distinct case lines")
