"""C15: mass matrices, DAEs and Jacobian sources/storages are interchangeable (partial)."""
import os
import random
from . import solvercheck, oracles, gen, sweep
from .p_common import TB
from .gen import C, Y, T, add, sub, mul, div, neg, lin


def tridiag_problem(rng, n):
    """linear y' = A y with tridiagonal A (so that a banded Jacobian ml=mu=1 holds every entry)"""
    A = [[0.0] * n for _ in range(n)]
    for i in range(n):
        A[i][i] = -rng.uniform(0.5, 3.0)
        if i > 0:
            A[i][i - 1] = round(rng.uniform(-1, 1), 2)
        if i < n - 1:
            A[i][i + 1] = round(rng.uniform(-1, 1), 2)
    return {"name": "tridiag%d" % n, "f": [lin(A[i], n) for i in range(n)], "y0": [round(rng.uniform(-1, 1), 2) or 0.5 for _ in range(n)],
            "jac": [[C(A[i][j]) for j in range(n)] for i in range(n)], "A": A}


def builder(seed, n, defaults, tag):
    rng = random.Random(seed)
    cases, metas = [], {}
    ngroups = max(2, n // 8)
    for g in range(ngroups):
        nn = rng.randint(1, 8)
        prob = tridiag_problem(rng, nn)
        span = rng.uniform(0.5, 2.0)
        rt = 10 ** rng.uniform(-7, -4)
        base = dict(prob=prob, x0=0.0, xend=span, rtol=rt, atol=rt * 1e-2, defaults=defaults)
        kind = ["massdefault", "massident", "jacband", "massdiag", "dae", "jacsrc", "massband", "jacpivot"][g % 8]
        variants = []
        if kind == "massdefault":
            for ms in ("identity", "full", "banded:0:0", "banded:1:1"):
                variants.append((ms, dict(base, method="RADAU", use_jac=True, mass_storage=ms)))
        elif kind == "massident":
            I = [[1.0 if i == j else 0.0 for j in range(nn)] for i in range(nn)]
            variants.append(("none", dict(base, method="RADAU", use_jac=True)))
            for ms in ("full", "banded:0:0", "banded:%d:%d" % (min(1, nn - 1), min(2, nn - 1))):
                variants.append((ms, dict(base, method="RADAU", use_jac=True, mass=I, mass_storage=ms)))
        elif kind == "jacband":
            for m in ("RADAU", "BDF"):
                for js in ("full", "banded:1:1", "banded:%d:%d" % (min(2, nn - 1), min(1, nn - 1)) if nn > 2 else "banded:1:1"):
                    variants.append((m + "/" + js, dict(base, method=m, use_jac=True, jac_storage=js)))
        elif kind == "jacpivot":
            # cascade with a dominant sub- (or super-) diagonal: the Newton matrices I - cJ / fac*I - J need row interchanges, whose
            # fill-in leaves the band of J (seeded change C15-b: BDF re-assembled only the band of its in-place factorised matrix)
            nn = rng.randint(3, 6)
            K = rng.choice([50.0, 1e3, 2e4])
            lower = rng.random() < 0.7
            A = [[0.0] * nn for _ in range(nn)]
            for i in range(nn):
                A[i][i] = -rng.choice([1.0, 2.0, 0.5])
                if lower and i > 0:
                    A[i][i - 1] = K
                if not lower and i < nn - 1:
                    A[i][i + 1] = K
            y0 = [1.0] + [0.0] * (nn - 1) if lower else [0.0] * (nn - 1) + [1.0]
            pp = {"name": "cascade%d" % nn, "f": [lin(A[i], nn) for i in range(nn)], "y0": y0,
                  "jac": [[C(A[i][j]) for j in range(nn)] for i in range(nn)], "A": A}
            base = dict(base, prob=pp, xend=rng.choice([0.5, 1.0, 3.0]))
            band = "banded:1:0" if lower else "banded:0:1"
            for m in ("RADAU", "BDF"):
                for js in ("full", band, "banded:1:1"):
                    variants.append((m + "/" + js, dict(base, method=m, use_jac=True, jac_storage=js)))
        elif kind == "massdiag":
            dg = [rng.choice([0.5, 2.0, 4.0, 1.0]) for _ in range(nn)]
            M = [[dg[i] if i == j else 0.0 for j in range(nn)] for i in range(nn)]
            p2 = dict(prob)
            p2["f"] = [div(prob["f"][i], C(dg[i])) for i in range(nn)]
            p2["jac"] = [[C(prob["A"][i][j] / dg[i]) for j in range(nn)] for i in range(nn)]
            variants.append(("mass", dict(base, method="RADAU", use_jac=True, mass=M, mass_storage="full")))
            variants.append(("massbanded", dict(base, method="RADAU", use_jac=True, mass=M, mass_storage="banded:0:0")))
            variants.append(("explicit", dict(base, prob=p2, method="RADAU", use_jac=True)))
        elif kind == "massband":
            # nonsingular banded (asymmetric band) mass matrix: Full vs Banded storage of the same entries
            ml, mu = rng.choice([(1, 0), (0, 1), (2, 0), (1, 2), (0, 2)])
            ml, mu = min(ml, max(0, nn - 1)), min(mu, max(0, nn - 1))
            M = [[0.0] * nn for _ in range(nn)]
            for i in range(nn):
                for j in range(nn):
                    if i == j:
                        M[i][j] = rng.choice([1.0, 2.0, 0.5])
                    elif -mu <= i - j <= ml:
                        M[i][j] = rng.choice([0.25, -0.5, 0.125])
            variants.append(("full", dict(base, method="RADAU", use_jac=True, mass=M, mass_storage="full")))
            variants.append(("banded", dict(base, method="RADAU", use_jac=True, mass=M, mass_storage="banded:%d:%d" % (ml, mu))))
            variants.append(("bandedwide", dict(base, method="RADAU", use_jac=True, mass=M,
                                               mass_storage="banded:%d:%d" % (min(ml + 1, max(0, nn - 1)), mu))))
        elif kind == "dae":
            # index-1 DAE:  y0' = -y0 + y1 ,  0 = y1 - c*y0   (M = diag(1,0)), consistent start
            c = rng.choice([0.5, -0.5, 2.0])
            p2 = {"name": "dae", "f": [add(neg(Y(0)), Y(1)), sub(Y(1), mul(C(c), Y(0)))], "y0": [1.0, c],
                  "jac": [[C(-1.0), C(1.0)], [C(-c), C(1.0)]]}
            M = [[1.0, 0.0], [0.0, 0.0]]
            variants.append(("dae-full", dict(base, prob=p2, method="RADAU", use_jac=True, mass=M, mass_storage="full")))
            variants.append(("dae-banded", dict(base, prob=p2, method="RADAU", use_jac=True, mass=M, mass_storage="banded:0:0")))
            variants.append(("dae-fd", dict(base, prob=p2, method="RADAU", use_jac=False, mass=M, mass_storage="full")))
        else:
            for m in ("RADAU", "BDF"):
                variants.append((m + "/analytic", dict(base, method=m, use_jac=True)))
                variants.append((m + "/fd", dict(base, method=m, use_jac=False)))
        for name, kw in variants:
            cid = "%s%d_%s" % (tag, g, name.replace(":", "-").replace("/", "_"))
            meta = {"family": kw["prob"]["name"], "n": len(kw["prob"]["y0"]), "backward": False, "tolmode": "mixed",
                    "method": kw["method"], "group": g, "variant": name, "kind": kind}
            if kind == "dae":
                meta["c"] = c
            cases.append(gen.solve_case(cid, **kw))
            metas[cid] = (meta, kw)
    return cases, metas


def same(a, b):
    return a.get("status") == b.get("status") and a.get("t") == b.get("t") and a.get("y") == b.get("y") and a.get("stats") == b.get("stats")


def group_oracle(metas, parsed):
    out = []
    groups = {}
    for cid, (meta, kw) in metas.items():
        groups.setdefault(meta["group"], []).append(cid)
    for g, cids in groups.items():
        kind = metas[cids[0]][0]["kind"]
        res = {metas[c][0]["variant"]: (c, parsed[c]) for c in cids}
        for c in cids:
            if parsed[c].get("status") != "Success":
                out.append((c, "not-success:" + kind, "status %s (variant %s)" % (parsed[c].get("status"), metas[c][0]["variant"])))
        if kind in ("massdefault", "massident"):
            ref = parsed[cids[0]]
            for c in cids[1:]:
                if not same(ref, parsed[c]):
                    out.append((c, "mass-storage:" + kind, "mass storage '%s' gives a different trajectory than '%s' for the same (identity) mass matrix" %
                                (metas[c][0]["variant"], metas[cids[0]][0]["variant"])))
        elif kind == "massband":
            for c in cids[1:]:
                if not same(parsed[cids[0]], parsed[c]):
                    out.append((c, "mass-storage:banded", "mass storage '%s' gives a different trajectory than Full for the same banded mass matrix" % metas[c][0]["variant"]))
        elif kind in ("jacband", "jacpivot"):
            for m in ("RADAU", "BDF"):
                mine = [c for c in cids if metas[c][0]["variant"].startswith(m)]
                for c in mine[1:]:
                    if not same(parsed[mine[0]], parsed[c]):
                        out.append((c, "jac-storage", "Jacobian storage '%s' gives a different trajectory than Full for the same entries" % metas[c][0]["variant"]))
        elif kind == "massdiag":
            a, b, e = res["mass"][1], res["massbanded"][1], res["explicit"][1]
            if not same(a, b):
                out.append((res["massbanded"][0], "mass-storage:diag", "Full and Banded storage of the same diagonal mass matrix give different trajectories"))
            if a.get("status") == "Success" and e.get("status") == "Success":
                kw = metas[res["mass"][0]][1]
                ya, ye = a["y"][-1], e["y"][-1]
                tol = 1e3 * max(len(a["t"]), len(e["t"])) * (kw["atol"] + kw["rtol"] * max(abs(v) for v in ye + ya))
                if any(abs(u - v) > tol for u, v in zip(ya, ye)):
                    out.append((res["mass"][0], "mass-vs-explicit", "M y' = f and y' = M^-1 f end at %r and %r" % (ya, ye)))
        elif kind == "dae":
            for c in cids:
                r = parsed[c]
                if r.get("status") != "Success":
                    continue
                cc = metas[c][0]["c"]
                kw = metas[c][1]
                worst = max(abs(y[1] - cc * y[0]) for y in r["y"])
                if worst > 1e3 * (kw["atol"] + kw["rtol"] * max(abs(v) for y in r["y"] for v in y)):
                    out.append((c, "dae-constraint", "algebraic constraint violated by %.3g" % worst))
            if not same(res["dae-full"][1], res["dae-banded"][1]):
                out.append((res["dae-banded"][0], "mass-storage:dae", "Full and Banded storage of the singular mass matrix give different trajectories"))
        else:
            for m in ("RADAU", "BDF"):
                a, b = res[m + "/analytic"][1], res[m + "/fd"][1]
                if a.get("status") == "Success" and b.get("status") == "Success":
                    kw = metas[res[m + "/analytic"][0]][1]
                    ya, yb = a["y"][-1], b["y"][-1]
                    tol = 1e3 * max(len(a["t"]), len(b["t"])) * (kw["atol"] + kw["rtol"] * max(abs(v) for v in ya + yb))
                    if any(abs(u - v) > tol for u, v in zip(ya, yb)):
                        out.append((res[m + "/fd"][0], "jac-source", "analytic and finite-difference Jacobian end at %r and %r" % (ya, yb)))
    return out


def check():
    return solvercheck.run(
        "C15", "C15.v" if os.path.exists(os.path.join(solvercheck.common.COQ, "props", "C15.v")) else None,
        [dict(builder=builder, n_quick=160, n_thorough=2400, group_oracle=group_oracle)],
        [oracles.oracle_shapes], TB,
        "groups over tridiagonal linear systems n=1..8 (and cascades with a dominant off-diagonal, whose Newton matrices need row interchanges): no mass matrix under Identity/Full/Banded mass storage; explicit identity mass "
        "under Full/Banded; Full vs Banded Jacobian with equal entries (Radau, BDF); diagonal mass vs the explicit form M^-1 f; an index-1 "
        "DAE with singular mass (constraint residual, Full vs Banded mass, analytic vs FD Jacobian); analytic vs FD Jacobian. Storage "
        "variants must agree bit for bit, formulations within tolerance; every run replayed bit-for-bit on the model")
