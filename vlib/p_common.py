"""Shared option profiles and trusted-base text for the solver-level checks."""
import math
from . import gen, sweep

TB = [
    "Coq 8.16.1 kernel + vm_compute (no native_compute); theorems over the real-number instance (Rops) of the generic model",
    "extraction: ExtrOcamlBasic + ExtrOCamlFloats, own float64.ml shim, OCaml Float.pow (glibc pow) for powf",
    "coq/extract/driver.ml and /verif/harness (parsers, expression evaluator, printers)",
    "tools/extract.py (constants regenerated from source each run; arithmetic re-checked in Coq)",
    "floating-point rounding is modelled (bit-exact replay), not verified, in the real-arithmetic theorems",
    "user callbacks are arbitrary functions in the theorems and expression-AST programs in the correspondence",
]


def opt_teval(rng, kw, meta):
    """t_eval placements: inside steps, duplicates, endpoints; with/without events and budgets"""
    x0, xend = kw["x0"], kw["xend"]
    span = xend - x0
    k = rng.randint(0, 14)
    pts = sorted(rng.uniform(0, 1) for _ in range(k))
    te = [x0 + span * p for p in pts]
    if rng.random() < 0.5:
        te = [x0] + te
    if rng.random() < 0.5:
        te = te + [xend]
    if rng.random() < 0.3 and te:
        j = rng.randrange(len(te))
        te.insert(j, te[j])
    kw["t_eval"] = te
    meta["teval"] = len(te)
    if rng.random() < 0.4:
        kw["dense"] = True
    if rng.random() < 0.4:
        kw["events"] = gen.gen_events(rng, kw["prob"], x0, xend)
    if rng.random() < 0.15:
        kw["max_steps"] = rng.randint(1, 30)
    kw["query"] = [x0 + span * 0.37]


def opt_events(rng, kw, meta):
    if rng.random() < 0.15 and kw["method"] != "RK4" and not kw["prob"].get("forward_only"):
        # the same problem in a time unit of 2^-40 (about 1e-12): whole steps shorter than the root finder's absolute
        # tolerance, where it converges on entry (seeded change C08-c: stale event state in exactly that case)
        from . import orders
        w = 2.0 ** 40
        kw["prob"] = orders.time_scaled(kw["prob"], w)
        kw["x0"] = kw["x0"] / w
        kw["xend"] = kw["xend"] / w
        meta["time_unit"] = 1.0 / w
    x0, xend = kw["x0"], kw["xend"]
    kw["events"] = gen.gen_events(rng, kw["prob"], x0, xend, kmax=4)
    meta["events"] = len(kw["events"])
    if rng.random() < 0.3:
        span = xend - x0
        kw["t_eval"] = [x0 + span * p for p in sorted(rng.uniform(0, 1) for _ in range(rng.randint(1, 8)))]
    if rng.random() < 0.4:
        kw["dense"] = True
    # first_step switches the handler to its "first output at x0 + first_step" path, whose early returns
    # bypass the end of the callback (seeded change C08-b: history updates moved behind them)
    if "t_eval" not in kw and rng.random() < 0.3:
        span = abs(xend - x0)
        kw["first_step"] = span * rng.choice([1e-3, 0.01, 0.05, 0.2])
        meta["first_step"] = 1


def opt_steps(rng, kw, meta):
    x0, xend = kw["x0"], kw["xend"]
    span = abs(xend - x0)
    r = rng.random()
    if r < 0.6:
        kw["max_step"] = span / rng.choice([2, 3, 4, 7, 16, math.pi, 10 * math.e, 64])
    if rng.random() < 0.35:
        lim = kw.get("max_step") or span
        kw["first_step"] = min(lim, span) * rng.choice([1e-4, 1e-2, 0.1, 0.5, 1.0])
    if rng.random() < 0.4:
        kw["max_steps"] = rng.randint(1, 60)


def opt_config(rng, kw, meta):
    """C03 configuration sweep: tiny/huge spans, first_step/max_step variants, t_eval, dense, events"""
    prob = kw["prob"]
    x0 = kw["x0"]
    if rng.random() < 0.25:
        span = rng.choice([1e-12, 1e-9, 1e-6, 1e-3])
        kw["xend"] = x0 + span * (1 if kw["xend"] >= x0 else -1)
    x0, xend = kw["x0"], kw["xend"]
    span = abs(xend - x0)
    r = rng.random()
    if r < 0.3:
        # including first steps that reach or overshoot xend: the first attempt is then already the landing step, and
        # may be rejected (seeded change C03-c: Radau kept its `last` flag across a rejected first attempt)
        kw["first_step"] = span * rng.choice([1e-3, 0.1, 1.0, 1.0, 2.5, 10.0])
    r = rng.random()
    if r < 0.3:
        kw["max_step"] = rng.choice([span / 4, span / 7, span / math.pi, span, float("inf")])
    if rng.random() < 0.3:
        sp = xend - x0
        kw["t_eval"] = [x0 + sp * p for p in sorted(rng.uniform(0, 1) for _ in range(rng.randint(0, 6)))]
    if rng.random() < 0.4:
        kw["dense"] = True
    if rng.random() < 0.35:
        kw["events"] = gen.gen_events(rng, prob, x0, xend)


PROFILES = {
    "teval": {"tag": "te", "options": opt_teval},
    "events": {"tag": "ev", "options": opt_events},
    "steps": {"tag": "st", "options": opt_steps},
    "config": {"tag": "cf", "options": opt_config},
    "plain": sweep.PROFILES["plain"],
    "output": sweep.PROFILES["output"],
    "patho": sweep.PROFILES["patho"],
}
