"""C20: the Python binding returns the Rust solution in SciPy layout."""
import collections
import os
import random
import re
import shutil
import subprocess
from . import common, harness, gen, sweep
from .p_common import TB, PROFILES

PYTARGET = os.path.join(common.VERIF, "work", "pytarget")
PYMOD = os.path.join(common.VERIF, "work", "pymod")
RUNPY = os.path.join(common.VERIF, "pyharness", "run.py")


def build_extension(timeout=1800):
    with common.Lock("cargo-py"):
        rc, out = common.run(["cargo", "build", "--offline", "--features", "python", "--lib", "--release"], timeout, cwd=common.REPO,
                             env={"RUSTFLAGS": "--cfg ivp_verif", "CARGO_TARGET_DIR": PYTARGET, "CARGO_NET_OFFLINE": "true"})
        if rc != 0:
            return False, out
        os.makedirs(PYMOD, exist_ok=True)
        shutil.copy(os.path.join(PYTARGET, "release", "libivp.so"), os.path.join(PYMOD, "ivp.so"))
    return True, out


def run_python(cases, timeout=900):
    nsh = max(1, min(common.NCPU, len(cases) // 6 or 1))
    shards = [cases[i::nsh] for i in range(nsh)]
    procs = [subprocess.Popen(["python3-vt", RUNPY, PYMOD], stdin=subprocess.PIPE, stdout=subprocess.PIPE, stderr=subprocess.PIPE, text=True)
             for _ in shards]
    res, errs = {}, []
    import threading

    def work(p, sh):
        try:
            out, err = p.communicate("\n".join(sh) + "\n", timeout=timeout)
        except subprocess.TimeoutExpired:
            p.kill(); out, err = p.communicate(); errs.append("timeout")
        if p.returncode not in (0, None):
            errs.append("rc=%s %s" % (p.returncode, (err or "")[-400:]))
        cur = None
        for l in out.splitlines():
            if l.startswith("case "):
                cur = l[5:].strip(); res[cur] = []
            elif l == "end":
                cur = None
            elif cur is not None:
                res[cur].append(l)
    ths = [threading.Thread(target=work, args=ps) for ps in zip(procs, shards)]
    [t.start() for t in ths]
    [t.join() for t in ths]
    return res, errs


def key_of(l):
    p = l.split()
    return p[0] + (" " + p[1] if p[0] in ("tev", "yev", "sol") else "")


def compare(py, ref):
    """first python line that has no identical counterpart in the reference (model or Rust harness) output"""
    rd = {key_of(l): l for l in ref}
    for l in py:
        k = key_of(l)
        if k == "solmany":
            if l != "solmany ok":
                return (l, "solmany ok")
            continue
        if k in rd and rd[k] != l:
            return (l, rd[k])
        if k not in rd and k.split()[0] in ("status", "t", "y", "pystatus", "pystats", "ypy", "error", "panic", "pyharness-error"):
            return (l, "<no such line>")
    return None


def sparsity_cases(seed, n, defaults):
    """random patterns that cover the true sparsity of banded/sparse linear systems: result must equal the dense-FD run"""
    rng = random.Random(seed)
    cases, metas = [], {}
    for g in range(n):
        nn = rng.randint(2, 12)
        A = [[0.0] * nn for _ in range(nn)]
        for i in range(nn):
            A[i][i] = -rng.uniform(0.5, 3.0)
            for j in range(nn):
                if i != j and rng.random() < 0.25:
                    A[i][j] = round(rng.uniform(-1, 1), 2)
        if rng.random() < 0.3:   # structurally non-symmetric chain
            for i in range(1, nn):
                A[i][i - 1] = 0.7
        prob = {"name": "sparse%d" % nn, "f": [gen.lin(A[i], nn) for i in range(nn)], "y0": [round(rng.uniform(-1, 1), 2) or 0.5 for _ in range(nn)]}
        pat = [(i, j) for i in range(nn) for j in range(nn) if A[i][j] != 0.0 or (rng.random() < 0.05)]
        method = rng.choice(["BDF", "RADAU"])
        base = dict(method=method, prob=prob, x0=0.0, xend=rng.uniform(0.5, 2.0), rtol=1e-6, atol=1e-9, defaults=defaults)
        fmt = rng.choice(["dense", "csc", "csr", "coo", "lil"])
        for name, extra in (("dense", ""), ("sp", "sparsity=%d:%s spfmt=%s" % (nn, ",".join("%d/%d" % p for p in pat), fmt))):
            cid = "s%d_%s" % (g, name)
            cases.append(gen.solve_case(cid, extra=extra, **base) + " py=1")
            metas[cid] = ({"family": prob["name"], "n": nn, "backward": False, "tolmode": "mixed", "method": method, "group": g,
                           "variant": name, "fmt": fmt}, base)
        # the grouping itself, through the hook
        cols = [[i for i in range(nn) if (i, j) in pat] for j in range(nn)]
        cid = "gc%d" % g
        cases.append("group id=%s cols=%d:%s" % (cid, nn, "|".join(",".join(str(r) for r in c) for c in cols)))
        metas[cid] = ({"family": "grouping", "n": nn, "backward": False, "tolmode": "-", "method": "-", "cols": cols}, {})
    return cases, metas


def check():
    rep = common.Report("C20")
    rep.cov["trusted_base"] = TB + ["pyharness/run.py (expression evaluator with Python floats, numpy/scipy.sparse for inputs) and the verification hook "
                                    "_verif_group_columns (cfg ivp_verif) that exposes the private column grouping",
                                    "PyO3 / numpy conversions are outside the model: only their observable layout is compared"]
    broken = []
    common.regenerate()
    ok, detail = common.proof_stage(rep, "C20.v")
    if not ok:
        broken.append(detail)
    ok, log = harness.build_all()
    ok2, log2 = build_extension() if ok else (False, "")
    if not (ok and ok2):
        rep.violation({"property": "C20", "broken": "build failed", "log": (log + log2)[-3000:]}, found=False)
        return rep.finish()
    defaults = harness.impl_defaults()
    thorough = common.tier() == "thorough"
    rng = random.Random(common.seed())
    cases, metas = sweep.make_cases(common.seed(), 1500 if thorough else 180, PROFILES["output"], defaults)
    fixed = []
    for c in cases:
        c = re.sub(r"/(2|3)/", "/1/", c) + " py=1"      # the binding's `terminal` attribute is a bool: count 1
        r = rng.random()
        cid = harness.case_id(c)
        if " jac=" not in c and metas[cid][1].get("prob", {}).get("jac") and metas[cid][0]["method"] in ("RADAU", "BDF") and r < 0.5:
            p = metas[cid][1]["prob"]
            c += " jac=%d:%s" % (len(p["jac"]), ";".join(e for row in p["jac"] for e in row))
            if p["name"].startswith("linear") or p["name"] == "sho":
                if rng.random() < 0.5:
                    c += " constjac=1"
            # memory layout / container of the Jacobian handed to the binding: C order, Fortran order, transposed view,
            # strided view, nested lists
            c += " pyjaclayout=" + rng.choice(["c", "f", "f", "t", "s", "l"])
        if rng.random() < 0.3:
            c += " pyargs=1"
        if rng.random() < 0.3:
            c += " pyevsingle=1"
        fixed.append(c)
    cases = fixed
    c2, m2 = sparsity_cases(common.seed() + 1, 400 if thorough else 40, defaults)
    cases += c2
    metas.update(m2)
    py, e0 = run_python(cases)
    model, e1 = harness.run_model(cases)
    impl, e2 = harness.run_impl([c for c in cases if c.startswith("solve")])
    found = False
    nontriv = set()
    dist = collections.Counter()
    nofound = []
    lines = {harness.case_id(c): c for c in cases}
    for c in cases:
        cid = harness.case_id(c)
        meta = metas[cid][0]
        a = py.get(cid, ["<missing>"])
        dist["%s/%s" % (meta["method"], a[0].split()[0] + ("/" + a[0].split()[1] if len(a[0].split()) > 1 and a[0].startswith("status") else ""))] += 1
        if any(l.startswith("t ") and int(l.split()[1]) >= 3 for l in a) or cid.startswith("gc"):
            nontriv.add(c.split(" ", 2)[2] if c.count(" ") > 2 else c)
        if any(l.startswith("pyharness-error") for l in a):
            rep.violation({"property": "C20", "broken": "pyharness error", "case": c, "python": a[:5]}, found=False)
            continue
        # (1) python vs the model (layout, status mapping, numbers)
        d = compare(a, model.get(cid, []))
        # (2) python vs the Rust API on the same case
        d2 = compare([l for l in a if key_of(l).split()[0] in ("status", "t", "y", "tev", "yev", "sol", "span")], impl.get(cid, [])) if c.startswith("solve") else None
        if d2:
            found = True
            rep.violation({"property": "C20", "case": c, "meta": meta, "observed": "the binding and the Rust API disagree: python %r vs rust %r" % (d2[0][:300], d2[1][:300])},
                          found=True, key="%s:py-vs-rust:%s" % (meta["method"], key_of(d2[0]).split()[0]))
        elif d:
            if key_of(d[0]).split()[0] in ("ypy", "pystatus", "pystats", "y", "yev", "solmany", "sol"):
                found = True
                rep.violation({"property": "C20", "case": c, "meta": meta, "observed": "layout/status differs from the SciPy convention of the model: python %r vs model %r" % (d[0][:300], d[1][:300])},
                              found=True, key="%s:layout:%s" % (meta["method"], key_of(d[0]).split()[0]))
            else:
                nofound.append((c, d, meta))
        if cid.startswith("gc"):
            # the property's own clause on the implementation's grouping
            g = [l for l in a if l.startswith("groups ")]
            if g:
                assign = [int(x) for x in g[0].split()[1].split(",")] if len(g[0].split()) > 1 else []
                cols = meta["cols"]
                for c1 in range(len(cols)):
                    for c2_ in range(c1 + 1, len(cols)):
                        if assign[c1] == assign[c2_] and set(cols[c1]) & set(cols[c2_]):
                            found = True
                            rep.violation({"property": "C20", "case": c, "meta": meta, "observed": "columns %d and %d share row(s) %r but are in the same group %d" %
                                           (c1, c2_, sorted(set(cols[c1]) & set(cols[c2_])), assign[c1])}, found=True, key="grouping")
    # sparsity changes only the number of evaluations
    groups = {}
    for cid, (meta, kw) in metas.items():
        if "variant" in meta:
            groups.setdefault(meta["group"], {})[meta["variant"]] = cid
    for g, vs in groups.items():
        if "dense" in vs and "sp" in vs:
            a = [l for l in py.get(vs["dense"], []) if key_of(l).split()[0] in ("status", "t", "y")]
            b = [l for l in py.get(vs["sp"], []) if key_of(l).split()[0] in ("status", "t", "y")]
            if a != b:
                found = True
                meta = metas[vs["sp"]][0]
                rep.violation({"property": "C20", "case": lines[vs["sp"]], "meta": meta,
                               "observed": "a jac_sparsity pattern (format %s) covering the true sparsity changed the result" % meta["fmt"]},
                              found=True, key="%s:sparsity-changes-result" % meta["method"])
    for c, d, meta in nofound[:5]:
        rep.violation({"property": "C20", "broken": "correspondence: binding and model differ", "case": c, "meta": meta,
                       "python_line": d[0][:300], "model_line": d[1][:300]}, found=False)
    for b in broken:
        if not found:
            rep.violation({"property": "C20", "broken": b}, found=False)
    if e0 or e1 or e2:
        rep.notes.append("runner: %r" % (e0 + e1 + e2,))
    rep.cov["evaluations"] = len(cases)
    rep.cov["distinct_nontrivial"] = len(nontriv)
    rep.cov["rule"] = ("the extension is built from /repo's working tree (cargo build --features python, hook on) and loaded in python3-vt; cases of the "
                       "'output' profile over six methods (t_eval, dense_output, events with direction/terminal, first/max_step, max_steps, extra args, "
                       "callable and constant Jacobian) with right-hand sides evaluated by Python floats in AST order; every number, shape, status code, "
                       "counter and sol() value is compared bit for bit with the Rust API and with the model's SciPy layout; random jac_sparsity "
                       "patterns n=2..12 in dense/CSC/CSR/COO/LIL form vs dense finite differences; the column grouping read through the hook and "
                       "checked pairwise; non-trivial = >= 3 samples")
    rep.cov["samples"] = [c[:300] for c in cases[:2]] + [c2[2][:200]]
    rep.cov["distribution"] = dict(dist.most_common(30))
    return rep.finish()
