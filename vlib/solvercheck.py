"""Shared flow of the solver-level property checks:
   proofs (regenerate, build, audit)  ->  correspondence (model vs implementation, bit for bit)
   ->  oracles on the implementation's results (the failing-input search)  ->  report."""
import collections
import os
from . import common, gen, harness, sweep


def nontrivial(res):
    st = res.get("stats")
    return bool(st and st[4] >= 2) or len(res.get("t", [])) >= 3


CORPUS = os.path.join(os.path.dirname(os.path.dirname(os.path.abspath(__file__))), "corpus", "cases.jsonl")


def load_corpus(prop):
    import json
    out = []
    if os.path.exists(CORPUS):
        for l in open(CORPUS):
            if l.strip():
                e = json.loads(l)
                if prop in e.get("props", []):
                    out.append(e)
    return out


def corpus_builder(entries):
    cases, metas = [], {}
    for k, e in enumerate(entries):
        cid = "corpus%d" % k
        line = " ".join(("id=" + cid) if t.startswith("id=") else t for t in e["case"].split())
        kw = gen.parse_case(line)
        meta = dict(e.get("meta") or {})
        meta.setdefault("family", "corpus")
        meta.setdefault("n", len(kw["prob"]["y0"]))
        meta.setdefault("backward", kw["xend"] < kw["x0"])
        meta.setdefault("tolmode", "mixed")
        meta.setdefault("method", kw["method"])
        meta["corpus"] = e["id"]
        cases.append(line)
        metas[cid] = (meta, kw)
    return cases, metas


def run(prop, prop_file, specs, oracles, trusted, rule, extra=None, level="proof"):
    """specs: list of dicts {profile, n_quick, n_thorough, full, isolated, methods}
    oracles: list of functions (meta, kw, res) -> [(key, msg)]
    extra: optional function(rep, ctx) for property-specific paired comparisons; ctx has
           defaults, seed, tier and helpers."""
    rep = common.Report(prop, level)
    rep.cov["trusted_base"] = trusted
    broken = []
    rc, out = common.regenerate()      # the model's constants always come from the current source
    if rc != 0:
        broken.append({"kind": "translator", "detail": out})
    if prop_file:
        ok, detail = common.proof_stage(rep, prop_file)
        if not ok:
            broken.append({"kind": "proof", "detail": detail})
    ok, log = harness.build_all()
    if not ok:
        rep.violation({"property": prop, "broken": "harness/model build failed", "log": log[-3000:]}, found=False)
        return rep.finish()
    defaults = harness.impl_defaults()
    tier = common.tier()
    seed = common.seed()
    dist = collections.Counter()
    total = 0
    nontriv = set()
    samples = []
    found_any = False
    diffs_all = []
    specs = list(specs)
    corpus = load_corpus(prop)
    if corpus:
        # regression corpus: inputs on which a property failed before a repair, one process each (appended, so that
        # the generated specs keep their seeds)
        specs.append({"builder": lambda sd, n, dfl, tag: corpus_builder(corpus), "n_quick": len(corpus),
                         "n_thorough": len(corpus), "isolated": True, "timeout": 60, "corpus": True})
        rep.cov["corpus_cases"] = [e["id"] for e in corpus]
    for si, spec in enumerate(specs):
        n = spec["n_thorough"] if tier == "thorough" else spec["n_quick"]
        prof = dict(sweep.PROFILES[spec["profile"]]) if isinstance(spec.get("profile"), str) else dict(spec.get("profile") or {})
        prof["tag"] = "%s%d_" % (prof.get("tag", "c"), si)
        if spec.get("builder"):
            cases, metas = spec["builder"](seed * 1000 + si, n, defaults, "g%d_" % si)
        else:
            cases, metas = sweep.make_cases(seed * 1000 + si, n, prof, defaults, methods=spec.get("methods"))
        if spec.get("full"):
            cases = [c + " full=1" for c in cases]
        if spec.get("isolated"):
            impl, hung, crashed = harness.run_isolated(harness.IMPL_BIN, cases, spec.get("timeout", 20))
            model, mhung, mcrashed = harness.run_isolated(harness.MODEL_BIN, cases, spec.get("timeout", 20) * 3)
            for cid in hung:
                meta, kw = metas[cid]
                line = [c for c in cases if harness.case_id(c) == cid][0]
                found_any = True
                rep.violation({"property": prop, "case": line, "meta": meta,
                               "observed": "implementation did not return within %ss (watchdog)" % spec.get("timeout", 20)},
                              found=True, key="%s:hang:%s" % (meta["method"], meta["family"]))
                impl.pop(cid, None)
                model.pop(cid, None)
                cases = [c for c in cases if harness.case_id(c) != cid]
            for cid in crashed:
                meta, kw = metas[cid]
                line = [c for c in cases if harness.case_id(c) == cid][0]
                found_any = True
                rep.violation({"property": prop, "case": line, "meta": meta,
                               "observed": "the implementation's process died instead of returning: %s" % (impl.get(cid) or ["?"])[0][:200]},
                              found=True, key="%s:crash:%s" % (meta["method"], meta["family"]))
                impl.pop(cid, None)
                model.pop(cid, None)
                cases = [c for c in cases if harness.case_id(c) != cid]
            for cid in mhung:
                model.pop(cid, None)
                if cid in impl:
                    cases = [c for c in cases if harness.case_id(c) != cid]
                    rep.notes.append("model ran out of time on %s (implementation returned)" % cid)
            errs = ""
        else:
            impl, e1 = harness.run_impl(cases)
            model, e2 = harness.run_model(cases)
            errs = "; ".join(e1 + e2)
        if errs:
            rep.notes.append("runner: " + errs)
        total += len(cases)
        df = harness.diff(cases, impl, model)
        diff_ids = {d[0] for d in df}
        for line in cases:
            cid = harness.case_id(line)
            meta, kw = metas[cid]
            r = gen.parse_result(impl.get(cid, []))
            dist[(meta["method"], "bwd" if meta["backward"] else "fwd", r.get("status"))] += 1
            if spec.get("nontrivial", nontrivial)(r):
                nontriv.add(line.split(" ", 2)[2] if line.count(" ") > 2 else line)
            if len(samples) < 3 and spec.get("nontrivial", nontrivial)(r):
                samples.append({"case": line[:600], "status": r.get("status"), "stats": r.get("stats"), "n_samples": len(r.get("t", []))})
            fired = []
            for orc in oracles:
                try:
                    fired.extend(orc(meta, kw, r))
                except Exception as ex:  # a bug in the search must neither look like a violation nor pass silently
                    rep.notes.append("oracle error in %s on %s: %r" % (orc.__name__, cid, ex))
                    rep.cov["oracle_errors"] = rep.cov.get("oracle_errors", 0) + 1
            for key, msg in fired:
                found_any = True
                rep.violation({"property": prop, "case": line, "meta": meta, "observed": msg,
                               "impl_result": impl.get(cid, [])[:12]}, found=True,
                              key="%s:%s" % (meta["method"], key))
            if cid in diff_ids and not fired:
                diffs_all.append((cid, line, [d for d in df if d[0] == cid][0][2], meta))
        if spec.get("group_oracle"):
            parsed = {harness.case_id(l): gen.parse_result(impl.get(harness.case_id(l), [])) for l in cases}
            lines = {harness.case_id(l): l for l in cases}
            try:
                fired_groups = spec["group_oracle"](metas, parsed)
            except Exception as ex:   # a bug in the search must neither look like a violation nor pass silently
                import traceback
                rep.notes.append("group oracle error (that part of the failing-input search did not run): %r %s" %
                                 (ex, traceback.format_exc()[-400:]))
                rep.cov["oracle_errors"] = rep.cov.get("oracle_errors", 0) + 1
                fired_groups = []
            for cid, key, msg in fired_groups:
                found_any = True
                rep.violation({"property": prop, "case": lines.get(cid), "meta": metas[cid][0], "observed": msg,
                               "impl_result": impl.get(cid, [])[:12]}, found=True,
                              key="%s:%s" % (metas[cid][0]["method"], key))
    ctx = {"defaults": defaults, "seed": seed, "tier": tier}
    if extra:
        n_extra, nt_extra = extra(rep, ctx)
        total += n_extra
        for k in range(nt_extra):
            nontriv.add("extra%d" % k)
    # correspondence breaks for which no oracle produced a concrete failing input
    for cid, line, d, meta in diffs_all[:5]:
        rep.violation({"property": prop, "broken": "correspondence: model and implementation differ",
                       "case": line, "meta": meta, "impl_line": d[0] if d else None, "model_line": d[1] if d else None},
                      found=False)
    for b in broken:
        if not found_any:
            rep.violation({"property": prop, "broken": b}, found=False)
        else:
            rep.notes.append("proof obligation also broken: %r" % (b,))
    rep.cov["evaluations"] = total
    rep.cov["distinct_nontrivial"] = len(nontriv)
    rep.cov["rule"] = rule
    rep.cov["samples"] = samples or [{"note": "no non-trivial sample"}]
    rep.cov["distribution"] = {"%s/%s/%s" % k: v for k, v in sorted(dist.items(), key=lambda kv: str(kv[0]))}
    rep.cov["correspondence_disagreements"] = len(diffs_all)
    return rep.finish()
