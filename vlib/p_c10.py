"""C10 (see DESIGN.md)."""
from . import solvercheck, oracles
from .p_common import TB, PROFILES
from . import gridgen


def check():
    return solvercheck.run(
        "C10", "C10.v",
        [dict(profile=PROFILES["events"], n_quick=300, n_thorough=5000),
         dict(builder=(lambda seed, n, d, tag: gridgen.event_builder(seed, n, d, tag, terminal_prob=0.7)), n_quick=300, n_thorough=5000)],
        [oracles.oracle_C10, oracles.oracle_C09, oracles.oracle_C05, oracles.oracle_shapes], TB,
        "grid-aware placements (inside a step, on a boundary, +-1 ulp, +-1e-12, +-1e-9, several per step) + profile 'events' + plain runs over the 4 explicit methods, both directions; each case replayed bit-for-bit on the "
        "extracted model; the property's clauses checked on the implementation's results; non-trivial = at least 2 accepted "
        "steps; distinct = distinct case lines")
