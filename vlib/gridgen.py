"""Two-pass ("grid-aware") case builders: a plain run of the implementation reveals the accepted-step
grid; derived cases then place requested output times / event roots strictly inside a step, on a
step boundary, one ulp and 1e-12 / 1e-9 either side of it, at x0, at xend, several per step."""
import math
import random
import struct
from . import gen, harness, sweep


def nextafter(x, direction):
    if x != x or abs(x) == math.inf:
        return x
    if x == 0.0:
        return math.copysign(5e-324, direction)
    b = struct.unpack("<q", struct.pack("<d", x))[0]
    b += 1 if (direction > 0) == (x > 0) else -1
    return struct.unpack("<d", struct.pack("<q", b))[0]


def base_runs(seed, n, defaults, methods=None, fams=None):
    rng = random.Random(seed)
    methods = methods or sweep.available_methods()
    bases = []
    for i in range(n):
        kw, meta = sweep.base_case(rng, i, methods[i % len(methods)], defaults, fams=fams)
        if rng.random() < 0.3:
            span = abs(kw["xend"] - kw["x0"])
            kw["max_step"] = span / rng.choice([4, 8, 10])
        bases.append((kw, meta))
    lines = [gen.solve_case("b%d" % i, **kw) for i, (kw, _) in enumerate(bases)]
    impl, errs = harness.run_impl(lines)
    out = []
    for i, (kw, meta) in enumerate(bases):
        r = gen.parse_result(impl.get("b%d" % i, []))
        if r.get("status") == "Success" and len(r.get("t", [])) >= 3:
            out.append((kw, meta, r["t"]))
    return rng, out


def around(rng, grid, d):
    """a point placed relative to the grid; returns (value, placement tag)"""
    k = rng.randrange(1, len(grid) - 1) if len(grid) > 2 else 1
    tk = grid[k]
    kind = rng.choice(["inside", "inside", "boundary", "ulp+", "ulp-", "1e-12+", "1e-12-", "1e-9+", "1e-9-", "5e-13+"])
    if kind == "inside":
        a, b = grid[k - 1], grid[k]
        return a + (b - a) * rng.uniform(0.05, 0.95), kind
    if kind == "boundary":
        return tk, kind
    if kind == "ulp+":
        return nextafter(tk, d), kind
    if kind == "ulp-":
        return nextafter(tk, -d), kind
    mag = {"1e-12": 1e-12, "1e-9": 1e-9, "5e-13": 5e-13}[kind[:-1]]
    return tk + d * mag * (1 if kind.endswith("+") else -1), kind


def teval_builder(seed, n, defaults, tag):
    rng, bases = base_runs(seed, max(4, n // 3), defaults)
    cases, metas = [], {}
    if not bases:
        return cases, metas
    for c in range(n):
        kw, meta, grid = bases[c % len(bases)]
        kw = dict(kw)
        meta = dict(meta)
        d = 1.0 if kw["xend"] >= kw["x0"] else -1.0
        pts, tags = [], []
        for _ in range(rng.randint(1, 8)):
            v, tg = around(rng, grid, d)
            if (v - kw["x0"]) * d >= 0 and (kw["xend"] - v) * d >= 0:
                pts.append(v)
                tags.append(tg)
        if rng.random() < 0.4:
            pts.append(kw["x0"]); tags.append("x0")
        if rng.random() < 0.4:
            pts.append(kw["xend"]); tags.append("xend")
        pts.sort(reverse=(d < 0))
        kw["t_eval"] = pts
        meta["placements"] = sorted(set(tags))
        if rng.random() < 0.3:
            kw["dense"] = True
        if rng.random() < 0.25:
            kw["events"] = gen.gen_events(rng, kw["prob"], kw["x0"], kw["xend"])
        if rng.random() < 0.15:
            kw["max_steps"] = rng.randint(1, max(2, len(grid)))
        cid = "%s%d" % (tag, c)
        cases.append(gen.solve_case(cid, **kw))
        metas[cid] = (meta, kw)
    return cases, metas


def event_builder(seed, n, defaults, tag, terminal_prob=0.35):
    rng, bases = base_runs(seed, max(4, n // 3), defaults)
    cases, metas = [], {}
    if not bases:
        return cases, metas
    for c in range(n):
        kw, meta, grid = bases[c % len(bases)]
        kw = dict(kw)
        meta = dict(meta)
        d = 1.0 if kw["xend"] >= kw["x0"] else -1.0
        evs, tags, roots = [], [], []
        same_step = rng.random() < 0.3
        k0 = rng.randrange(1, len(grid))
        for _ in range(rng.randint(1, 3)):
            if same_step:
                a, b = grid[k0 - 1], grid[k0]
                v, tg = a + (b - a) * rng.uniform(0.05, 0.95), "same-step"
            else:
                v, tg = around(rng, grid, d)
            if not ((v - kw["x0"]) * d > 0 and (kw["xend"] - v) * d > 0):
                continue
            scale = rng.choice([1.0, 1.0, 1e-3, -1.0, 7.0])
            e = gen.mul(gen.C(scale), gen.sub(gen.T, gen.C(v))) if scale != 1.0 else gen.sub(gen.T, gen.C(v))
            dirn = rng.choice([0, 0, 1, -1])
            term = str(rng.choice([1, 1, 2])) if rng.random() < terminal_prob else "none"
            evs.append("%d/%s/%s" % (dirn, term, e))
            tags.append(tg)
            roots.append({"root": v, "slope": scale * d, "dir": dirn})
        if not evs:
            continue
        kw["events"] = evs
        meta["placements"] = sorted(set(tags))
        meta["roots"] = roots
        if rng.random() < 0.3:
            kw["dense"] = True
        if rng.random() < 0.2:
            sp = kw["xend"] - kw["x0"]
            kw["t_eval"] = [kw["x0"] + sp * p for p in sorted(rng.uniform(0, 1) for _ in range(rng.randint(1, 6)))]
        cid = "%s%d" % (tag, c)
        cases.append(gen.solve_case(cid, **kw))
        metas[cid] = (meta, kw)
    return cases, metas


def budget_builder(seed, n, defaults, tag):
    """budget sweep: for base runs that had rejected attempts, EVERY budget max_steps = 1..nstep (so that the
    attempt on which the budget runs out is, for some budgets, a rejected one: seeded change C11-b moved the
    budget test into the accepted branch of one method, visible only then)"""
    rng = random.Random(seed)
    methods = sweep.available_methods()
    bases = []
    for i in range(12 * len(methods)):
        kw, meta = sweep.base_case(rng, i, methods[i % len(methods)], defaults,
                                   fams=[gen.fam_vdp, gen.fam_vdp, gen.fam_logistic, gen.fam_forced, gen.fam_rational] if i % 4 else None)
        bases.append((kw, meta))
    lines = [gen.solve_case("b%d" % i, **kw) for i, (kw, _) in enumerate(bases)]
    impl, errs = harness.run_impl(lines)
    good = []
    for i, (kw, meta) in enumerate(bases):
        r = gen.parse_result(impl.get("b%d" % i, []))
        st = r.get("stats")
        if r.get("status") == "Success" and st and st[3] > st[4] and st[3] <= 400:
            good.append((kw, meta, st))
    # the same share of the budget for every method; within a method, bases with more rejections first
    cases, metas = [], {}
    c = 0
    quota = max(1, n // max(1, len(methods)))
    for mth in methods:
        mine = sorted([g for g in good if g[1]["method"] == mth], key=lambda g: -(g[2][3] - g[2][4]))[:3]
        for bi, (kw, meta, st) in enumerate(mine):
            share = quota // len(mine)
            budgets = list(range(1, st[3] + 1))
            if len(budgets) > share:
                budgets = sorted(rng.sample(budgets, share))
            for m in budgets:
                kw2 = dict(kw); meta2 = dict(meta)
                kw2["max_steps"] = m
                meta2["budget_sweep"] = [m, st[3]]
                cid = "%s%d" % (tag, c)
                cases.append(gen.solve_case(cid, **kw2))
                metas[cid] = (meta2, kw2)
                c += 1
    return cases, metas
