"""C13: equivalent problems get equivalent answers (tolerance representation, time reflection,
power-of-two scaling of linear systems, duplication into independent copies)."""
import random
from . import solvercheck, oracles, gen, sweep
from .p_common import TB
from .gen import C


def subst_reflect(e):
    """expression of (t, y) -> expression of (s, z) with t := -s"""
    return ",".join("neg,t" if tok == "t" else tok for tok in e.split(","))


def shift_y(e, off):
    return ",".join(("y%d" % (int(tok[1:]) + off)) if (tok.startswith("y") and tok[1:].isdigit()) else tok for tok in e.split(","))


def builder(seed, n, defaults, tag):
    rng = random.Random(seed)
    methods = sweep.available_methods()
    cases, metas = [], {}
    ngroups = max(2, n // 5)
    for g in range(ngroups):
        method = methods[g % len(methods)]
        kind = ["tolvec", "reflect", "scale", "copies", "reflect"][g % 5]
        fams = [gen.fam_linear] if kind == "scale" else None
        pulse = kind == "reflect" and method in ("BDF", "RADAU") and rng.random() < 0.6
        if pulse:
            fams = [gen.fam_pulse]
        kw, meta = sweep.base_case(rng, g, method, defaults, fams=fams)
        if pulse:
            # loose tolerance, analytic Jacobian: large steps, error-test rejections at the pulse, bit-exact mirroring
            kw["rtol"] = rng.choice([1e-3, 3e-4, 1e-4]); kw["atol"] = 1e-6
            kw["x0"] = 0.0; kw["xend"] = 20.0 if rng.random() < 0.5 else -20.0
            if kw["xend"] < 0:
                p0 = dict(kw["prob"]); p0["f"] = ["neg," + subst_reflect(e) for e in p0["f"]]
                p0["jac"] = [["neg," + subst_reflect(e) for e in row] for row in p0["jac"]]
                kw["prob"] = p0
            meta["backward"] = kw["xend"] < 0
        prob = kw["prob"]
        nn = len(prob["y0"])
        if method in ("RADAU", "BDF"):
            kw["use_jac"] = bool(prob.get("jac")) and (kind != "copies") and (pulse or rng.random() < 0.7)
        # scalar tolerances as the base
        rt = kw["rtol"] if isinstance(kw["rtol"], float) else kw["rtol"][0]
        at = kw["atol"] if isinstance(kw["atol"], float) else kw["atol"][0]
        if rt == 0.0 and at == 0.0:
            at = 1e-8
        kw["rtol"], kw["atol"] = rt, at
        if rng.random() < 0.5 and kind in ("reflect",):
            kw["events"] = [e for e in gen.gen_events(rng, prob, kw["x0"], kw["xend"], terminal_ok=False)]
        base = dict(kw)
        variants = [("base", base)]
        if kind == "tolvec":
            v = dict(kw); v["rtol"] = [rt] * nn; v["atol"] = [at] * nn
            variants.append(("tolvec", v))
            # mixed representations: only one of the two written as a constant vector (seeded change C13-b: Radau's
            # tolerance transform treated "both scalar" and "anything else" differently)
            v = dict(kw); v["rtol"] = [rt] * nn
            variants.append(("tolvec-r", v))
            v = dict(kw); v["atol"] = [at] * nn
            variants.append(("tolvec-a", v))
        elif kind == "reflect":
            p2 = dict(prob)
            p2["f"] = ["neg," + subst_reflect(e) for e in prob["f"]]
            if prob.get("jac"):
                p2["jac"] = [["neg," + subst_reflect(e) for e in row] for row in prob["jac"]]
            v = dict(kw); v["prob"] = p2; v["x0"] = -kw["x0"]; v["xend"] = -kw["xend"]
            if kw.get("events"):
                v["events"] = []
                for e in kw["events"]:
                    d, term, ex = e.split("/", 2)
                    v["events"].append("%s/%s/%s" % (d, term, subst_reflect(ex)))
            variants.append(("reflect", v))
        elif kind == "scale":
            k = rng.choice([-20, -7, 3, 10, 30])
            c = 2.0 ** k
            p2 = dict(prob); p2["y0"] = [v * c for v in prob["y0"]]
            v = dict(kw); v["prob"] = p2; v["atol"] = at * c
            meta = dict(meta); meta["scale"] = c
            variants.append(("scale", v))
        elif kind == "copies":
            m = rng.choice([2, 3, 8, 16])
            p2 = dict(prob)
            p2["f"] = [shift_y(e, j * nn) for j in range(m) for e in prob["f"]]
            p2["y0"] = prob["y0"] * m
            p2.pop("jac", None)
            v = dict(kw); v["prob"] = p2; v["use_jac"] = False
            base["use_jac"] = False
            meta = dict(meta); meta["copies"] = m
            # automatic initial step (hinit) for one pair, a given first_step for the other
            variants.append(("copiesauto", dict(v)))
            fs = abs(kw["xend"] - kw["x0"]) * 1e-3
            base2 = dict(base); base2["first_step"] = fs
            v2 = dict(v); v2["first_step"] = fs
            variants.append(("base2", base2))
            variants.append(("copies", v2))
        for name, k2 in variants:
            m2 = dict(meta); m2["group"] = g; m2["variant"] = name; m2["kind"] = kind
            m2["fdjac"] = method in ("RADAU", "BDF") and not k2.get("use_jac")
            cid = "%s%d_%s" % (tag, g, name)
            cases.append(gen.solve_case(cid, **k2))
            metas[cid] = (m2, k2)
    return cases, metas


def close(a, b, rel):
    return a == b or abs(a - b) <= rel * max(abs(a), abs(b), 1e-300)


def group_oracle(metas, parsed):
    out = []
    groups = {}
    for cid, (meta, kw) in metas.items():
        groups.setdefault(meta["group"], {})[meta["variant"]] = cid
    for g, vs in groups.items():
        b = parsed[vs["base"]]
        if b.get("status") in (None, "error", "panic"):
            continue
        for name, cid in vs.items():
            if name in ("base", "base2"):
                continue
            r = parsed[cid]
            if name == "copies":
                b = parsed[vs["base2"]]
            else:
                b = parsed[vs["base"]]
            meta, kw = metas[cid]
            exact = not meta["fdjac"]
            if r.get("status") != b.get("status"):
                out.append((cid, "status-differs:" + name, "status %s vs %s for the equivalent problem" % (r.get("status"), b.get("status"))))
                continue
            if name.startswith("tolvec"):
                if r.get("t") != b.get("t") or r.get("y") != b.get("y") or r.get("stats") != b.get("stats"):
                    out.append((cid, "tolerance-representation", "a scalar tolerance and the constant vector gave different trajectories"))
            elif name == "reflect":
                tb, tr = b.get("t", []), r.get("t", [])
                if exact:
                    if [-v for v in tb] != tr or b.get("y") != r.get("y") or b.get("stats") != r.get("stats"):
                        out.append((cid, "reflection", "time reflection did not mirror the trajectory bit for bit"))
                else:
                    if len(tb) != len(tr) or any(not close(-u, v, 1e-6) for u, v in zip(tb, tr)):
                        out.append((cid, "reflection-fd", "time reflection changed the step sequence beyond rounding (finite-difference Jacobian)"))
                for i, te in b.get("tev", {}).items():
                    tr_ = r.get("tev", {}).get(i, [])
                    if len(te) != len(tr_) or any(abs(u + v) > 1e-9 * max(1.0, abs(u)) + 1e-11 for u, v in zip(te, tr_)):
                        out.append((cid, "reflection-events", "event times of function %d do not mirror under time reflection" % i))
                        break
            elif name == "scale":
                c = meta["scale"]
                if exact:
                    ys = [[v * c for v in yi] for yi in b.get("y", [])]
                    if r.get("t") != b.get("t") or r.get("y") != ys or r.get("stats") != b.get("stats"):
                        out.append((cid, "scaling", "scaling y0 and atol by %g did not scale the trajectory exactly" % c))
                else:
                    if len(r.get("t", [])) != len(b.get("t", [])):
                        out.append((cid, "scaling-fd", "scaling changed the number of steps (finite-difference Jacobian)"))
            elif name in ("copies", "copiesauto"):
                m = meta["copies"]
                nn = len(metas[vs["base"]][1]["prob"]["y0"])
                tb, tr = b.get("t", []), r.get("t", [])
                if name == "copiesauto":
                    # the initial step guess must not depend on the number of copies
                    if meta["method"] not in ("RK4", "RADAU") and len(tb) > 1 and len(tr) > 1 and not close(tb[1], tr[1], 1e-6) \
                            and abs(tb[1] - tr[1]) > 1e-9 * abs(tb[-1] - tb[0]):
                        out.append((cid, "copies-auto-first-step", "with the automatic initial step the first accepted step is %r for one system and %r for %d copies" % (tb[1] - tb[0], tr[1] - tr[0], m)))
                    continue
                # step-size control amplifies rounding differences of the error norm, so beyond the first steps only
                # counts and the final state are compared
                if abs(len(tr) - len(tb)) > max(3, len(tb) // 10):
                    out.append((cid, "copies-steps", "duplicating the system changed the number of samples from %d to %d" % (len(tb), len(tr))))
                    continue
                # (1e-6, not rounding level: with a first_step that is rejected the third SAMPLE may be the 20th attempt, and
                # BDF's backward differences amplify the 1e-16 difference between a norm over n and over m*n components
                # to 1e-8 by then -- observed: rot3, rtol 1.4e-9, identical counters, steps differing by 1.8e-8)
                if len(tb) > 2 and len(tr) > 2 and not close(tb[2], tr[2], 1e-6):
                    out.append((cid, "copies-early-steps", "the second accepted step already differs: %r vs %r" % (tb[2], tr[2])))
                if not b.get("y") or not r.get("y"):
                    continue   # a run that reports no sample at all (e.g. an Err from solve_ivp): equal statuses were checked above
                yb, yr = b["y"][-1], r["y"][-1]
                rt = kw["rtol"] if isinstance(kw["rtol"], float) else max(kw["rtol"])
                at = kw["atol"] if isinstance(kw["atol"], float) else max(kw["atol"])
                if r.get("status") == "Success":
                    scale = max(abs(v) for yi in b["y"] for v in yi)
                    for j in range(m):
                        for i in range(nn):
                            if abs(yb[i] - yr[j * nn + i]) > 1e3 * len(tb) * (at + rt * scale) + 1e-9 * scale:
                                out.append((cid, "copies", "copy %d of the duplicated system ends at %r, the single system at %r" % (j, yr[j * nn + i], yb[i])))
                                break
                        else:
                            continue
                        break
                # the copies must agree among themselves exactly (same operations)
                for yi in r.get("y", []):
                    if any(yi[j * nn + i] != yi[i] for j in range(m) for i in range(nn)):
                        out.append((cid, "copies-internal", "the identical copies inside one run diverged"))
                        break
    return out


def check():
    import os
    return solvercheck.run(
        "C13", "C13.v" if os.path.exists(os.path.join(solvercheck.common.COQ, "props", "C13.v")) else None,
        [dict(builder=builder, n_quick=300, n_thorough=5000, group_oracle=group_oracle)],
        [oracles.oracle_shapes], TB,
        "pairs (base, transformed) over 6 methods: scalar vs constant-vector tolerances, time reflection (with events), scaling of a "
        "linear system and atol by 2^k, duplication into 2..16 copies; bitwise comparison for explicit methods and implicit methods with "
        "a user Jacobian, loose comparison with the finite-difference Jacobian and for copies; every run replayed on the model")
