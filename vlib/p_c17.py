"""C17: matrix values do not depend on the storage scheme."""
import collections
from . import common, harness, gen_mat
from .harness import unhx


def ctor_dense(spec):
    """dense equivalent the property assigns to a constructor call; returns (n, rows, writable(i,j)->bool) or None if the ctor itself must panic"""
    p = spec.split(":")
    k = p[0]
    def zeros(n): return [[0.0] * n for _ in range(n)]
    if k == "identity":
        n = int(p[1]); return n, [[1.0 if i == j else 0.0 for j in range(n)] for i in range(n)], (lambda i, j: False)
    if k in ("zeros", "full"):
        n = int(p[1]); return n, zeros(n), (lambda i, j: True)
    if k == "square":
        n = int(p[1]); return n, zeros(n), (lambda i, j: True)
    if k == "banded":
        n, ml, mu = int(p[1]), int(p[2]), int(p[3]); return n, zeros(n), (lambda i, j: -mu <= i - j <= ml)
    if k == "lower":
        n = int(p[1]); return n, zeros(n), (lambda i, j: j <= i)
    if k == "upper":
        n = int(p[1]); return n, zeros(n), (lambda i, j: i <= j)
    if k == "diag":
        vals = [unhx(x) for x in p[2].split(",")] if len(p) > 2 and p[2] else []
        n = len(vals); return n, [[vals[i] if i == j else 0.0 for j in range(n)] for i in range(n)], (lambda i, j: i == j)
    if k == "fromvec":
        n = int(p[1]); vals = [unhx(x) for x in p[4].split(",")] if len(p) > 4 and p[4] else []
        return n, [vals[i * n:(i + 1) * n] for i in range(n)], (lambda i, j: True)
    if k == "fromstorage":
        n = int(p[1]); st = p[3]
        if st == "identity":
            return n, [[1.0 if i == j else 0.0 for j in range(n)] for i in range(n)], (lambda i, j: False)
        if st == "full":
            return n, zeros(n), (lambda i, j: True)
        _, ml, mu = st.split("-"); ml, mu = int(ml), int(mu)
        return n, zeros(n), (lambda i, j: -mu <= i - j <= ml)
    raise ValueError(spec)


def build_dense(spec, w):
    n, rows, writable = ctor_dense(spec)
    body = w.split(":", 1)[1] if ":" in w else ""
    if body:
        for t in body.split(","):
            i, j, v = t.split("/")
            i, j = int(i), int(j)
            if i >= n or j >= n or not writable(i, j):
                return None  # the property requires a panic
            rows[i][j] = unhx(v)
    return n, rows


def expected(kv):
    A = build_dense(kv["a"], kv.get("aw", "0:"))
    if A is None:
        return "A panic"
    n, a = A
    op = kv.get("op", "none")
    p = op.split(":")
    if p[0] in ("add", "sub", "addassign", "subassign", "subassignref"):
        B = build_dense(kv["b"], kv.get("bw", "0:"))
        if B is None:
            return "B panic"
        nb, b = B
        if nb != n:
            return "op panic"
        sgn = 1.0 if p[0].startswith("add") else -1.0
        return [[a[i][j] + b[i][j] if sgn > 0 else a[i][j] - b[i][j] for j in range(n)] for i in range(n)]
    if p[0] == "none":
        return a
    c = unhx(p[1])
    if p[0] == "cadd":
        return [[a[i][j] + c for j in range(n)] for i in range(n)]
    if p[0] == "csub":
        return [[a[i][j] - c for j in range(n)] for i in range(n)]
    return [[a[i][j] * c for j in range(n)] for i in range(n)]


def oracle(line, res):
    kv = dict(t.split("=", 1) for t in line.split()[1:] if "=" in t)
    exp = expected(kv)
    out = []
    ctor = kv["a"].split(":")[0] + ("/" + kv["b"].split(":")[0] if "b" in kv else "")
    if isinstance(exp, str):
        stage = exp.split()[0]
        got = [l for l in res if l.startswith(stage + " ")]
        if not got or got[0] != exp:
            out.append(("missing-panic:" + stage, "an out-of-band / Identity / out-of-shape write or a dimension mismatch must panic (%s) but the result was %r" % (exp, res[:3])))
        return out
    for l in res:
        if l.endswith(" panic"):
            out.append(("unexpected-panic:%s:%s" % (l.split()[0], ctor), "%s although every step of the sequence is valid" % l))
            return out
    rows = {int(l.split()[1]): l.split()[2].split(",") if len(l.split()) > 2 else [] for l in res if l.startswith("row ")}
    n = len(exp)
    for i in range(n):
        for j in range(n):
            cell = rows.get(i, [])[j] if j < len(rows.get(i, [])) else "missing"
            if cell == "P" or cell == "missing":
                out.append(("unreadable:%s" % ctor, "entry (%d,%d) cannot be read" % (i, j)))
                return out
            v = unhx(cell)
            e = exp[i][j]
            if not (v == e or (v != v and e != e)):
                out.append(("entry-differs:%s:%s" % (kv.get("op", "none").split(":")[0], ctor), "entry (%d,%d) = %r, dense equivalent gives %r" % (i, j, v, e)))
                return out
    isid = [l for l in res if l.startswith("isid ")]
    want = all((exp[i][j] == (1.0 if i == j else 0.0)) for i in range(n) for j in range(n))
    if isid and isid[0].split()[1] in ("true", "false") and (isid[0].split()[1] == "true") != want:
        out.append(("is_identity", "is_identity() = %s but the dense definition gives %s" % (isid[0].split()[1], want)))
    oob = [l for l in res if l.startswith("oob ")]
    if oob and oob[0] != "oob P":
        out.append(("oob-read", "a read outside the shape did not panic"))
    return out


def check():
    rep = common.Report("C17")
    rep.cov["trusted_base"] = [
        "Coq 8.16.1 kernel + vm_compute; theorems over any Ops satisfying the ring laws used (instantiated for R)",
        "extraction (ExtrOcamlBasic, ExtrOCamlFloats, float64.ml shim) + driver.ml + /verif/harness for the bit-exact replay",
        "model/Matrix.v writes the Rust loops in closed form per output cell; that reading is what the replay validates",
    ]
    broken = []
    common.regenerate()
    import os
    if os.path.exists(os.path.join(common.COQ, "props", "C17.v")):
        ok, detail = common.proof_stage(rep, "C17.v")
        if not ok:
            broken.append(detail)
    ok, log = harness.build_all()
    if not ok:
        rep.violation({"property": "C17", "broken": "build failed", "log": log[-2000:]}, found=False)
        return rep.finish()
    n = 20000 if common.tier() == "thorough" else 2500
    cases, metas = gen_mat.matrix_cases(common.seed(), n, 8)
    impl, e1 = harness.run_impl(cases)
    model, e2 = harness.run_model(cases)
    df = harness.diff(cases, impl, model)
    diff_ids = {d[0] for d in df}
    found = False
    dist = collections.Counter()
    nontriv = set()
    nofound = []
    for line in cases:
        cid = harness.case_id(line)
        m = metas[cid]
        dist["%s/%s/%s" % (m["a"], m["b"], m["op"])] += 1
        res = impl.get(cid, [])
        if any(l.startswith("row ") for l in res) and m["n"] >= 2:
            nontriv.add(line.split(" ", 2)[2])
        fired = oracle(line, res)
        for key, msg in fired:
            found = True
            rep.violation({"property": "C17", "case": line, "meta": m, "observed": msg, "impl_result": res[:12]}, found=True, key=key)
        if cid in diff_ids and not fired:
            nofound.append((line, [d for d in df if d[0] == cid][0][2], m))
    for line, d, m in nofound[:5]:
        rep.violation({"property": "C17", "broken": "correspondence: model and implementation differ", "case": line, "meta": m,
                       "impl_line": d[0], "model_line": d[1]}, found=False)
    for b in broken:
        if not found:
            rep.violation({"property": "C17", "broken": b}, found=False)
    rep.cov["evaluations"] = len(cases)
    rep.cov["distinct_nontrivial"] = len(nontriv)
    rep.cov["rule"] = ("operation sequences constructor+writes [+ second operand] + one operator, then every entry read, for n=1..8, all constructors, "
                       "all (ml,mu), all storage pairs, scalars incl. 0 and -0.0; compared bit-for-bit with the model and entrywise with a dense "
                       "reference; non-trivial = n>=2 and the sequence completed without an expected panic; distinct = distinct case lines")
    rep.cov["samples"] = [c[:300] for c in cases[:3]]
    rep.cov["distribution_top"] = dict(dist.most_common(25))
    rep.cov["correspondence_disagreements"] = len(df)
    return rep.finish()
