"""Case generation for the whole-solver correspondence: problems as expression ASTs that both
sides evaluate identically, options drawn from the configurations the properties quantify over.
Every random choice comes from one random.Random(seed)."""
import math
import random
from .harness import hx, hxlist, unhx

# ---------- expression builders (prefix, ',' separated) ----------


def C(v):
    return "c" + hx(v)


def Y(i):
    return "y%d" % i


T = "t"


def add(a, b):
    return "+,%s,%s" % (a, b)


def sub(a, b):
    return "-,%s,%s" % (a, b)


def mul(a, b):
    return "*,%s,%s" % (a, b)


def div(a, b):
    return "/,%s,%s" % (a, b)


def neg(a):
    return "neg,%s" % a


def absx(a):
    return "abs,%s" % a


def sqrt(a):
    return "sqrt,%s" % a


def iflt(a, b, c, d):
    return "iflt,%s,%s,%s,%s" % (a, b, c, d)


def lin(coefs, n):
    """sum_j coefs[j]*y_j (left associated), skipping exact zeros"""
    terms = [mul(C(c), Y(j)) for j, c in enumerate(coefs) if c != 0.0]
    if not terms:
        return C(0.0)
    e = terms[0]
    for t in terms[1:]:
        e = add(e, t)
    return e


# ---------- problem families ----------

def fam_linear(rng, n=None):
    n = n or rng.randint(1, 4)
    A = [[round(rng.uniform(-2, 2), 2) if rng.random() < 0.7 else 0.0 for _ in range(n)] for _ in range(n)]
    for i in range(n):
        A[i][i] = -abs(A[i][i]) - 0.1
    y0 = [round(rng.uniform(-2, 2), 3) or 1.0 for _ in range(n)]
    return {"name": "linear%d" % n, "f": [lin(A[i], n) for i in range(n)], "y0": y0, "span": rng.uniform(0.5, 6.0),
            "jac": [[C(A[i][j]) for j in range(n)] for i in range(n)]}


def fam_sho(rng):
    w = rng.choice([1.0, 2.0, 0.5, 3.0])
    return {"name": "sho", "f": [Y(1), neg(mul(C(w * w), Y(0)))], "y0": [1.0, 0.0], "span": rng.uniform(1.0, 12.0),
            "jac": [[C(0.0), C(1.0)], [C(-(w * w)), C(0.0)]]}


def fam_logistic(rng):
    r = rng.uniform(0.5, 3.0)
    return {"name": "logistic", "f": [mul(mul(C(r), Y(0)), sub(C(1.0), Y(0)))], "y0": [rng.uniform(0.05, 0.5)],
            "span": rng.uniform(1.0, 8.0), "jac": [[sub(C(r), mul(C(2.0 * r), Y(0)))]]}


def fam_rational(rng):
    # y' = -2 t y^2 , y(0)=1 -> 1/(1+t^2)
    return {"name": "rational", "f": [mul(mul(C(-2.0), T), mul(Y(0), Y(0)))], "y0": [1.0], "span": rng.uniform(1.0, 5.0), "x0": 0.0}


def fam_vdp(rng):
    mu = rng.choice([0.5, 1.0, 2.0, 5.0])
    return {"name": "vdp", "f": [Y(1), sub(mul(mul(C(mu), sub(C(1.0), mul(Y(0), Y(0)))), Y(1)), Y(0))],
            "y0": [2.0, 0.0], "span": rng.uniform(1.0, 10.0),
            "jac": [[C(0.0), C(1.0)],
                    [sub(mul(mul(C(-2.0 * mu), Y(0)), Y(1)), C(1.0)), mul(C(mu), sub(C(1.0), mul(Y(0), Y(0))))]]}


def fam_forced(rng):
    lam = rng.choice([1.0, 5.0, 20.0, 50.0])
    # y' = -lam (y - t^2) + 2 t
    return {"name": "forced", "f": [add(mul(C(-lam), sub(Y(0), mul(T, T))), mul(C(2.0), T))], "y0": [rng.uniform(-1, 1)],
            "span": rng.uniform(0.5, 4.0), "forward_only": True, "jac": [[C(-lam)]]}


def fam_rot3(rng):
    # rigid rotation + decay in 3D
    return {"name": "rot3", "f": [sub(neg(Y(1)), mul(C(0.1), Y(0))), sub(Y(0), mul(C(0.1), Y(1))), neg(mul(C(0.5), Y(2)))],
            "y0": [1.0, 0.0, 2.0], "span": rng.uniform(1.0, 8.0)}


def fam_zero(rng):
    return {"name": "zero", "f": [C(0.0), C(0.0)], "y0": [1.0, -2.0], "span": rng.uniform(0.5, 3.0)}


def fam_const(rng):
    return {"name": "const", "f": [C(1.0)], "y0": [0.0], "span": rng.uniform(0.5, 3.0)}


def fam_blowup(rng):
    k = rng.choice([0, 1])
    if k == 0:
        return {"name": "blowup_y2", "f": [mul(Y(0), Y(0))], "y0": [1.0], "span": rng.uniform(1.5, 3.0)}
    return {"name": "blowup_1py2", "f": [add(C(1.0), mul(Y(0), Y(0)))], "y0": [0.0], "span": rng.uniform(2.0, 4.0)}


def fam_discont(rng):
    c = rng.uniform(0.3, 1.5)
    return {"name": "discont", "f": [iflt(T, C(c), C(1.0), neg(Y(0)))], "y0": [0.0], "span": rng.uniform(2.0, 4.0)}


def fam_nan_after(rng):
    c = rng.uniform(0.3, 1.5)
    return {"name": "nan_after", "f": [iflt(T, C(c), neg(Y(0)), sqrt(C(-1.0)))], "y0": [1.0], "span": rng.uniform(2.0, 4.0)}


def fam_inf_after(rng):
    c = rng.uniform(0.3, 1.5)
    return {"name": "inf_after", "f": [iflt(T, C(c), neg(Y(0)), div(C(1.0), C(0.0)))], "y0": [1.0], "span": rng.uniform(2.0, 4.0)}


def fam_stiff_explicit(rng):
    lam = rng.choice([1e3, 1e4, 1e5])
    return {"name": "stiffdecay", "f": [mul(C(-lam), Y(0))], "y0": [1.0], "span": rng.uniform(0.5, 2.0), "forward_only": True}


def fam_stiff_forced(rng):
    lam = rng.choice([1e2, 1e4, 1e6, 1e8, 1e10])
    # y' = -lam (y - t^2) + 2 t ,  y(0) = 0  ->  y = t^2 (plus a transient if y0 != 0)
    y0 = rng.choice([0.0, 0.5])
    return {"name": "stiff_forced", "f": [add(mul(C(-lam), sub(Y(0), mul(T, T))), mul(C(2.0), T))], "y0": [y0],
            "span": rng.uniform(0.5, 3.0), "forward_only": True, "x0": 0.0, "jac": [[C(-lam)]], "lam": lam}


def fam_stiff_linear(rng, n=None):
    n = n or rng.randint(2, 6)
    lam = rng.choice([1e2, 1e4, 1e6, 1e8])
    # block: slow decay coupled to fast decaying components
    A = [[0.0] * n for _ in range(n)]
    for i in range(n):
        A[i][i] = -1.0 if i == 0 else -lam * (1.0 + 0.1 * i)
        if i > 0:
            A[i][0] = lam * 0.5
    y0 = [1.0] + [0.3] * (n - 1)
    return {"name": "stiff_linear%d" % n, "f": [lin(A[i], n) for i in range(n)], "y0": y0, "span": rng.uniform(0.5, 3.0),
            "forward_only": True, "x0": 0.0, "jac": [[C(A[i][j]) for j in range(n)] for i in range(n)], "lam": lam}


def fam_robertson(rng):
    f = [add(mul(C(-0.04), Y(0)), mul(mul(C(1e4), Y(1)), Y(2))),
         sub(sub(mul(C(0.04), Y(0)), mul(mul(C(1e4), Y(1)), Y(2))), mul(mul(C(3e7), Y(1)), Y(1))),
         mul(mul(C(3e7), Y(1)), Y(1))]
    jac = [[C(-0.04), mul(C(1e4), Y(2)), mul(C(1e4), Y(1))],
           [C(0.04), sub(mul(C(-1e4), Y(2)), mul(C(6e7), Y(1))), mul(C(-1e4), Y(1))],
           [C(0.0), mul(C(6e7), Y(1)), C(0.0)]]
    return {"name": "robertson", "f": f, "y0": [1.0, 0.0, 0.0], "span": rng.choice([1.0, 40.0, 400.0]),
            "forward_only": True, "x0": 0.0, "jac": jac, "invariant": [1.0, 1.0, 1.0]}


def fam_vdp_stiff(rng):
    mu = rng.choice([50.0, 200.0, 1000.0])
    return {"name": "vdp_stiff", "f": [Y(1), sub(mul(mul(C(mu), sub(C(1.0), mul(Y(0), Y(0)))), Y(1)), Y(0))],
            "y0": [2.0, 0.0], "span": rng.uniform(0.5, 2.0), "forward_only": True, "x0": 0.0,
            "jac": [[C(0.0), C(1.0)],
                    [sub(mul(mul(C(-2.0 * mu), Y(0)), Y(1)), C(1.0)), mul(C(mu), sub(C(1.0), mul(Y(0), Y(0))))]]}


def fam_bump(rng):
    """oscillator whose stiffness jumps inside a window: hard rejections at the edges, easy retries after them"""
    c = rng.uniform(0.8, 2.0)
    w = rng.uniform(0.05, 0.3)
    K = rng.choice([30.0, 80.0, 200.0])
    coef = add(C(1.0), iflt(absx(sub(T, C(c))), C(w), C(K), C(0.0)))
    return {"name": "bump", "f": [Y(1), neg(mul(coef, Y(0)))], "y0": [1.0, 0.0], "span": rng.uniform(3.0, 6.0),
            "forward_only": False, "x0": 0.0}


def fam_pulse(rng):
    """a slowly decaying linear system hit by a narrow rational pulse: an implicit method walks with large steps and
    is thrown back by error-test rejections when it meets the pulse (seeded change C13-c: BDF kept a stale
    factorisation after such a rejection, in one direction of integration only)"""
    t0 = rng.choice([6.0, 10.0, 13.0])
    w = rng.choice([3.0, 6.0])
    amp = rng.choice([2.0, 5.0])
    u = mul(C(w), sub(T, C(t0)))
    bump = div(C(amp), mul(add(C(1.0), mul(u, u)), add(C(1.0), mul(u, u))))
    return {"name": "pulse", "f": [add(mul(C(-0.05), Y(0)), mul(C(0.02), Y(1))), add(mul(C(-0.2), Y(1)), bump)],
            "y0": [1.0, 0.5], "x0": 0.0, "span": 20.0,
            "jac": [[C(-0.05), C(0.02)], [C(0.0), C(-0.2)]]}


STIFF = [fam_stiff_forced, fam_stiff_linear, fam_robertson, fam_vdp_stiff]

SMOOTH = [fam_linear, fam_sho, fam_logistic, fam_rational, fam_vdp, fam_forced, fam_rot3, fam_zero, fam_const]
PATHO = [fam_blowup, fam_discont, fam_nan_after, fam_inf_after, fam_stiff_explicit]


# ---------- event functions ----------

def gen_events(rng, prob, x0, xend, kmax=3, terminal_ok=True):
    n = len(prob["y0"])
    k = rng.randint(1, kmax)
    evs = []
    for _ in range(k):
        kind = rng.choice(["t", "y", "yy", "tt"])
        if kind == "t":
            c = x0 + (xend - x0) * rng.uniform(0.05, 0.95)
            e = sub(T, C(c))
        elif kind == "y":
            i = rng.randrange(n)
            e = sub(Y(i), C(round(rng.uniform(-1, 1), 2)))
        elif kind == "yy" and n >= 2:
            e = mul(Y(0), Y(1))
        else:
            c1 = x0 + (xend - x0) * rng.uniform(0.1, 0.5)
            c2 = x0 + (xend - x0) * rng.uniform(0.5, 0.9)
            e = mul(sub(T, C(c1)), sub(T, C(c2)))
        d = rng.choice([0, 0, 1, -1])
        term = "none"
        if terminal_ok and rng.random() < 0.35:
            term = str(rng.choice([1, 1, 2, 3]))
        evs.append("%d/%s/%s" % (d, term, e))
    return evs


# ---------- a case line ----------

def tol_str(v):
    if isinstance(v, (list, tuple)):
        return "v:" + ",".join(hx(x) for x in v)
    return "s:" + hx(v)


def opt_str(v):
    return "none" if v is None else hx(v)


def solve_case(cid, method, prob, x0, xend, rtol, atol, defaults, max_steps=None, first_step=None, max_step=None,
               min_step=None, t_eval=None, dense=False, events=(), query=(), full=False, extra="",
               use_jac=False, mass=None, jac_storage="full", mass_storage="identity"):
    d = defaults[method]
    toks = ["solve", "id=%s" % cid, "method=%s" % method, "x0=" + hx(x0), "xend=" + hx(xend),
            "y0=" + hxlist(prob["y0"]), "rtol=" + tol_str(rtol), "atol=" + tol_str(atol),
            "maxsteps=%s" % ("none" if max_steps is None else max_steps),
            "firststep=" + opt_str(first_step), "maxstep=" + opt_str(max_step), "minstep=" + opt_str(min_step),
            "teval=" + ("none" if t_eval is None else hxlist(t_eval)), "dense=%d" % (1 if dense else 0),
            "defaults=%d:%s" % (len(d["vals"].split(",")) if d["vals"] else 0, d["vals"]),
            "nstiff=%s" % d.get("nstiff", "0"),
            "f=%d:%s" % (len(prob["f"]), ";".join(prob["f"])),
            "ev=%d:%s" % (len(events), ";".join(events)),
            "query=" + hxlist(query)]
    if use_jac and prob.get("jac"):
        n = len(prob["jac"])
        toks.append("jac=%d:%s" % (n, ";".join(e for row in prob["jac"] for e in row)))
    if mass is not None:
        n = len(mass)
        toks.append("mass=%d:%s" % (n, ",".join(hx(v) for row in mass for v in row)))
    if jac_storage != "full":
        toks.append("jacstorage=" + jac_storage)
    if mass_storage != "identity":
        toks.append("massstorage=" + mass_storage)
    if full:
        toks.append("full=1")
    if extra:
        toks.append(extra)
    return " ".join(toks)


def rand_tols(rng, n):
    rtol = 10 ** rng.uniform(-10, -3)
    mode = rng.choice(["mixed", "mixed", "mixed", "abs", "rel"])
    atol = 10 ** rng.uniform(-11, -4)
    if mode == "abs":
        rtol = 0.0
    if mode == "rel":
        atol = 0.0
    if rng.random() < 0.3:
        atol = [atol * rng.choice([0.1, 1.0, 10.0]) for _ in range(n)] if atol else [0.0] * n
    if rng.random() < 0.15:
        rtol = [rtol] * n
    return rtol, atol, mode


def parse_result(lines):
    """lines of one case result -> dict"""
    r = {"raw": lines}
    for ln in lines:
        p = ln.split()
        if not p:
            continue
        if p[0] == "status":
            r["status"] = p[1]
        elif p[0] == "stats":
            r["stats"] = [int(x) for x in p[1:7]]
        elif p[0] == "t":
            r["t"] = [unhx(x) for x in p[2].split(",")] if len(p) > 2 and p[2] else []
        elif p[0] == "y":
            r["y"] = [[unhx(x) for x in v.split(",")] for v in p[2:]]
        elif p[0] == "tev":
            r.setdefault("tev", {})[int(p[1])] = [unhx(x) for x in p[3].split(",")] if len(p) > 3 and p[3] else []
        elif p[0] == "yev":
            r.setdefault("yev", {})[int(p[1])] = [[unhx(x) for x in v.split(",")] for v in p[3:]]
        elif p[0] in ("odelog", "evlog", "jaclog"):
            r[p[0]] = (int(p[1]), p[2])
        elif p[0] == "span":
            r["span"] = None if p[1] == "none" else (unhx(p[1]), unhx(p[2]))
        elif p[0] == "solm":
            if len(p) >= 4 and p[3] == "ok" and p[1] in ("f", "r"):
                r.setdefault("solm", []).append((p[1], unhx(p[2]), [unhx(x) for x in p[4].split(",")] if len(p) > 4 else []))
            else:
                r.setdefault("solm_status", {})[p[1]] = p[2:]
        elif p[0] == "sol":
            r.setdefault("sol", []).append((unhx(p[1]), p[2], [unhx(x) for x in p[3].split(",")] if len(p) > 3 else None))
        elif p[0] == "evsol":
            r.setdefault("evsol", {})[int(p[1])] = (int(p[2].split("=")[1]), unhx(p[3].split("=")[1]))
        elif p[0] == "selfsol":
            r["selfsol"] = (int(p[1].split("=")[1]), unhx(p[2].split("=")[1]))
        elif p[0] in ("panic", "error"):
            r["status"] = p[0]
        elif p[0].endswith("call"):
            r.setdefault(p[0], []).append((unhx(p[1]), [unhx(x) for x in p[2].split(",")] if len(p) > 2 and p[2] else []))
    return r


def parse_case(line):
    """inverse of solve_case: the keyword dictionary the oracles read (used by the regression corpus and by replays)"""
    toks = line.split()
    kv = {}
    for t in toks[1:]:
        if "=" in t:
            k, v = t.split("=", 1)
            kv[k] = v

    def fl(s):
        return None if s in (None, "none") else unhx(s)

    def fll(s):
        if s in (None, "none"):
            return None
        body = s.split(":", 1)[1] if ":" in s else s
        return [unhx(v) for v in body.split(",") if v]

    def tol(s):
        kind, body = s.split(":", 1)
        return [unhx(v) for v in body.split(",")] if kind == "v" else unhx(body)

    nf, fbody = kv["f"].split(":", 1)
    prob = {"y0": fll(kv["y0"]), "f": fbody.split(";"), "name": "corpus", "span": abs(unhx(kv["xend"]) - unhx(kv["x0"]))}
    kw = dict(method=kv["method"], prob=prob, x0=unhx(kv["x0"]), xend=unhx(kv["xend"]), rtol=tol(kv["rtol"]),
              atol=tol(kv["atol"]), max_steps=None if kv["maxsteps"] == "none" else int(kv["maxsteps"]),
              first_step=fl(kv["firststep"]), max_step=fl(kv["maxstep"]), min_step=fl(kv["minstep"]),
              t_eval=fll(kv["teval"]), dense=kv["dense"] == "1", query=fll(kv.get("query")) or [])
    nev, evbody = kv["ev"].split(":", 1)
    kw["events"] = tuple(evbody.split(";")) if int(nev) else ()
    if "jac" in kv:
        n, body = kv["jac"].split(":", 1)
        es = body.split(";")
        n = int(n)
        prob["jac"] = [es[i * n:(i + 1) * n] for i in range(n)]
        kw["use_jac"] = True
    if "mass" in kv:
        n, body = kv["mass"].split(":", 1)
        vs = [unhx(v) for v in body.split(",")]
        n = int(n)
        kw["mass"] = [vs[i * n:(i + 1) * n] for i in range(n)]
    if "jacstorage" in kv:
        kw["jac_storage"] = kv["jacstorage"]
    if "massstorage" in kv:
        kw["mass_storage"] = kv["massstorage"]
    if kv.get("full") == "1":
        kw["full"] = True
    return kw
