"""Closed-form problem families (with explicit time dependence where possible) and their exact solutions."""
import math
from .gen import C, Y, T, add, sub, mul, div, neg

# each family: f(rng) -> dict(name, f, y0, exact(t) -> list, x0 = 0, span, jac)


def poly_forced(rng):
    y0 = rng.choice([0.0, 1.0, -0.5])
    t3 = mul(mul(T, T), T)
    return {"name": "poly_forced", "f": [add(neg(sub(Y(0), t3)), mul(C(3.0), mul(T, T)))], "y0": [y0], "x0": 0.0,
            "exact": lambda t: [t ** 3 + y0 * math.exp(-t)], "span": rng.uniform(0.5, 3.0),
            "jac": [[C(-1.0)]]}


def gauss(rng):
    y0 = rng.choice([1.0, 2.0])
    return {"name": "gauss", "f": [mul(mul(C(-2.0), T), Y(0))], "y0": [y0], "x0": 0.0,
            "exact": lambda t: [y0 * math.exp(-t * t)], "span": rng.uniform(0.5, 2.5), "jac": [[mul(C(-2.0), T)]]}


def rational(rng):
    return {"name": "rational", "f": [mul(mul(C(-2.0), T), mul(Y(0), Y(0)))], "y0": [1.0], "x0": 0.0,
            "exact": lambda t: [1.0 / (1.0 + t * t)], "span": rng.uniform(0.5, 4.0),
            "jac": [[mul(mul(C(-4.0), T), Y(0))]]}


def expo(rng):
    lam = rng.choice([-1.0, -0.3, 0.5, -2.0])
    return {"name": "expo", "f": [mul(C(lam), Y(0))], "y0": [1.0], "x0": 0.0,
            "exact": lambda t: [math.exp(lam * t)], "span": rng.uniform(0.5, 3.0), "jac": [[C(lam)]]}


def sho(rng):
    w = rng.choice([1.0, 2.0])
    return {"name": "sho", "f": [Y(1), neg(mul(C(w * w), Y(0)))], "y0": [1.0, 0.0], "x0": 0.0,
            "exact": lambda t: [math.cos(w * t), -w * math.sin(w * t)], "span": rng.uniform(1.0, 6.0),
            "jac": [[C(0.0), C(1.0)], [C(-(w * w)), C(0.0)]]}


def logistic(rng):
    r = rng.choice([1.0, 2.0])
    y0 = rng.choice([0.1, 0.3])
    return {"name": "logistic", "f": [mul(mul(C(r), Y(0)), sub(C(1.0), Y(0)))], "y0": [y0], "x0": 0.0,
            "exact": lambda t: [1.0 / (1.0 + (1.0 / y0 - 1.0) * math.exp(-r * t))], "span": rng.uniform(1.0, 5.0),
            "jac": [[sub(C(r), mul(C(2.0 * r), Y(0)))]]}


def linear_growth(rng):
    # y' = y / (1 + t): y = y0 (1 + t)   (explicitly time dependent, linear)
    return {"name": "lingrow", "f": [div(Y(0), add(C(1.0), T))], "y0": [2.0], "x0": 0.0,
            "exact": lambda t: [2.0 * (1.0 + t)], "span": rng.uniform(0.5, 3.0), "jac": [[div(C(1.0), add(C(1.0), T))]]}


def mixed2(rng):
    # linear state mixing of a decaying and a forced mode: u' = -u, v' = -2 (v - t) + 1 ; y = (u+v, u-v)
    #   u = e^{-t}, v = t (+ 0)
    f0 = add(neg(mul(C(0.5), add(Y(0), Y(1)))), add(mul(C(-2.0), sub(mul(C(0.5), sub(Y(0), Y(1))), T)), C(1.0)))
    f1 = sub(neg(mul(C(0.5), add(Y(0), Y(1)))), add(mul(C(-2.0), sub(mul(C(0.5), sub(Y(0), Y(1))), T)), C(1.0)))
    return {"name": "mixed2", "f": [f0, f1], "y0": [1.0, 1.0], "x0": 0.0,
            "exact": lambda t: [math.exp(-t) + t, math.exp(-t) - t], "span": rng.uniform(0.5, 3.0)}


FAMILIES = [poly_forced, gauss, rational, expo, sho, logistic, linear_growth, mixed2]
TIMEDEP = [poly_forced, gauss, rational, linear_growth, mixed2]
