"""C04: solve_ivp always terminates and never panics on valid input."""
from . import solvercheck, oracles
from .p_common import TB, PROFILES


def opt_budget(rng, kw, meta):
    if rng.random() < 0.4:
        kw["max_steps"] = rng.choice([5, 50, 500, 5000])
    if rng.random() < 0.3:
        kw["dense"] = True


def signs_builder(seed, n, defaults, tag):
    """blow-up / NaN right-hand sides started at negative, zero and positive x0, in both directions, unlimited budget:
    the underflow guards compare |h| with |x|, so the sign of x relative to the direction of travel matters"""
    import random
    from . import gen, sweep
    rng = random.Random(seed)
    cases, metas = [], {}
    k = 0
    for method in sweep.available_methods():
        if method == "RK4":
            continue
        for fam in (gen.fam_blowup, gen.fam_nan_after):
            for x0 in (-3.0, -1.5, 0.0, 1.5, 3.0):
                for d in (1.0, -1.0):
                    prob = fam(rng)
                    p2 = dict(prob)
                    if d < 0:
                        from .p_c13 import subst_reflect
                        p2["f"] = ["neg," + subst_reflect(e) for e in prob["f"]]
                    # shift time so that the trouble happens relative to x0:  t -> t - x0 (forward) / -(t - x0) (backward)
                    shift = gen.sub(gen.T, gen.C(x0))
                    p2["f"] = [",".join(shift if tok == "t" else tok for tok in e.split(",")) for e in p2["f"]]
                    kw = dict(method=method, prob=p2, x0=x0, xend=x0 + d * prob["span"], rtol=1e-6, atol=1e-9, defaults=defaults)
                    cid = "%s%d" % (tag, k)
                    k += 1
                    cases.append(gen.solve_case(cid, **kw))
                    metas[cid] = ({"family": prob["name"] + ("@x0=%g" % x0), "n": 1, "backward": d < 0, "tolmode": "mixed", "method": method}, kw)
    return cases, metas


def minstep_builder(seed, n, defaults, tag):
    """min_step (a lower bound on the step, used by Radau and BDF; the explicit methods ignore it) together with steps
    that cannot succeed at that size: blow-up, a right-hand side turning NaN / inf, a discontinuity, a tolerance out of
    reach.  min_step stays below the interval length and below max_step (a lower bound above the upper one is not a
    valid configuration)."""
    import random
    from . import gen, sweep
    rng = random.Random(seed)
    cases, metas = [], {}
    k = 0
    for method in sweep.available_methods():
        for fam in (gen.fam_blowup, gen.fam_nan_after, gen.fam_inf_after, gen.fam_discont, gen.fam_sho, gen.fam_vdp_stiff):
            for frac in (1e-6, 1e-3, 3e-2, 0.4):
                prob = fam(rng)
                x0 = prob.get("x0", 0.0)
                d = -1.0 if (rng.random() < 0.3 and not prob.get("forward_only") and x0 == 0.0) else 1.0
                p2 = dict(prob)
                if d < 0:    # the mirrored problem z' = -f(-s, z), integrated backward from 0
                    from .p_c13 import subst_reflect
                    p2["f"] = ["neg," + subst_reflect(e) for e in prob["f"]]
                    p2.pop("jac", None)
                kw = dict(method=method, prob=p2, x0=x0, xend=x0 + d * prob["span"], rtol=10 ** rng.uniform(-9, -3),
                          atol=10 ** rng.uniform(-11, -5), defaults=defaults, min_step=frac * prob["span"],
                          dense=rng.random() < 0.3)
                if rng.random() < 0.3:
                    kw["max_steps"] = rng.choice([50, 5000])
                cid = "%s%d" % (tag, k)
                k += 1
                cases.append(gen.solve_case(cid, **kw))
                metas[cid] = ({"family": prob["name"] + "+min_step", "n": len(prob["y0"]), "backward": d < 0,
                               "tolmode": "mixed", "method": method, "min_step_frac": frac}, kw)
    return cases, metas


def check():
    prof = dict(PROFILES["patho"])
    prof["options"] = opt_budget
    return solvercheck.run(
        "C04", "C04.v" if __import__("os").path.exists(__import__("os").path.join(solvercheck.common.COQ, "props", "C04.v")) else None,
        [dict(profile=prof, n_quick=120, n_thorough=1500, isolated=True, timeout=60),
         dict(builder=signs_builder, n_quick=1, n_thorough=1, isolated=True, timeout=45),
         dict(builder=minstep_builder, n_quick=1, n_thorough=1, isolated=True, timeout=45)],
        [oracles.oracle_C04, oracles.oracle_shapes], TB,
        "pathological right-hand sides (finite-time blow-up y'=y^2 and y'=1+y^2, stiff decay with explicit methods, discontinuous, "
        "NaN-/inf-returning after t*) x 6 methods x default and finite budgets, and the same with a min_step; one process per case with a 60 s watchdog and an "
        "address-space limit (hang => violation), panics caught; each case also replayed on the model; non-trivial = >= 2 accepted steps")
