"""C04: solve_ivp always terminates and never panics on valid input."""
from . import solvercheck, oracles
from .p_common import TB, PROFILES


def opt_budget(rng, kw, meta):
    if rng.random() < 0.4:
        kw["max_steps"] = rng.choice([5, 50, 500, 5000])
    if rng.random() < 0.3:
        kw["dense"] = True


def check():
    prof = dict(PROFILES["patho"])
    prof["options"] = opt_budget
    return solvercheck.run(
        "C04", "C04.v" if __import__("os").path.exists(__import__("os").path.join(solvercheck.common.COQ, "props", "C04.v")) else None,
        [dict(profile=prof, n_quick=120, n_thorough=1500, isolated=True, timeout=20)],
        [oracles.oracle_C04, oracles.oracle_shapes], TB,
        "pathological right-hand sides (finite-time blow-up y'=y^2 and y'=1+y^2, stiff decay with explicit methods, discontinuous, "
        "NaN-/inf-returning after t*) x 6 methods x default and finite budgets; one process per case with a 20 s watchdog and an "
        "address-space limit (hang => violation), panics caught; each case also replayed on the model; non-trivial = >= 2 accepted steps")
