"""C07: dense output accurate to the interpolant's order inside every step."""
import os
from . import solvercheck, oracles, orders
from .p_common import TB


def check():
    return solvercheck.run(
        "C07", "C07.v" if os.path.exists(os.path.join(solvercheck.common.COQ, "props", "C07.v")) else None,
        [dict(builder=orders.builder, n_quick=1, n_thorough=1, group_oracle=orders.group_oracle_factory("dense"),
              nontrivial=lambda r: r.get("status") == "Success" and any(k == "ok" for (_, k, _) in r.get("sol", []))),
         dict(builder=orders.rk4_tail_builder, n_quick=1, n_thorough=1, group_oracle=orders.rk4_tail_group_oracle,
              nontrivial=lambda r: r.get("status") == "Success" and any(k == "ok" for (_, k, _) in r.get("sol", [])))],
        [oracles.oracle_shapes], TB,
        "single steps of size h0/2^k (k=0..3) from exact data on closed-form, explicitly time-dependent problems, both signs of h, "
        "methods RK4/RK23/DOPRI5/DOP853/Radau; sup error of sol(x0+theta h), theta in {.1,...,.9}, fitted slope must be >= q+1-1.3; RK4 also with two full steps and a shortened last one (interior of the last step ~ h^4); "
        "every run replayed bit-for-bit on the model (which includes the dense coefficients)")
