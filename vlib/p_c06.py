"""C06: dense output is continuous, matches the samples, and covers exactly the span."""
import math
import os
import random
from . import solvercheck, oracles, gen, sweep, harness, gridgen
from .p_common import TB


def builder(seed, n, defaults, tag):
    rng, bases = gridgen.base_runs(seed, max(6, n), defaults)
    cases, metas = [], {}
    for c, (kw, meta, grid) in enumerate(bases[:n]):
        kw = dict(kw)
        meta = dict(meta)
        d = 1.0 if kw["xend"] >= kw["x0"] else -1.0
        kw["dense"] = rng.random() < 0.9
        if rng.random() < 0.3:
            kw["events"] = gen.gen_events(rng, kw["prob"], kw["x0"], kw["xend"])
        if rng.random() < 0.15:
            kw["max_steps"] = rng.randint(2, max(3, len(grid) - 1))
        if rng.random() < 0.2:
            # the handler's "first output at x0 + first_step" path returns early from the callback (seeded change
            # C06-b moved the segment collection behind those returns)
            kw["first_step"] = abs(kw["xend"] - kw["x0"]) * rng.choice([1e-3, 0.01, 0.1, 0.5])
            meta["first_step"] = True
        # queries: stored sample times, both sides of interior joints, clearly outside
        idx = sorted(set([0, len(grid) - 1] + [rng.randrange(len(grid)) for _ in range(6)]))
        q = [grid[i] for i in idx]
        joints = [grid[i] for i in idx if 0 < i < len(grid) - 1][:3]
        for tj in joints:
            q += [gridgen.nextafter(tj, -1), gridgen.nextafter(tj, 1)]
        span = abs(kw["xend"] - kw["x0"])
        q += [kw["x0"] - d * (1e-6 + 1e-3 * span), kw["xend"] + d * (1e-6 + 1e-3 * span)]
        kw["query"] = q
        meta["joints"] = joints
        cid = "%s%d" % (tag, c)
        cases.append(gen.solve_case(cid, **kw))
        metas[cid] = (meta, kw)
    # the degenerate zero-length run
    for j, m in enumerate(sweep.available_methods()):
        prob = gen.fam_sho(rng)
        kw = dict(method=m, prob=prob, x0=0.5, xend=0.5, rtol=1e-6, atol=1e-9, defaults=defaults, dense=True, query=[0.5])
        cid = "%sz%d" % (tag, j)
        cases.append(gen.solve_case(cid, **kw))
        metas[cid] = ({"family": "sho", "n": 2, "backward": False, "tolmode": "mixed", "method": m, "zero": True, "joints": []}, kw)
    return cases, metas


def late_kink_builder(seed, n, defaults, tag):
    """a forcing that switches on shortly before xend after a long quiet stretch: the attempt that reaches for xend
    straddles the kink and is rejected, shorter steps follow -- the landing / `last` logic of every method after a
    rejected final attempt (seeded change C06-d kept a stale 'last step' flag in BDF); sol(t_i) is compared with every
    stored sample by the harness (selfsol)"""
    from .gen import C, Y, T, add, sub, mul, neg, iflt
    rng = random.Random(seed)
    cases, metas = [], {}
    k = 0
    for method in sweep.available_methods():
        for rep in range(max(2, n // 12)):
            span = rng.choice([5.0, 20.0, 40.0])
            d = 1.0 if rng.random() < 0.7 else -1.0
            frac = rng.choice([0.005, 0.02, 0.05, 0.1])
            kink = span * (1.0 - frac)
            K = rng.choice([10.0, 1000.0])
            a = rng.choice([1.0, 3.0])
            # forward: y' = -a y + K max(t - kink, 0); backward: the mirrored problem
            tt = T if d > 0 else neg(T)
            rhs = add(mul(C(-a), Y(0)), iflt(tt, C(kink), C(0.0), mul(C(K), sub(tt, C(kink)))))
            prob = {"name": "late_kink", "y0": [1.0], "f": [rhs if d > 0 else neg(rhs)], "span": span}
            rt = 10 ** rng.uniform(-8, -3)
            kw = dict(method=method, prob=prob, x0=0.0, xend=d * span, rtol=rt, atol=rt * 1e-3, defaults=defaults, dense=True,
                      query=[0.0, d * span, d * span * 0.5, d * kink])
            cid = "%s%d" % (tag, k)
            k += 1
            cases.append(gen.solve_case(cid, **kw))
            metas[cid] = ({"family": "late_kink", "n": 1, "backward": d < 0, "tolmode": "mixed", "method": method, "joints": []}, kw)
    return cases, metas


def oracle(meta, kw, r):
    out = []
    st = r.get("status")
    if st in (None, "error", "panic"):
        return out
    sols = r.get("sol", [])
    if not kw.get("dense"):
        if any(kind != "notenabled" for (_, kind, _) in sols):
            out.append(("not-enabled", "dense_output is disabled but sol() did not report NotEnabled"))
        return out
    t, y = r.get("t", []), r.get("y", [])
    if meta.get("zero"):
        for (tq, kind, val) in sols:
            if kind != "ok" or val != kw["prob"]["y0"]:
                out.append(("zero-length", "zero-length run: sol(x0) = %r (%s), expected y0" % (val, kind)))
        return out
    if not t:
        return out
    lo, hi = min(t[0], t[-1]), max(t[0], t[-1])
    scale = max(1.0, max(abs(v) for yi in y for v in yi))
    stored = dict((ti, yi) for ti, yi in zip(t, y))
    vals = {}
    for (tq, kind, val) in sols:
        inside = lo <= tq <= hi
        if inside and kind != "ok":
            out.append(("gap", "sol(%r) failed (%s) although %r lies between the first and last covered time [%r, %r]" % (tq, kind, tq, lo, hi)))
            continue
        sp = r.get("span") or (lo, hi)
        slo, shi = min(sp), max(sp)
        clearly_out = tq < slo - 1e-9 - 1e-9 * abs(slo) or tq > shi + 1e-9 + 1e-9 * abs(shi)
        if clearly_out and kind == "ok":
            out.append(("out-of-range", "sol(%r) succeeded although the covered span is [%r, %r]" % (tq, lo, hi)))
        if kind == "ok":
            vals[tq] = val
            if tq in stored and kw.get("t_eval") is None:
                yi = stored[tq]
                if any(abs(a - b) > 1e-9 * max(scale, abs(a), abs(b)) for a, b in zip(val, yi)):
                    out.append(("sample-mismatch", "sol(t_i) differs from the stored sample at t_i=%r: %r vs %r" % (tq, val, yi)))
    # sol_many answers every time as sol does, whatever the order of the request (seeded change C06-c reused the previous
    # request's segment); "to rounding", since two segments meeting at a joint may both answer
    for (tag, tq, val) in r.get("solm", []):
        ref = vals.get(tq)
        if ref is not None and any(not (abs(a - b) <= 1e-9 * max(scale, abs(a), abs(b))) and not (a != a and b != b) for a, b in zip(val, ref)):
            out.append(("sol-many-differs", "sol_many (%s order) gives %r at t=%r where sol gives %r" %
                        ("given" if tag == "f" else "reversed", val, tq, ref)))
            break
    sm = r.get("solm_status", {})
    if vals and any(k in sm and sm[k][0] != "ok" for k in ("f", "r")):
        out.append(("sol-many-gap", "sol_many failed (%r) on times that sol answers" % (sm,)))
    ss = r.get("selfsol")
    if ss is not None and kw.get("t_eval") is None:
        if ss[0] > 0:
            out.append(("sample-not-covered", "sol(t_i) failed for %d stored sample time(s)" % ss[0]))
        elif all(v == v and abs(v) != math.inf for yi in y for v in yi) and not (ss[1] <= 1e-9 * scale):
            # (only when every stored sample is finite: RK4, which has no error control, may overflow to inf / NaN with a
            # far too long step, and |NaN - NaN| is NaN although sol reproduces the stored NaN)
            out.append(("sample-mismatch", "max_i |sol(t_i) - y_i| = %.3g over all stored samples" % ss[1]))
    for tj in meta.get("joints", []):
        a, b = vals.get(gridgen.nextafter(tj, -1)), vals.get(gridgen.nextafter(tj, 1))
        # relative to the values at hand: a run may blow up (RK4 with a far too long step) far beyond the stored samples
        if a and b and any(abs(u - v) > 1e-9 * max(scale, abs(u), abs(v)) for u, v in zip(a, b)):
            out.append(("jump", "sol jumps across the step boundary %r: %r vs %r" % (tj, a, b)))
    sp = r.get("span")
    if sp is not None and st in ("Success", "UserInterrupt"):
        if min(sp) > lo + 1e-12 * max(1, abs(lo)) or max(sp) < hi - 1e-12 * max(1, abs(hi)):
            out.append(("span", "sol_span %r does not cover the reported times [%r, %r]" % (sp, lo, hi)))
    return out


def check():
    return solvercheck.run(
        "C06", "C06.v" if os.path.exists(os.path.join(solvercheck.common.COQ, "props", "C06.v")) else None,
        [dict(builder=builder, n_quick=260, n_thorough=4000),
         dict(builder=late_kink_builder, n_quick=60, n_thorough=600)],
        [oracle, oracles.oracle_shapes], TB,
        "two-pass: a plain run reveals the accepted-step grid; the second run (dense_output on, optionally events / step budget) "
        "queries sol at stored sample times, one ulp either side of interior step boundaries, and clearly outside the span; "
        "sol(t_i) must reproduce y_i, must not jump across boundaries, must fail outside, NotEnabled when disabled; sol_many over the same times in the given and the reversed order must agree with sol; plus the "
        "zero-length run for every method; plus runs whose forcing switches on shortly before xend (the final attempt is rejected); all runs replayed bit-for-bit on the model (incl. every sol value); 6 methods, both directions")
