"""Shared plumbing for the checks: locking, subprocesses under timeouts, Coq build + audit,
evidence files, VIOLATION / KNOWN-FINDING reporting."""
import fcntl
import json
import os
import re
import subprocess
import sys
import time

VERIF = os.path.dirname(os.path.dirname(os.path.abspath(__file__)))
REPO = os.environ.get("VERIF_REPO", "/repo")
COQ = os.path.join(VERIF, "coq")
EVID = os.path.join(VERIF, "evidence")
REPLAY = os.path.join(VERIF, "replay")
NCPU = os.cpu_count() or 4

# Axioms a property theorem may depend on (all declared by Coq's standard library / Flocq;
# none declared by this development).  `PrimFloat.float` & co. are the kernel's primitive
# float type and operations, listed by Print Assumptions because Lit carries a float.
ALLOWED_AXIOMS = {
    "ClassicalDedekindReals.sig_forall_dec",
    "ClassicalDedekindReals.sig_not_dec",
    "FunctionalExtensionality.functional_extensionality_dep",
    "Classical_Prop.classic",
    "Eqdep.Eq_rect_eq.eq_rect_eq",
    "ProofIrrelevance.proof_irrelevance",
    "JMeq.JMeq_eq",
}
# Floats.FloatAxioms (the standard library's specification of the kernel's primitive floats) and the primitive
# float / int63 constants, as Print Assumptions prints them when Floats is imported (unqualified)
ALLOWED_FLOAT_SPEC = {
    "float", "normfr_mantissa", "frshiftexp", "ldshiftexp", "leb_spec", "ltb_spec", "eqb_spec", "compare_spec",
    "classify_spec", "abs_spec", "opp_spec", "mul_spec", "add_spec", "sub_spec", "div_spec", "sqrt_spec",
    "of_uint63_spec", "Prim2SF_valid", "SF2Prim_Prim2SF", "Prim2SF_SF2Prim", "next_up_spec", "next_down_spec",
    "normfr_mantissa_spec", "frshiftexp_spec", "ldshiftexp_spec", "Leibniz.eqb_spec",
}
ALLOWED_PREFIXES = ("PrimFloat.", "Uint63.", "PrimInt63.", "FloatAxioms.", "FloatOps.",
                    "Sint63.", "FloatLemmas.", "CarryType.", "PrimString.")

FORBIDDEN = re.compile(
    r"\b(Admitted|admit|Axiom|Axioms|Parameter|Parameters|Conjecture|Conjectures|"
    r"Admit Obligations|bypass_check|native_compute)\b|Unset\s+Guard|Unset\s+Positivity|"
    r"Unset\s+Universe|type-in-type|impredicative-set")


def tier():
    t = os.environ.get("VERIF_TIER", "quick")
    return t if t in ("quick", "thorough") else "quick"


def seed():
    try:
        return int(os.environ.get("VERIF_SEED", "20260929"))
    except ValueError:
        return 20260929


class Lock:
    """serialises builds (make / cargo / ocaml) across concurrently running checks"""

    def __init__(self, name="build"):
        self.path = os.path.join(VERIF, ".lock-" + name)

    def __enter__(self):
        self.fh = open(self.path, "w")
        fcntl.flock(self.fh, fcntl.LOCK_EX)
        return self

    def __exit__(self, *a):
        fcntl.flock(self.fh, fcntl.LOCK_UN)
        self.fh.close()


def run(cmd, timeout, cwd=None, env=None, input=None):
    """returns (rc, stdout+stderr); rc=124 on timeout"""
    e = dict(os.environ)
    e.setdefault("CARGO_NET_OFFLINE", "true")
    if env:
        e.update(env)
    try:
        p = subprocess.run(cmd, cwd=cwd, env=e, input=input, stdout=subprocess.PIPE,
                           stderr=subprocess.STDOUT, timeout=timeout, text=True,
                           shell=isinstance(cmd, str))
        return p.returncode, p.stdout
    except subprocess.TimeoutExpired as ex:
        out = ex.stdout or ""
        if isinstance(out, bytes):
            out = out.decode("utf8", "replace")
        return 124, out + "\n[timeout after %ss]" % timeout


def regenerate():
    rc, out = run([sys.executable, os.path.join(VERIF, "tools", "extract.py")], 120)
    return rc, out.strip()


def coq_build(targets, timeout=1500):
    """make the given .vo targets (full .vo build).  Returns (ok, log)."""
    with Lock("coq"):
        rc, out = run(["sh", os.path.join(COQ, "mkproject.sh")], 120)
        if rc != 0:
            return False, out
        rc, out = run(["make", "-j%d" % NCPU] + targets, timeout, cwd=COQ)
        return rc == 0, out


def coq_props(prop_file, timeout=600):
    """(re)compile props/<file>.v on its own, capture Print Assumptions.  Returns
    (ok, theorems:list[str], assumptions:dict thm->list[str], log)"""
    with Lock("coq"):
        rc, out = run(["coqc", "-R", ".", "IVP", "-w",
                       "-inexact-float,-notation-overridden,-deprecated-hint-without-locality,-deprecated-instance-without-locality",
                       os.path.join("props", prop_file)], timeout, cwd=COQ)
    src = open(os.path.join(COQ, "props", prop_file)).read()
    thms = re.findall(r"^\s*(?:Theorem|Lemma|Corollary)\s+([A-Za-z0-9_']+)", src, re.M)
    printed = re.findall(r"^\s*Print Assumptions\s+([A-Za-z0-9_']+)\s*\.", src, re.M)
    blocks = parse_assumptions(out)
    assum = {}
    for i, name in enumerate(printed):
        assum[name] = blocks[i] if i < len(blocks) else None
    return rc == 0, thms, assum, out


def parse_assumptions(out):
    """splits coqc output into one list of axiom names per Print Assumptions command"""
    blocks = []
    cur = None
    for line in out.splitlines():
        if line.startswith("Closed under the global context"):
            if cur is not None:
                blocks.append(cur)
                cur = None
            blocks.append([])
        elif line.startswith("Axioms:"):
            if cur is not None:
                blocks.append(cur)
            cur = []
        elif cur is not None:
            m = re.match(r"^([A-Za-z_][A-Za-z0-9_.']*)\s*(:.*)?$", line)
            if m:
                cur.append(m.group(1))
            elif line.startswith(" ") or not line.strip():
                continue
            else:
                # some other output ends the block
                blocks.append(cur)
                cur = None
    if cur is not None:
        blocks.append(cur)
    return blocks


def axiom_ok(name):
    return name in ALLOWED_AXIOMS or name in ALLOWED_FLOAT_SPEC or name.startswith(ALLOWED_PREFIXES)


def audit_sources():
    """forbidden tokens anywhere in the hand-written or generated Coq sources"""
    hits = []
    for root, _, files in os.walk(COQ):
        for f in files:
            if not f.endswith(".v"):
                continue
            p = os.path.join(root, f)
            txt = open(p).read()
            # strip comments (non-nested is enough for our sources)
            txt2 = re.sub(r"\(\*.*?\*\)", "", txt, flags=re.S)
            for m in FORBIDDEN.finditer(txt2):
                hits.append("%s: %s" % (os.path.relpath(p, VERIF), m.group(0)))
    return hits


def known_findings():
    """parsed known_findings.txt: list of dicts {kind: known|fixed, property, key, text}"""
    res = []
    p = os.path.join(VERIF, "known_findings.txt")
    if not os.path.exists(p):
        return res
    for line in open(p):
        line = line.strip()
        if not line or line.startswith("#"):
            continue
        m = re.match(r"^(known|fixed):\s+property=(C\d+)\s+(\S+)\s+(.*)$", line)
        if m:
            res.append({"kind": m.group(1), "property": m.group(2), "key": m.group(3), "text": m.group(4)})
    return res


class Report:
    """collects what one check run did; writes evidence; prints VIOLATION lines"""

    def __init__(self, prop, level="proof"):
        self.prop = prop
        self.level = level
        self.t0 = time.time()
        self.cov = {"obligations": 0, "discharged": 0, "checker_cmd": "", "trusted_base": [],
                    "evaluations": 0, "distinct_nontrivial": 0, "rule": "", "samples": []}
        self.assumptions = []
        self.violations = []   # (replay_path, not_found:bool)
        self.known = []
        self.known_hits = {}
        self.key_counts = {}
        self.notes = []

    def add_obligations(self, n, discharged):
        self.cov["obligations"] += n
        self.cov["discharged"] += discharged

    def violation(self, replay_obj, found=True, key=None):
        """replay_obj: dict describing the concrete failing input (or the broken obligation).
        If `key` matches a known finding for this property, it is printed as KNOWN-FINDING."""
        if key is not None:
            import fnmatch
            for k in known_findings():
                if k["kind"] == "known" and k["property"] == self.prop and fnmatch.fnmatchcase(key, k["key"]):
                    msg = "KNOWN-FINDING: property=%s %s %s" % (self.prop, k["key"], k["text"])
                    if msg not in self.known:
                        self.known.append(msg)
                        print(msg)
                    self.known_hits[k["key"]] = self.known_hits.get(k["key"], 0) + 1
                    return
            # one VIOLATION line per distinct key (the first failing input is the replay)
            self.key_counts[key] = self.key_counts.get(key, 0) + 1
            if self.key_counts[key] > 1:
                return
        os.makedirs(REPLAY, exist_ok=True)
        idx = len(self.violations)
        path = os.path.join(REPLAY, "%s-%d-%d.json" % (self.prop, int(self.t0), idx))
        with open(path, "w") as fh:
            json.dump(replay_obj, fh, indent=1, default=str)
        self.violations.append((path, not found))
        print("VIOLATION property=%s replay=%s%s" % (self.prop, path, "" if found else " no-failing-input-found"))

    def finish(self):
        os.makedirs(EVID, exist_ok=True)
        if self.level == "proof" and self.cov.get("obligations", 0) == 0:
            # no theorem file for this property in this revision: what the run did is a model-vs-implementation validation
            self.level = "translation_validation"
            self.cov["programs"] = self.cov.get("evaluations", 0)
            self.cov["disagreements_checked"] = self.cov.get("correspondence_disagreements", 0)
            for k in ("obligations", "discharged", "checker_cmd"):
                self.cov.pop(k, None)
        ev = {
            "property_id": self.prop,
            "tier": tier(),
            "seed": seed(),
            "level": self.level,
            "coverage": self.cov,
            "assumptions": self.assumptions,
            "wall_s": round(time.time() - self.t0, 2),
            "violations": len(self.violations),
        }
        if self.known:
            ev["coverage"]["known_findings_reported"] = self.known
            ev["coverage"]["known_finding_hits"] = self.known_hits
        if self.key_counts:
            ev["coverage"]["violation_keys"] = self.key_counts
        if self.notes:
            ev["coverage"]["notes"] = self.notes
        with open(os.path.join(EVID, self.prop + ".json"), "w") as fh:
            json.dump(ev, fh, indent=1, default=str)
        sys.stdout.flush()
        return 1 if self.violations else 0


def proof_stage(rep, prop_file, extra_targets=()):
    """regenerate -> build -> audit.  Returns (ok, detail) and fills the report."""
    rc, out = regenerate()
    rep.notes.append(out)
    if rc != 0:
        return False, {"stage": "translator", "log": out}
    ok, log = coq_build(["props/%s" % prop_file.replace(".v", ".vo")] + list(extra_targets))
    if not ok:
        m = re.search(r'File "\./([^"]+)", line (\d+).*?\n(Error:.*?)(?:\n\n|\Z)', log, re.S)
        failing = {"file": m.group(1), "line": int(m.group(2)), "error": m.group(3)[:2000]} if m else {"log": log[-3000:]}
        thms = count_theorems(prop_file)
        rep.add_obligations(len(thms), 0)
        return False, {"stage": "coq-build", "failing_obligation": failing, "theorems": thms}
    ok, thms, assum, log = coq_props(prop_file)
    bad = []
    for name in thms:
        a = assum.get(name)
        if a is None:
            bad.append("%s: no Print Assumptions output" % name)
            continue
        for ax in a:
            if not axiom_ok(ax):
                bad.append("%s depends on non-allow-listed axiom %s" % (name, ax))
    hits = audit_sources()
    bad.extend("forbidden token " + h for h in hits)
    allax = sorted({ax for a in assum.values() if a for ax in a})
    rep.cov["axioms_reported_by_Print_Assumptions"] = allax
    rep.cov["theorems"] = thms
    rep.cov["checker_cmd"] = "tools/extract.py && make -C coq props/%s (coqc 8.16.1, full .vo) && coqc props/%s (Print Assumptions audit)" % (prop_file.replace(".v", ".vo"), prop_file)
    if not ok or bad:
        rep.add_obligations(len(thms), 0)
        return False, {"stage": "audit", "problems": bad, "log": log[-2000:]}
    rep.add_obligations(len(thms), len(thms))
    return True, {}


def count_theorems(prop_file):
    src = open(os.path.join(COQ, "props", prop_file)).read()
    return re.findall(r"^\s*(?:Theorem|Lemma|Corollary)\s+([A-Za-z0-9_']+)", src, re.M)
