"""C02: each method attains its advertised order."""
from . import solvercheck, oracles, orders
from .p_common import TB


def check():
    return solvercheck.run(
        "C02", "C02.v",
        [dict(builder=orders.builder, n_quick=1, n_thorough=1, group_oracle=orders.group_oracle_factory("end"),
              nontrivial=lambda r: r.get("status") == "Success"),
         dict(builder=orders.pade_builder, n_quick=1, n_thorough=1, nontrivial=lambda r: r.get("status") == "Success"),
         dict(builder=orders.radau_steps_builder, n_quick=1, n_thorough=1),
         dict(builder=orders.rk4_tail_builder, n_quick=1, n_thorough=1, group_oracle=orders.rk4_tail_group_oracle,
              nontrivial=lambda r: r.get("status") == "Success"),
         dict(builder=orders.tolscale_builder, n_quick=1, n_thorough=1, group_oracle=orders.tolscale_group_oracle)],
        [oracles.oracle_shapes, orders.oracle_pade, orders.oracle_radau_steps],
        TB + ["model/Tableau.v: hand-written assembly of the applied Butcher arrays from the generated constants; tied to the Rust loops by the bit-exact solver replay",
              "Butcher's theorem (order conditions <=> local error O(h^(p+1))) is the classical bridge and is not re-proved"],
        "theorems of coq/props/C02.v over the constants regenerated from the source; plus single steps of size h0/2^k from exact data on "
        "closed-form, explicitly time-dependent problems, both signs of h, methods RK4/RK23/DOPRI5/DOP853/Radau: fitted slope of the "
        "one-step error must be >= p+1-1.3; one Radau step on y'=lambda*y for z = h*lambda from -1e-3 to -1e8 (and 0.25) must equal the (2,3) Pade approximant to 1e-10; every accepted step of multi-step Radau runs on y''=-y+y^3/6+eps*t at tolerances 1e-8/1e-10 must have local error <= 0.05 h^6 against the exact flow; adaptive runs of RK23/DOPRI5/DOP853 over a ladder of tolerances (accepted steps must grow no faster than tol^-(1/(q+1)+0.03): the estimator's order as applied); RK4 with two full steps and a shortened last one from exact data (final error ~ h^5, interior of the last step ~ h^4); every run replayed bit-for-bit on the model")
