"""C02: each method attains its advertised order."""
from . import common


def check():
    rep = common.Report("C02")
    rep.cov["trusted_base"] = [
        "Coq 8.16.1 kernel + vm_compute (no native_compute)",
        "tools/extract.py: finds every `const` of src/methods/*.rs and copies its digits (its float arithmetic is re-checked in Coq by gen_ok)",
        "model/Tableau.v: hand-written assembly of the applied Butcher arrays from the generated constants; tied to the Rust loops by the bit-exact solver replay (shared with C03/C11/C18)",
        "Butcher's theorem (order conditions <=> local error O(h^(p+1))) is the classical bridge and is not re-proved",
    ]
    ok, detail = common.proof_stage(rep, "C02.v")
    if not ok:
        # TODO(search): model-level violating tree + implementation-level slope fit
        rep.violation({"property": "C02", "broken": detail}, found=False)
    rep.cov["rule"] = "obligations = theorems of coq/props/C02.v, each re-checked by coqc with its Print Assumptions output audited"
    rep.cov["samples"] = rep.cov.get("theorems", [])[:5]
    return rep.finish()
