"""C01: tolerance-controlled accuracy of every returned sample (partial: the mechanism is proved, the global
bound is measured on closed-form families)."""
import math
import os
import random
from . import solvercheck, oracles, gen, sweep, exact
from .p_common import TB

K_MODEST = 50.0      # "modest multiple"
RTOLS = [1e-3, 1e-5, 1e-7, 1e-9]


def decouple(prob, rng):
    """prob (+) a small-amplitude oscillator that shares nothing with it: per-component tolerances then have a per-component
    meaning (seeded change C01-b: Radau derived every atol'[i] from component 0's atol/rtol ratio)"""
    d = len(prob["y0"])
    w = rng.choice([3.0, 5.0])
    amp = rng.choice([1e-6, 1e-9])
    ex0 = prob["exact"]
    p2 = {"name": prob["name"], "f": list(prob["f"]) + [gen.mul(gen.C(w), gen.Y(d + 1)), gen.neg(gen.mul(gen.C(w), gen.Y(d)))],
          "y0": list(prob["y0"]) + [amp, 0.0], "x0": 0.0, "span": prob["span"],
          "exact": lambda t: list(ex0(t)) + [amp * math.cos(w * t), -amp * math.sin(w * t)]}
    if prob.get("jac"):
        Z = gen.C(0.0)
        p2["jac"] = [list(row) + [Z, Z] for row in prob["jac"]] + [[Z] * d + [Z, gen.C(w)], [Z] * d + [gen.C(-w), Z]]
    return p2, amp


def builder(seed, n, defaults, tag):
    rng = random.Random(seed)
    methods = [m for m in sweep.available_methods() if m != "RK4"]
    cases, metas = [], {}
    g = 0
    while len(cases) < n:
        fam = rng.choice(exact.FAMILIES)
        prob = fam(rng)
        method = methods[g % len(methods)]
        backward = rng.random() < 0.3 and prob["name"] in ("sho", "gauss", "rational")
        x0 = 0.0
        xend = -prob["span"] if backward else prob["span"]
        mode = rng.choice(["mixed", "mixed", "abs", "rel"])
        if mode == "rel" and prob["name"] not in ("expo", "logistic", "lingrow"):
            mode = "mixed"
        if mode == "abs" and method == "RADAU":
            mode = "mixed"   # rtol = 0 with Radau is the known finding F13, exercised separately below
        use_te = rng.random() < 0.4
        vec_atol = rng.random() < 0.3
        amp = None
        if mode == "mixed" and rng.random() < 0.3:
            prob, amp = decouple(prob, rng)
        for rt in RTOLS:
            rtol = 0.0 if mode == "abs" else rt
            atol = 0.0 if mode == "rel" else rt * 1e-2 if mode == "mixed" else rt
            atolv = [atol] * len(prob["y0"]) if vec_atol else atol
            if amp is not None:
                # the oscillator block gets an absolute tolerance in proportion to its amplitude
                atolv = [atol] * (len(prob["y0"]) - 2) + [atol * amp] * 2
            kw = dict(method=method, prob=prob, x0=x0, xend=xend, rtol=rtol,
                      atol=atolv, defaults=defaults)
            if method in ("RADAU", "BDF"):
                kw["use_jac"] = bool(prob.get("jac")) and (g % 2 == 0)
            if use_te:
                kw["t_eval"] = [x0 + (xend - x0) * k / 7.0 for k in range(8)]
            cid = "%s%d_%g" % (tag, g, rt)
            meta = {"family": prob["name"], "n": len(prob["y0"]), "backward": backward, "tolmode": mode, "method": method,
                    "group": g, "tol": rt, "exact": prob["exact"]}
            cases.append(gen.solve_case(cid, **kw))
            metas[cid] = (meta, kw)
        g += 1
    # a forcing that switches on shortly before xend after a long quiet stretch (closed form): the attempt that reaches for
    # xend straddles the kink and is rejected -- the samples that follow a rejected final attempt (seeded change C01-c
    # left RK23's `last` flag set there and reported y(x + h) at t = xend)
    for method in methods:
        for rep in range(max(1, n // 150)):
            span = rng.choice([5.0, 20.0])
            a = rng.choice([1.0, 2.0])
            c = span * (1.0 - rng.choice([0.01, 0.03, 0.08]))
            K = rng.choice([10.0, 1000.0])
            rhs = gen.add(gen.mul(gen.C(-a), gen.Y(0)), gen.iflt(gen.T, gen.C(c), gen.C(0.0), gen.mul(gen.C(K), gen.sub(gen.T, gen.C(c)))))

            def ex(t, a=a, c=c, K=K):
                if t <= c:
                    return [math.exp(-a * t)]
                return [K * ((t - c) / a - 1.0 / (a * a)) + (math.exp(-a * c) + K / (a * a)) * math.exp(-a * (t - c))]
            prob = {"name": "late_kink", "f": [rhs], "y0": [1.0], "x0": 0.0, "span": span, "exact": ex}
            for rt in RTOLS:
                kw = dict(method=method, prob=prob, x0=0.0, xend=span, rtol=rt, atol=rt * 1e-2, defaults=defaults)
                cid = "%skink%d_%g" % (tag, g, rt)
                meta = {"family": "late_kink", "n": 1, "backward": False, "tolmode": "mixed", "method": method,
                        "group": g, "tol": rt, "exact": ex}
                cases.append(gen.solve_case(cid, **kw))
                metas[cid] = (meta, kw)
            g += 1
    # RK4 convergence groups
    for j in range(max(2, n // 40)):
        prob = rng.choice(exact.FAMILIES)(rng)
        xend = prob["span"]
        for k in (25, 50, 100, 200):
            kw = dict(method="RK4", prob=prob, x0=0.0, xend=xend, rtol=1e-3, atol=1e-6, defaults=defaults, first_step=xend / k)
            cid = "%srk4_%d_%d" % (tag, j, k)
            meta = {"family": prob["name"], "n": len(prob["y0"]), "backward": False, "tolmode": "fixed", "method": "RK4",
                    "group": "rk4_%d" % j, "nsteps": k, "exact": prob["exact"]}
            cases.append(gen.solve_case(cid, **kw))
            metas[cid] = (meta, kw)
    # the known finding F13: Radau with rtol = 0
    prob = exact.sho(random.Random(1))
    kw = dict(method="RADAU", prob=prob, x0=0.0, xend=3.0, rtol=0.0, atol=1e-8, defaults=defaults, use_jac=True)
    cases.append(gen.solve_case(tag + "f13", **kw))
    metas[tag + "f13"] = ({"family": "sho", "n": 2, "backward": False, "tolmode": "abs", "method": "RADAU", "group": "f13",
                           "tol": 1e-8, "exact": prob["exact"]}, kw)
    return cases, metas


def sample_error(meta, kw, r):
    """max over samples of |y - exact| / (atol + rtol*|y|)  and the raw max error"""
    ex = meta["exact"]
    # vector tolerances are constant vectors, except on decoupled blocks (constant within each block)
    nn = len(kw["prob"]["y0"])
    rts = [kw["rtol"]] * nn if isinstance(kw["rtol"], float) else kw["rtol"]
    ats = [kw["atol"]] * nn if isinstance(kw["atol"], float) else kw["atol"]
    worst, raw = 0.0, 0.0
    for t, y in zip(r.get("t", []), r.get("y", [])):
        e = ex(t - 0.0)
        for i, (yi, ei) in enumerate(zip(y, e)):
            err = abs(yi - ei)
            raw = max(raw, err)
            worst = max(worst, err / (ats[i] + rts[i] * abs(ei) + 1e-300))
    return worst, raw


def group_oracle(metas, parsed):
    out = []
    groups = {}
    for cid, (meta, kw) in metas.items():
        groups.setdefault(meta["group"], []).append(cid)
    for g, cids in groups.items():
        meta0 = metas[cids[0]][0]
        if meta0["method"] == "RK4":
            errs = []
            for cid in sorted(cids, key=lambda c: metas[c][0]["nsteps"]):
                r = parsed[cid]
                if r.get("status") != "Success":
                    out.append((cid, "rk4-status", "RK4 run did not succeed: %s" % r.get("status")))
                    break
                errs.append((metas[cid][0]["nsteps"], sample_error(metas[cid][0], metas[cid][1], r)[1]))
            if len(errs) == 4 and errs[0][1] > 1e-9:
                slope = math.log(errs[0][1] / max(errs[-1][1], 1e-300)) / math.log(errs[-1][0] / errs[0][0])
                if slope < 3.5:
                    out.append((cids[0], "rk4-order", "RK4 global error decays with slope %.2f < 3.5 under step refinement: %r" % (slope, errs)))
            continue
        prev = None
        for cid in sorted(cids, key=lambda c: -metas[c][0]["tol"]):
            meta, kw = metas[cid]
            r = parsed[cid]
            if r.get("status") != "Success":
                key = "rtol=0" if (meta["method"] == "RADAU" and kw["rtol"] == 0.0) else "not-success:" + meta["family"]
                out.append((cid, key, "status %s on a smooth, well-conditioned problem" % r.get("status")))
                break
            worst, raw = sample_error(meta, kw, r)
            nacc = max(1, r["stats"][4])
            floor = 1e-12 * max(1.0, max(abs(v) for yi in r["y"] for v in yi))
            if worst > K_MODEST * nacc and raw > floor:
                key = "rtol=0" if (meta["method"] == "RADAU" and kw["rtol"] == 0.0) else "accuracy"
                out.append((cid, key, "max sample error is %.3g x (atol + rtol|y|) with %d accepted steps (bound %g x steps); raw error %.3g" % (worst, nacc, K_MODEST, raw)))
            if prev is not None and raw > 3.0 * prev + 20 * floor:
                out.append((cid, "tightening-increased-error", "tightening the tolerance by 100 increased the error from %.3g to %.3g" % (prev, raw)))
            prev = raw
    return out


def check():
    return solvercheck.run(
        "C01", "C01.v" if os.path.exists(os.path.join(solvercheck.common.COQ, "props", "C01.v")) else None,
        [dict(builder=builder, n_quick=320, n_thorough=4000, group_oracle=group_oracle)],
        [oracles.oracle_shapes], TB,
        "closed-form families (exponential, oscillator, logistic, rational, Gaussian, forced polynomial, time-dependent linear, mixed "
        "2-D) x 5 error-controlled methods x rtol in {1e-3,1e-5,1e-7,1e-9} x {mixed, pure absolute, pure relative} x scalar/vector atol "
        "x both directions x with/without t_eval; error of every returned sample against the exact solution must stay below "
        "50 x accepted_steps x (atol+rtol|y|) and must not grow when the tolerance is tightened; RK4 slope >= 3.5; each run replayed on "
        "the model")
