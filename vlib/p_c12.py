"""C12: output options do not perturb the integration; repeat runs are bit-identical."""
import random
from . import solvercheck, oracles, gen, sweep
from .p_common import TB


def builder(seed, n, defaults, tag):
    rng = random.Random(seed)
    methods = sweep.available_methods()
    cases, metas = [], {}
    ngroups = max(2, n // 6)
    for g in range(ngroups):
        kw, meta = sweep.base_case(rng, g, methods[g % len(methods)], defaults)
        if rng.random() < 0.3:
            kw["max_step"] = abs(kw["xend"] - kw["x0"]) / rng.choice([5, 9, 20])
        if rng.random() < 0.35 and kw["method"] != "RK4":
            # a user first_step reaches the solver and (without t_eval) the handler's first-output rule: the dispatch must
            # hand it to the stepper under every output option (seeded change C12-b dropped it when t_eval is given)
            lim = min(abs(kw["xend"] - kw["x0"]), kw.get("max_step") or float("inf"))
            kw["first_step"] = lim * rng.choice([1e-3, 0.02, 0.1, 0.5])
            meta["first_step"] = 1
        x0, xend = kw["x0"], kw["xend"]
        sp = xend - x0
        te = [x0 + sp * p for p in sorted(rng.uniform(0, 1) for _ in range(rng.randint(1, 9)))]
        if rng.random() < 0.5:
            # requested times that coincide with step ends up to rounding: multiples of the (maximal) step
            hstep = (sp / 100.0) if kw["method"] == "RK4" else (kw["max_step"] * (1 if sp > 0 else -1) if kw.get("max_step") else sp / 16.0)
            nst = int(abs(sp / hstep))
            te = [x0 + k * hstep for k in sorted(rng.sample(range(1, max(2, nst)), min(8, max(1, nst - 1))))]
            meta["teval_on_grid"] = True
        if rng.random() < 0.5:
            te.append(xend)
        evs = [e.replace("/1/", "/none/").replace("/2/", "/none/").replace("/3/", "/none/")
               for e in gen.gen_events(rng, kw["prob"], x0, xend, terminal_ok=False)]
        variants = [("plain", {}), ("repeat", {}), ("teval", {"t_eval": te}), ("dense", {"dense": True}),
                    ("events", {"events": evs}), ("all", {"t_eval": te, "dense": True, "events": evs})]
        for name, over in variants:
            k2 = dict(kw)
            k2.update(over)
            m2 = dict(meta)
            m2["group"] = g
            m2["variant"] = name
            cid = "%s%d_%s" % (tag, g, name)
            cases.append(gen.solve_case(cid, **k2))
            metas[cid] = (m2, k2)
    return cases, metas


def group_oracle(metas, parsed):
    out = []
    groups = {}
    for cid, (meta, kw) in metas.items():
        groups.setdefault(meta["group"], {})[meta["variant"]] = cid
    for g, vs in groups.items():
        base = parsed[vs["plain"]]
        if base.get("status") in (None, "error", "panic"):
            continue
        for name, cid in vs.items():
            if name == "plain":
                continue
            r = parsed[cid]
            if name == "repeat":
                if r["raw"] != base["raw"]:
                    out.append((cid, "not-deterministic", "repeating the same call gave a different result"))
                continue
            if r.get("stats") != base.get("stats"):
                out.append((cid, "stats-perturbed", "option set '%s' changed the step statistics: %r vs plain %r" % (name, r.get("stats"), base.get("stats"))))
            elif r.get("odelog") != base.get("odelog"):
                out.append((cid, "steps-perturbed", "option set '%s' changed the sequence of right-hand-side calls (accepted steps/states differ from the plain run)" % name))
            elif name in ("dense", "events") and (r.get("t") != base.get("t") or r.get("y") != base.get("y")):
                out.append((cid, "samples-perturbed", "option set '%s' changed the reported accepted steps" % name))
    return out


def check():
    return solvercheck.run(
        "C12", "C12.v",
        [dict(builder=builder, n_quick=360, n_thorough=6000, group_oracle=group_oracle)],
        [oracles.oracle_shapes], TB,
        "groups of 6 runs of one problem (plain, repeat, +t_eval, +dense_output, +non-terminal events, all three) over the 4 explicit "
        "methods and both directions; statistics, the full right-hand-side call log (hash over every (t,y) argument) and the "
        "accepted steps must be bit-identical to the plain run; every run also replayed on the model; non-trivial = >= 2 accepted steps")
