"""C19: the SolOut callback protocol of the low-level solvers."""
import os
import random
from . import common, harness, gen, sweep, solvercheck, oracles
from .harness import hx, hxlist, unhx
from .p_common import TB


def ll_case(cid, method, prob, x0, xend, rtol, atol, defaults, script, first_step=None, max_step=None, max_steps=100000,
            use_jac=False, full=False):
    d = defaults[method]
    toks = ["lowlevel", "id=%s" % cid, "method=%s" % method, "x0=" + hx(x0), "xend=" + hx(xend),
            "y0=" + hxlist(prob["y0"]), "rtol=" + gen.tol_str(rtol), "atol=" + gen.tol_str(atol),
            "maxsteps=%d" % max_steps, "firststep=" + gen.opt_str(first_step), "maxstep=" + gen.opt_str(max_step),
            "defaults=%d:%s" % (len(d["vals"].split(",")) if d["vals"] else 0, d["vals"]), "nstiff=%s" % d.get("nstiff", "0"),
            "f=%d:%s" % (len(prob["f"]), ";".join(prob["f"])),
            "script=%d:%s" % (len(script), ",".join("%d/%s/%s" % (i, a, hx(v)) for (i, a, v) in script))]
    if use_jac and prob.get("jac"):
        n = len(prob["jac"])
        toks.append("jac=%d:%s" % (n, ";".join(e for row in prob["jac"] for e in row)))
    if full:
        toks.append("full=1")
    return " ".join(toks)


def parse(lines):
    r = {"raw": lines, "calls": []}
    for ln in lines:
        p = ln.split()
        if not p:
            continue
        if p[0] == "status":
            r["status"] = p[1]
        elif p[0] == "stats":
            r["stats"] = [int(x) for x in p[1:7]]
        elif p[0] == "hfinal":
            r["h"] = unhx(p[1])
        elif p[0] == "trace":
            r["ntrace"] = int(p[1]); r["tracehash"] = p[2]
        elif p[0] == "call":
            r["calls"].append((int(p[1]), unhx(p[2]), unhx(p[3]), [unhx(v) for v in p[4].split(",")] if p[4] else [], p[5] == "1",
                               [unhx(v) for v in p[6].split(",")] if len(p) > 6 and p[6] else []))
        elif p[0] in ("odelog", "jaclog"):
            r[p[0]] = (int(p[1]), p[2])
        elif p[0] in ("panic", "error"):
            r["status"] = p[0]
    return r


def builder(seed, n, defaults):
    rng = random.Random(seed)
    methods = sweep.available_methods()
    cases, metas = [], {}
    g = 0
    while len(cases) < n:
        method = methods[g % len(methods)]
        kind = ["plain", "interrupt", "noop", "double", "modify"][g % 5]
        fams = [gen.fam_linear] if kind == "double" else ([gen.fam_vdp, gen.fam_bump, gen.fam_bump, gen.fam_discont, gen.fam_sho] if kind == "noop" else None)
        kw, meta = sweep.base_case(rng, g, method, defaults, fams=fams)
        prob = kw["prob"]
        rt = kw["rtol"] if isinstance(kw["rtol"], float) else kw["rtol"][0]
        at = kw["atol"] if isinstance(kw["atol"], float) else kw["atol"][0]
        if rt == 0.0:
            rt = 1e-6
        if kind == "noop":
            rt, at = rng.choice([(1e-6, 1e-9), (1e-5, 1e-8), (1e-8, 1e-10)])
        if kind == "double":
            at = 0.0
            prob = dict(prob); prob["y0"] = [v if abs(v) > 0.05 else 0.5 for v in prob["y0"]]
        if kind != "double" and len(prob["y0"]) > 1 and rng.random() < 0.5:
            # per-component tolerances with different entries (the scale rebuilt after ModifiedSolution must use all of them)
            rt = [rt * rng.choice([0.01, 0.1, 1.0, 10.0]) for _ in prob["y0"]]
            at = [at * rng.choice([0.01, 0.1, 1.0, 10.0]) for _ in prob["y0"]]
        use_jac = method in ("RADAU", "BDF") and bool(prob.get("jac"))
        common_kw = dict(method=method, prob=prob, x0=kw["x0"], xend=kw["xend"], rtol=rt, atol=at, defaults=defaults,
                         use_jac=use_jac, full=True)
        if rng.random() < 0.3:
            common_kw["max_step"] = abs(kw["xend"] - kw["x0"]) / rng.choice([5, 12])
        k = rng.randint(0, 6)
        variants = [("base", [])]
        if kind == "interrupt":
            variants.append(("int", [(k, "I", 0.0)]))
        elif kind == "noop":
            if rng.random() < 0.5:
                idxs = sorted(set(rng.randint(0, 8) for _ in range(rng.randint(1, 3))))
            else:
                idxs = list(range(0, 400))     # every callback: in particular the steps that follow a rejection
            variants.append(("noop", [(i, "N", 0.0) for i in idxs]))
        elif kind == "double":
            variants.append(("dbl", [(k, "M", 2.0)]))
        elif kind == "modify":
            variants.append(("mod", [(k, "M", rng.choice([0.5, 1.25, -1.0]))]))
        for name, script in variants:
            cid = "c%d_%s" % (g, name)
            m2 = dict(meta); m2.update({"group": g, "variant": name, "kind": kind, "k": k, "script": script})
            cases.append(ll_case(cid, script=script, **common_kw))
            metas[cid] = (m2, common_kw)
        g += 1
    # dedicated: ModifiedSolution (state unchanged) at every callback on problems with hard rejections followed by easy
    # retries -- the step right after a rejection is where controller memory (reject flag, facold) matters
    for j in range(max(12, n // 6)):
        method = ["DOPRI5", "DOP853", "RK23", "RADAU"][j % 4]
        prob = gen.fam_bump(rng)
        rt, at = rng.choice([(1e-6, 1e-9), (1e-5, 1e-8), (1e-7, 1e-10), (1e-4, 1e-7)])
        xe = prob["span"] * (1 if rng.random() < 0.7 else -1)
        if (j // 4) % 2 == 1:
            rt, at = [rt, rt * 0.1], [at * 10.0, at]
        ckw = dict(method=method, prob=prob, x0=0.0, xend=xe, rtol=rt, atol=at, defaults=defaults, use_jac=False, full=True)
        for name, script in (("base", []), ("noop", [(i, "N", 0.0) for i in range(0, 3000)])):
            cid = "r%d_%s" % (j, name)
            m2 = {"family": "bump", "n": 2, "backward": xe < 0, "tolmode": "mixed", "method": method, "group": "r%d" % j,
                  "variant": name, "kind": "noop", "k": 0, "script": script}
            cases.append(ll_case(cid, script=script, **ckw))
            metas[cid] = (m2, ckw)
    return cases, metas


def oracle_single(meta, kw, r):
    out = []
    st = r.get("status")
    if st in (None, "error", "panic"):
        if st == "panic":
            out.append(("panic", "low-level solve panicked"))
        return out
    calls = r["calls"]
    if not calls:
        return [("no-initial-call", "the callback was never called")]
    c0 = calls[0]
    if not (c0[1] == c0[2] == kw["x0"] and c0[3] == kw["prob"]["y0"] and not c0[4]):
        out.append(("first-call", "first call is (xold=%r, x=%r, interp=%s), expected (x0, x0, y0, None)" % (c0[1], c0[2], c0[4])))
    for a, b in zip(calls, calls[1:]):
        if b[0] != a[0] + 1:
            continue
        tol = 0.0 if kw["method"] != "BDF" else 8 * 2.0 ** -52 * max(abs(a[2]), abs(b[1]), abs(b[2]))
        if abs(b[1] - a[2]) > tol:
            out.append(("contiguity", "call %d has xold=%r but the previous call ended at x=%r" % (b[0], b[1], a[2])))
            break
        if not b[4]:
            out.append(("no-interpolant", "call %d came without an interpolant although dense output is on" % b[0]))
            break
    ints = [i for (i, a, v) in meta["script"] if a == "I"]
    if ints:
        k = ints[0]
        if r["ntrace"] > k:
            if st != "UserInterrupt":
                out.append(("interrupt-status", "callback %d returned Interrupt but the status is %s" % (k, st)))
            if r["ntrace"] != k + 1:
                out.append(("interrupt-continues", "callback %d returned Interrupt but %d further callbacks followed" % (k, r["ntrace"] - k - 1)))
    elif st == "UserInterrupt":
        out.append(("spurious-interrupt", "status UserInterrupt although no callback returned Interrupt"))
    if st == "Success":
        last = calls[-1]
        if abs(last[2] - kw["xend"]) > 64 * 2.0 ** -52 * max(abs(kw["xend"]), abs(kw["x0"])) * (100 if kw["method"] == "RK4" else 1):
            out.append(("success-not-at-xend", "status Success but the last callback ended at %r, xend=%r" % (last[2], kw["xend"])))
    return out


def group_oracle(metas, parsed):
    out = []
    groups = {}
    for cid, (meta, kw) in metas.items():
        groups.setdefault(meta["group"], {})[meta["variant"]] = cid
    for g, vs in groups.items():
        b = parsed[vs["base"]]
        if b.get("status") in (None, "error", "panic"):
            continue
        for name, cid in vs.items():
            if name == "base":
                continue
            r = parsed[cid]
            meta, kw = metas[cid]
            method = kw["method"]
            if name == "int":
                k = meta["k"]
                if b["ntrace"] > k:
                    # everything up to and including call k is identical to the uninterrupted run
                    pre_b = [c for c in b["calls"] if c[0] <= k]
                    pre_r = [c for c in r["calls"] if c[0] <= k]
                    if pre_b != pre_r:
                        out.append((cid, "interrupt-prefix", "the calls before the Interrupt differ from the uninterrupted run"))
                    # no further right-hand-side evaluations: at most those made up to call k in the base run
                    if r["odelog"][0] > b["odelog"][0]:
                        out.append((cid, "interrupt-evals", "more right-hand-side evaluations after an Interrupt than in the whole uninterrupted run"))
            elif name == "noop":
                if [c[1:] for c in r["calls"]] != [c[1:] for c in b["calls"]]:
                    out.append((cid, "modified-noop" + (":BDF" if method == "BDF" else ""),
                                "returning ModifiedSolution with an unchanged state changed the subsequent trajectory"))
                else:
                    nmod = sum(1 for (i, a, v) in meta["script"] if i < r["ntrace"])
                    if r["stats"][0] != b["stats"][0] + nmod:
                        out.append((cid, "modified-reevaluates", "%d ModifiedSolution returns, but nfev went from %d to %d" % (nmod, b["stats"][0], r["stats"][0])))
            elif name == "dbl":
                k = meta["k"]
                if b["ntrace"] > k + 1 and r["ntrace"] == b["ntrace"]:
                    ok = True
                    for cb_, cr in zip(b["calls"], r["calls"]):
                        if cb_[0] <= k:
                            ok = ok and cb_[1:] == cr[1:]
                        elif method == "RADAU":
                            # the simplified Newton iteration starts from values extrapolated from the previous step, so the
                            # doubled run agrees with twice the base run only to the Newton tolerance
                            tol = 1e3 * kw["rtol"]
                            ok = ok and abs(cb_[2] - cr[2]) <= tol * max(1.0, abs(cb_[2])) and \
                                all(abs(2.0 * u - v) <= tol * max(abs(v), 1e-300) + 1e-300 for u, v in zip(cb_[3], cr[3]))
                        else:
                            ok = ok and cb_[1] == cr[1] and cb_[2] == cr[2] and [2.0 * v for v in cb_[3]] == cr[3]
                    if not ok:
                        out.append((cid, "linear-doubling" + (":" + method if method in ("RADAU", "BDF") else ""),
                                    "doubling the state of a linear homogeneous problem (atol=0) in callback %d did not double what follows" % k))
                elif b["ntrace"] > k + 1:
                    out.append((cid, "linear-doubling" + (":" + method if method in ("RADAU", "BDF") else ""),
                                "doubling the state in callback %d changed the number of callbacks from %d to %d" % (k, b["ntrace"], r["ntrace"])))
    return out


def check():
    rep = common.Report("C19")
    rep.cov["trusted_base"] = TB
    broken = []
    rc, outp = common.regenerate()
    ok, detail = common.proof_stage(rep, "C19.v")
    if not ok:
        broken.append(detail)
    ok, log = harness.build_all()
    if not ok:
        rep.violation({"property": "C19", "broken": "build failed", "log": log[-2000:]}, found=False)
        return rep.finish()
    defaults = harness.impl_defaults()
    n = 3000 if common.tier() == "thorough" else 300
    cases, metas = builder(common.seed(), n, defaults)
    impl, e1 = harness.run_impl(cases)
    model, e2 = harness.run_model(cases)
    df = harness.diff(cases, impl, model)
    diff_ids = {d[0] for d in df}
    parsed = {harness.case_id(l): parse(impl.get(harness.case_id(l), [])) for l in cases}
    found = False
    fired_ids = set()
    nontriv = set()
    import collections
    dist = collections.Counter()
    for line in cases:
        cid = harness.case_id(line)
        meta, kw = metas[cid]
        r = parsed[cid]
        dist["%s/%s/%s" % (meta["method"], meta["kind"], r.get("status"))] += 1
        if r.get("ntrace", 0) >= 3:
            nontriv.add(line.split(" ", 2)[2])
        for key, msg in oracle_single(meta, kw, r):
            found = True; fired_ids.add(cid)
            rep.violation({"property": "C19", "case": line, "meta": meta, "observed": msg, "impl_result": r["raw"][:8]}, found=True,
                          key="%s:%s" % (meta["method"], key))
    lines = {harness.case_id(l): l for l in cases}
    for cid, key, msg in group_oracle(metas, parsed):
        found = True; fired_ids.add(cid)
        rep.violation({"property": "C19", "case": lines[cid], "meta": metas[cid][0], "observed": msg, "impl_result": parsed[cid]["raw"][:8]},
                      found=True, key="%s:%s" % (metas[cid][0]["method"], key))
    nf = [(l, [d for d in df if d[0] == harness.case_id(l)][0][2]) for l in cases if harness.case_id(l) in diff_ids - fired_ids]
    for line, d in nf[:5]:
        rep.violation({"property": "C19", "broken": "correspondence: model and implementation differ", "case": line,
                       "impl_line": d[0], "model_line": d[1]}, found=False)
    for b in broken:
        if not found:
            rep.violation({"property": "C19", "broken": b}, found=False)
    rep.cov["evaluations"] = len(cases)
    rep.cov["distinct_nontrivial"] = len(nontriv)
    rep.cov["rule"] = ("low-level solve() of all six solvers with a scripted SolOut (recording every call and the interpolant at the step "
                       "midpoint): plain, Interrupt at call k, ModifiedSolution with unchanged state at several calls, state doubled at call k "
                       "(linear homogeneous problem, atol=0), state rescaled at call k; checked: first call, contiguity, interpolant present, "
                       "Interrupt stops, no-op, linear doubling; every run replayed bit-for-bit on the model; non-trivial = >= 3 callbacks")
    rep.cov["samples"] = [c[:300] for c in cases[:3]]
    rep.cov["distribution"] = dict(dist)
    rep.cov["correspondence_disagreements"] = len(df)
    return rep.finish()
