"""Build and run the two sides of the correspondence: the Rust harness (implementation) and the
OCaml driver (extracted Coq model); diff their outputs case by case."""
import os
import struct
import subprocess
from . import common

HARN = os.path.join(common.VERIF, "harness")
EXTR = os.path.join(common.COQ, "extract")
WORK = os.path.join(common.VERIF, "work")
IMPL_BIN = os.path.join(HARN, "target", "release", "ivph")
MODEL_BIN = os.path.join(EXTR, "driver.exe")


def hx(v):
    return "0x%016x" % struct.unpack("<Q", struct.pack("<d", float(v)))[0]


def unhx(s):
    return struct.unpack("<d", struct.pack("<Q", int(s, 16)))[0]


def hxlist(vs):
    vs = list(vs)
    return "%d:%s" % (len(vs), ",".join(hx(v) for v in vs))


def build_impl(timeout=1800):
    """cargo build of /verif/harness against /repo's working tree, hooks on"""
    with common.Lock("cargo"):
        lock = os.path.join(HARN, "Cargo.lock")
        if not os.path.exists(lock):
            import shutil
            shutil.copy(os.path.join(HARN, "Cargo.lock.repo"), lock)
        rc, out = common.run(["cargo", "build", "--release", "--offline"], timeout, cwd=HARN,
                             env={"RUSTFLAGS": "--cfg ivp_verif", "CARGO_NET_OFFLINE": "true"})
    return rc == 0, out


def build_model(timeout=1800):
    """Coq extraction target + ocamlopt"""
    ok, log = common.coq_build(["extract/Extract.vo"], timeout)
    if not ok:
        return False, log
    with common.Lock("ocaml"):
        src = [os.path.join(EXTR, f) for f in ("float64.ml", "model.ml", "driver.ml")]
        newest = max(os.path.getmtime(p) for p in src)
        if os.path.exists(MODEL_BIN) and os.path.getmtime(MODEL_BIN) >= newest:
            return True, "driver up to date"
        mli = os.path.join(EXTR, "model.mli")
        if os.path.exists(mli):
            os.remove(mli)
        rc, out = common.run(["ocamlfind", "ocamlopt", "-O3", "-w", "-a", "-package", "str",
                              "float64.ml", "model.ml", "driver.ml", "-o", "driver.exe"], timeout, cwd=EXTR)
    return rc == 0, out


def build_all():
    ok, log = build_model()
    if not ok:
        return False, "model build failed:\n" + log
    ok2, log2 = build_impl()
    return ok2, log + "\n" + log2


def impl_defaults():
    rc, out = common.run([IMPL_BIN, "defaults"], 60)
    d = {}
    for line in out.splitlines():
        p = line.split()
        if len(p) >= 2 and p[0] == "defaults":
            kv = dict(x.split("=") for x in p[2:] if "=" in x)
            vals = p[2] if len(p) > 2 and "=" not in p[2] else ""
            d[p[1]] = {"vals": vals, **kv}
    return d


def _run_sharded(binary, cases, timeout, env=None):
    """run `binary` over the case lines, sharded across cores; returns dict id -> list of lines"""
    os.makedirs(WORK, exist_ok=True)
    nsh = max(1, min(common.NCPU, len(cases) // 8 or 1))
    shards = [cases[i::nsh] for i in range(nsh)]
    procs = []
    e = dict(os.environ)
    e["OCAMLRUNPARAM"] = "l=4G"
    if env:
        e.update(env)
    for sh in shards:
        p = subprocess.Popen(["sh", "-c", "ulimit -s unlimited 2>/dev/null; exec " + binary], stdin=subprocess.PIPE,
                             stdout=subprocess.PIPE, stderr=subprocess.PIPE, text=True, env=e)
        procs.append((p, sh))
    import threading
    results = {}
    errs = []

    def work(p, sh):
        try:
            out, err = p.communicate("\n".join(sh) + "\n", timeout=timeout)
        except subprocess.TimeoutExpired:
            p.kill()
            out, err = p.communicate()
            errs.append("timeout")
        if p.returncode not in (0, None):
            errs.append("rc=%s %s" % (p.returncode, (err or "")[-500:]))
        cur = None
        for line in out.splitlines():
            if line.startswith("case "):
                cur = line[5:].strip()
                results[cur] = []
            elif line == "end":
                cur = None
            elif cur is not None:
                results[cur].append(line)

    ths = [threading.Thread(target=work, args=ps) for ps in procs]
    for t in ths:
        t.start()
    for t in ths:
        t.join()
    return results, errs


def run_isolated(binary, cases, per_case_timeout=20, mem_kb=3000000):
    """one process per case with a wall-clock watchdog and an address-space limit;
    returns (results, hung ids, crashed ids)"""
    from concurrent.futures import ThreadPoolExecutor
    results, hung, crashed = {}, [], []

    def one(line):
        cid = case_id(line)
        try:
            lim = "ulimit -s unlimited 2>/dev/null; " if binary == MODEL_BIN else "ulimit -v %d; " % mem_kb
            p = subprocess.run(["sh", "-c", lim + "exec " + binary], input=line + "\n",
                               stdout=subprocess.PIPE, stderr=subprocess.PIPE, text=True, timeout=per_case_timeout)
        except subprocess.TimeoutExpired:
            hung.append(cid)
            return
        lines = p.stdout.splitlines()
        if p.returncode != 0 or "end" not in lines:
            crashed.append(cid)
            results[cid] = ["crashed rc=%s %s" % (p.returncode, p.stderr.strip()[:200].replace("\n", " "))]
            return
        results[cid] = [l for l in lines if not l.startswith("case ") and l != "end"]

    with ThreadPoolExecutor(max_workers=common.NCPU) as ex:
        list(ex.map(one, cases))
    return results, hung, crashed


def run_impl(cases, timeout=900):
    return _run_sharded(IMPL_BIN, cases, timeout)


def run_model(cases, timeout=900):
    return _run_sharded(MODEL_BIN, cases, timeout)


def case_id(line):
    for tok in line.split():
        if tok.startswith("id="):
            return tok[3:]
    return ""


def diff(cases, impl, model):
    """returns list of (id, case_line, first differing line pair)"""
    out = []
    for line in cases:
        cid = case_id(line)
        a = impl.get(cid)
        b = model.get(cid)
        if a is None or b is None:
            out.append((cid, line, ("<missing impl>" if a is None else a[:1], "<missing model>" if b is None else b[:1])))
            continue
        if a != b:
            d = None
            for i in range(max(len(a), len(b))):
                la = a[i] if i < len(a) else "<none>"
                lb = b[i] if i < len(b) else "<none>"
                if la != lb:
                    d = (la[:400], lb[:400])
                    break
            out.append((cid, line, d))
    return out
