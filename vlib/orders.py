"""Single-step experiments from exact data: local error at the end of the step (C02) and uniform error of the
interpolant inside the step (C07) as functions of h -- the failing-input search for the order properties."""
import math
import random
from . import gen, exact

ORDER = {"RK4": 4, "RK23": 3, "DOPRI5": 5, "DOP853": 8, "RADAU": 5}
DENSE = {"RK4": 3, "RK23": 3, "DOPRI5": 4, "DOP853": 7, "RADAU": 3}
H0 = {"RK4": 0.2, "RK23": 0.2, "DOPRI5": 0.3, "DOP853": 0.6, "RADAU": 0.2}
THETAS = [0.1, 0.25, 0.4, 0.5, 0.6, 0.75, 0.9]


def time_scaled(prob, w):
    """the same problem in the time unit 1/w:  z'(s) = w f(w s, z),  z(s) = y(w s).  The order statements are
    invariant under this change of unit; absolute time tolerances in the code are not (seeded change C07-b:
    an interpolant that snaps to the step ends within 1e-12)."""
    def sub_t(e):
        return ",".join(("*,%s,t" % gen.C(w)) if tok == "t" else tok for tok in e.split(","))
    p2 = dict(prob)
    p2["f"] = [gen.mul(gen.C(w), sub_t(e)) for e in prob["f"]]
    if prob.get("jac"):
        p2["jac"] = [[gen.mul(gen.C(w), sub_t(e)) for e in row] for row in prob["jac"]]
    if prob.get("exact"):
        ex0 = prob["exact"]
        p2["exact"] = lambda s: ex0(w * s)
    p2["name"] = prob["name"]
    return p2


def builder(seed, n, defaults, tag):
    rng = random.Random(seed)
    cases, metas = [], {}
    g = 0
    fams = exact.TIMEDEP + [exact.logistic, exact.sho]
    for method in ORDER:
        for fi, fam in enumerate(fams + fams[:3]):
            # the last three groups of each method repeat a family in a time unit of 2^-40 (~1e-12)
            w = 2.0 ** 40 if fi >= len(fams) else 1.0
            # Radau: only linear constant-coefficient problems with an analytic Jacobian, for which the simplified
            # Newton iteration is exact after one pass (otherwise the Newton residual at the loose tolerance dominates)
            if method == "RADAU" and fam not in (exact.poly_forced, exact.sho):
                continue
            prob = fam(rng)
            xs = 0.3 / w
            if w != 1.0:
                prob = time_scaled(prob, w)
            for sgn in (1.0, -1.0):
                if sgn < 0 and prob["name"] in ("lingrow",):
                    continue
                for k in range(4):
                    h = H0[method] / (2 ** k) / w
                    p2 = dict(prob)
                    p2["y0"] = prob["exact"](xs)
                    xend = xs + sgn * h
                    q = [xs + sgn * h * th for th in THETAS]
                    kw = dict(method=method, prob=p2, x0=xs, xend=xend, rtol=1.0, atol=1.0, defaults=defaults,
                              first_step=h, dense=True, query=q, use_jac=True)
                    cid = "%s%d_%d" % (tag, g, k)
                    meta = {"family": prob["name"], "n": len(p2["y0"]), "backward": sgn < 0, "tolmode": "loose",
                            "method": method, "group": g, "h": h * w, "time_unit": 1.0 / w, "exact": prob["exact"]}
                    cases.append(gen.solve_case(cid, **kw))
                    metas[cid] = (meta, kw)
                g += 1
    return cases, metas


def fit_slope(hs, es):
    pts = [(math.log(h), math.log(e)) for h, e in zip(hs, es) if e > 0]
    if len(pts) < 3:
        return None
    n = len(pts)
    mx = sum(p[0] for p in pts) / n
    my = sum(p[1] for p in pts) / n
    den = sum((p[0] - mx) ** 2 for p in pts)
    return sum((p[0] - mx) * (p[1] - my) for p in pts) / den


def group_oracle_factory(which):
    def group_oracle(metas, parsed):
        out = []
        groups = {}
        for cid, (meta, kw) in metas.items():
            groups.setdefault(meta["group"], []).append(cid)
        for g, cids in groups.items():
            cids = sorted(cids, key=lambda c: -metas[c][0]["h"])
            meta0 = metas[cids[0]][0]
            method = meta0["method"]
            hs, e_end, e_dense = [], [], []
            for cid in cids:
                meta, kw = metas[cid]
                r = parsed[cid]
                if r.get("status") != "Success" or r.get("stats", [0] * 6)[4] != 1:
                    continue   # not a single accepted step: not usable for the fit
                ex = meta["exact"]
                te = r["t"][-1]
                scale = max(1.0, max(abs(v) for v in ex(te)))
                hs.append(meta["h"])
                e_end.append(max(abs(a - b) for a, b in zip(r["y"][-1], ex(te))) / scale)
                ed = 0.0
                for (tq, kind, val) in r.get("sol", []):
                    if kind == "ok":
                        ed = max(ed, max(abs(a - b) for a, b in zip(val, ex(tq))) / scale)
                e_dense.append(ed)
            floor = 2e-12
            if which == "end":
                use = [(h, e) for h, e in zip(hs, e_end) if e > floor]
                if len(use) >= 3:
                    s = fit_slope([u[0] for u in use], [u[1] for u in use])
                    if s is not None and s < ORDER[method] + 1 - 1.3:
                        out.append((cids[0], "local-order", "one-step error from exact data decays like h^%.2f, expected h^%d (h=%r, errors %r)" %
                                    (s, ORDER[method] + 1, [u[0] for u in use], ["%.3g" % u[1] for u in use])))
            else:
                use = [(h, e) for h, e in zip(hs, e_dense) if e > floor]
                if len(use) >= 3:
                    s = fit_slope([u[0] for u in use], [u[1] for u in use])
                    if s is not None and s < DENSE[method] + 1 - 1.3:
                        out.append((cids[0], "dense-order", "interpolant error inside one step from exact data decays like h^%.2f, expected h^%d (h=%r, errors %r)" %
                                    (s, DENSE[method] + 1, [u[0] for u in use], ["%.3g" % u[1] for u in use])))
        return out
    return group_oracle


# ---- one Radau step on y' = lambda y against the (2,3) Pade approximant (C02's Pade clause, C14's stability) ----
def pade_builder(seed, n, defaults, tag):
    """single accepted steps (tolerances 1: nothing is rejected) of size h on y' = lambda y with the analytic Jacobian, for
    which the simplified Newton iteration reaches the stage equations' solution in one pass; z = h*lambda from -1e-3 to -1e8,
    both directions of integration (backward: lambda > 0, still z < 0)"""
    from fractions import Fraction
    rng = random.Random(seed)
    cases, metas = [], {}
    k = 0
    for z in (-1e-3, -0.5, -2.0, -7.5, -30.0, -1e3, -1e5, -1e8, 0.25):
        for sgn in (1.0, -1.0):
            for h in (0.5, 2.0 ** -20):
                lam = z / (sgn * h)
                prob = {"name": "expo", "f": [gen.mul(gen.C(lam), gen.Y(0))], "y0": [rng.choice([1.0, -3.0, 0.125])],
                        "jac": [[gen.C(lam)]], "span": h}
                kw = dict(method="RADAU", prob=prob, x0=0.0, xend=sgn * h, rtol=1.0, atol=1.0, defaults=defaults,
                          first_step=h, use_jac=True)
                cid = "%spade%d" % (tag, k)
                k += 1
                zz = Fraction(lam) * Fraction(sgn * h)
                P = 1 + Fraction(2, 5) * zz + Fraction(1, 20) * zz * zz
                Q = 1 - Fraction(3, 5) * zz + Fraction(3, 20) * zz * zz - Fraction(1, 60) * zz ** 3
                meta = {"family": "expo", "n": 1, "backward": sgn < 0, "tolmode": "loose", "method": "RADAU",
                        "group": "pade%d" % k, "z": float(zz), "R": float(P / Q), "h": h, "exact": None}
                cases.append(gen.solve_case(cid, **kw))
                metas[cid] = (meta, kw)
    return cases, metas


def oracle_pade(meta, kw, r):
    out = []
    if "R" not in meta or r.get("status") in (None, "error", "panic"):
        return out
    if r.get("status") != "Success" or r.get("stats", [0] * 6)[4] != 1:
        out.append(("pade-step", "one Radau step with tolerances 1 on y' = lambda y (z = %g) was not a single accepted step: %s %r" %
                    (meta["z"], r.get("status"), r.get("stats"))))
        return out
    y0 = kw["prob"]["y0"][0]
    got = r["y"][-1][0] / y0
    if abs(got - meta["R"]) > 1e-10 * max(1.0, abs(meta["R"])) + 1e-12:
        out.append(("pade", "one Radau step on y' = lambda y with z = h*lambda = %g multiplies y by %r; the (2,3) Pade approximant of exp gives %r" %
                    (meta["z"], got, meta["R"])))
    return out


# ---- every accepted Radau step of a multi-step run has local error O(h^6) (C02-c: stale stage abscissae under LU reuse) ----
def radau_steps_builder(seed, n, defaults, tag):
    """Duffing-type y'' = -y + y^3/6 + eps*t (nonlinear: several Newton passes; weak explicit time dependence) at tight
    tolerances with the analytic Jacobian: stretches of steps that reuse the factorisation and the Jacobian."""
    rng = random.Random(seed)
    cases, metas = [], {}
    k = 0
    for eps in (1e-4, 1e-2):
        for tol in (1e-8, 1e-10):
            for sgn in (1.0, -1.0):
                y03 = gen.mul(gen.mul(gen.Y(0), gen.Y(0)), gen.Y(0))
                f1 = gen.add(gen.add(gen.neg(gen.Y(0)), gen.div(y03, gen.C(6.0))), gen.mul(gen.C(eps * sgn), gen.T))
                dj = gen.add(gen.C(-1.0), gen.mul(gen.C(0.5), gen.mul(gen.Y(0), gen.Y(0))))
                f = [gen.Y(1), f1]
                jac = [[gen.C(0.0), gen.C(1.0)], [dj, gen.C(0.0)]]
                if sgn < 0:
                    # integrate the time-reflected problem backward: the same trajectory
                    f = ["neg," + e for e in f]
                    jac = [["neg," + e for e in row] for row in jac]
                prob = {"name": "duffing", "f": f, "y0": [1.0, 0.0], "jac": jac, "span": 8.0}
                kw = dict(method="RADAU", prob=prob, x0=0.0, xend=sgn * rng.choice([6.0, 8.0]), rtol=tol, atol=tol,
                          defaults=defaults, use_jac=True)
                cid = "%sradsteps%d" % (tag, k)
                k += 1
                meta = {"family": "duffing", "n": 2, "backward": sgn < 0, "tolmode": "mixed", "method": "RADAU",
                        "group": "radsteps%d" % k, "eps": eps, "exact": None}
                cases.append(gen.solve_case(cid, **kw))
                metas[cid] = (meta, kw)
    return cases, metas


def oracle_radau_steps(meta, kw, r):
    """local error of every accepted step against a reference flow (classical RK4 with 48 substeps per step, error
    far below the threshold) started from the step's own left end"""
    from .oracles import eval_expr
    out = []
    if "eps" not in meta or r.get("status") != "Success":
        if "eps" in meta and r.get("status") not in (None, "error", "panic", "Success"):
            out.append(("radau-steps-status", "Radau did not finish a smooth problem: %s" % r.get("status")))
        return out
    fx = kw["prob"]["f"]

    def f(t, y):
        return [eval_expr(e, t, y) for e in fx]

    t, y = r["t"], r["y"]
    worst, where = 0.0, None
    for i in range(len(t) - 1):
        h = t[i + 1] - t[i]
        if abs(h) < 1e-2:
            continue
        m = 48
        hh = h / m
        tt, yy = t[i], list(y[i])
        for _ in range(m):
            k1 = f(tt, yy)
            k2 = f(tt + hh / 2, [a + hh / 2 * b for a, b in zip(yy, k1)])
            k3 = f(tt + hh / 2, [a + hh / 2 * b for a, b in zip(yy, k2)])
            k4 = f(tt + hh, [a + hh * b for a, b in zip(yy, k3)])
            yy = [a + hh / 6 * (p + 2 * q + 2 * s_ + w) for a, p, q, s_, w in zip(yy, k1, k2, k3, k4)]
            tt += hh
        err = max(abs(a - b) for a, b in zip(y[i + 1], yy))
        q = err / abs(h) ** 6
        if err > 1e-12 and q > worst:
            worst, where = q, (i, t[i], h, err)
    # the unmodified method stays around 1e-3 * h^6 on this problem; 0.05 leaves more than an order of magnitude
    if worst > 0.05:
        i, ti, h, err = where
        out.append(("radau-step-order", "accepted step %d (t=%.6g, h=%.4g) of a Radau run has local error %.3g = %.3g * h^6 "
                    "against the reference flow: not the O(h^6) of an order-5 step" % (i, ti, h, err, worst)))
    return out


# ---- RK4: two full steps and a shortened last one (first_step does not divide the interval), from exact data ----
def rk4_tail_builder(seed, n, defaults, tag):
    """RK4 with first_step = h on an interval of 2.5 h: the last step is shortened to h/2.  The error of the final sample is
    O(h^5) (a fixed number of steps from exact data) and the interpolant inside the LAST step is O(h^4); both are fitted
    over h = h0/2^k.  (Seeded changes C02-b and C07-c broke exactly this step: stage abscissae / Hermite slopes computed
    for the full step size.)"""
    rng = random.Random(seed)
    cases, metas = [], {}
    g = 0
    for fam in exact.TIMEDEP + [exact.logistic]:
        prob = fam(rng)
        xs = 0.3
        for sgn in (1.0, -1.0):
            if sgn < 0 and prob["name"] in ("lingrow",):
                continue
            for k in range(4):
                h = H0["RK4"] / (2 ** k)
                p2 = dict(prob)
                p2["y0"] = prob["exact"](xs)
                xend = xs + sgn * 2.5 * h
                q = [xs + sgn * h * (2.0 + 0.5 * th) for th in THETAS]
                kw = dict(method="RK4", prob=p2, x0=xs, xend=xend, rtol=1.0, atol=1.0, defaults=defaults,
                          first_step=h, dense=True, query=q)
                cid = "%s%d_%d" % (tag, g, k)
                meta = {"family": prob["name"], "n": len(p2["y0"]), "backward": sgn < 0, "tolmode": "loose",
                        "method": "RK4", "group": g, "h": h, "exact": prob["exact"]}
                cases.append(gen.solve_case(cid, **kw))
                metas[cid] = (meta, kw)
            g += 1
    return cases, metas


def rk4_tail_group_oracle(metas, parsed):
    out = []
    groups = {}
    for cid, (meta, kw) in metas.items():
        groups.setdefault(meta["group"], []).append(cid)
    for g, cids in groups.items():
        cids = sorted(cids, key=lambda c: -metas[c][0]["h"])
        hs, e_end, e_dense = [], [], []
        for cid in cids:
            meta, kw = metas[cid]
            r = parsed[cid]
            if r.get("status") != "Success" or r.get("stats", [0] * 6)[4] != 3:
                continue   # not two full steps and a shortened one: not usable for the fit
            ex = meta["exact"]
            te = r["t"][-1]
            scale = max(1.0, max(abs(v) for v in ex(te)))
            hs.append(meta["h"])
            e_end.append(max(abs(a - b) for a, b in zip(r["y"][-1], ex(te))) / scale)
            ed = 0.0
            for (tq, kind, val) in r.get("sol", []):
                if kind == "ok":
                    ed = max(ed, max(abs(a - b) for a, b in zip(val, ex(tq))) / scale)
            e_dense.append(ed)
        floor = 2e-12
        for name, es, want in (("final sample", e_end, 5), ("interpolant inside the shortened last step", e_dense, 4)):
            use = [(h, e) for h, e in zip(hs, es) if e > floor]
            if len(use) >= 3:
                s = fit_slope([u[0] for u in use], [u[1] for u in use])
                if s is not None and s < want - 1.3:
                    out.append((cids[0], "rk4-tail-order", "RK4, two steps of h and a last step of h/2 from exact data: error of the %s decays like h^%.2f, expected h^%d (h=%r, errors %r)" %
                                (name, s, want, [u[0] for u in use], ["%.3g" % u[1] for u in use])))
    return out


# ---- step count against tolerance: the error ESTIMATOR's order (the embedded pair as the code applies it) ----
TOLSCALE = {"RK23": ([1e-5, 1e-6, 1e-7, 1e-8], 1.0 / 3.0), "DOPRI5": ([1e-7, 1e-8, 1e-9, 1e-10, 1e-11], 1.0 / 5.0),
            "DOP853": ([1e-9, 1e-10, 1e-11, 1e-12, 1e-13], 1.0 / 8.0)}


def tolscale_builder(seed, n, defaults, tag):
    """on a smooth problem whose right-hand side depends on the state, the number of accepted steps grows like
    tol^(-1/(q+1)) where h^(q+1) is the order of the error estimate; an estimator of lower order (seeded change C02-d:
    one estimator weight applied to the wrong stage) shows as a larger exponent.  Measured on the unchanged tree:
    RK23 0.31-0.33, DOPRI5 0.175-0.20, DOP853 0.09-0.12."""
    rng = random.Random(seed)
    cases, metas = [], {}
    g = 0
    for method, (tols, _) in TOLSCALE.items():
        for fam in (exact.sho, exact.logistic):
            prob = fam(rng)
            for t in tols:
                kw = dict(method=method, prob=prob, x0=0.0, xend=3.0 * prob["span"], rtol=t, atol=t, defaults=defaults)
                cid = "%s%d_%g" % (tag, g, t)
                meta = {"family": prob["name"], "n": len(prob["y0"]), "backward": False, "tolmode": "mixed", "method": method,
                        "group": g, "tol": t}
                cases.append(gen.solve_case(cid, **kw))
                metas[cid] = (meta, kw)
            g += 1
    return cases, metas


def tolscale_group_oracle(metas, parsed):
    out = []
    groups = {}
    for cid, (meta, kw) in metas.items():
        groups.setdefault(meta["group"], []).append(cid)
    for g, cids in groups.items():
        method = metas[cids[0]][0]["method"]
        pts = []
        for cid in cids:
            r = parsed[cid]
            if r.get("status") == "Success" and r.get("stats") and r["stats"][4] >= 8:
                pts.append((1.0 / metas[cid][0]["tol"], float(r["stats"][4])))
        if len(pts) < 4:
            continue
        s = fit_slope([p[0] for p in pts], [p[1] for p in pts])
        want = TOLSCALE[method][1]
        if s is not None and s > want + 0.03:
            pts.sort()
            out.append((cids[0], "estimator-order", "%s on %s: accepted steps grow like tol^-%.3f (steps %r at tolerances %r), expected about tol^-%.3f for an error estimate of the advertised order" %
                        (method, metas[cids[0]][0]["family"], s, [int(p[1]) for p in pts], ["%.0e" % (1.0 / p[0]) for p in pts], want)))
    return out
