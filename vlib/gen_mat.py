"""Case generators for the Matrix (C17) and LU (C16) correspondences."""
import itertools
import random
from .harness import hx, hxlist

VALS = [0.0, -0.0, 1.0, -1.0, 2.0, 0.5, -3.25, 1e-3, 7.0, 1e6]


def st_str(st):
    return st if isinstance(st, str) else "banded-%d-%d" % st


def rand_ctor(rng, n, kind=None):
    """returns (ctor string, list of writable (i,j), description)"""
    kind = kind or rng.choice(["identity", "zeros", "full", "banded", "lower", "upper", "diag", "fromvec", "fromstorage", "square"])
    allij = [(i, j) for i in range(n) for j in range(n)]
    if kind == "identity":
        return "identity:%d" % n, [], kind
    if kind == "zeros":
        return "zeros:%d:%d" % (n, n), allij, kind
    if kind == "full":
        return "full:%d:%d" % (n, n), allij, kind
    if kind == "square":
        return "square:%d" % n, [], kind
    if kind == "banded":
        ml, mu = rng.randrange(n), rng.randrange(n)
        return "banded:%d:%d:%d" % (n, ml, mu), [(i, j) for (i, j) in allij if -mu <= i - j <= ml], "banded"
    if kind == "lower":
        return "lower:%d" % n, [(i, j) for (i, j) in allij if j <= i], kind
    if kind == "upper":
        return "upper:%d" % n, [(i, j) for (i, j) in allij if i <= j], kind
    if kind == "diag":
        return "diag:" + hxlist([rng.choice(VALS) for _ in range(n)]), [(i, i) for i in range(n)], kind
    if kind == "fromvec":
        return "fromvec:%d:%d:%s" % (n, n, hxlist([rng.choice(VALS) if rng.random() < 0.7 else round(rng.uniform(-5, 5), 3) for _ in range(n * n)])), allij, kind
    if kind == "fromstorage":
        st = rng.choice(["identity", "full", (rng.randrange(n), rng.randrange(n))])
        wr = [] if st == "identity" else allij if st == "full" else [(i, j) for (i, j) in allij if -st[1] <= i - j <= st[0]]
        return "fromstorage:%d:%d:%s" % (n, n, st_str(st)), wr, "fromstorage-" + (st if isinstance(st, str) else "banded")
    raise ValueError(kind)


def writes(rng, writable, n, bad_prob=0.006):
    ws = []
    k = rng.randint(0, max(1, len(writable)))
    for _ in range(k):
        if writable and rng.random() > bad_prob:
            i, j = rng.choice(writable)
        else:
            i, j = rng.randrange(n + 1), rng.randrange(n + 1)   # possibly outside band / shape -> panic
        ws.append("%d/%d/%s" % (i, j, hx(rng.choice(VALS) if rng.random() < 0.5 else round(rng.uniform(-9, 9), 4))))
    return "%d:%s" % (len(ws), ",".join(ws))


def near_identity_writes(rng, writable, n):
    """unit diagonal plus 0..2 further writable entries (non-zero, 0.0 or -0.0): the inputs on which is_identity
    has to look at every stored cell, in particular the far side of an asymmetric band (seeded change C17-b)"""
    ws = ["%d/%d/%s" % (i, i, hx(1.0)) for i in range(n) if (i, i) in writable]
    off = [ij for ij in writable if ij[0] != ij[1]]
    for _ in range(rng.choice([0, 1, 1, 2])):
        if not off:
            break
        # prefer the entries farthest from the diagonal
        off.sort(key=lambda ij: -abs(ij[0] - ij[1]))
        i, j = off[0] if rng.random() < 0.5 else rng.choice(off)
        ws.append("%d/%d/%s" % (i, j, hx(rng.choice([5.0, -0.25, 1e-300, 0.0, -0.0]))))
    return "%d:%s" % (len(ws), ",".join(ws))


def matrix_cases(seed, ncases, nmax=8):
    rng = random.Random(seed)
    cases, metas = [], {}
    ops = ["none", "add", "sub", "addassign", "subassign", "subassignref", "cadd", "csub", "cmul", "cmulmut"]
    for c in range(ncases):
        n = rng.randint(1, nmax)
        a, wa, ka = rand_ctor(rng, n)
        op = ops[c % len(ops)]
        near_id = op in ("none", "cmul", "add") and rng.random() < 0.3
        toks = ["matrix", "id=m%d" % c, "a=" + a, "aw=" + (near_identity_writes(rng, wa, n) if near_id else writes(rng, wa, n))]
        kb = None
        if op in ("add", "sub", "addassign", "subassign", "subassignref"):
            nb = n if rng.random() < 0.97 else rng.randint(1, nmax)
            # the second operand is an Identity matrix more often than chance: several operators special-case it
            b, wb, kb = rand_ctor(rng, nb, kind=("identity" if rng.random() < 0.2 else None))
            toks += ["b=" + b, "bw=" + writes(rng, wb, nb)]
            toks.append("op=" + op)
        elif op == "none":
            toks.append("op=none")
        else:
            toks.append("op=%s:%s" % (op, hx(rng.choice([0.0, -0.0, 1.0, 2.5, -1.0, rng.uniform(-3, 3)]))))
        cases.append(" ".join(toks))
        metas["m%d" % c] = {"n": n, "a": ka, "b": kb, "op": op, "near_identity": near_id}
    return cases, metas


def lu_case(cid, n, cols, iplen, a, b):
    return "lu id=%s n=%d cols=%d iplen=%d a=%s b=%s" % (cid, n, cols, iplen, hxlist(a), hxlist(b))


def lu_cases(seed, ncases, nmax=6):
    rng = random.Random(seed)
    cases, metas = [], {}
    kinds = ["dense", "int", "sparse", "graded", "permtri", "singular", "shape", "zerocol"]
    for c in range(ncases):
        kind = kinds[c % len(kinds)]
        n = rng.randint(1, nmax)
        cols, iplen = n, n
        if kind == "dense":
            A = [[rng.uniform(-5, 5) for _ in range(n)] for _ in range(n)]
        elif kind == "int":
            A = [[float(rng.randint(-3, 3)) for _ in range(n)] for _ in range(n)]
        elif kind == "sparse":
            A = [[rng.uniform(-5, 5) if rng.random() < 0.35 or i == j else 0.0 for j in range(n)] for i in range(n)]
        elif kind == "graded":
            A = [[rng.uniform(-1, 1) * 2.0 ** (rng.randint(-20, 20) if j == 0 else 3 * (i - n // 2)) for j in range(n)] for i in range(n)]
        elif kind == "permtri":
            perm = list(range(n))
            rng.shuffle(perm)
            T = [[(rng.uniform(0.5, 3) if i == j else rng.uniform(-2, 2)) if j >= i else 0.0 for j in range(n)] for i in range(n)]
            A = [T[perm[i]] for i in range(n)]
        elif kind == "singular":
            A = [[float(rng.randint(-2, 2)) for _ in range(n)] for _ in range(n)]
            if n > 1:
                r = rng.randrange(1, n)
                A[r] = [2.0 * v for v in A[0]]
        elif kind == "zerocol":
            A = [[rng.uniform(-5, 5) for _ in range(n)] for _ in range(n)]
            k = rng.randrange(n)
            for i in range(n):
                A[i][k] = 0.0
        else:  # shape errors
            A = [[rng.uniform(-5, 5) for _ in range(n)] for _ in range(n)]
            if rng.random() < 0.5 and n > 1:
                cols = n - 1
                A = [row[:cols] for row in A]
            else:
                iplen = n + rng.choice([-1, 1]) if n > 1 else 2
        flat = [v for row in A for v in row]
        b = [rng.uniform(-3, 3) if kind != "int" else float(rng.randint(-4, 4)) for _ in range(n)]
        cid = "l%d" % c
        cases.append(lu_case(cid, n, cols, iplen, flat, b))
        metas[cid] = {"n": n, "kind": kind}
    return cases, metas


def lu_exhaustive_small(nmax=3, vals=(-2, -1, 0, 1, 2), limit=None, seed=0):
    """all matrices with entries in vals for n <= nmax (n=3: 5^9 ~ 2e6; sample `limit` of them)"""
    cases = []
    rng = random.Random(seed)
    k = 0
    for n in range(1, nmax + 1):
        total = len(vals) ** (n * n)
        it = itertools.product(vals, repeat=n * n)
        if limit and total > limit:
            picks = set(rng.sample(range(total), limit))
        else:
            picks = None
        for idx, flat in enumerate(it):
            if picks is not None and idx not in picks:
                continue
            b = [float((idx * 7 + i * 3) % 5 - 2) for i in range(n)]
            cases.append(lu_case("e%d" % k, n, n, n, [float(v) for v in flat], b))
            k += 1
    return cases


def luc_cases(seed, ncases, nmax=6):
    """complex systems for lu_decomp_complex / lin_solve_complex.  Entries are drawn so that exactly-real, exactly-imaginary
    and exactly-zero entries are common: the elimination loop has a separate arithmetic path for each of them
    (seeded change C16-b altered only the purely-imaginary one)."""
    rng = random.Random(seed + 99)
    cases, metas = [], {}
    kinds = ["dense", "structured", "structured", "smallint", "radau", "singular", "shape", "zerocol"]

    def entry(kind):
        if kind == "dense":
            return rng.uniform(-5, 5), rng.uniform(-5, 5)
        if kind == "smallint":
            return float(rng.randint(-2, 2)), float(rng.randint(-2, 2))
        r = rng.random()
        if r < 0.3:
            return rng.choice([1.0, -2.0, 0.5, rng.uniform(-4, 4)]), 0.0
        if r < 0.6:
            return 0.0, rng.choice([1.0, -1.0, 3.0, rng.uniform(-4, 4)])
        if r < 0.7:
            return 0.0, 0.0
        return rng.uniform(-4, 4), rng.uniform(-4, 4)

    for c in range(ncases):
        kind = kinds[c % len(kinds)]
        n = rng.randint(1, nmax)
        cols, iplen = n, n
        if kind == "radau":
            # (alpha + i beta) I - J with a real J, as Radau builds it
            al, be = rng.uniform(0.5, 50), rng.uniform(0.5, 50)
            A = [[(al * (i == j) - rng.uniform(-3, 3) * (rng.random() < 0.6), be * (i == j)) for j in range(n)] for i in range(n)]
        else:
            ek = "structured" if kind in ("singular", "zerocol", "shape") else kind
            A = [[entry(ek) for _ in range(n)] for _ in range(n)]
        if kind == "singular" and n > 1:
            r = rng.randrange(1, n)
            # row r = (2 i) * row 0
            A[r] = [(-2.0 * im, 2.0 * re) for (re, im) in A[0]]
        if kind == "zerocol":
            k = rng.randrange(n)
            for i in range(n):
                A[i][k] = (0.0, 0.0)
        if kind == "shape":
            if rng.random() < 0.5 and n > 1:
                cols = n - 1
                A = [row[:cols] for row in A]
            else:
                iplen = n + rng.choice([-1, 1]) if n > 1 else 2
        ar = [re for row in A for (re, im) in row]
        ai = [im for row in A for (re, im) in row]
        br = [rng.choice([0.0, 1.0, rng.uniform(-3, 3)]) for _ in range(n)]
        bi = [rng.choice([0.0, -1.0, rng.uniform(-3, 3)]) for _ in range(n)]
        cid = "c%d" % c
        cases.append("luc id=%s n=%d cols=%d iplen=%d ar=%s ai=%s br=%s bi=%s" % (cid, n, cols, iplen, hxlist(ar), hxlist(ai), hxlist(br), hxlist(bi)))
        metas[cid] = {"n": n, "kind": "complex-" + kind}
    return cases, metas
