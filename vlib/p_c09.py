"""C09 (see DESIGN.md)."""
from . import solvercheck, oracles
from .p_common import TB, PROFILES
from . import gridgen


def check():
    return solvercheck.run(
        "C09", "C09.v",
        [dict(profile=PROFILES["events"], n_quick=300, n_thorough=5000),
         dict(builder=gridgen.event_builder, n_quick=240, n_thorough=4000)],
        [oracles.oracle_C09, oracles.oracle_C09_steps, oracles.oracle_C08, oracles.oracle_shapes], TB,
        "grid-aware placements (inside a step, on a boundary, +-1 ulp, +-1e-12, +-1e-9, several per step) + profile 'events' + plain runs over the 4 explicit methods, both directions; each case replayed bit-for-bit on the "
        "extracted model; the property's clauses checked on the implementation's results; non-trivial = at least 2 accepted "
        "steps; distinct = distinct case lines")
