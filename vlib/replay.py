"""./vcheck replay <file>: re-run the input recorded in a replay file on the CURRENT tree, on both sides
(the implementation through the harness `ivph`, the extracted model through `driver`), and print what each returns and
where they first differ.  Exit 0 when both ran and agree line for line, 1 otherwise.  (The property-level oracle that
flagged the case is named in the file's `observed` / `broken` field; re-running the property's check re-evaluates it.)"""
import json
import sys
from . import harness


def main(path):
    d = json.load(open(path))
    print("property :", d.get("property"))
    for k in ("observed", "broken", "theorem"):
        if d.get(k):
            print("%-9s: %s" % (k, d[k]))
    line = d.get("case")
    if not isinstance(line, str) or not line.strip():
        print("no executable case recorded in this file (a proof obligation or correspondence broke: see the fields above)")
        return 1
    print("case     :", line)
    ok, log = harness.build_all()
    if not ok:
        print("harness / model build failed:\n" + log[-2000:])
        return 1
    if d.get("property") == "C20":
        return replay_python(line)
    impl, ihung, icr = harness.run_isolated(harness.IMPL_BIN, [line], 120)
    model, mhung, mcr = harness.run_isolated(harness.MODEL_BIN, [line], 360)
    cid = harness.case_id(line)
    a = impl.get(cid)
    b = model.get(cid)
    print("--- implementation" + (" (did not return within 120 s)" if ihung else ""))
    for l in a or []:
        print("   ", l[:400])
    print("--- model" + (" (did not return within 360 s)" if mhung else ""))
    for l in b or []:
        print("   ", l[:400])
    if a is None or b is None:
        return 1
    if a == b:
        print("=== implementation and model agree bit for bit (%d lines)" % len(a))
        return 0
    for i, (x, y) in enumerate(zip(a, b)):
        if x != y:
            print("=== first difference at line %d:\n  impl : %s\n  model: %s" % (i, x[:400], y[:400]))
            break
    else:
        print("=== outputs differ in length: impl %d lines, model %d lines" % (len(a), len(b)))
    return 1


def replay_python(line):
    """C20: the Python binding (pyharness/run.py on the extension built from the working tree) against the model's SciPy
    layout and against the Rust API, compared key by key as the check does"""
    from . import p_c20
    ok, log = p_c20.build_extension()
    if not ok:
        print("building the Python extension failed:\n" + log[-2000:])
        return 1
    cid = harness.case_id(line)
    py, e0 = p_c20.run_python([line])
    model, mh, mc = harness.run_isolated(harness.MODEL_BIN, [line], 360)
    impl = {}
    if line.startswith("solve"):
        impl, ih, ic = harness.run_isolated(harness.IMPL_BIN, [line], 120)
    a = py.get(cid, ["<missing>"])
    print("--- python binding" + ("  (runner: %s)" % "; ".join(e0) if e0 else ""))
    for l in a:
        print("   ", l[:400])
    print("--- model")
    for l in model.get(cid, []):
        print("   ", l[:400])
    d1 = p_c20.compare(a, model.get(cid, []))
    d2 = p_c20.compare([l for l in a if p_c20.key_of(l).split()[0] in ("status", "t", "y", "tev", "yev", "sol", "span")],
                       impl.get(cid, [])) if line.startswith("solve") else None
    if d1:
        print("=== python vs model: %r vs %r" % (d1[0][:300], d1[1][:300]))
    if d2:
        print("=== python vs Rust API: %r vs %r" % (d2[0][:300], d2[1][:300]))
    if not d1 and not d2:
        print("=== the binding agrees with the model's SciPy layout and with the Rust API on this case")
        return 0
    return 1


if __name__ == "__main__":
    sys.exit(main(sys.argv[1]))
